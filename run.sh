#!/bin/bash
# ./run.sh <Cxx> <quick|thorough>            run one check against $VERIF_REPO (default /repo)
# ./run.sh <Cxx> replay <replay-file>        re-run the recorded case(s) of a replay file
# ./run.sh build [race]                      only build the harness binary (used by setup.sh)
#
# The harness (harness/*.go, package shmipc) is injected into the repository's package with
# -overlay, the extra requirement (porcupine) through a generated -modfile: the repository's
# working tree is never written to, and every run rebuilds from its current state.
set -u
cd "$(dirname "$0")"
VERIF_DIR="$(pwd)"
export GOFLAGS=-mod=mod GOPROXY=off GOSUMDB=off GOTOOLCHAIN=local GONOSUMDB='*' GONOSUMCHECK=1 GOFLAGS="-mod=mod"
REPO="${VERIF_REPO:-/repo}"
WORK="${VERIF_WORK:-$VERIF_DIR/.work}"
PROP="${1:?usage: run.sh <Cxx> <quick|thorough|replay file>}"
TIER="${2:-quick}"
mkdir -p "$WORK/bin" "$WORK/child" "$VERIF_DIR/evidence" "$VERIF_DIR/replays"

gen_build_files() {
  # go.mod = repository's go.mod + porcupine; go.sum = repository's + the cached module's sums
  local d="$1"
  mkdir -p "$d"
  cp "$REPO/go.mod" "$d/go.mod"
  printf '\nrequire github.com/anishathalye/porcupine v1.3.0\n' >> "$d/go.mod"
  cp "$REPO/go.sum" "$d/go.sum" 2>/dev/null || : > "$d/go.sum"
  # overlay: harness files in, the repository's own *_test.go files out (stubbed), so that their
  # init() side effects (pprof http server in bench_test.go) and helpers do not interfere
  printf 'package shmipc\n' > "$d/stub_test.go"
  {
    printf '{"Replace":{'
    local first=1
    for f in "$REPO"/*_test.go; do
      [ -e "$f" ] || continue
      case "$(basename "$f")" in zz_verif_*) continue;; esac
      [ $first = 1 ] || printf ','
      first=0
      printf '"%s":"%s"' "$f" "$d/stub_test.go"
    done
    for f in "$VERIF_DIR"/harness/*.go; do
      if [ -n "${ONLY_MODULES:-}" ]; then
        case " $ONLY_MODULES " in *" $(basename "$f" .go) "*) ;; *) continue;; esac
      fi
      [ $first = 1 ] || printf ','
      first=0
      printf '"%s/zz_verif_%s_test.go":"%s"' "$REPO" "$(basename "$f" .go)" "$f"
    done
    printf '}}\n'
  } > "$d/overlay.json"
}

build() { # $1 = output binary, $2 = "race" or ""
  local out="$1" race="${2:-}"
  local bd="$WORK/build.$$"
  gen_build_files "$bd"
  local flags=(-c -tags verif -modfile="$bd/go.mod" -overlay="$bd/overlay.json" -vet=off -o "$out")
  [ "$race" = race ] && flags+=(-race)
  (cd "$REPO" && go test "${flags[@]}" .) > "$bd/build.log" 2>&1
  local rc=$?
  if [ $rc -ne 0 ] && [ -z "${ONLY_MODULES:-}" ] && [ "$PROP" != build ]; then
    # another module (possibly under construction) does not compile: retry with the core files plus the module(s)
    # that register this check. When everything compiles this path is never taken.
    echo "NOTE: full harness build failed; retrying with the core + the module of $PROP only" >&2
    grep -E '^\./zz_verif|^zz_verif|error' "$bd/build.log" | head -5 >&2
    ONLY_MODULES="main verdict ctl util racepass m_alloc m_queue m_pool"
    for f in $(grep -l "verifChecks\[\"$PROP\"\]" "$VERIF_DIR"/harness/*.go); do
      ONLY_MODULES="$ONLY_MODULES $(basename "$f" .go)"
      if grep -q '\braw[A-Z]' "$f" && [ -e "$VERIF_DIR/harness/rawpeer.go" ]; then ONLY_MODULES="$ONLY_MODULES rawpeer"; fi
    done
    gen_build_files "$bd"
    (cd "$REPO" && go test "${flags[@]}" .) > "$bd/build.log" 2>&1
    rc=$?
    ONLY_MODULES=""
  fi
  if [ $rc -ne 0 ]; then
    echo "BUILD-FAILED (harness does not compile against $REPO):" >&2
    tail -40 "$bd/build.log" >&2
  fi
  rm -rf "$bd"
  return $rc
}

if [ "$PROP" = build ]; then
  build "$WORK/bin/warm.test" "${2:-}" ; rc=$?
  rm -f "$WORK/bin/warm.test"
  exit $rc
fi

BIN="$WORK/bin/$PROP.$TIER.$$.test"
RACEBIN=""
trap 'rm -f "$BIN" "$RACEBIN"' EXIT
build "$BIN" || exit 3
# checks that also run a race-detector pass ask for the race binary through this list
case "$PROP" in
  C01|C02|C04|C15|C18|C20)
    RACEBIN="$WORK/bin/$PROP.$TIER.$$.race.test"
    build "$RACEBIN" race || exit 3
    ;;
esac

export VERIF_PROP="$PROP" VERIF_TIER="$TIER" VERIF_DIR VERIF_WORK="$WORK" VERIF_REPO="$REPO"
export VERIF_RACEBIN="$RACEBIN"
export VERIF_SEED="${VERIF_SEED:-1}"
if [ "$TIER" = replay ]; then
  export VERIF_REPLAY="${3:?replay file}"
fi
export SHMIPC_DEBUG_MODE=1
cd "$WORK"
"$BIN" -test.run '^$' -test.timeout 0
exit $?
