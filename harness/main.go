package shmipc

// Verification harness entry point. This file (like every file in /verif/harness) is injected
// into the repository's package by run.sh (-overlay) as zz_verif_<name>_test.go.

import (
	"encoding/json"
	"fmt"
	"os"
	"runtime"
	"runtime/debug"
	"strconv"
	"testing"
	"time"
)

type checkFn func(c *checkCtx)

// registry of checks, filled by init() functions of the m_*.go files
var verifChecks = map[string]checkFn{}

// registry of child roles (process-isolated scenario bodies), filled by init() functions
var verifChildRoles = map[string]func(args []string){}

func TestMain(m *testing.M) {
	debugMode = true // a fallback must not mark sessions unhealthy for 30 s
	if os.Getenv("VERIF_LOG") == "" {
		SetLogLevel(levelNoPrint)
	}
	if role := os.Getenv("VERIF_CHILD"); role != "" {
		runChildRole(role)
		return
	}
	prop := os.Getenv("VERIF_PROP")
	if prop == "" {
		os.Exit(m.Run())
	}
	fn, ok := verifChecks[prop]
	if !ok {
		fmt.Printf("no check registered for %s\n", prop)
		os.Exit(3)
	}
	c := newCheckCtx(prop)
	if c.tier == "replay" {
		// replay: case lists are functions of (tier, seed) only, so re-running the recorded tier with the recorded seed
		// regenerates the failing case (schedules are not reproducible bit for bit; the replay file carries the witness)
		var doc struct {
			Seed int64  `json:"seed"`
			Tier string `json:"tier"`
			Case string `json:"case"`
		}
		if data, err := os.ReadFile(os.Getenv("VERIF_REPLAY")); err == nil && json.Unmarshal(data, &doc) == nil {
			c.seed = doc.Seed
			c.replayOf = doc.Tier
			fmt.Printf("REPLAY property=%s seed=%d recorded tier=%s case=%s\n", prop, doc.Seed, doc.Tier, doc.Case)
		}
	}
	code := c.run(fn)
	os.Exit(code)
}

func envInt(name string, def int64) int64 {
	if v := os.Getenv(name); v != "" {
		if n, err := strconv.ParseInt(v, 10, 64); err == nil {
			return n
		}
	}
	return def
}

func (c *checkCtx) run(fn checkFn) (code int) {
	start := time.Now()
	func() {
		defer func() {
			if r := recover(); r != nil {
				// a panic in the harness's own goroutine: report as violation only if it came out of the code under test
				c.violation("panic", map[string]interface{}{"panic": fmt.Sprint(r), "stack": string(debug.Stack())},
					"panic on the harness goroutine: %v", r)
			}
		}()
		fn(c)
	}()
	c.wall = time.Since(start).Seconds()
	return c.finish()
}

func init() {
	// keep scheduler parallelism at the number of CPUs; workloads set their own worker counts
	_ = runtime.GOMAXPROCS(0)
}
