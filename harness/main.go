package shmipc

// Verification harness entry point. This file (like every file in /verif/harness) is injected
// into the repository's package by run.sh (-overlay) as zz_verif_<name>_test.go.

import (
	"encoding/json"
	"fmt"
	"os"
	"os/exec"
	"runtime"
	"runtime/debug"
	"strconv"
	"strings"
	"syscall"
	"testing"
	"time"
)

type checkFn func(c *checkCtx)

// registry of checks, filled by init() functions of the m_*.go files
var verifChecks = map[string]checkFn{}

// registry of child roles (process-isolated scenario bodies), filled by init() functions
var verifChildRoles = map[string]func(args []string){}

func TestMain(m *testing.M) {
	debugMode = true // a fallback must not mark sessions unhealthy for 30 s
	if os.Getenv("VERIF_LOG") == "" {
		SetLogLevel(levelNoPrint)
	}
	if role := os.Getenv("VERIF_CHILD"); role != "" {
		runChildRole(role)
		return
	}
	prop := os.Getenv("VERIF_PROP")
	if prop == "" {
		os.Exit(m.Run())
	}
	fn, ok := verifChecks[prop]
	if !ok {
		fmt.Printf("no check registered for %s\n", prop)
		os.Exit(3)
	}
	if os.Getenv("VERIF_SUPERVISED") == "" && os.Getenv("VERIF_NO_SUPERVISOR") == "" && !isRacePass() {
		os.Exit(superviseCheck(prop))
	}
	c := newCheckCtx(prop)
	if c.tier == "replay" {
		// replay: case lists are functions of (tier, seed) only, so re-running the recorded tier with the recorded seed
		// regenerates the failing case (schedules are not reproducible bit for bit; the replay file carries the witness)
		var doc struct {
			Seed int64  `json:"seed"`
			Tier string `json:"tier"`
			Case string `json:"case"`
		}
		if data, err := os.ReadFile(os.Getenv("VERIF_REPLAY")); err == nil && json.Unmarshal(data, &doc) == nil {
			c.seed = doc.Seed
			c.replayOf = doc.Tier
			fmt.Printf("REPLAY property=%s seed=%d recorded tier=%s case=%s\n", prop, doc.Seed, doc.Tier, doc.Case)
		}
	}
	code := c.run(fn)
	if m := os.Getenv("VERIF_DONE_MARKER"); m != "" {
		_ = os.WriteFile(m, []byte(fmt.Sprint(code)), 0o644)
	}
	os.Exit(code)
}

// superviseCheck runs the check in a child process of the same binary. The library's event loop is a process-wide
// goroutine: a panic or fault there (or in any goroutine the harness does not own) kills the process before a verdict
// can be printed. A check process that dies without having reached its verdict is reported as a violation of the
// property whose workload was running, with the crash output as the witness.
func superviseCheck(prop string) int {
	work := os.Getenv("VERIF_WORK")
	if work == "" {
		work = "/verif/.work"
	}
	_ = os.MkdirAll(work, 0o755)
	marker := fmt.Sprintf("%s/done.%s.%d", work, prop, os.Getpid())
	errPath := fmt.Sprintf("%s/stderr.%s.%d", work, prop, os.Getpid())
	_ = os.Remove(marker)
	ef, err := os.Create(errPath)
	if err != nil {
		return 3
	}
	defer os.Remove(errPath)
	defer os.Remove(marker)
	cmd := exec.Command(os.Args[0], os.Args[1:]...)
	cmd.Env = append(os.Environ(), "VERIF_SUPERVISED=1", "VERIF_DONE_MARKER="+marker, "GOTRACEBACK=all")
	cmd.Stdout = os.Stdout
	cmd.Stderr = ef
	cmd.Stdin = nil
	// wall-clock watchdog around the whole check: generous (a quick tier takes a minute or two), so that a workload wedged by
	// a library call that never returns ends with a verdict instead of hanging its caller for ever
	limit := 40 * time.Minute
	if os.Getenv("VERIF_TIER") == "thorough" {
		limit = 8 * time.Hour
	}
	if v := envInt("VERIF_WATCHDOG_S", 0); v > 0 {
		limit = time.Duration(v) * time.Second
	}
	if err := cmd.Start(); err != nil {
		ef.Close()
		return 3
	}
	waitCh := make(chan error, 1)
	go func() { waitCh <- cmd.Wait() }()
	var runErr error
	hung := false
	select {
	case runErr = <-waitCh:
	case <-time.After(limit):
		hung = true
		_ = cmd.Process.Signal(syscall.SIGQUIT) // goroutine dump to the stderr file
		select {
		case runErr = <-waitCh:
		case <-time.After(20 * time.Second):
			_ = cmd.Process.Kill()
			runErr = <-waitCh
		}
	}
	ef.Close()
	if hung {
		dump, _ := os.ReadFile(errPath)
		tail := string(dump)
		if len(tail) > 60000 {
			tail = tail[:60000]
		}
		c := newCheckCtx(prop)
		c.rule = "the check did not finish within its wall-clock watchdog"
		c.eval(1)
		c.nontrivial("watchdog")
		c.nontrivial("goroutine-dump")
		c.sample("watchdog")
		// never a violation by itself: goroutines parked inside blocking library calls are the normal state of a running
		// workload, so a dump cannot tell "wedged by the library" from "slow"; the per-call watchdogs inside the checks decide
		c.setExtra("goroutines_at_watchdog", truncate(tail, 20000))
		c.inconclusiveCase("watchdog", fmt.Sprintf("check did not finish within %v", limit))
		c.noObservation("watchdog")
		c.wall = time.Since(c.start).Seconds()
		return c.finish()
	}
	stderr, _ := os.ReadFile(errPath)
	if data, err := os.ReadFile(marker); err == nil {
		// the check reached its verdict; relay what it wrote to stderr and its exit code
		os.Stderr.Write(stderr)
		code, _ := strconv.Atoi(string(data))
		return code
	}
	// died before the verdict
	tail := string(stderr)
	if len(tail) > 24000 {
		tail = tail[:12000] + "\n…\n" + tail[len(tail)-12000:]
	}
	os.Stderr.WriteString(truncate(string(stderr), 6000))
	c := newCheckCtx(prop)
	c.rule = "the check process died before reaching its verdict"
	c.eval(1)
	c.nontrivial("crash")
	c.nontrivial("crash-output")
	c.sample("process death of the check itself")
	c.violation("process-died", map[string]interface{}{"exit": fmt.Sprint(runErr), "stderr": tail},
		"the process running the %s workload died before reaching a verdict (%v): %s", prop, runErr, truncate(firstPanicLine(string(stderr)), 400))
	c.wall = time.Since(c.start).Seconds()
	return c.finish()
}

func firstPanicLine(s string) string {
	for _, l := range strings.Split(s, "\n") {
		if strings.HasPrefix(l, "panic:") || strings.HasPrefix(l, "fatal error:") || strings.Contains(l, "unexpected fault address") || strings.HasPrefix(l, "SIG") {
			return l
		}
	}
	if len(s) > 300 {
		return s[len(s)-300:]
	}
	return s
}

func envInt(name string, def int64) int64 {
	if v := os.Getenv(name); v != "" {
		if n, err := strconv.ParseInt(v, 10, 64); err == nil {
			return n
		}
	}
	return def
}

func (c *checkCtx) run(fn checkFn) (code int) {
	start := time.Now()
	func() {
		defer func() {
			if r := recover(); r != nil {
				// a panic in the harness's own goroutine: report as violation only if it came out of the code under test
				c.violation("panic", map[string]interface{}{"panic": fmt.Sprint(r), "stack": string(debug.Stack())},
					"panic on the harness goroutine: %v", r)
			}
		}()
		fn(c)
	}()
	c.wall = time.Since(start).Seconds()
	return c.finish()
}

func init() {
	// keep scheduler parallelism at the number of CPUs; workloads set their own worker counts
	_ = runtime.GOMAXPROCS(0)
}
