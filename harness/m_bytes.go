package shmipc

// C06: a stream is a faithful byte pipe whatever the write and read granularity.
// C08: zero-copy read results stay valid until they are released.
//
// One generator / executor serves both checks. An execution ("sequence") runs on a real in-process session pair:
// 1..3 streams, each carrying two independent byte pipes (client->server and server->client, the second one is
// also the "echo traffic" that makes ReleaseReadAndReuse really swap buffers). One goroutine alternates writer steps
// {WriteBytes, Reserve(+fill), WriteByte, WriteString, Stream.Write, Flush} and reader steps {ReadBytes, Peek, Discard,
// ReadByte, ReadString, Stream.Read, ReleasePreviousRead, ReleaseReadAndReuse, Len synchronisation} with sizes taken from
// boundary values of the configured slice classes, from the *actual* fill state of the current slice (white-box: remaining
// room of the write slice, unread rest of the front read slice) and at random. The oracle is the keyed byte function:
// byte i of pipe k is keyedByte(k, i), the model is three counters per pipe (written, flushed, consumed).
//
// C06 additionally varies the degree of buffer exhaustion (hoard() straight on the bufferManager, changed while the
// sequence runs) so that messages travel through share memory, through the socket, and mixed.
// C08 keeps a registry of every slice handed out by ReadBytes/Peek that has not been released, a scribbler that
// allocates every free buffer, fills it with 0xEE and recycles it (inline after every step = deterministic mode, or as
// a concurrent goroutine next to a background traffic stream = stress mode), re-checks the registry after every step,
// and takes an allocator census after releases (accounting for the slices the stream ends legitimately keep) and
// after closing everything (exact baseline).

import (
	"bytes"
	"fmt"
	"hash/fnv"
	"math/rand"
	"os"
	"path/filepath"
	"runtime"
	"runtime/debug"
	"sort"
	"strconv"
	"strings"
	"sync"
	"sync/atomic"
	"time"
	"unsafe"
)

func init() {
	verifChecks["C06"] = pipeCheckC06
	verifChecks["C08"] = pipeCheckC08
	verifChildRoles["pipe"] = pipeChildMain
}

// ---------------------------------------------------------------------------------------------
// configurations

type pipeCfg struct {
	Name   string   `json:"name"`
	Sizes  []uint32 `json:"sizes"` // size, percent, size, percent ...; nil = the library's default classes
	BufCap uint32   `json:"buf_cap"`
}

var pipeCfgs = []pipeCfg{
	{"16", []uint32{16, 100}, 1 << 20},
	{"16-64", []uint32{16, 50, 64, 50}, 1 << 20},
	{"32-128", []uint32{32, 50, 128, 50}, 1 << 20},
	{"64-512-4096", []uint32{64, 20, 512, 30, 4096, 50}, 1 << 20},
	{"16-64-4096skew", []uint32{16, 1, 64, 1, 4096, 98}, 1 << 20},
	{"default", nil, 8 << 20},
}

// configurations of the concurrent-scribbler mode: every class has well over 256 slots (known finding F1)
var pipeStressCfgs = []pipeCfg{
	{"16", []uint32{16, 100}, 1 << 20},
	{"32-128", []uint32{32, 50, 128, 50}, 1 << 20},
	{"64-512-4096", []uint32{64, 20, 512, 30, 4096, 50}, 4 << 20},
	{"256-1024", []uint32{256, 30, 1024, 70}, 1 << 20},
}

func pipeCfgByName(name string) pipeCfg {
	for _, c := range pipeCfgs {
		if c.Name == name {
			return c
		}
	}
	for _, c := range pipeStressCfgs {
		if c.Name == name {
			return c
		}
	}
	return pipeCfgs[0]
}

type pipeLevel struct {
	At    int `json:"at_op"`
	Level int `json:"exhaustion_percent"`
}

type pipeCase struct {
	Prop        string      `json:"property"`
	Idx         int         `json:"idx"`
	Mode        string      `json:"mode"` // c06 | det | stress
	Cfg         string      `json:"config"`
	MemFd       bool        `json:"memfd"`
	Ops         int         `json:"ops"`
	Streams     int         `json:"streams"`
	OpenAt      []int       `json:"open_at"`
	Primary     int         `json:"primary_direction"` // 0 client->server, 1 server->client
	Levels      []pipeLevel `json:"exhaustion_schedule,omitempty"`
	HugeReserve bool        `json:"reserve_beyond_largest_class"`
	Directed    bool        `json:"directed_zero_size_calls,omitempty"`
	Seed        int64       `json:"seed"`
}

// ---------------------------------------------------------------------------------------------
// operations

const (
	pipeOpWriteBytes = iota
	pipeOpReserve
	pipeOpWriteByte
	pipeOpWriteString
	pipeOpWrite
	pipeOpFlush
	pipeOpReadBytes
	pipeOpPeek
	pipeOpDiscard
	pipeOpReadByte
	pipeOpReadString
	pipeOpRead
	pipeOpRelease
	pipeOpReuse
	pipeOpLenSync
	pipeOpLevel
	pipeOpOpen
	pipeOpCensus
	pipeOpClose
	pipeOpKinds
)

var pipeOpNames = [...]string{"WriteBytes", "Reserve", "WriteByte", "WriteString", "Stream.Write", "Flush", "ReadBytes", "Peek",
	"Discard", "ReadByte", "ReadString", "Stream.Read", "ReleasePreviousRead", "ReleaseReadAndReuse", "LenSync(Peek all)",
	"exhaustion", "OpenStream", "census", "Close"}

const (
	pipeFAlias   = 1 << iota // result aliases share memory
	pipeFCross               // crossed a slice boundary
	pipeFSocket              // message went (or stream is) on the socket
	pipeFMulti               // flushed chain had >= 2 slices
	pipeFSynced              // executed after logical quiescence
	pipeFSwapped             // ReleaseReadAndReuse really swapped the buffers
)

type pipeOp struct {
	S, D, K uint8
	F       uint8
	N       int32 // requested size / level
	G       int32 // bytes obtained
}

func (o pipeOp) String() string {
	dir := "c>s"
	if o.D == 1 {
		dir = "s>c"
	}
	fl := ""
	for i, n := range []string{"alias", "cross", "socket", "multi", "synced", "swapped"} {
		if o.F&(1<<uint(i)) != 0 {
			fl += " " + n
		}
	}
	if int(o.K) == pipeOpLevel {
		return fmt.Sprintf("exhaustion->%d%%", o.N)
	}
	return fmt.Sprintf("s%d %s %s(%d)=%d%s", o.S, dir, pipeOpNames[o.K], o.N, o.G, fl)
}

type pipeLive struct {
	buf   []byte // the slice the library handed out
	want  []byte // its content when handed out
	off   uint64 // stream offset
	opIdx int
	kind  uint8
	alias bool
}

type pipeDir struct {
	key       uint64
	written   uint64
	flushed   uint64
	consumed  uint64
	live      []pipeLive
	liveBytes int
}

type pipeStream struct {
	n      int
	id     uint32
	cli    *Stream
	srv    *Stream
	dirs   [2]*pipeDir
	closed bool
}

func (s *pipeStream) writer(d int) *Stream {
	if d == 0 {
		return s.cli
	}
	return s.srv
}

func (s *pipeStream) reader(d int) *Stream {
	if d == 0 {
		return s.srv
	}
	return s.cli
}

type pipeStats struct {
	ops           [pipeOpKinds]int64
	bytes         int64
	flushShm      int64
	flushSocket   int64
	multiSlice    int64
	readCross     int64
	aliasShm      int64
	copies        int64
	peeks         int64
	zeroOps       int64
	swaps         int64
	syncs         int64
	blockingReads int64
	liveChecks    int64
	liveAliasChk  int64
	scribbles     int64
	scribbled     int64
	census        int64
	closeWithLive int64
	maxLive       int
	fallbackW     int64
	fallbackR     int64
	reserveSkips  int64
	emptyFirst    int64
	suspects      uint64
	bgMsgs        int64
}

type pipeStop struct{}

type pipeExec struct {
	c   *checkCtx
	cs  pipeCase
	cfg pipeCfg
	p   *sessPair
	bm  *bufferManager
	rng *rand.Rand

	caps    []int
	slots   []int
	largest int
	sumCaps int
	hoards  [][]*bufferSlice

	streams []*pipeStream
	trace   []pipeOp
	budget  int64
	maxUnrd int64

	checkLive bool
	det       bool
	stress    bool
	crossW    bool
	crossR    bool

	st     pipeStats
	vmu    sync.Mutex
	viol   string
	inconc string
	stack  string

	// stress mode
	stop       int32
	scribRound uint64
	bgWG       sync.WaitGroup
	bgPanic    atomic.Value
}

func (e *pipeExec) violate(format string, a ...interface{}) {
	e.setViol(fmt.Sprintf(format, a...), "")
	panic(pipeStop{})
}

// setViol records the first violation (read by the watchdog of pipeRunCase when the teardown hangs afterwards).
func (e *pipeExec) setViol(msg, stack string) {
	e.vmu.Lock()
	if e.viol == "" {
		e.viol = msg
		e.stack = stack
	}
	e.vmu.Unlock()
}

func (e *pipeExec) getViol() string {
	e.vmu.Lock()
	defer e.vmu.Unlock()
	return e.viol
}

func (e *pipeExec) inconclusive(format string, a ...interface{}) {
	if e.inconc == "" {
		e.inconc = fmt.Sprintf(format, a...)
	}
	panic(pipeStop{})
}

func (e *pipeExec) rec(s *pipeStream, d int, k int, n int, g int, f uint8) {
	sn := 0
	if s != nil {
		sn = s.n
	}
	e.trace = append(e.trace, pipeOp{S: uint8(sn), D: uint8(d), K: uint8(k), F: f, N: int32(n), G: int32(g)})
	e.st.ops[k]++
}

func (e *pipeExec) traceTail(n int) []string {
	t := e.trace
	base := 0
	if len(t) > n {
		base = len(t) - n
		t = t[base:]
	}
	out := make([]string, 0, len(t))
	for i, o := range t {
		out = append(out, fmt.Sprintf("#%d %s", base+i, o.String()))
	}
	return out
}

func (e *pipeExec) traceHash() string {
	h := fnv.New64a()
	var b [12]byte
	for _, o := range e.trace {
		b[0], b[1], b[2], b[3] = o.S, o.D, o.K, o.F&(pipeFCross|pipeFMulti|pipeFSocket|pipeFAlias)
		b[4], b[5], b[6], b[7] = byte(o.N), byte(o.N>>8), byte(o.N>>16), byte(o.N>>24)
		b[8], b[9], b[10], b[11] = byte(o.G), byte(o.G>>8), byte(o.G>>16), byte(o.G>>24)
		h.Write(b[:])
	}
	return fmt.Sprintf("%s/%016x", e.cs.Cfg, h.Sum64())
}

// ---------------------------------------------------------------------------------------------
// white-box observations (read-only)

func pipeFront(st *Stream) (ptr uintptr, size int, nextSize int, ok bool) {
	f := st.recvBuf.sliceList.front()
	if f == nil {
		return
	}
	if len(f.data) > 0 {
		ptr = uintptr(unsafe.Pointer(&f.data[0]))
	} else {
		ptr = uintptr(unsafe.Pointer(f))
	}
	size = f.size()
	if nx := f.next(); nx != nil {
		nextSize = nx.size()
	}
	return ptr, size, nextSize, true
}

// pipeChain counts the slices from the front to the write slice of the send buffer (what Flush would publish).
func pipeChain(st *Stream) (n int) {
	sl := st.sendBuf.sliceList
	for s := sl.front(); s != nil; s = s.next() {
		n++
		if s == sl.writeSlice {
			break
		}
	}
	return
}

func (e *pipeExec) aliasShm(b []byte) bool {
	if len(b) == 0 || len(e.bm.mem) == 0 {
		return false
	}
	p := uintptr(unsafe.Pointer(&b[0]))
	base := uintptr(unsafe.Pointer(&e.bm.mem[0]))
	return p >= base && p < base+uintptr(len(e.bm.mem))
}

func (e *pipeExec) classOf(capacity uint32) int {
	for i, c := range e.caps {
		if uint32(c) == capacity {
			return i
		}
	}
	return -1
}

// accounted counts, per class, the share-memory slices that the open stream ends legitimately hold in their read and
// write chains (withPinned: also the parked ones).
func (e *pipeExec) accounted(withPinned bool) []int {
	out := make([]int, len(e.caps))
	add := func(l *sliceList) {
		n := 0
		for s := l.front(); s != nil && n <= l.size(); s = s.next() {
			n++
			if s.isFromShm {
				if ci := e.classOf(s.cap); ci >= 0 {
					out[ci]++
				}
			}
		}
	}
	for _, s := range e.streams {
		if s.closed {
			continue
		}
		for _, st := range []*Stream{s.cli, s.srv} {
			if st == nil {
				continue
			}
			add(st.recvBuf.sliceList)
			add(st.sendBuf.sliceList)
			if withPinned {
				add(st.recvBuf.pinnedList)
				add(st.sendBuf.pinnedList)
			}
		}
	}
	return out
}

// ---------------------------------------------------------------------------------------------
// sizes

func (e *pipeExec) classSize() int {
	rng := e.rng
	c := e.caps[rng.Intn(len(e.caps))]
	switch rng.Intn(13) {
	case 0:
		return 0
	case 1:
		return 1
	case 2:
		return c - 1
	case 3:
		return c
	case 4:
		return c + 1
	case 5:
		return 2*c - 1
	case 6:
		return 2*c + 1
	case 7:
		return e.sumCaps + 1
	case 8:
		return 10 * e.largest
	case 9:
		return 1 + rng.Intn(2*e.caps[0])
	case 10:
		return 1 + rng.Intn(3*e.largest)
	case 11:
		return 2 * c
	default:
		return 1 + rng.Intn(c)
	}
}

func (e *pipeExec) writeSize(W *Stream) int {
	rng := e.rng
	n := 0
	wb := 4
	if e.checkLive {
		wb = 3
	}
	if ws := W.sendBuf.sliceList.writeSlice; ws != nil && rng.Intn(wb) == 0 {
		rem := ws.remain()
		switch rng.Intn(4) {
		case 0:
			n = rem - 1
		case 1:
			n = rem
		case 2:
			n = rem + 1
		default:
			n = rem + e.caps[rng.Intn(len(e.caps))]
		}
	} else {
		n = e.classSize()
		if e.checkLive && n > 4*e.largest {
			n = 1 + rng.Intn(4*e.largest)
		}
	}
	if n < 0 {
		n = 0
	}
	if int64(n) > e.budget {
		n = rng.Intn(2*e.caps[0]) + 1
	}
	return n
}

func (e *pipeExec) readSize(R *Stream, avail int) int {
	rng := e.rng
	if avail <= 0 {
		return 0
	}
	n := 0
	wbPct := 40
	if e.checkLive {
		wbPct = 70
	}
	if _, fsize, nsize, ok := pipeFront(R); ok && rng.Intn(100) < wbPct {
		switch rng.Intn(8) {
		case 0:
			n = fsize - 1
		case 1:
			n = fsize
		case 2:
			n = fsize + 1
		case 3:
			n = fsize + nsize
		case 4:
			n = fsize + nsize + 1
		case 5, 6:
			if fsize > 1 {
				n = 1 + rng.Intn(fsize)
			} else {
				n = 1
			}
		default:
			n = fsize + 1 + rng.Intn(e.caps[rng.Intn(len(e.caps))])
		}
	} else {
		n = e.classSize()
	}
	if n < 0 {
		n = 0
	}
	if n > avail {
		if rng.Intn(2) == 0 {
			n = avail
		} else {
			n = rng.Intn(avail + 1)
		}
	}
	return n
}

// ---------------------------------------------------------------------------------------------
// exhaustion

func (e *pipeExec) unhoardAll() {
	for i := range e.hoards {
		unhoard(e.bm, e.hoards[i])
		e.hoards[i] = nil
	}
}

func (e *pipeExec) setLevel(level int) {
	e.unhoardAll()
	rng := e.rng
	nfull := 0
	for i, l := range e.bm.lists {
		free := l.remain()
		if free <= 0 {
			continue
		}
		take := 0
		switch level {
		case 0:
		case 50:
			switch rng.Intn(3) {
			case 0:
			case 1:
				take = free / 2
			default:
				if nfull < len(e.bm.lists)-1 || len(e.bm.lists) == 1 && rng.Intn(2) == 0 {
					take = free
					nfull++
				} else {
					take = free / 2
				}
			}
		case 99:
			take = free - (1 + rng.Intn(4))
		default:
			take = free
		}
		if take > 0 {
			e.hoards[i] = hoard(e.bm, i, take)
		}
	}
	e.rec(nil, 0, pipeOpLevel, level, 0, 0)
}

// leaveFree hoards every class down to about `free` allocatable slots (C08: a small free set is scribbled cheaply and
// recycled buffers are reused soon).
func (e *pipeExec) leaveFree(pick func(slots int, capacity int) int) {
	for i, l := range e.bm.lists {
		free := l.remain()
		keep := pick(e.slots[i], e.caps[i])
		if free > keep {
			e.hoards[i] = hoard(e.bm, i, free-keep)
		}
	}
}

// ---------------------------------------------------------------------------------------------
// scribbler and registry

func (e *pipeExec) scribbleOnce() {
	for i := range e.bm.lists {
		bufs := hoard(e.bm, i, e.slots[i])
		for _, b := range bufs {
			d := b.data[:int(b.cap)] // never cap(b.data): the slice's capacity extends to the end of the mapping
			for j := range d {
				d[j] = 0xEE
			}
		}
		e.st.scribbled += int64(len(bufs))
		unhoard(e.bm, bufs)
	}
}

// scribble: two passes, because pop never hands out the last free slot and that is the most recently recycled one;
// after the first pass it is at the head of the list.
func (e *pipeExec) scribble() {
	e.scribbleOnce()
	e.scribbleOnce()
	e.st.scribbles++
}

func (e *pipeExec) noteLive(s *pipeStream, d int, kind int, got []byte, off uint64) uint8 {
	if len(got) == 0 {
		return 0
	}
	var f uint8
	alias := e.aliasShm(got)
	if alias {
		e.st.aliasShm++
		f |= pipeFAlias
	}
	if !e.checkLive {
		return f
	}
	dir := s.dirs[d]
	dir.live = append(dir.live, pipeLive{buf: got, want: append([]byte(nil), got...), off: off, opIdx: len(e.trace), kind: uint8(kind), alias: alias})
	dir.liveBytes += len(got)
	n := 0
	for _, s2 := range e.streams {
		n += len(s2.dirs[0].live) + len(s2.dirs[1].live)
	}
	if n > e.st.maxLive {
		e.st.maxLive = n
	}
	return f
}

func (e *pipeExec) dropLive(s *pipeStream, d int) {
	dir := s.dirs[d]
	dir.live = nil
	dir.liveBytes = 0
}

func (e *pipeExec) checkAllLive(when string) {
	if !e.checkLive {
		return
	}
	for _, s := range e.streams {
		if s.closed {
			continue
		}
		for d := 0; d < 2; d++ {
			dir := s.dirs[d]
			for i := range dir.live {
				lv := &dir.live[i]
				e.st.liveChecks++
				if lv.alias {
					e.st.liveAliasChk++
				}
				if !bytes.Equal(lv.buf, lv.want) {
					j := 0
					for j < len(lv.buf) && lv.buf[j] == lv.want[j] {
						j++
					}
					kind := "a copy"
					if lv.alias {
						kind = "share memory"
					}
					e.violate("a slice returned by %s (op #%d, stream %d dir %d, stream offset %d, %d bytes, backed by %s) and not yet released "+
						"changed %s: byte %d is 0x%02x, was 0x%02x (0xEE = a buffer the scribbler could allocate, i.e. it had been recycled)",
						pipeOpNames[lv.kind], lv.opIdx, s.n, d, lv.off, len(lv.buf), kind, when, j, lv.buf[j], lv.want[j])
				}
			}
		}
	}
}

// ---------------------------------------------------------------------------------------------
// reads

// arm prepares a read that needs `need` bytes: when they are not in the read buffer yet the call will wait for the event
// loop; half of those calls are preceded by logical quiescence (then the bytes are already pending and a read that still
// times out has lost them), the others wait naturally under a long deadline.
func (e *pipeExec) arm(R *Stream, need int) (synced bool) {
	if need <= R.BufferReader().Len() {
		return false
	}
	e.st.blockingReads++
	if e.rng.Intn(2) == 0 {
		if !e.p.quiesce(30 * time.Second) {
			e.inconclusive("the session pair did not quiesce before a read (watchdog)")
		}
		e.st.syncs++
		_ = R.SetReadDeadline(time.Now().Add(5 * time.Second))
		return true
	}
	_ = R.SetReadDeadline(time.Now().Add(10 * time.Second))
	return false
}

func (e *pipeExec) readErr(s *pipeStream, d int, what string, need int, err error) {
	if err == nil {
		return
	}
	dir := s.dirs[d]
	R := s.reader(d)
	if err == ErrTimeout {
		// decide between "slow" and "lost" at logical quiescence
		if !e.p.quiesce(30 * time.Second) {
			e.inconclusive("%s(%d) timed out and the session pair did not quiesce (watchdog)", what, need)
		}
		_ = R.SetReadDeadline(time.Now().Add(5 * time.Second))
		_, err2 := R.BufferReader().Peek(need)
		if err2 == ErrTimeout {
			e.violate("%s(%d) on stream %d dir %d: bytes the writer flushed never became readable: flushed=%d consumed=%d, reader Len()=%d "+
				"at quiescence (queues empty, event loop fenced)", what, need, s.n, d, dir.flushed, dir.consumed, R.BufferReader().Len())
		}
		e.inconclusive("%s(%d) timed out after 5-10 s although the bytes arrived later (overloaded machine)", what, need)
	}
	if e.p.client.IsClosed() || e.p.server.IsClosed() {
		e.inconclusive("%s(%d) failed with %v, session closed", what, need, err)
	}
	e.violate("%s(%d) on stream %d dir %d returned error %v (flushed=%d consumed=%d)", what, need, s.n, d, err, dir.flushed, dir.consumed)
}

func (e *pipeExec) compare(s *pipeStream, d int, what string, n int, got []byte, off uint64) {
	dir := s.dirs[d]
	if i := checkKeyed(got, dir.key, off); i >= 0 {
		lo, hi := i-4, i+8
		if lo < 0 {
			lo = 0
		}
		if hi > len(got) {
			hi = len(got)
		}
		want := make([]byte, hi-lo)
		fillKeyed(want, dir.key, off+uint64(lo))
		// where do the returned bytes come from?
		hint := ""
		if len(got)-i >= 4 {
			for delta := -int64(4 * e.largest); delta <= int64(4*e.largest); delta++ {
				o := int64(off) + int64(i) + delta
				if delta == 0 || o < 0 {
					continue
				}
				if checkKeyed(got[i:i+4], dir.key, uint64(o)) < 0 {
					hint = fmt.Sprintf("; the returned bytes are the stream's bytes at offset %d (shift %+d)", o, delta)
					break
				}
			}
		}
		e.violate("%s(%d) on stream %d dir %d returned wrong bytes: index %d (stream offset %d): got % x want % x%s",
			what, n, s.n, d, i, off+uint64(i), got[lo:hi], want, hint)
	}
}

func (e *pipeExec) afterRead(s *pipeStream, d int, what string, n int, lenBefore int, exact bool, minLen int) {
	dir := s.dirs[d]
	L := s.reader(d).BufferReader().Len()
	unread := int(dir.flushed - dir.consumed)
	if L > unread || L < 0 {
		e.violate("after %s(%d) on stream %d dir %d: Len()=%d but flushed-consumed=%d (flushed=%d consumed=%d)", what, n, s.n, d, L, unread,
			dir.flushed, dir.consumed)
	}
	if exact && L != unread {
		e.violate("after %s(%d) on stream %d dir %d, which needed every flushed byte: Len()=%d but flushed-consumed=%d", what, n, s.n, d, L, unread)
	}
	if L < minLen {
		e.violate("after %s(%d) on stream %d dir %d: Len()=%d, expected at least %d (Len before the call %d)", what, n, s.n, d, L, minLen, lenBefore)
	}
}

func (e *pipeExec) doRead(s *pipeStream, d int, kind int, n int) {
	dir := s.dirs[d]
	R := s.reader(d)
	avail := int(dir.flushed - dir.consumed)
	if n > avail {
		n = avail
	}
	br := R.BufferReader()
	lenBefore := br.Len()
	fptr, fsize, _, fok := pipeFront(R)
	var f uint8
	certain := fok && n > 0 && lenBefore >= n && n > fsize
	need := n
	if kind == pipeOpReadByte || kind == pipeOpRead {
		need = 1
	}
	if need > 0 && e.arm(R, need) {
		f |= pipeFSynced
	}
	exact := n > 0 && n == avail
	got := 0
	name := pipeOpNames[kind]
	switch kind {
	case pipeOpReadBytes:
		res, err := br.ReadBytes(n)
		e.readErr(s, d, name, n, err)
		if len(res) != n {
			e.violate("ReadBytes(%d) on stream %d dir %d returned %d bytes", n, s.n, d, len(res))
		}
		e.compare(s, d, name, n, res, dir.consumed)
		f |= e.noteLive(s, d, kind, res, dir.consumed)
		if n > 0 && f&pipeFAlias == 0 {
			e.st.copies++
		}
		dir.consumed += uint64(n)
		got = n
		e.afterRead(s, d, name, n, lenBefore, exact, 0)
	case pipeOpPeek, pipeOpLenSync:
		res, err := br.Peek(n)
		e.readErr(s, d, name, n, err)
		if len(res) != n {
			e.violate("Peek(%d) on stream %d dir %d returned %d bytes", n, s.n, d, len(res))
		}
		e.compare(s, d, name, n, res, dir.consumed)
		f |= e.noteLive(s, d, kind, res, dir.consumed)
		e.st.peeks++
		got = n
		min := n
		if lenBefore > min {
			min = lenBefore
		}
		e.afterRead(s, d, name, n, lenBefore, exact, min)
		if kind == pipeOpLenSync && n > 0 && n == avail {
			// everything flushed is in the read buffer now: Len is exactly flushed-consumed and further peeks leave it alone
			k := 1 + e.rng.Intn(n)
			res2, err := br.Peek(k)
			e.readErr(s, d, name, k, err)
			if len(res2) != k {
				e.violate("Peek(%d) on stream %d dir %d returned %d bytes", k, s.n, d, len(res2))
			}
			e.compare(s, d, name, k, res2, dir.consumed)
			f |= e.noteLive(s, d, kind, res2, dir.consumed)
			e.st.peeks++
			if L := br.Len(); L != n {
				e.violate("Peek(%d) changed Len() on stream %d dir %d: %d -> %d (flushed-consumed=%d)", k, s.n, d, n, L, n)
			}
		}
	case pipeOpDiscard:
		k, err := br.Discard(n)
		e.readErr(s, d, name, n, err)
		if k != n {
			e.violate("Discard(%d) on stream %d dir %d returned %d", n, s.n, d, k)
		}
		dir.consumed += uint64(n)
		got = n
		e.afterRead(s, d, name, n, lenBefore, exact, 0)
	case pipeOpReadByte:
		if avail < 1 {
			return
		}
		certain = fok && lenBefore >= 1 && fsize == 0
		b, err := br.ReadByte()
		e.readErr(s, d, name, 1, err)
		e.compare(s, d, name, 1, []byte{b}, dir.consumed)
		dir.consumed++
		got = 1
		n = 1
		e.afterRead(s, d, name, 1, lenBefore, avail == 1, 0)
	case pipeOpReadString:
		str, err := br.ReadString(n)
		e.readErr(s, d, name, n, err)
		if len(str) != n {
			e.violate("ReadString(%d) on stream %d dir %d returned %d bytes", n, s.n, d, len(str))
		}
		e.compare(s, d, name, n, []byte(str), dir.consumed)
		dir.consumed += uint64(n)
		got = n
		e.afterRead(s, d, name, n, lenBefore, exact, 0)
	case pipeOpRead:
		// len(p) may exceed what is available: Read returns what it has (at least one byte is available, so it does not block)
		pl := n
		if e.rng.Intn(3) == 0 {
			pl = n + e.rng.Intn(e.caps[0]+2)
		}
		if avail < 1 {
			pl = 0
		}
		certain = fok && pl > 0 && lenBefore > fsize && pl > fsize
		p := make([]byte, pl)
		k, err := R.Read(p)
		e.readErr(s, d, name, pl, err)
		if k < 0 || k > pl || k > avail {
			e.violate("Stream.Read(len %d) on stream %d dir %d returned %d with %d bytes flushed and not consumed", pl, s.n, d, k, avail)
		}
		e.compare(s, d, name, pl, p[:k], dir.consumed)
		dir.consumed += uint64(k)
		got = k
		n = pl
		e.afterRead(s, d, name, pl, lenBefore, false, 0)
	}
	if n == 0 {
		e.st.zeroOps++
	}
	if fptr2, _, _, ok2 := pipeFront(R); certain || (fok && ok2 && fptr2 != fptr && got > 0) {
		f |= pipeFCross
		e.st.readCross++
		e.crossR = true
	}
	if R.inFallbackState {
		f |= pipeFSocket
	}
	e.st.bytes += int64(got)
	e.rec(s, d, kind, n, got, f)
}

func (e *pipeExec) doRelease(s *pipeStream, d int, kind int) {
	R := s.reader(d)
	other := s.dirs[1-d]
	if kind == pipeOpReuse && other.written != other.flushed {
		kind = pipeOpRelease // the end's own send buffer holds unflushed data: swapping it in as read buffer would be API misuse
	}
	if e.stress {
		e.waitScribbler()
	}
	e.checkAllLive("before the release")
	var f uint8
	if kind == pipeOpRelease {
		R.BufferReader().ReleasePreviousRead()
	} else {
		rb := R.recvBuf
		R.ReleaseReadAndReuse()
		if R.recvBuf != rb {
			f |= pipeFSwapped
			e.st.swaps++
		}
		if L := R.BufferWriter().Len(); L != 0 {
			e.violate("after ReleaseReadAndReuse on stream %d (reader of dir %d): BufferWriter().Len()=%d, nothing was written since the last flush", s.n, d, L)
		}
	}
	e.dropLive(s, d)
	e.afterRead(s, d, pipeOpNames[kind], 0, 0, false, 0)
	e.rec(s, d, kind, 0, 0, f)
}

// ---------------------------------------------------------------------------------------------
// writes

func (e *pipeExec) afterWrite(s *pipeStream, d int, what string, n int) {
	dir := s.dirs[d]
	if L := s.writer(d).BufferWriter().Len(); L != int(dir.written-dir.flushed) {
		e.violate("after %s(%d) on stream %d dir %d: BufferWriter().Len()=%d but written-flushed=%d", what, n, s.n, d, L, dir.written-dir.flushed)
	}
}

func (e *pipeExec) noteFlush(W *Stream, chain int) (f uint8) {
	if chain >= 2 {
		f |= pipeFMulti
		e.st.multiSlice++
		e.crossW = true
	}
	if W.inFallbackState {
		f |= pipeFSocket
		e.st.flushSocket++
	} else {
		e.st.flushShm++
	}
	return
}

func (e *pipeExec) doWrite(s *pipeStream, d int, kind int, n int) {
	dir := s.dirs[d]
	W := s.writer(d)
	bw := W.BufferWriter()
	name := pipeOpNames[kind]
	var f uint8
	if n < 0 {
		n = 0
	}
	switch kind {
	case pipeOpWriteBytes:
		buf := make([]byte, n)
		fillKeyed(buf, dir.key, dir.written)
		k, err := bw.WriteBytes(buf)
		if err != nil || k != n {
			e.violate("WriteBytes(%d) on stream %d dir %d returned (%d, %v)", n, s.n, d, k, err)
		}
		dir.written += uint64(n)
	case pipeOpReserve:
		if n > e.largest && !e.cs.HugeReserve {
			n = e.largest
		}
		ws := W.sendBuf.sliceList.writeSlice
		b, err := bw.Reserve(n) // Reserve(n <= 0) returns an empty slice and changes nothing (fix X13)
		if err != nil || len(b) != n {
			e.violate("Reserve(%d) on stream %d dir %d returned (%d bytes, %v)", n, s.n, d, len(b), err)
		}
		if ws != nil && W.sendBuf.sliceList.writeSlice != ws {
			e.st.reserveSkips++
			f |= pipeFCross
		}
		fillKeyed(b, dir.key, dir.written)
		dir.written += uint64(n)
	case pipeOpWriteByte:
		if err := bw.WriteByte(keyedByte(dir.key, dir.written)); err != nil {
			e.violate("WriteByte on stream %d dir %d returned %v", s.n, d, err)
		}
		dir.written++
		n = 1
	case pipeOpWriteString:
		buf := make([]byte, n)
		fillKeyed(buf, dir.key, dir.written)
		if err := bw.WriteString(string(buf)); err != nil {
			e.violate("WriteString(%d) on stream %d dir %d returned %v", n, s.n, d, err)
		}
		dir.written += uint64(n)
	case pipeOpWrite:
		buf := make([]byte, n)
		fillKeyed(buf, dir.key, dir.written)
		// will the message consist of several slices?
		chain := pipeChain(W)
		if ws := W.sendBuf.sliceList.writeSlice; ws != nil {
			if n > ws.remain() {
				chain++
			}
		} else if n > e.largest {
			chain = 2
		}
		k, err := W.Write(buf)
		if err != nil || k != n {
			if e.p.client.IsClosed() || e.p.server.IsClosed() || err == ErrQueueFull || err == ErrConnectionWriteTimeout {
				e.inconclusive("Stream.Write failed with %v (environment)", err)
			}
			e.violate("Stream.Write(%d) on stream %d dir %d returned (%d, %v)", n, s.n, d, k, err)
		}
		dir.written += uint64(n)
		if n > 0 {
			dir.flushed = dir.written
			f |= e.noteFlush(W, chain)
		}
	case pipeOpFlush:
		chain := pipeChain(W)
		pending := dir.written - dir.flushed
		if err := W.Flush(false); err != nil {
			if e.p.client.IsClosed() || e.p.server.IsClosed() || err == ErrQueueFull || err == ErrConnectionWriteTimeout {
				e.inconclusive("Flush failed with %v (environment)", err)
			}
			e.violate("Flush on stream %d dir %d returned %v", s.n, d, err)
		}
		dir.flushed = dir.written
		if pending > 0 {
			f |= e.noteFlush(W, chain)
		}
		n = int(pending)
	}
	e.budget -= int64(n)
	e.afterWrite(s, d, name, n)
	e.rec(s, d, kind, n, n, f)
}

// ---------------------------------------------------------------------------------------------
// steps

func (e *pipeExec) writerStep(s *pipeStream, d int) {
	dir := s.dirs[d]
	if int64(dir.written-dir.consumed) > e.maxUnrd {
		if dir.written != dir.flushed {
			e.doWrite(s, d, pipeOpFlush, 0)
		}
		e.readerStep(s, d)
		return
	}
	W := s.writer(d)
	r := e.rng.Intn(100)
	var kind int
	switch {
	case r < 28:
		kind = pipeOpWriteBytes
	case r < 46:
		kind = pipeOpReserve
	case r < 56:
		kind = pipeOpWriteByte
	case r < 64:
		kind = pipeOpWriteString
	case r < 76:
		kind = pipeOpWrite
	default:
		kind = pipeOpFlush
	}
	n := 0
	if kind != pipeOpFlush && kind != pipeOpWriteByte {
		n = e.writeSize(W)
	}
	if ws := W.sendBuf.sliceList.writeSlice; ws != nil && ws == W.sendBuf.sliceList.front() && ws.writeIndex == 0 && ws.isFromShm &&
		int(ws.cap) < e.largest && e.rng.Intn(4) != 0 {
		// an empty write slice (kept by ReleaseReadAndReuse): a Reserve that does not fit skips it, the message then starts with an
		// empty slice, which the receiving side has to unlink
		kind = pipeOpReserve
		n = int(ws.cap) + 1 + e.rng.Intn(e.largest-int(ws.cap))
		e.st.emptyFirst++
	}
	e.doWrite(s, d, kind, n)
}

func (e *pipeExec) readerStep(s *pipeStream, d int) {
	dir := s.dirs[d]
	R := s.reader(d)
	avail := int(dir.flushed - dir.consumed)
	if avail == 0 && dir.written != dir.flushed && e.rng.Intn(2) == 0 {
		e.doWrite(s, d, pipeOpFlush, 0)
		avail = int(dir.flushed - dir.consumed)
	}
	r := e.rng.Intn(100)
	var kind int
	if e.checkLive {
		switch {
		case r < 36:
			kind = pipeOpReadBytes
		case r < 62:
			kind = pipeOpPeek
		case r < 70:
			kind = pipeOpDiscard
		case r < 74:
			kind = pipeOpReadByte
		case r < 80:
			kind = pipeOpReadString
		case r < 85:
			kind = pipeOpRead
		case r < 92:
			kind = pipeOpRelease
		case r < 97:
			kind = pipeOpReuse
		default:
			kind = pipeOpLenSync
		}
	} else {
		switch {
		case r < 24:
			kind = pipeOpReadBytes
		case r < 42:
			kind = pipeOpPeek
		case r < 53:
			kind = pipeOpDiscard
		case r < 62:
			kind = pipeOpReadByte
		case r < 72:
			kind = pipeOpReadString
		case r < 82:
			kind = pipeOpRead
		case r < 89:
			kind = pipeOpRelease
		case r < 94:
			kind = pipeOpReuse
		default:
			kind = pipeOpLenSync
		}
	}
	if _, fsize, _, ok := pipeFront(R); ok && fsize == 0 && avail > 0 && e.rng.Intn(3) == 0 {
		kind = pipeOpReadByte // the front slice is used up: ReadByte has its own step-to-the-next-slice code
	}
	if avail == 0 && dir.consumed > 0 && R.BufferReader().Len() == 0 && e.rng.Intn(2) == 0 {
		kind = pipeOpReuse // everything read: the situation in which ReleaseReadAndReuse swaps the buffers
	}
	if kind == pipeOpRelease || kind == pipeOpReuse {
		e.doRelease(s, d, kind)
		return
	}
	n := 0
	switch {
	case kind == pipeOpLenSync:
		n = avail
		if n > 1<<20 {
			n = 1 << 20
		}
	case kind == pipeOpReadByte:
		if avail == 0 {
			kind = pipeOpDiscard // Discard(0)
		} else {
			n = 1
		}
	default:
		n = e.readSize(R, avail)
	}
	e.doRead(s, d, kind, n)
}

func (e *pipeExec) openStream() *pipeStream {
	cli, err := e.p.client.OpenStream()
	if err != nil {
		e.inconclusive("OpenStream failed: %v", err)
	}
	s := &pipeStream{n: len(e.streams), id: cli.StreamID(), cli: cli}
	for d := 0; d < 2; d++ {
		s.dirs[d] = &pipeDir{key: uint64(e.cs.Seed)*31 + uint64(s.n)*2 + uint64(d) + 1}
	}
	e.streams = append(e.streams, s)
	e.rec(s, 0, pipeOpOpen, 0, 0, 0)
	// the peer learns about a stream from its first message
	kinds := []int{pipeOpWriteBytes, pipeOpReserve, pipeOpWriteByte, pipeOpWriteString, pipeOpWrite}
	kind := kinds[e.rng.Intn(len(kinds))]
	n := 1 + e.rng.Intn(2*e.caps[0])
	if e.rng.Intn(4) == 0 {
		n = e.writeSize(cli)
		if n < 1 {
			n = 1
		}
	}
	e.doWrite(s, 0, kind, n)
	if s.dirs[0].flushed != s.dirs[0].written {
		e.doWrite(s, 0, pipeOpFlush, 0)
	}
	s.srv = e.p.serverStream(s.id, 30*time.Second)
	if s.srv == nil {
		e.inconclusive("the server side of stream %d did not appear within 30 s", s.id)
	}
	return s
}

// directed: every zero-size call on empty buffers (never used, and used then emptied and released), with share memory
// free or exhausted.
func (e *pipeExec) directed() {
	if len(e.cs.Levels) > 0 {
		e.setLevel(e.cs.Levels[0].Level)
	}
	s := e.openStream()
	for round := 0; round < 2; round++ {
		for d := 0; d < 2; d++ {
			for _, k := range []int{pipeOpDiscard, pipeOpReadBytes, pipeOpPeek, pipeOpReadString, pipeOpRead, pipeOpLenSync, pipeOpDiscard} {
				e.doRead(s, d, k, 0)
			}
			for _, k := range []int{pipeOpFlush, pipeOpReserve, pipeOpWriteBytes, pipeOpWriteString, pipeOpWrite, pipeOpFlush, pipeOpReserve} {
				e.doWrite(s, d, k, 0)
			}
		}
		// use the buffers, empty them, release, and repeat on the emptied buffers
		for d := 0; d < 2; d++ {
			e.doWrite(s, d, pipeOpWriteBytes, 1+e.rng.Intn(3*e.caps[0]))
			e.doWrite(s, d, pipeOpFlush, 0)
		}
		e.drain()
		for d := 0; d < 2; d++ {
			if round == 0 || d == 0 {
				e.doRelease(s, d, pipeOpRelease)
			} else {
				e.doRelease(s, d, pipeOpReuse)
			}
		}
	}
	for d := 0; d < 2; d++ {
		for _, k := range []int{pipeOpDiscard, pipeOpReadBytes, pipeOpPeek, pipeOpReadString, pipeOpRead, pipeOpReserve, pipeOpFlush} {
			if k == pipeOpReserve || k == pipeOpFlush {
				e.doWrite(s, d, k, 0)
			} else {
				e.doRead(s, d, k, 0)
			}
		}
	}
}

// drain reads everything that was written on every pipe (random reader steps), leaving all pipes empty.
func (e *pipeExec) drain() {
	for _, s := range e.streams {
		if s.closed {
			continue
		}
		for d := 0; d < 2; d++ {
			dir := s.dirs[d]
			if dir.written != dir.flushed {
				e.doWrite(s, d, pipeOpFlush, 0)
			}
			for guard := 0; dir.consumed < dir.flushed; guard++ {
				if guard > 100000 {
					e.inconclusive("drain did not terminate")
				}
				avail := int(dir.flushed - dir.consumed)
				kinds := []int{pipeOpReadBytes, pipeOpReadBytes, pipeOpPeek, pipeOpDiscard, pipeOpReadString, pipeOpRead, pipeOpReadByte}
				kind := kinds[e.rng.Intn(len(kinds))]
				n := e.readSize(s.reader(d), avail)
				if n == 0 || guard > 200 {
					n = avail
				}
				if kind == pipeOpReadByte {
					n = 1
				}
				e.doRead(s, d, kind, n)
				e.afterStep()
			}
		}
	}
}

// census after release: everything consumed, every reader end released; what is still allocated beyond the hoard must
// be exactly the slices the stream ends keep in their chains (e.g. the slice ReleaseReadAndReuse keeps for the next write).
func (e *pipeExec) releaseCensus() {
	e.drain()
	for _, s := range e.streams {
		if s.closed {
			continue
		}
		for d := 0; d < 2; d++ {
			e.doRelease(s, d, pipeOpRelease)
		}
	}
	_, per := shmInUse(e.p.client)
	acc := e.accounted(false)
	for i := range per {
		extra := per[i] - len(e.hoards[i])
		if extra != acc[i] {
			e.violate("after reading everything and ReleasePreviousRead on every stream end: class %d (%d B): %d buffers are allocated beyond the baseline, "+
				"but the stream ends hold %d in their read/write chains (parked-but-released or lost buffers: %d)", i, e.caps[i], extra, acc[i], extra-acc[i])
		}
	}
	e.st.census++
	e.rec(nil, 0, pipeOpCensus, 0, 0, 0)
}

func (e *pipeExec) afterStep() {
	if !e.checkLive {
		return
	}
	if e.det {
		e.scribble()
	}
	e.checkAllLive("after this step (and the scribbler)")
}

// ---------------------------------------------------------------------------------------------
// stress mode helpers

func (e *pipeExec) waitScribbler() {
	// wait until the scribbler has rotated the whole free list twice since now
	maxFree := 0
	for _, l := range e.bm.lists {
		if f := l.remain(); f > maxFree {
			maxFree = f
		}
	}
	if atomic.LoadInt32(&e.stop) != 0 {
		return // scribbler already stopped (end of the sequence)
	}
	need := uint64(2*(maxFree/pipeScribBatch+1) + 2)
	start := atomic.LoadUint64(&e.scribRound)
	deadline := time.Now().Add(10 * time.Second)
	for atomic.LoadUint64(&e.scribRound)-start < need && atomic.LoadInt32(&e.stop) == 0 {
		runtime.Gosched()
		if time.Now().After(deadline) {
			return // scribbler starved: weaker check, never a verdict
		}
	}
}

const pipeScribBatch = 48

func (e *pipeExec) scribblerLoop() {
	defer e.bgWG.Done()
	var n int64
	for atomic.LoadInt32(&e.stop) == 0 {
		for i := range e.bm.lists {
			bufs := hoard(e.bm, i, pipeScribBatch)
			for _, b := range bufs {
				d := b.data[:int(b.cap)] // never cap(b.data): the slice's capacity extends to the end of the mapping
				for j := range d {
					d[j] = 0xEE
				}
			}
			n += int64(len(bufs))
			unhoard(e.bm, bufs)
		}
		atomic.AddUint64(&e.scribRound, 1)
		runtime.Gosched()
	}
	atomic.AddInt64(&e.st.scribbled, n)
}

func (e *pipeExec) bgLoop(cli, srv *Stream, seed int64) {
	defer e.bgWG.Done()
	defer func() {
		if r := recover(); r != nil {
			e.bgPanic.Store(fmt.Sprintf("%v\n%s", r, debug.Stack()))
		}
	}()
	rng := rand.New(rand.NewSource(seed))
	var msgs int64
	for atomic.LoadInt32(&e.stop) == 0 {
		n := 1 + rng.Intn(3*e.largest)
		buf := make([]byte, n)
		w, r := cli, srv
		if rng.Intn(2) == 0 {
			w, r = srv, cli
		}
		if _, err := w.BufferWriter().WriteBytes(buf); err != nil {
			break
		}
		if err := w.Flush(false); err != nil {
			break
		}
		_ = r.SetReadDeadline(time.Now().Add(10 * time.Second))
		left := n
		for left > 0 {
			k := 1 + rng.Intn(left)
			if _, err := r.BufferReader().ReadBytes(k); err != nil {
				left = -1
				break
			}
			left -= k
		}
		if left < 0 {
			break
		}
		r.BufferReader().ReleasePreviousRead()
		msgs++
	}
	atomic.AddInt64(&e.st.bgMsgs, msgs)
}

// ABA-suspect detector (known finding F1), same rule as the allocator checks: a popper wins a slot that somebody else
// popped after this popper had loaded the head. Only armed for the bufferManagers of stress-mode executions.
type pipeDet struct {
	popSeq   uint64
	last     []uint64
	stride   uint32
	suspects *uint64
}

var pipeDetMap sync.Map // *bufferList -> *pipeDet

func pipePopBegin(b *bufferList) uint64 {
	if v, ok := pipeDetMap.Load(b); ok {
		return atomic.LoadUint64(&v.(*pipeDet).popSeq)
	}
	return 0
}

func pipePopWon(b *bufferList, slotOffset uint32, begin uint64) {
	v, ok := pipeDetMap.Load(b)
	if !ok {
		return
	}
	dt := v.(*pipeDet)
	idx := int(slotOffset / dt.stride)
	if idx >= len(dt.last) {
		return
	}
	seq := atomic.AddUint64(&dt.popSeq, 1)
	last := atomic.SwapUint64(&dt.last[idx], seq)
	if last > begin {
		if atomic.AddUint64(dt.suspects, 1) == 1 {
			childLog("aba-suspect")
		}
	}
}

// ---------------------------------------------------------------------------------------------
// one execution

func (e *pipeExec) run() {
	cs := e.cs
	e.rng = caseRand(cs.Seed, 7)
	e.cfg = pipeCfgByName(cs.Cfg)
	opt := pairOpt{memfd: cs.MemFd, bufCap: e.cfg.BufCap, initTO: 20 * time.Second}
	if e.cfg.Sizes != nil {
		opt.sizes = smallSizes(e.cfg.Sizes...)
	}
	var err error
	for try := 0; try < 3; try++ {
		e.p, err = newSessionPair(opt)
		if err == nil {
			break
		}
	}
	if err != nil {
		e.inconc = "session pair could not be created: " + err.Error()
		return
	}
	p := e.p
	e.bm = p.client.bufferManager
	for _, l := range e.bm.lists {
		e.caps = append(e.caps, int(*l.capPerBuffer))
		e.slots = append(e.slots, int(*l.cap))
		e.sumCaps += int(*l.capPerBuffer)
	}
	e.largest = e.caps[len(e.caps)-1]
	e.hoards = make([][]*bufferSlice, len(e.caps))
	e.budget = int64(24 * e.largest)
	if e.budget < 2<<20 {
		e.budget = 2 << 20
	}
	e.maxUnrd = int64(12 * e.largest)
	if e.maxUnrd < 64<<10 {
		e.maxUnrd = 64 << 10
	}
	closedPair := false
	defer func() {
		r := recover()
		if r != nil {
			if _, ok := r.(pipeStop); !ok {
				e.setViol(fmt.Sprintf("panic: %v", r), string(debug.Stack()))
			}
		}
		// never touch handed-out slices after this point
		for _, s := range e.streams {
			s.dirs[0].live, s.dirs[1].live = nil, nil
		}
		atomic.StoreInt32(&e.stop, 1)
		e.bgWG.Wait()
		if !closedPair {
			e.teardown(false)
		}
	}()

	switch cs.Mode {
	case "det":
		e.leaveFree(func(slots int, capacity int) int {
			k := []int{8, 16, 32, 64, 128}[e.rng.Intn(5)]
			if k*capacity > 256<<10 { // the scribbler fills every free byte twice per step
				k = (256 << 10) / capacity
			}
			if k < 3 {
				k = 3
			}
			return k
		})
	case "stress":
		e.leaveFree(func(slots int, capacity int) int { return 256 + e.rng.Intn(256) })
		susp := new(uint64)
		for _, l := range e.bm.lists {
			pipeDetMap.Store(l, &pipeDet{last: make([]uint64, *l.cap), stride: *l.capPerBuffer + bufferHeaderSize, suspects: susp})
		}
		defer func() {
			for _, l := range e.bm.lists {
				pipeDetMap.Delete(l)
			}
			e.st.suspects = atomic.LoadUint64(susp)
		}()
	}

	var bgCli, bgSrv *Stream
	if e.stress {
		// the background stream is created first (its messages never touch the judged streams)
		bgCli, err = p.client.OpenStream()
		if err != nil {
			e.inconclusive("OpenStream failed: %v", err)
		}
		if _, err := bgCli.Write([]byte{1}); err != nil {
			e.inconclusive("background stream: %v", err)
		}
		bgSrv = p.serverStream(bgCli.StreamID(), 30*time.Second)
		if bgSrv == nil {
			e.inconclusive("background stream did not appear")
		}
		_ = bgSrv.SetReadDeadline(time.Now().Add(10 * time.Second))
		if _, err := bgSrv.BufferReader().ReadBytes(1); err != nil {
			e.inconclusive("background stream: %v", err)
		}
		bgSrv.BufferReader().ReleasePreviousRead()
	}

	fw0 := atomic.LoadUint64(&p.client.stats.fallbackWriteCount) + atomic.LoadUint64(&p.server.stats.fallbackWriteCount)
	fr0 := atomic.LoadUint64(&p.client.stats.fallbackReadCount) + atomic.LoadUint64(&p.server.stats.fallbackReadCount)
	nextLevel := 0
	nextOpen := 0
	started := false
	censusEvery := 0
	if e.det {
		censusEvery = 40 + e.rng.Intn(60)
	}
	if cs.Directed {
		e.directed()
		cs.Ops = 0
	}
	for step := 0; step < cs.Ops; step++ {
		for nextLevel < len(cs.Levels) && cs.Levels[nextLevel].At <= step {
			e.setLevel(cs.Levels[nextLevel].Level)
			nextLevel++
		}
		for nextOpen < len(cs.OpenAt) && cs.OpenAt[nextOpen] <= step {
			e.openStream()
			nextOpen++
			e.afterStep()
		}
		if e.stress && !started {
			started = true
			e.bgWG.Add(2)
			go e.scribblerLoop()
			go e.bgLoop(bgCli, bgSrv, cs.Seed^0x5bd1e995)
		}
		s := e.streams[e.rng.Intn(len(e.streams))]
		d := cs.Primary
		if e.rng.Intn(4) == 0 {
			d = 1 - d
		}
		if step%2 == 0 {
			e.writerStep(s, d)
		} else {
			e.readerStep(s, d)
		}
		e.afterStep()
		if e.stress {
			runtime.Gosched()
		}
		if censusEvery > 0 && step%censusEvery == censusEvery-1 {
			e.releaseCensus()
		}
	}
	// ---- end of the sequence
	if e.stress {
		e.waitScribbler()
		e.checkAllLive("at the end of the sequence")
		atomic.StoreInt32(&e.stop, 1)
		e.bgWG.Wait()
		if v := e.bgPanic.Load(); v != nil {
			e.setViol("panic in the background traffic stream while the scribbler was running", v.(string))
			panic(pipeStop{})
		}
		bgCli.Close()
		bgSrv.Close()
	}
	if e.checkLive && e.rng.Intn(2) == 0 {
		e.releaseCensus()
	}
	e.st.fallbackW = int64(atomic.LoadUint64(&p.client.stats.fallbackWriteCount) + atomic.LoadUint64(&p.server.stats.fallbackWriteCount) - fw0)
	e.st.fallbackR = int64(atomic.LoadUint64(&p.client.stats.fallbackReadCount) + atomic.LoadUint64(&p.server.stats.fallbackReadCount) - fr0)
	closedPair = true
	e.teardown(e.checkLive)
}

// teardown closes every stream (release by Close), optionally takes the exact census, and closes the pair.
func (e *pipeExec) teardown(census bool) {
	p := e.p
	defer func() {
		e.unhoardAll()
		p.close()
	}()
	if census {
		if !p.quiesce(30 * time.Second) {
			e.inconc = "the session pair did not quiesce before the final close (watchdog)"
			census = false
		}
	}
	if census {
		e.checkAllLive("before the final close")
	}
	for _, s := range e.streams {
		if s.closed {
			continue
		}
		nlive := len(s.dirs[0].live) + len(s.dirs[1].live)
		if census && nlive > 0 {
			e.st.closeWithLive++
		}
		s.dirs[0].live, s.dirs[1].live = nil, nil
		s.closed = true
		first, second := s.cli, s.srv
		if e.rng != nil && e.rng.Intn(2) == 0 {
			first, second = second, first
		}
		if first != nil {
			first.Close()
		}
		if second != nil {
			second.Close()
		}
		e.rec(s, 0, pipeOpClose, nlive, 0, 0)
	}
	if !census {
		return
	}
	for round := 0; round < 3; round++ {
		if !p.quiesce(30 * time.Second) {
			e.inconc = "the session pair did not quiesce after the final close (watchdog)"
			return
		}
		z := p.drainAccepted()
		if len(z) == 0 {
			break
		}
		for _, st := range z {
			st.Close()
		}
	}
	_, per := shmInUse(p.client)
	for i := range per {
		if per[i] != len(e.hoards[i]) {
			msg := fmt.Sprintf("after closing every stream on both ends (quiesced, no stream left): class %d (%d B) has %d buffers allocated, baseline (hoard) %d: "+
				"%d buffers did not come back", i, e.caps[i], per[i], len(e.hoards[i]), per[i]-len(e.hoards[i]))
			e.setViol(msg, "")
			return
		}
	}
	e.st.census++
}

// ---------------------------------------------------------------------------------------------
// case generation, runner, evidence

func pipeGenCase(c *checkCtx, prop string, idx int, nStress int) pipeCase {
	base := 600000
	if prop == "C08" {
		base = 800000
	}
	rng := caseRand(c.seed, base+idx)
	cs := pipeCase{Prop: prop, Idx: idx, Seed: rng.Int63() | 1, MemFd: rng.Intn(2) == 0}
	cs.Streams = []int{1, 1, 1, 2, 2, 3}[rng.Intn(6)]
	switch {
	case prop == "C06":
		cs.Mode = "c06"
		cs.Ops = 300
		lv := []int{0, 50, 99, 100}
		cs.Levels = []pipeLevel{{0, lv[idx%4]}}
		cs.Primary = (idx / 4) % 2
		cs.Cfg = pipeCfgs[(idx/8)%len(pipeCfgs)].Name
		if cs.Cfg == "default" {
			cs.Ops = 200
		}
		for k := rng.Intn(3); k > 0; k-- {
			cs.Levels = append(cs.Levels, pipeLevel{1 + rng.Intn(cs.Ops-1), lv[rng.Intn(4)]})
		}
		if len(cs.Levels) == 3 && cs.Levels[1].At > cs.Levels[2].At {
			cs.Levels[1], cs.Levels[2] = cs.Levels[2], cs.Levels[1]
		}
		cs.HugeReserve = rng.Intn(4) == 0
	case idx < nStress:
		cs.Mode = "stress"
		cs.Ops = 200
		cs.Primary = idx % 2
		cs.Cfg = pipeStressCfgs[(idx/2)%len(pipeStressCfgs)].Name
		if cs.Streams > 2 {
			cs.Streams = 2
		}
	default:
		cs.Mode = "det"
		cs.Ops = 240
		cs.Primary = idx % 2
		cs.Cfg = pipeCfgs[(idx/2)%len(pipeCfgs)].Name
		if cs.Cfg == "default" {
			cs.Ops = 160
		}
	}
	cs.OpenAt = []int{0}
	for k := 1; k < cs.Streams; k++ {
		cs.OpenAt = append(cs.OpenAt, rng.Intn(cs.Ops*2/3))
	}
	if len(cs.OpenAt) == 3 && cs.OpenAt[1] > cs.OpenAt[2] {
		cs.OpenAt[1], cs.OpenAt[2] = cs.OpenAt[2], cs.OpenAt[1]
	}
	return cs
}

type pipeTotals struct {
	mu       sync.Mutex
	st       pipeStats
	byLevel  map[int]int
	byCfg    map[string]int
	byMode   map[string]int
	msMode   map[string]int64
	stuck    int32
	realViol int32
	samples  int
	suspExec int
	doneN    int
}

func newPipeTotals() *pipeTotals {
	return &pipeTotals{byLevel: map[int]int{}, byCfg: map[string]int{}, byMode: map[string]int{}, msMode: map[string]int64{}}
}

// pipeMsg is one line of the child -> parent protocol (the sequences run in child processes: a fault that kills the
// process - e.g. a panic on the event loop goroutine - costs one slice of the run and is reported, not lost).
type pipeMsg struct {
	Start    string                 `json:"start,omitempty"`
	Done     string                 `json:"done,omitempty"`
	Pos      int                    `json:"pos"`
	Viol     string                 `json:"viol,omitempty"`
	Inconc   string                 `json:"inconc,omitempty"`
	Witness  map[string]interface{} `json:"witness,omitempty"`
	Key      string                 `json:"key,omitempty"`
	Sample   interface{}            `json:"sample,omitempty"`
	Counters map[string]int64       `json:"counters,omitempty"`
	End      bool                   `json:"end,omitempty"`
}

type pipeOut struct {
	mu sync.Mutex
}

func (o *pipeOut) send(m pipeMsg) {
	o.mu.Lock()
	childReply(m)
	o.mu.Unlock()
}

func pipeRunCase(c *checkCtx, cs pipeCase, pos int, tot *pipeTotals, out *pipeOut) {
	e := &pipeExec{c: c, cs: cs}
	e.checkLive = cs.Mode != "c06"
	e.det = cs.Mode == "det"
	e.stress = cs.Mode == "stress"
	name := fmt.Sprintf("%s-%s-%d", cs.Prop, cs.Mode, cs.Idx)
	childLog("start %s pos=%d %+v", name, pos, cs)
	out.send(pipeMsg{Start: name, Pos: pos})
	t0 := time.Now()
	done := make(chan struct{})
	go func() {
		defer close(done)
		defer func() {
			if r := recover(); r != nil { // a panic outside run()'s own recover (teardown)
				e.setViol(fmt.Sprintf("panic during teardown: %v", r), string(debug.Stack()))
			}
		}()
		e.run()
	}()
	select {
	case <-done:
	case <-time.After(180 * time.Second):
		dump := goroutineDump()
		path := filepath.Join(c.work, fmt.Sprintf("%s.watchdog.%d.txt", name, os.Getpid()))
		_ = os.WriteFile(path, []byte(dump), 0o644)
		atomic.AddInt32(&tot.stuck, 1)
		if v := e.getViol(); v != "" {
			// the violation was observed before; only the clean-up afterwards hangs (e.g. a library panic left a mutex locked)
			atomic.AddInt32(&tot.realViol, 1)
			out.send(pipeMsg{Done: name, Pos: pos, Viol: v + " [afterwards the clean-up did not finish within 180 s]",
				Witness: map[string]interface{}{"case": cs, "stack": truncate(e.stack, 6000), "goroutine_dump": path}})
			return
		}
		out.send(pipeMsg{Done: name, Pos: pos, Inconc: "watchdog: the sequence did not finish within 180 s (goroutine dump in " + path + ")"})
		return
	}
	childLog("done %s", name)
	msg := pipeMsg{Done: name, Pos: pos}
	tot.mu.Lock()
	defer tot.mu.Unlock()
	a, b := &tot.st, &e.st
	for i := range a.ops {
		a.ops[i] += b.ops[i]
	}
	a.bytes += b.bytes
	a.flushShm += b.flushShm
	a.flushSocket += b.flushSocket
	a.multiSlice += b.multiSlice
	a.readCross += b.readCross
	a.aliasShm += b.aliasShm
	a.copies += b.copies
	a.peeks += b.peeks
	a.zeroOps += b.zeroOps
	a.swaps += b.swaps
	a.syncs += b.syncs
	a.blockingReads += b.blockingReads
	a.liveChecks += b.liveChecks
	a.liveAliasChk += b.liveAliasChk
	a.scribbles += b.scribbles
	a.scribbled += b.scribbled
	a.census += b.census
	a.closeWithLive += b.closeWithLive
	a.fallbackW += b.fallbackW
	a.fallbackR += b.fallbackR
	a.reserveSkips += b.reserveSkips
	a.emptyFirst += b.emptyFirst
	a.bgMsgs += b.bgMsgs
	a.suspects += b.suspects
	if b.maxLive > a.maxLive {
		a.maxLive = b.maxLive
	}
	if b.suspects > 0 {
		tot.suspExec++
	}
	for _, l := range cs.Levels {
		tot.byLevel[l.Level]++
	}
	tot.byCfg[cs.Cfg]++
	tot.byMode[cs.Mode]++
	tot.msMode[cs.Mode] += time.Since(t0).Milliseconds()
	witness := func() map[string]interface{} {
		w := map[string]interface{}{"case": cs, "ops_executed": len(e.trace), "trace_tail": e.traceTail(80),
			"classes": e.caps, "slots": e.slots}
		var pipes []string
		for _, s := range e.streams {
			for d := 0; d < 2; d++ {
				pipes = append(pipes, fmt.Sprintf("stream %d dir %d: written=%d flushed=%d consumed=%d", s.n, d, s.dirs[d].written, s.dirs[d].flushed, s.dirs[d].consumed))
			}
		}
		w["pipes"] = pipes
		if e.stack != "" {
			w["stack"] = truncate(e.stack, 6000)
		}
		if e.st.suspects > 0 {
			w["aba_suspects"] = e.st.suspects
		}
		return w
	}
	switch {
	case e.viol != "" && e.stress && e.st.suspects > 0:
		msg.Inconc = fmt.Sprintf("failure in an execution with %d ABA suspects in the allocator (known finding F1 contaminates it): %s", e.st.suspects, e.viol)
	case e.viol != "":
		atomic.AddInt32(&tot.realViol, 1)
		msg.Viol = e.viol
		msg.Witness = witness()
	case e.inconc != "":
		msg.Inconc = e.inconc
	}
	if e.crossW && e.crossR && e.viol == "" {
		msg.Key = e.traceHash()
		if !cs.Directed && tot.samples < 2 && (tot.samples == 0 || cs.Idx%7 == 3) {
			tot.samples++
			msg.Sample = map[string]interface{}{"case": cs, "classes": e.caps, "first_ops": e.traceTail(1 << 30)[:pipeMin(30, len(e.trace))]}
		}
	}
	tot.doneN++
	if tot.doneN%64 == 0 {
		msg.Counters = pipeCounterMap(tot)
	}
	out.send(msg)
}

func pipeMin(a, b int) int {
	if a < b {
		return a
	}
	return b
}

// pipeCounterMap turns the totals into named counters and resets them (caller holds tot.mu). Names starting with
// "max " are merged by maximum, all others by sum.
func pipeCounterMap(tot *pipeTotals) map[string]int64 {
	m := map[string]int64{}
	st := &tot.st
	add := func(name string, n int64) {
		if n != 0 {
			m[name] += n
		}
	}
	for k := 0; k < pipeOpKinds; k++ {
		add("op "+pipeOpNames[k], st.ops[k])
	}
	add("bytes read and compared", st.bytes)
	add("messages flushed through share memory", st.flushShm)
	add("messages flushed by a stream in socket (fallback) state", st.flushSocket)
	add("fallback writes (session stats)", st.fallbackW)
	add("fallback reads (session stats)", st.fallbackR)
	add("multi-slice messages flushed", st.multiSlice)
	add("Reserve skipped to another slice", st.reserveSkips)
	add("Reserve skipped an empty reuse slice (message starts with an empty slice)", st.emptyFirst)
	add("read ops that crossed a slice boundary", st.readCross)
	add("peeks", st.peeks)
	add("results aliasing share memory (zero-copy)", st.aliasShm)
	add("ReadBytes results that were copies or socket-carried", st.copies)
	add("zero-size calls", st.zeroOps)
	add("ReleaseReadAndReuse that swapped the buffers", st.swaps)
	add("reads that had to wait for delivery", st.blockingReads)
	add("reads issued after logical quiescence", st.syncs)
	add("registry comparisons (live slice re-checks)", st.liveChecks)
	add("registry comparisons of slices aliasing share memory", st.liveAliasChk)
	add("scribbler passes (deterministic mode)", st.scribbles)
	add("buffers scribbled with 0xEE", st.scribbled)
	add("allocator censuses passed", st.census)
	add("streams closed while results were still live (release by Close)", st.closeWithLive)
	add("max simultaneously live results in one sequence", int64(st.maxLive))
	add("background traffic messages (stress mode)", st.bgMsgs)
	add("ABA suspects (stress mode)", int64(st.suspects))
	add("executions with ABA suspects", int64(tot.suspExec))
	for l, n := range tot.byLevel {
		add(fmt.Sprintf("exhaustion level %d%% applied", l), int64(n))
	}
	for k, n := range tot.byCfg {
		add("sequences on slice config "+k, int64(n))
	}
	for k, n := range tot.byMode {
		add("sequences in mode "+k, int64(n))
	}
	for k, n := range tot.msMode {
		add("summed sequence wall time (ms) in mode "+k, n)
	}
	tot.st = pipeStats{}
	tot.suspExec = 0
	tot.byLevel, tot.byCfg, tot.byMode, tot.msMode = map[int]int{}, map[string]int{}, map[string]int{}, map[string]int64{}
	return m
}

// pipeCases: the case list of a check, a function of (tier, VERIF_SEED) only.
func pipeCases(c *checkCtx, prop string) []pipeCase {
	var cases []pipeCase
	if prop == "C06" {
		n := c.pick(800, 40000)
		for ci, cfg := range pipeCfgs {
			for li, lv := range []int{0, 100} {
				cases = append(cases, pipeCase{Prop: "C06", Idx: 1000000 + ci*2 + li, Mode: "c06", Cfg: cfg.Name, MemFd: li == 0, Directed: true,
					Levels: []pipeLevel{{0, lv}}, Seed: c.seed*131 + int64(ci*2+li) + 1})
			}
		}
		for i := 0; i < n; i++ {
			cases = append(cases, pipeGenCase(c, "C06", i, 0))
		}
	} else {
		n := c.pick(400, 20000)
		for i := 0; i < n; i++ {
			cases = append(cases, pipeGenCase(c, "C08", i, n/5))
		}
	}
	if only := os.Getenv("VERIF_PIPE_ONLY"); only != "" { // debugging aid: run one mode only
		var sel []pipeCase
		for _, cs := range cases {
			if cs.Mode == only {
				sel = append(sel, cs)
			}
		}
		cases = sel
	}
	return cases
}

// ---- child side: args = prop, part, parts, after (list position), workers

func pipeChildMain(args []string) {
	if len(args) < 5 {
		os.Exit(3)
	}
	prop := args[0]
	part, _ := strconv.Atoi(args[1])
	parts, _ := strconv.Atoi(args[2])
	after, _ := strconv.Atoi(args[3])
	workers, _ := strconv.Atoi(args[4])
	if workers < 1 {
		workers = 1
	}
	c := newCheckCtx(prop)
	if prop == "C08" {
		verifPopHook.Store(&verifPopHooks{begin: pipePopBegin, won: pipePopWon})
	}
	cases := pipeCases(c, prop)
	tot := newPipeTotals()
	out := &pipeOut{}
	type job struct {
		cs  pipeCase
		pos int
	}
	ch := make(chan job)
	var wg sync.WaitGroup
	for w := 0; w < workers; w++ {
		wg.Add(1)
		go func() {
			defer wg.Done()
			for j := range ch {
				if atomic.LoadInt32(&tot.realViol) >= 5 || atomic.LoadInt32(&tot.stuck) >= 2 {
					continue // the verdict is settled (or the machine is stuck): skip the rest
				}
				pipeRunCase(c, j.cs, j.pos, tot, out)
			}
		}()
	}
	for pos, cs := range cases {
		if pos%parts == part && pos > after {
			ch <- job{cs, pos}
		}
	}
	close(ch)
	wg.Wait()
	tot.mu.Lock()
	m := pipeCounterMap(tot)
	tot.mu.Unlock()
	out.send(pipeMsg{Counters: m, Pos: -1})
	out.send(pipeMsg{End: true, Pos: -1})
}

// ---- parent side

type pipeParent struct {
	mu     sync.Mutex
	maxes  map[string]int64
	deaths int32
}

func pipeDrive(c *checkCtx, prop string, part, parts, workers int, pp *pipeParent) {
	after := -1
	for attempt := 0; attempt < 4; attempt++ {
		cp, err := c.spawnChild("pipe", []string{prop, strconv.Itoa(part), strconv.Itoa(parts), strconv.Itoa(after), strconv.Itoa(workers)})
		if err != nil {
			c.inconclusiveCase(fmt.Sprintf("%s-child-%d", prop, part), "cannot start the child process: "+err.Error())
			return
		}
		started := map[string]int{}
		ended := false
		timedOut := false
		maxPos := after
		for {
			var m pipeMsg
			line, ok := cp.recv(30*time.Minute, &m)
			if !ok {
				if line != "" {
					continue // not a protocol line
				}
				break
			}
			switch {
			case m.Start != "":
				started[m.Start] = m.Pos
				if m.Pos > maxPos {
					maxPos = m.Pos
				}
			case m.Done != "":
				delete(started, m.Done)
				switch {
				case m.Viol != "":
					c.eval(1)
					c.violation(m.Done, m.Witness, "%s", m.Viol)
				case m.Inconc != "":
					c.inconclusiveCase(m.Done, m.Inconc)
				default:
					c.eval(1)
				}
				if m.Key != "" {
					c.nontrivial(m.Key)
				}
				if m.Sample != nil {
					c.sample(m.Sample)
				}
			case m.End:
				ended = true
			}
			for k, n := range m.Counters {
				if strings.HasPrefix(k, "max ") {
					pp.mu.Lock()
					if n > pp.maxes[k] {
						pp.maxes[k] = n
					}
					pp.mu.Unlock()
				} else {
					c.count(k, n)
				}
			}
			if ended {
				break
			}
		}
		ex := cp.wait(20 * time.Second)
		if ended && ex.Exited && ex.Code == 0 && !ex.TimedOut {
			cp.cleanupFiles()
			return
		}
		timedOut = ex.TimedOut
		var running []string
		for n := range started {
			running = append(running, n)
		}
		sort.Strings(running)
		logData, _ := os.ReadFile(cp.logPath)
		name := fmt.Sprintf("%s-child-%d-died-%d", prop, part, attempt)
		wit := map[string]interface{}{"sequences_running_when_it_died": running, "exit": fmt.Sprintf("exited=%v code=%d signal=%s timed_out=%v", ex.Exited, ex.Code, ex.Signal, ex.TimedOut),
			"stderr": truncate(ex.Stderr, 12000), "child_log": cp.logPath}
		fatal := strings.Contains(ex.Stderr, "panic:") || strings.Contains(ex.Stderr, "fatal error:") || strings.Contains(ex.Stderr, "unexpected fault address") ||
			strings.Contains(ex.Stderr, "SIGSEGV") || strings.Contains(ex.Stderr, "SIGBUS")
		switch {
		case timedOut || ended:
			c.inconclusiveCase(name, "the child process did not exit in time (watchdog); sequences running: "+strings.Join(running, ","))
		case fatal && bytes.Contains(logData, []byte("aba-suspect")):
			c.inconclusiveCase(name, "the child process died in a run with ABA suspects in the allocator (known finding F1): "+firstLine(ex.Stderr))
		case fatal:
			c.violation(name, wit, "the process died while running sequences %v: %s", running, firstLine(ex.Stderr))
		default:
			c.inconclusiveCase(name, fmt.Sprintf("the child process ended unexpectedly (%v) without a Go panic / fault in its stderr", wit["exit"]))
		}
		if atomic.AddInt32(&pp.deaths, 1) >= 4 {
			return
		}
		after = maxPos // resume behind the sequences that were running
	}
}

func firstLine(s string) string {
	for _, l := range strings.Split(s, "\n") {
		if strings.Contains(l, "panic:") || strings.Contains(l, "fatal error:") || strings.Contains(l, "unexpected fault") {
			return truncate(strings.TrimSpace(l), 300)
		}
	}
	if i := strings.IndexByte(s, '\n'); i >= 0 {
		return truncate(s[:i], 300)
	}
	return truncate(s, 300)
}

func pipeRunChildren(c *checkCtx, prop string) *pipeParent {
	pp := &pipeParent{maxes: map[string]int64{}}
	parts := 4
	jobs := c.jobs
	if jobs > 8 {
		jobs = 8
	}
	if jobs < parts {
		parts = jobs
	}
	if parts < 1 {
		parts = 1
	}
	workers := jobs / parts
	if workers < 1 {
		workers = 1
	}
	var wg sync.WaitGroup
	for part := 0; part < parts; part++ {
		wg.Add(1)
		go func(part int) {
			defer wg.Done()
			pipeDrive(c, prop, part, parts, workers, pp)
		}(part)
	}
	wg.Wait()
	for k, n := range pp.maxes {
		c.count(k, n)
	}
	c.count("child processes that died", int64(atomic.LoadInt32(&pp.deaths)))
	return pp
}

func pipeCheckC06(c *checkCtx) {
	c.rule = "sequence = (slice config {16},{16,64},{32,128},{64,512,4096},{16,64,4096 skewed},default; exhaustion 0/50/99/100 % changed up to twice " +
		"while running; primary direction; 1-3 streams; 200-300 alternating writer/reader ops with sizes from class boundary values, the live fill state " +
		"of the current slice, and random) from PRNG(VERIF_SEED, index), plus 12 directed sequences of zero-size calls on never-used and emptied buffers; " +
		"every returned byte is compared with the keyed byte function, every count and " +
		"Len() (reader: <= flushed-consumed always, == when the call needed every flushed byte; writer: == written-flushed) is checked; " +
		"non-trivial = the sequence flushed at least one multi-slice message AND at least one read op crossed a slice boundary; distinct = hash of the " +
		"executed operation trace (kinds, sizes, results, path flags)"
	c.assume("one goroutine per stream end (the API does not support concurrent use of one stream end); sizes up to 10x the largest class (<= 1.3 MiB)")
	c.assume("ReleaseReadAndReuse is only called while the end's own send buffer holds no unflushed data; negative sizes are not passed")
	c.assume("client and server live in one process and share one bufferManager object; messages still travel through the real queue / socket")
	c.assume("sequences run in 4 child processes; a child that dies of a Go panic / fault is a violation attributed to the sequences running at that moment")
	pp := pipeRunChildren(c, "C06")
	if c.violations == 0 && atomic.LoadInt32(&pp.deaths) == 0 && len(c.inconclusive) == 0 {
		if c.counter("fallback writes (session stats)") == 0 {
			c.noObservation("no message travelled through the socket (fallback)")
		}
		if c.counter("messages flushed through share memory") == 0 {
			c.noObservation("no message travelled through share memory")
		}
		if c.counter("multi-slice messages flushed") == 0 || c.counter("read ops that crossed a slice boundary") == 0 {
			c.noObservation("no multi-slice message / no read across a slice boundary")
		}
	}
}

func pipeCheckC08(c *checkCtx) {
	c.rule = "sequence = C06 generator (reads sized around the unread rest of the front slice so that they end before, at and beyond slice boundaries) " +
		"with a registry of every non-empty ReadBytes/Peek result not yet released (slice + copy); deterministic mode: after every step a scribbler " +
		"allocates every free buffer twice, fills it with 0xEE and recycles it, then all registered slices are compared; stress mode: the scribbler " +
		"and a background traffic stream run concurrently (classes keep >= 256 free slots, ABA-suspect detector armed), the registry is compared after " +
		"every step and, after two full scribbler rotations, before every release; release by ReleasePreviousRead, ReleaseReadAndReuse or Close; " +
		"census: after drain+ReleasePreviousRead on all ends allocated-beyond-baseline == slices held in the ends' read/write chains, after closing " +
		"everything (quiesced) allocated == baseline; non-trivial = multi-slice message flushed AND a read crossed a slice boundary; distinct = hash of " +
		"the executed operation trace"
	c.assume("a failure in a stress execution in which the allocator's ABA detector recorded a suspect is counted inconclusive (known finding F1), never held")
	c.assume("deterministic mode: the harness goroutine is the only allocating goroutine of the bufferManager, so F1 cannot occur there")
	c.assume("slices are never touched after the session is closed (known finding F2)")
	c.assume("sequences run in 4 child processes; a child that dies of a Go panic / fault is a violation attributed to the sequences running at that moment")
	pp := pipeRunChildren(c, "C08")
	if c.violations == 0 && atomic.LoadInt32(&pp.deaths) == 0 && len(c.inconclusive) == 0 {
		if c.counter("results aliasing share memory (zero-copy)") == 0 || c.counter("registry comparisons of slices aliasing share memory") == 0 {
			c.noObservation("no zero-copy (share-memory aliasing) result was ever registered and re-checked")
		}
		if c.counter("buffers scribbled with 0xEE") == 0 {
			c.noObservation("the scribbler never obtained a buffer")
		}
		if c.counter("streams closed while results were still live (release by Close)") == 0 || c.counter("allocator censuses passed") == 0 {
			c.noObservation("no release by Close with live results / no census")
		}
	}
}
