package shmipc

// C13: nothing received on the control connection can crash the process.
//
// Every session under test ("victim", both roles, file and memfd mapping) has a scripted raw peer (rawpeer.go) that
// completed a real handshake and owns real shared memory, so polling events do something. Two layers, both in
// CHILD processes (a panic on the event loop or a fault in mapped memory kills the process; every input is written
// to the child's log BEFORE it is executed; a child that dies is a violation attributed to the last logged input):
//
//  direct layer (role fzdirect): Session.handleEvents(buf) is called on live victims whose raw peer never sends
//  (so the event loop never runs a handler of that session concurrently), under recover().
//    D1  valid prefix + one mutated event (+ trailing bytes): no panic, 0 <= consumed <= len(buf), and when the
//        call returns nil with unconsumed bytes, offering exactly these bytes again consumes nothing (a handler that
//        asks for more data has not consumed part of an event). A victim that returned an error is retired
//        (production closes the session), so no input is ever offered to a state production cannot reach.
//    D2  valid sequences on two victims with mirrored histories: one gets the bytes whole, the other in PRNG
//        pieces through the event loop's own buffer discipline (keep the unconsumed tail, append the next piece).
//        Total consumed, error and the per-stream observations (bytes, order-sensitive hash, stream state) must match.
//  socket layer (role fzsock): the raw peer writes chunks on the real socket and waits for a fence on the child's
//  loop after each chunk, so the read boundaries are exactly the chunk boundaries.
//    S1  every valid sequence is delivered whole, byte by byte and with PRNG cuts (fresh streams each time): the
//        per-stream observations must be identical (differential oracle) and the session must stay open.
//    S2  malformed inputs: the victim is either closed with an error or still serving; an unrelated healthy session
//        pair B in the same process keeps echoing; the child stays alive.
//    S3  handshake phase: every message of every exchange of both roles is mutated (truncated, Length 0 / below /
//        above / 2^32-1, bad magic, versions, all 256 types, metadata whose path lengths exceed the body, empty and
//        huge paths, unmappable paths, wrong descriptor counts and kinds). newSession must return (a session or an
//        error; "waits for more bytes until the time-out" is allowed), B keeps echoing, the child stays alive.
//
// Lengths that make the reader wait for gigabytes are "the session stalls until the peer closes": allowed.
// Hostile shared-memory *contents* (a memfd/file of the wrong size, bad offsets in the queue) are outside the statement.

import (
	"encoding/binary"
	"encoding/hex"
	"encoding/json"
	"fmt"
	"hash/fnv"
	"math/rand"
	"os"
	"path/filepath"
	"runtime/debug"
	"runtime/pprof"
	"sort"
	"strings"
	"sync"
	"sync/atomic"
	"time"

	"golang.org/x/sys/unix"
)

func init() {
	verifChecks["C13"] = checkFuzz
	verifChildRoles["fzdirect"] = fzChildDirect
	verifChildRoles["fzsock"] = fzChildSock
}

var fzSeq uint64

// InitializeTimeout of the handshake-mutation cases. Long enough that an exchange that is still progressing never
// crosses it on a loaded machine (a worker that outlives its time-out is the late-answer situation Q3 of C12, and in
// one process it could go on using a descriptor number that has been reused); short enough to wait out the
// "waits for more bytes" class.
const fzHsTO = time.Second

// ---------------------------------------------------------------------------------------------
// victims: a library session of the given role whose peer is a raw peer that completed the handshake

type fzVictim struct {
	role   string // client | server
	memfd  bool
	sess   *Session
	raw    *rawPeer
	prefix string

	mu       sync.Mutex
	accepted map[uint32]*Stream // server role: streams taken out of acceptCh
	discard  chan struct{}
}

func fzConf(prefix string, memfd bool, to time.Duration) *Config {
	conf := hsConf(prefix, memfd, to)
	conf.QueueCap = 256
	// one class of few large slots: creating the mapping touches one page per slot header (page faults dominate the cost
	// of a victim on this machine: 10+ ms for 2000 small slots), and C13 is about control bytes, not about the allocator
	conf.BufferSliceSizes = []*SizePercentPair{{Size: 32*1024 - bufferHeaderSize, Percent: 100}}
	return conf
}

func fzNewVictim(role string, memfd bool) (*fzVictim, error) {
	prefix := fmt.Sprintf("%sfz%d", shmPrefix(), atomic.AddUint64(&fzSeq, 1))
	conf := fzConf(prefix, memfd, 20*time.Second)
	cli, srv, path, err := connPair(false)
	if err != nil {
		return nil, err
	}
	if path != "" {
		defer os.Remove(path)
	}
	v := &fzVictim{role: role, memfd: memfd, prefix: prefix, accepted: map[uint32]*Stream{}, discard: make(chan struct{})}
	type res struct {
		s   *Session
		err error
	}
	ch := make(chan res, 1)
	if role == "server" {
		raw, err := rawFromConn(cli)
		if err != nil {
			srv.Close()
			return nil, err
		}
		v.raw = raw
		if err := raw.createShm(prefix, memfd, conf.QueueCap, conf.ShareMemoryBufferCap, conf.BufferSliceSizes); err != nil {
			raw.close()
			raw.releaseShm()
			srv.Close()
			return nil, err
		}
		go func() {
			s, err := newSession(conf, srv, false)
			ch <- res{s, err}
		}()
		kind := "c3f"
		if memfd {
			kind = "c3m"
		}
		err = raw.rawClientHandshake(kind, 20*time.Second)
		r := <-ch
		if err != nil || r.err != nil {
			if r.s != nil {
				r.s.Close()
			}
			raw.close()
			raw.releaseShm()
			return nil, fmt.Errorf("victim handshake: raw %v, library %v", err, r.err)
		}
		v.sess = r.s
	} else {
		raw, err := rawFromConn(srv)
		if err != nil {
			cli.Close()
			return nil, err
		}
		v.raw = raw
		go func() {
			s, err := newSession(conf, cli, true)
			ch <- res{s, err}
		}()
		err = raw.rawServerHandshake(20 * time.Second)
		r := <-ch
		if err != nil || r.err != nil {
			if r.s != nil {
				r.s.Close()
			}
			raw.close()
			raw.releaseShm()
			return nil, fmt.Errorf("victim handshake: raw %v, library %v", err, r.err)
		}
		v.sess = r.s
	}
	return v, nil
}

func (v *fzVictim) startDiscard() { v.raw.startDiscard() }

// retire ends the victim: buffers the victim never consumed are taken back, the raw peer closes, the session is closed.
func (v *fzVictim) retire(wait bool) {
	v.raw.drainOwnSendQueue()
	v.sess.Close()
	v.raw.close()
	if wait {
		waitTeardown(v.sess, 20*time.Second)
	}
	v.raw.releaseShm()
	for _, f := range []string{v.prefix + "_queue", v.prefix + "_buffer"} {
		_ = os.Remove(f)
	}
}

// takeAccepted moves everything that is in acceptCh into v.accepted (server role).
func (v *fzVictim) takeAccepted() {
	if v.sess.acceptCh == nil {
		return
	}
	for {
		select {
		case st := <-v.sess.acceptCh:
			v.mu.Lock()
			v.accepted[st.id] = st
			v.mu.Unlock()
		default:
			return
		}
	}
}

func (v *fzVictim) stream(id uint32) *Stream {
	v.mu.Lock()
	st := v.accepted[id]
	v.mu.Unlock()
	if st != nil {
		return st
	}
	return v.sess.getStreamById(id)
}

// ---------------------------------------------------------------------------------------------
// inputs: templates of valid event sequences, instantiation, mutations

const (
	fzEvPoll = iota
	fzEvClose
	fzEvFallback
	fzEvHotRestart
	fzEvHotRestartAck // valid only with a listener: "other direction" for our victims
)

const fzSlots = 6 // 0..3 streams the victim knows (or will create), 4 an id nobody knows, 5 a stream the application closed

type fzEv struct {
	Kind  int    `json:"k"`
	Slot  int    `json:"s,omitempty"`
	State uint32 `json:"st,omitempty"`
	Len   int    `json:"n,omitempty"`
}

type fzShm struct {
	Slot  int    `json:"s"`
	Len   int    `json:"n"`
	State uint32 `json:"st"`
}

type fzTmpl struct {
	Evs []fzEv  `json:"evs"`
	Shm []fzShm `json:"shm,omitempty"`
}

func (t fzTmpl) typeSeq() string {
	var sb strings.Builder
	for _, e := range t.Evs {
		switch e.Kind {
		case fzEvPoll:
			sb.WriteByte('P')
		case fzEvClose:
			sb.WriteByte('C')
		case fzEvFallback:
			fmt.Fprintf(&sb, "F%d", e.State&0xff)
		case fzEvHotRestart:
			sb.WriteByte('H')
		case fzEvHotRestartAck:
			sb.WriteByte('A')
		}
		if e.Kind == fzEvClose || e.Kind == fzEvFallback {
			switch {
			case e.Slot == 4:
				sb.WriteByte('u')
			case e.Slot == 5:
				sb.WriteByte('c')
			}
		}
	}
	if len(t.Shm) > 0 {
		fmt.Fprintf(&sb, "+shm%d", len(t.Shm))
	}
	return sb.String()
}

// fzGenTmpl: a valid sequence (none of its events makes a plain session return an error).
func fzGenTmpl(rng *rand.Rand, maxEv, maxPayload int, withShm bool) fzTmpl {
	var t fzTmpl
	n := 1 + rng.Intn(maxEv)
	states := []uint32{0, 0, 0, 0, 1, 2, 77}
	for i := 0; i < n; i++ {
		slot := rng.Intn(4)
		if r := rng.Intn(10); r == 0 {
			slot = 4
		} else if r == 1 {
			slot = 5
		}
		switch r := rng.Intn(20); {
		case r < 4:
			t.Evs = append(t.Evs, fzEv{Kind: fzEvPoll})
		case r < 7:
			t.Evs = append(t.Evs, fzEv{Kind: fzEvClose, Slot: slot})
		case r < 18:
			l := 0
			switch rng.Intn(4) {
			case 0:
				l = rng.Intn(4)
			case 1, 2:
				l = rng.Intn(maxPayload/4 + 1)
			default:
				l = rng.Intn(maxPayload + 1)
			}
			t.Evs = append(t.Evs, fzEv{Kind: fzEvFallback, Slot: slot, State: states[rng.Intn(len(states))], Len: l})
		default:
			t.Evs = append(t.Evs, fzEv{Kind: fzEvHotRestart})
		}
	}
	if withShm && rng.Intn(3) == 0 {
		k := 1 + rng.Intn(3)
		for i := 0; i < k; i++ {
			e := fzShm{Slot: rng.Intn(5), Len: 1 + rng.Intn(200)}
			if rng.Intn(6) == 0 {
				e.State, e.Len = 1, 0
			}
			t.Shm = append(t.Shm, e)
		}
		// the queue is drained inside the sequence, so that nothing is left for a later input
		pos := rng.Intn(len(t.Evs) + 1)
		t.Evs = append(t.Evs[:pos], append([]fzEv{{Kind: fzEvPoll}}, t.Evs[pos:]...)...)
		t.Evs = append(t.Evs, fzEv{Kind: fzEvPoll})
	}
	return t
}

// payload bytes are a pure function of (slot, running offset in that slot, channel), so that two deliveries of the same
// template carry the same bytes whatever the stream ids are
func fzPayload(slot int, off *[fzSlots]int, n int, shm bool) []byte {
	key := uint64(slot)*2 + 1000
	if shm {
		key++
	}
	b := make([]byte, n)
	fillKeyed(b, key, uint64(off[slot]))
	off[slot] += n
	return b
}

// instantiate builds the events' bytes (one []byte per event) for concrete stream ids.
func (t fzTmpl) instantiate(ids [fzSlots]uint32, version uint8) [][]byte {
	var off [fzSlots]int
	var out [][]byte
	for _, e := range t.Evs {
		switch e.Kind {
		case fzEvPoll:
			out = append(out, rawEvPolling(version))
		case fzEvClose:
			out = append(out, rawEvStreamClose(version, ids[e.Slot]))
		case fzEvFallback:
			out = append(out, rawEvFallback(version, ids[e.Slot], e.State, fzPayload(e.Slot, &off, e.Len, false)))
		case fzEvHotRestart:
			out = append(out, rawEvHotRestart(version, typeHotRestart, 7))
		case fzEvHotRestartAck:
			out = append(out, rawEvHotRestart(version, typeHotRestartAck, 7))
		}
	}
	return out
}

// queueShm puts the template's shared-memory elements into the victim's receive queue (no wake-up: the sequence's
// polling events do that). Returns false when the raw peer's allocator or queue is exhausted (the input then goes without).
func (t fzTmpl) queueShm(v *fzVictim, ids [fzSlots]uint32) bool {
	var off [fzSlots]int
	for _, e := range t.Shm {
		var p []byte
		if e.State == 0 {
			p = fzPayload(e.Slot, &off, e.Len, true)
		}
		if _, err := v.raw.shmPut(ids[e.Slot], p, streamState(e.State)); err != nil {
			return false
		}
	}
	return true
}

func fzJoin(evs [][]byte) []byte {
	var out []byte
	for _, e := range evs {
		out = append(out, e...)
	}
	return out
}

// mutation kinds; the mutated event becomes the last one of the input (what follows a rejected event is unreachable)
var fzMutations = []string{
	"truncate", "len_below_fixed", "len_above_data", "len_zero", "len_max", "bad_magic", "version_0", "version_1",
	"version_255", "type_sweep", "handshake_phase_event", "other_direction_hotrestart_ack", "fallback_short",
	"close_short", "hotrestart_short", "random_bytes", "trailing_garbage", "none",
}

// A victim costs 25-35 ms on this (loaded) machine - a handshake is a dozen cross-thread wake-ups - and every input that
// ends its session costs one. The direct layer therefore runs the mutations that normally end the session ("hard") in a
// fixed, smaller number and the ones that normally leave it serving or waiting ("soft") in bulk. The split is only a
// budget: whatever the session does with an input decides what happens next, not this table.
var (
	fzHardMutations = []string{"len_below_fixed", "len_zero", "bad_magic", "version_0", "type_sweep", "handshake_phase_event",
		"other_direction_hotrestart_ack", "fallback_short", "random_bytes", "trailing_garbage"}
	fzSoftMutations = []string{"truncate", "len_above_data", "len_max", "version_1", "version_255", "close_short",
		"hotrestart_short", "none"}
)

// fzMutate returns the input bytes and the exact mutation name (type_sweep carries the type).
func fzMutate(rng *rand.Rand, evs [][]byte, kind string, version uint8, sweep int) ([]byte, string) {
	if len(evs) == 0 {
		evs = [][]byte{rawEvPolling(version)}
	}
	k := rng.Intn(len(evs))
	evs = evs[:k+1]
	last := append([]byte{}, evs[k]...)
	name := kind
	switch kind {
	case "truncate":
		whole := fzJoin(evs)
		if len(whole) > 1 {
			whole = whole[:len(whole)-1-rng.Intn(minInt(len(last), len(whole)-1))]
		}
		return whole, name
	case "len_below_fixed":
		binary.BigEndian.PutUint32(last[0:4], uint32(rng.Intn(16)))
	case "len_above_data":
		binary.BigEndian.PutUint32(last[0:4], uint32(len(last)+1+rng.Intn(100000)))
	case "len_zero":
		binary.BigEndian.PutUint32(last[0:4], 0)
	case "len_max":
		binary.BigEndian.PutUint32(last[0:4], 0xffffffff)
	case "bad_magic":
		binary.BigEndian.PutUint16(last[4:6], uint16(rng.Intn(65536)))
		if binary.BigEndian.Uint16(last[4:6]) == magicNumber {
			last[4] ^= 0x40
		}
	case "version_0":
		last[6] = 0
	case "version_1":
		last[6] = 1
	case "version_255":
		last[6] = 255
	case "type_sweep":
		last[7] = byte(sweep)
		name = fmt.Sprintf("type_%d", sweep)
	case "handshake_phase_event":
		switch rng.Intn(5) {
		case 0:
			last = rawEvent(version, typeExchangeProtoVersion)
		case 1:
			last = rawMetadata(typeShareMemoryByFilePath, version, "/dev/shm/q", "/dev/shm/b")
		case 2:
			last = rawMetadata(typeShareMemoryByMemfd, version, "q", "b")
		case 3:
			last = rawEvent(version, typeAckShareMemory)
		default:
			last = rawEvent(version, typeAckReadyRecvFD)
		}
	case "other_direction_hotrestart_ack":
		last = rawEvHotRestart(version, typeHotRestartAck, uint64(rng.Intn(3)))
	case "fallback_short":
		n := rng.Intn(8) // payload bytes after the header: fewer than seqID+status
		last = make([]byte, headerSize+n)
		rng.Read(last[headerSize:])
		header(last).encode(uint32(headerSize+n), version, typeFallbackData)
	case "close_short":
		last = rawEvStreamClose(version, uint32(rng.Intn(9)))[:headerSize+rng.Intn(4)]
	case "hotrestart_short":
		t := typeHotRestart
		if rng.Intn(2) == 0 {
			t = typeHotRestartAck
		}
		last = rawEvHotRestart(version, t, 1)[:headerSize+rng.Intn(8)]
	case "random_bytes":
		last = make([]byte, rng.Intn(40))
		rng.Read(last)
	case "trailing_garbage":
		g := make([]byte, 1+rng.Intn(24))
		rng.Read(g)
		last = append(last, g...)
	case "none":
	}
	evs[k] = last
	return fzJoin(evs), name
}

// fzLogHex: the input as it goes into the child's log (every input is a pure function of seed, batch and index, which
// the line also carries; long inputs are cut to keep the log of a thorough run small).
func fzLogHex(buf []byte) string {
	if len(buf) <= 320 {
		return hex.EncodeToString(buf)
	}
	return fmt.Sprintf("%s...(%d bytes)", hex.EncodeToString(buf[:320]), len(buf))
}

func fzLogCuts(cuts []int) string {
	if len(cuts) > 24 {
		return fmt.Sprintf("%v...(%d chunks)", cuts[:24], len(cuts))
	}
	return fmt.Sprint(cuts)
}

func fzHash(parts ...string) uint64 {
	h := fnv.New64a()
	for _, p := range parts {
		h.Write([]byte(p))
		h.Write([]byte{0})
	}
	return h.Sum64()
}

// ---------------------------------------------------------------------------------------------
// observations: what the application sees per stream slot

type fzObs struct {
	Present bool   `json:"present"`
	Bytes   int    `json:"bytes"`
	Hash    uint64 `json:"hash"`
	State   uint32 `json:"state"`
}

// fzObserve drains every slot's stream as the application would (after everything that arrived has been handled).
func fzObserve(v *fzVictim, ids [fzSlots]uint32) (obs [fzSlots]fzObs) {
	v.takeAccepted()
	for slot, id := range ids {
		st := v.stream(id)
		if st == nil {
			continue
		}
		o := fzObs{Present: true}
		_ = st.readMore(0) // moves pending data into the read buffer, never blocks with minSize 0
		if n := st.recvBuf.Len(); n > 0 {
			data, err := st.recvBuf.ReadString(n)
			if err == nil {
				h := fnv.New64a()
				h.Write([]byte(data))
				o.Bytes, o.Hash = len(data), h.Sum64()
			}
			st.recvBuf.ReleasePreviousRead()
		}
		o.State = st.getStreamState()
		obs[slot] = o
	}
	return
}

// fzPrepareIDs returns stream ids for the slots. Server victims learn streams from the wire (fresh ids per delivery);
// client victims must have opened them. Slot 4 is an id nobody knows, slot 5 a stream the application has closed.
func fzPrepareIDs(v *fzVictim, base *uint32) (ids [fzSlots]uint32, err error) {
	if v.role == "server" {
		for i := 0; i < fzSlots; i++ {
			ids[i] = *base + uint32(i)*2 + 1
		}
		*base += 2 * fzSlots
		return
	}
	for i := 0; i < fzSlots; i++ {
		if i == 4 {
			ids[i] = 0x40000000 + *base
			*base++
			continue
		}
		st, e := v.sess.OpenStream()
		if e != nil {
			return ids, e
		}
		ids[i] = st.id
		if i == 5 {
			st.Close()
		}
	}
	return
}

// fzReleaseIDs closes the delivery's streams (application behaviour) and recycles what the victim sent back.
func fzReleaseIDs(v *fzVictim, ids [fzSlots]uint32) {
	v.takeAccepted()
	for _, id := range ids {
		if st := v.stream(id); st != nil {
			st.Close()
		}
		v.mu.Lock()
		delete(v.accepted, id)
		v.mu.Unlock()
	}
	// zombies: anything else that showed up in acceptCh
	v.mu.Lock()
	for id, st := range v.accepted {
		st.Close()
		delete(v.accepted, id)
	}
	v.mu.Unlock()
	if v.raw.qm != nil {
		_, _ = v.raw.shmPopAll()
	}
}

// ---------------------------------------------------------------------------------------------
// child summaries

type fzViol struct {
	Case    string      `json:"case"`
	Msg     string      `json:"msg"`
	Witness interface{} `json:"witness"`
}

type fzSummary struct {
	Layer    string           `json:"layer"`
	Role     string           `json:"role"`
	Memfd    bool             `json:"memfd"`
	Inputs   int64            `json:"inputs"`
	ByKind   map[string]int64 `json:"by_kind"`
	Counts   map[string]int64 `json:"counts"`
	Keys     []uint64         `json:"keys"`
	Viol     []fzViol         `json:"violations"`
	Inconcl  []string         `json:"inconclusive"`
	Samples  []interface{}    `json:"samples"`
	Finished bool             `json:"finished"`
}

type fzArgs struct {
	Layer  string `json:"layer"`
	Role   string `json:"role"`
	Memfd  bool   `json:"memfd"`
	Seed   int64  `json:"seed"`
	Batch  int    `json:"batch"`
	D1     int    `json:"d1"`
	D1Hard int    `json:"d1hard"`
	D2     int    `json:"d2"`
	S1     int    `json:"s1"`
	S2     int    `json:"s2"`
	S3     bool   `json:"s3"`
	S3Full bool   `json:"s3full"`
	Shard  int    `json:"shard"`
	Shards int    `json:"shards"`
}

type fzRun struct {
	a    fzArgs
	sum  fzSummary
	keys map[uint64]struct{}
	mu   sync.Mutex
}

func newFzRun(a fzArgs) *fzRun {
	return &fzRun{a: a, keys: map[uint64]struct{}{}, sum: fzSummary{Layer: a.Layer, Role: a.Role, Memfd: a.Memfd,
		ByKind: map[string]int64{}, Counts: map[string]int64{}}}
}

func (r *fzRun) viol(cs, msg string, w interface{}) {
	r.mu.Lock()
	if len(r.sum.Viol) < 10 {
		r.sum.Viol = append(r.sum.Viol, fzViol{Case: cs, Msg: msg, Witness: w})
	}
	r.sum.Counts["violations"]++
	r.mu.Unlock()
}

// enough: once a few violations are recorded the phase stops (every further input would cost fresh victims)
func (r *fzRun) enough() bool {
	r.mu.Lock()
	defer r.mu.Unlock()
	return r.sum.Counts["violations"] >= 5
}

func (r *fzRun) count(name string, n int64) {
	r.mu.Lock()
	r.sum.Counts[name] += n
	r.mu.Unlock()
}

func (r *fzRun) input(kind string, key uint64, nontrivial bool) {
	if strings.HasPrefix(kind, "type_") {
		kind = "type_sweep(0..255)"
	} else if strings.HasPrefix(kind, "hs_type_") {
		kind = "hs_type_sweep(0..255)"
	}
	r.mu.Lock()
	r.sum.Inputs++
	r.sum.ByKind[kind]++
	if nontrivial {
		r.keys[key] = struct{}{}
	}
	r.mu.Unlock()
}

func (r *fzRun) finish() {
	r.mu.Lock()
	for k := range r.keys {
		r.sum.Keys = append(r.sum.Keys, k)
	}
	r.sum.Finished = true
	r.mu.Unlock()
	childReply(r.sum)
}

func fzParseArgs(args []string) (fzArgs, bool) {
	var a fzArgs
	if len(args) < 1 || json.Unmarshal([]byte(args[0]), &a) != nil {
		return a, false
	}
	return a, true
}

// ---------------------------------------------------------------------------------------------
// direct layer

// fzCall runs handleEvents under recover().
func fzCall(s *Session, buf []byte) (consumed int, err error, panicked interface{}, stack string) {
	defer func() {
		if p := recover(); p != nil {
			panicked = p
			stack = string(debug.Stack())
		}
	}()
	consumed, err = s.handleEvents(buf)
	return
}

func fzChildDirect(args []string) {
	a, ok := fzParseArgs(args)
	if !ok {
		childReply(fzSummary{})
		return
	}
	fenceInit()
	if pf := os.Getenv("VERIF_FZ_PROF"); pf != "" { // debugging aid: CPU profile of the child
		if f, err := os.Create(pf); err == nil {
			_ = pprof.StartCPUProfile(f)
			defer pprof.StopCPUProfile()
		}
	}
	r := newFzRun(a)
	fzDirectD1(r)
	fzDirectD2(r)
	r.finish()
}

func fzDirectD1(r *fzRun) {
	a := r.a
	var v *fzVictim
	var base uint32 = 1
	newVictim := func() bool {
		var err error
		t0 := time.Now()
		v, err = fzNewVictim(a.Role, a.Memfd)
		if err != nil {
			r.mu.Lock()
			r.sum.Inconcl = append(r.sum.Inconcl, "D1 victim: "+err.Error())
			r.mu.Unlock()
			return false
		}
		v.startDiscard()
		base = 1
		r.count("victims_created", 1)
		r.count("victim_create_us", time.Since(t0).Microseconds())
		return true
	}
	if !newVictim() {
		return
	}
	retired := 0
	total := a.D1 + a.D1Hard
	every := 0
	if a.D1Hard > 0 {
		every = total / a.D1Hard
	}
	nHard, nSoft := 0, 0
	for i := 0; i < total && !r.enough(); i++ {
		rng := caseRand(a.Seed, a.Batch*10000000+i)
		version := v.sess.communicationVersion
		t := fzGenTmpl(rng, 5, 300, true)
		var kind string
		sweep := 0
		if every > 0 && i%every == 0 && nHard < a.D1Hard {
			kind = fzHardMutations[nHard%len(fzHardMutations)]
			sweep = (nHard/len(fzHardMutations) + a.Batch*37) % 256
			nHard++
		} else {
			kind = fzSoftMutations[nSoft%len(fzSoftMutations)]
			nSoft++
		}
		ids, err := fzPrepareIDs(v, &base)
		if err != nil {
			r.count("d1_prepare_failed", 1)
			v.retire(false)
			if !newVictim() {
				return
			}
			continue
		}
		evs := t.instantiate(ids, version)
		buf, name := fzMutate(rng, evs, kind, version, sweep)
		if len(t.Shm) > 0 {
			t.queueShm(v, ids)
		}
		childLog("D1 %d %s %s %s", i, a.Role, name, fzLogHex(buf))
		consumed, herr, p, stack := fzCall(v.sess, buf)
		key := fzHash("D1", a.Role, t.typeSeq(), name)
		r.input(name, key, len(buf) >= headerSize)
		w := map[string]interface{}{"layer": "direct D1", "role": a.Role, "memfd": a.Memfd, "idx": i, "batch": a.Batch, "seed": a.Seed,
			"mutation": name, "template": t, "input_hex": hex.EncodeToString(buf), "consumed": consumed}
		dead := false
		switch {
		case p != nil:
			w["panic"], w["stack"] = fmt.Sprint(p), truncate(stack, 4000)
			r.viol(fmt.Sprintf("D1-%s-%d", name, i), fmt.Sprintf("handleEvents panicked on a %s session: %v", a.Role, p), w)
			dead = true
		case consumed < 0 || consumed > len(buf):
			w["error"] = fmt.Sprint(herr)
			r.viol(fmt.Sprintf("D1-%s-%d", name, i), fmt.Sprintf("handleEvents consumed %d of %d bytes", consumed, len(buf)), w)
			dead = true
		case herr != nil:
			r.count("d1_sessions_ended_with_error", 1)
			dead = true
		case consumed < len(buf):
			// the session waits for more bytes: offering the same unconsumed bytes again must change nothing
			r.count("d1_waiting_for_more_bytes", 1)
			c2, e2, p2, st2 := fzCall(v.sess, buf[consumed:])
			if p2 != nil || c2 != 0 || e2 != nil {
				w["second_call"] = map[string]interface{}{"consumed": c2, "error": fmt.Sprint(e2), "panic": fmt.Sprint(p2), "stack": truncate(st2, 3000)}
				r.viol(fmt.Sprintf("D1-%s-%d", name, i), fmt.Sprintf("handleEvents returned nil after consuming %d of %d bytes, but the %d unconsumed bytes are not an incomplete event: offered again they gave consumed=%d err=%v panic=%v (part of an event was consumed)",
					consumed, len(buf), len(buf)-consumed, c2, e2, p2), w)
				dead = true
			}
		default:
			r.count("d1_fully_consumed", 1)
		}
		if dead {
			t0 := time.Now()
			v.retire(false)
			r.count("victim_retire_us", time.Since(t0).Microseconds())
			retired++
			if retired%64 == 0 {
				fence() // let the loop run the teardown lambdas
			}
			if !newVictim() {
				return
			}
			continue
		}
		if i%8 == 7 || v.role == "client" {
			fzReleaseIDs(v, ids)
		} else {
			v.takeAccepted()
		}
		if base > 1<<20 {
			v.retire(false)
			if !newVictim() {
				return
			}
		}
	}
	v.retire(true)
}

func fzDirectD2(r *fzRun) {
	a := r.a
	if a.D2 == 0 {
		return
	}
	var v1, v2 *fzVictim
	var base1, base2 uint32
	mk := func() bool {
		var err error
		if v1, err = fzNewVictim(a.Role, a.Memfd); err == nil {
			v2, err = fzNewVictim(a.Role, a.Memfd)
			if err != nil {
				v1.retire(false)
			}
		}
		if err != nil {
			r.mu.Lock()
			r.sum.Inconcl = append(r.sum.Inconcl, "D2 victims: "+err.Error())
			r.mu.Unlock()
			return false
		}
		v1.startDiscard()
		v2.startDiscard()
		base1, base2 = 1, 1
		return true
	}
	if !mk() {
		return
	}
	for i := 0; i < a.D2 && !r.enough(); i++ {
		rng := caseRand(a.Seed, a.Batch*10000000+5000000+i)
		t := fzGenTmpl(rng, 7, 300, true)
		ids1, e1 := fzPrepareIDs(v1, &base1)
		ids2, e2 := fzPrepareIDs(v2, &base2)
		if e1 != nil || e2 != nil || ids1 != ids2 {
			r.count("d2_prepare_failed", 1)
			v1.retire(false)
			v2.retire(false)
			if !mk() {
				return
			}
			continue
		}
		version := v1.sess.communicationVersion
		buf := fzJoin(t.instantiate(ids1, version))
		if len(t.Shm) > 0 {
			ok1 := t.queueShm(v1, ids1)
			ok2 := t.queueShm(v2, ids2)
			if ok1 != ok2 {
				// allocators diverged (cannot happen with mirrored histories); start over rather than compare apples and pears
				r.count("d2_allocators_diverged", 1)
				v1.retire(false)
				v2.retire(false)
				if !mk() {
					return
				}
				continue
			}
		}
		// cuts for the second victim
		nCuts := 1 + rng.Intn(6)
		cutSet := map[int]bool{}
		for k := 0; k < nCuts && len(buf) > 1; k++ {
			cutSet[1+rng.Intn(len(buf)-1)] = true
		}
		var cuts []int
		for c := range cutSet {
			cuts = append(cuts, c)
		}
		sort.Ints(cuts)
		cuts = append(cuts, len(buf))
		childLog("D2 %d %s cuts=%v %s", i, a.Role, cuts, fzLogHex(buf))
		r.input("valid_sequence_split", fzHash("D2", a.Role, t.typeSeq()), len(buf) >= headerSize)
		w := map[string]interface{}{"layer": "direct D2", "role": a.Role, "memfd": a.Memfd, "idx": i, "batch": a.Batch, "seed": a.Seed,
			"template": t, "input_hex": hex.EncodeToString(buf), "cuts": cuts}
		c1, err1, p1, st1 := fzCall(v1.sess, buf)
		var pending []byte
		total, prev := 0, 0
		var err2 error
		var p2 interface{}
		var st2 string
		for _, c := range cuts {
			pending = append(pending, buf[prev:c]...)
			prev = c
			var n int
			n, err2, p2, st2 = fzCall(v2.sess, pending)
			if p2 != nil {
				break
			}
			if n < 0 || n > len(pending) {
				w["piece_consumed"] = n
				total = -1
				break
			}
			pending = pending[n:]
			total += n
			if err2 != nil {
				break
			}
		}
		bad := false
		switch {
		case p1 != nil || p2 != nil:
			w["panic_whole"], w["panic_split"] = fmt.Sprint(p1), fmt.Sprint(p2)
			w["stack"] = truncate(st1+st2, 4000)
			r.viol(fmt.Sprintf("D2-%d", i), fmt.Sprintf("handleEvents panicked on a valid event sequence (whole: %v, split: %v)", p1, p2), w)
			bad = true
		case err1 != nil || err2 != nil:
			w["error_whole"], w["error_split"] = fmt.Sprint(err1), fmt.Sprint(err2)
			r.viol(fmt.Sprintf("D2-%d", i), fmt.Sprintf("a well-formed event sequence was rejected (whole: %v, split: %v)", err1, err2), w)
			bad = true
		case c1 != total:
			w["consumed_whole"], w["consumed_split"] = c1, total
			r.viol(fmt.Sprintf("D2-%d", i), fmt.Sprintf("consumed bytes differ: whole %d, in pieces %d (of %d)", c1, total, len(buf)), w)
			bad = true
		default:
			o1, o2 := fzObserve(v1, ids1), fzObserve(v2, ids2)
			if o1 != o2 {
				w["observed_whole"], w["observed_split"] = o1, o2
				r.viol(fmt.Sprintf("D2-%d", i), "per-stream observations differ between the whole and the split delivery of the same valid bytes", w)
				bad = true
			} else {
				r.count("d2_fragmentations_compared", 1)
				for _, o := range o1 {
					if o.Bytes > 0 {
						r.count("d2_stream_bytes_observed", int64(o.Bytes))
					}
				}
				if i < 2 {
					r.mu.Lock()
					r.sum.Samples = append(r.sum.Samples, map[string]interface{}{"layer": "D2", "template": t.typeSeq(), "cuts": cuts, "observed": o1})
					r.mu.Unlock()
				}
			}
		}
		if bad {
			v1.retire(false)
			v2.retire(false)
			if !mk() {
				return
			}
			continue
		}
		fzReleaseIDs(v1, ids1)
		fzReleaseIDs(v2, ids2)
		if i%4096 == 4095 {
			v1.retire(false)
			v2.retire(false)
			fence()
			if !mk() {
				return
			}
		}
	}
	v1.retire(true)
	v2.retire(true)
}

// ---------------------------------------------------------------------------------------------
// socket layer

type fzEcho struct {
	p   *sessPair
	n   uint64
	key uint64
}

func fzNewEcho() (*fzEcho, error) {
	p, err := newSessionPair(pairOpt{memfd: true, bufCap: 1 << 20, noAccept: true})
	if err != nil {
		return nil, err
	}
	go func() {
		for {
			st, err := p.server.AcceptStream()
			if err != nil {
				return
			}
			go func(st *Stream) {
				buf := make([]byte, 4096)
				for {
					n, err := st.Read(buf)
					if n > 0 {
						if _, werr := st.Write(buf[:n]); werr != nil {
							return
						}
					}
					if err != nil {
						st.Close()
						return
					}
				}
			}(st)
		}
	}()
	return &fzEcho{p: p, key: 4242}, nil
}

// check: one echo round trip on the healthy pair B. "" = fine; otherwise what went wrong; timedOut tells a watchdog.
func (e *fzEcho) check() (problem string, timedOut bool) {
	if e.p.client.IsClosed() || e.p.server.IsClosed() {
		return fmt.Sprintf("healthy session closed: client %v server %v", e.p.client.shutdownErr, e.p.server.shutdownErr), false
	}
	st, err := e.p.client.OpenStream()
	if err != nil {
		return "OpenStream on the healthy session: " + err.Error(), false
	}
	defer st.Close()
	_ = st.SetDeadline(time.Now().Add(20 * time.Second))
	msg := make([]byte, 64)
	e.n++
	fillKeyed(msg, e.key, e.n*64)
	if _, err := st.Write(msg); err != nil {
		return "write on the healthy session: " + err.Error(), err == ErrTimeout
	}
	got := make([]byte, 0, 64)
	buf := make([]byte, 64)
	for len(got) < 64 {
		n, err := st.Read(buf)
		got = append(got, buf[:n]...)
		if err != nil {
			return "read on the healthy session: " + err.Error(), err == ErrTimeout
		}
	}
	if string(got) != string(msg) {
		return "the healthy session echoed different bytes", false
	}
	return "", false
}

// fzDeliver writes the chunks; after each chunk it waits until the child's loop has handled it.
func fzDeliver(v *fzVictim, buf []byte, cuts []int) error {
	prev := 0
	for _, c := range cuts {
		if c <= prev {
			continue
		}
		if err := v.raw.send(buf[prev:c]); err != nil {
			return err
		}
		prev = c
		if !fence() {
			return fmt.Errorf("fence watchdog")
		}
	}
	return nil
}

func fzCuts(rng *rand.Rand, n int, mode string) []int {
	switch mode {
	case "whole":
		return []int{n}
	case "bytewise":
		out := make([]int, n)
		for i := range out {
			out[i] = i + 1
		}
		return out
	}
	set := map[int]bool{n: true}
	for k := 0; k < 1+rng.Intn(8) && n > 1; k++ {
		set[1+rng.Intn(n-1)] = true
	}
	var out []int
	for c := range set {
		out = append(out, c)
	}
	sort.Ints(out)
	return out
}

func fzChildSock(args []string) {
	a, ok := fzParseArgs(args)
	if !ok {
		childReply(fzSummary{})
		return
	}
	fenceInit()
	r := newFzRun(a)
	echo, err := fzNewEcho()
	if err != nil {
		r.sum.Inconcl = append(r.sum.Inconcl, "healthy pair: "+err.Error())
		r.finish()
		return
	}
	if p, _ := echo.check(); p != "" {
		r.sum.Inconcl = append(r.sum.Inconcl, "healthy pair does not echo before any input: "+p)
		r.finish()
		return
	}
	fzSockS1(r, echo)
	fzSockS2(r, echo)
	if a.S3 {
		fzSockS3(r, echo)
	}
	echo.p.close()
	r.finish()
}

func (r *fzRun) echoCheck(echo *fzEcho, cs string, w interface{}) bool {
	p, timedOut := echo.check()
	if p == "" {
		r.count("healthy_session_echo_ok", 1)
		return true
	}
	if timedOut && !fence() {
		r.mu.Lock()
		r.sum.Inconcl = append(r.sum.Inconcl, cs+": echo watchdog and fence watchdog: "+p)
		r.mu.Unlock()
		return false
	}
	r.viol(cs, "the unrelated healthy session B stopped echoing after this input: "+p, w)
	return false
}

// S1: valid sequences, three fragmentations, identical observations
func fzSockS1(r *fzRun, echo *fzEcho) {
	a := r.a
	if a.S1 == 0 {
		return
	}
	v, err := fzNewVictim(a.Role, a.Memfd)
	if err != nil {
		r.sum.Inconcl = append(r.sum.Inconcl, "S1 victim: "+err.Error())
		return
	}
	v.startDiscard()
	var base uint32 = 1
	renew := func() bool {
		v.retire(false)
		var err error
		if v, err = fzNewVictim(a.Role, a.Memfd); err != nil {
			r.sum.Inconcl = append(r.sum.Inconcl, "S1 victim: "+err.Error())
			return false
		}
		v.startDiscard()
		base = 1
		return true
	}
	for i := 0; i < a.S1 && !r.enough(); i++ {
		rng := caseRand(a.Seed, a.Batch*10000000+6000000+i)
		t := fzGenTmpl(rng, 6, 48, true)
		var ref [fzSlots]fzObs
		var refMode string
		w := map[string]interface{}{"layer": "socket S1", "role": a.Role, "memfd": a.Memfd, "idx": i, "batch": a.Batch, "seed": a.Seed, "template": t}
		broken := false
		for mi, mode := range []string{"whole", "bytewise", "prng"} {
			ids, err := fzPrepareIDs(v, &base)
			if err != nil {
				r.count("s1_prepare_failed", 1)
				broken = true
				break
			}
			buf := fzJoin(t.instantiate(ids, v.sess.communicationVersion))
			cuts := fzCuts(rng, len(buf), mode)
			if len(t.Shm) > 0 && !t.queueShm(v, ids) {
				r.count("s1_shm_exhausted", 1)
				broken = true
				break
			}
			childLog("S1 %d %s %s cuts=%v %s", i, a.Role, mode, fzLogCuts(cuts), fzLogHex(buf))
			r.input("valid_sequence_"+mode, fzHash("S1", a.Role, t.typeSeq(), mode), true)
			if err := fzDeliver(v, buf, cuts); err != nil {
				r.mu.Lock()
				r.sum.Inconcl = append(r.sum.Inconcl, fmt.Sprintf("S1-%d %s: %v", i, mode, err))
				r.mu.Unlock()
				broken = true
				break
			}
			r.count("s1_chunks_written", int64(len(cuts)))
			if v.sess.IsClosed() {
				w["mode"], w["input_hex"], w["shutdown_error"] = mode, hex.EncodeToString(buf), fmt.Sprint(v.sess.shutdownErr)
				r.viol(fmt.Sprintf("S1-%d-%s", i, mode), fmt.Sprintf("a well-formed event sequence (delivery: %s) ended the session: %v", mode, v.sess.shutdownErr), w)
				broken = true
				break
			}
			obs := fzObserve(v, ids)
			fzReleaseIDs(v, ids)
			if mi == 0 {
				ref, refMode = obs, mode
			} else if obs != ref {
				w["input_hex"], w["cuts"] = hex.EncodeToString(buf), cuts
				w["observed_"+refMode], w["observed_"+mode] = ref, obs
				r.viol(fmt.Sprintf("S1-%d-%s", i, mode), fmt.Sprintf("the same well-formed bytes produced different per-stream observations when delivered %s and %s", refMode, mode), w)
				broken = true
				break
			} else {
				r.count("s1_fragmentations_compared", 1)
			}
		}
		if broken {
			if !renew() {
				return
			}
			continue
		}
		for _, o := range ref {
			r.count("s1_stream_bytes_observed", int64(o.Bytes))
		}
		if i < 2 {
			r.sum.Samples = append(r.sum.Samples, map[string]interface{}{"layer": "S1", "template": t.typeSeq(), "observed": ref})
		}
		if i%64 == 63 {
			if !r.echoCheck(echo, fmt.Sprintf("S1-%d", i), w) {
				return
			}
		}
	}
	v.retire(true)
}

// S2: malformed inputs end only the victim
func fzSockS2(r *fzRun, echo *fzEcho) {
	a := r.a
	for i := 0; i < a.S2 && !r.enough(); i++ {
		rng := caseRand(a.Seed, a.Batch*10000000+7000000+i)
		v, err := fzNewVictim(a.Role, a.Memfd)
		if err != nil {
			r.sum.Inconcl = append(r.sum.Inconcl, "S2 victim: "+err.Error())
			return
		}
		v.startDiscard()
		var base uint32 = 1
		ids, _ := fzPrepareIDs(v, &base)
		t := fzGenTmpl(rng, 4, 64, true)
		kind := fzMutations[i%(len(fzMutations)-1)] // not "none"
		buf, name := fzMutate(rng, t.instantiate(ids, v.sess.communicationVersion), kind, v.sess.communicationVersion, (i*7+i/len(fzMutations))%256)
		if len(t.Shm) > 0 {
			t.queueShm(v, ids)
		}
		mode := []string{"whole", "prng", "bytewise"}[rng.Intn(3)]
		if len(buf) > 200 {
			mode = "prng"
		}
		cuts := fzCuts(rng, len(buf), mode)
		childLog("S2 %d %s %s %s cuts=%v %s", i, a.Role, name, mode, fzLogCuts(cuts), fzLogHex(buf))
		r.input(name, fzHash("S2", a.Role, t.typeSeq(), name), len(buf) >= headerSize)
		w := map[string]interface{}{"layer": "socket S2", "role": a.Role, "memfd": a.Memfd, "idx": i, "batch": a.Batch, "seed": a.Seed,
			"mutation": name, "mode": mode, "cuts": cuts, "input_hex": hex.EncodeToString(buf), "template": t}
		if len(buf) > 0 {
			if err := fzDeliver(v, buf, cuts); err != nil && !strings.Contains(err.Error(), "pipe") && !strings.Contains(err.Error(), "reset") {
				r.sum.Inconcl = append(r.sum.Inconcl, fmt.Sprintf("S2-%d: %v", i, err))
			}
		}
		fence()
		if v.sess.IsClosed() {
			r.count("s2_sessions_ended_with_error", 1)
			v.sess.shutdownLock.Lock()
			e := v.sess.shutdownErr
			v.sess.shutdownLock.Unlock()
			if e == nil {
				r.viol(fmt.Sprintf("S2-%s-%d", name, i), "the session ended without an error", w)
			}
		} else {
			r.count("s2_sessions_still_serving", 1)
		}
		okB := r.echoCheck(echo, fmt.Sprintf("S2-%s-%d", name, i), w)
		v.retire(false)
		if !okB {
			return
		}
	}
	fence()
}

// ---------------------------------------------------------------------------------------------
// S3: handshake-phase mutations

type fzHsCase struct {
	Script   string `json:"script"`
	Judged   string `json:"library_role"`
	Memfd    bool   `json:"memfd"`
	Step     int    `json:"step"`
	StepName string `json:"step_name"`
	Mut      string `json:"mutation"`
	Arg      int    `json:"arg"`
}

// fzHsMutateBytes mutates one handshake message; ok=false: the mutation does not apply to this message.
func fzHsMutateBytes(data []byte, hasBody bool, mut string, arg int, rng *rand.Rand) ([]byte, bool) {
	d := append([]byte{}, data...)
	put16 := func(off int, v int) bool {
		if off+2 > len(d) {
			return false
		}
		binary.BigEndian.PutUint16(d[off:], uint16(v))
		return true
	}
	qlen := 0
	if hasBody && len(d) >= headerSize+2 {
		qlen = int(binary.BigEndian.Uint16(d[headerSize:]))
	}
	switch mut {
	case "truncate_half":
		return d[:len(d)/2], true
	case "truncate_header":
		return d[:headerSize/2], true
	case "header_only":
		if !hasBody {
			return nil, false
		}
		return d[:headerSize], true
	case "len_zero":
		binary.BigEndian.PutUint32(d, 0)
	case "len_below_header":
		binary.BigEndian.PutUint32(d, uint32(1+arg%7))
	case "len_header_only":
		if !hasBody {
			return nil, false
		}
		binary.BigEndian.PutUint32(d, headerSize)
	case "len_short_body":
		if !hasBody {
			return nil, false
		}
		binary.BigEndian.PutUint32(d, uint32(headerSize+1+arg%3)) // body of 1..3 bytes: shorter than the two length fields
		return d[:headerSize+1+arg%3], true
	case "len_above":
		binary.BigEndian.PutUint32(d, uint32(len(d)+1+arg))
	case "len_max":
		binary.BigEndian.PutUint32(d, 0xffffffff)
	case "len_huge_1g":
		binary.BigEndian.PutUint32(d, 1<<30)
	case "bad_magic":
		d[4] ^= 0x5a
	case "version":
		d[6] = byte(arg)
	case "type":
		d[7] = byte(arg)
	case "queue_len_exceeds_body":
		if !hasBody || !put16(headerSize, len(d)+arg) {
			return nil, false
		}
	case "queue_len_max":
		if !hasBody || !put16(headerSize, 0xffff) {
			return nil, false
		}
	case "buffer_len_exceeds_body":
		if !hasBody || !put16(headerSize+2+qlen, len(d)+arg) {
			return nil, false
		}
	case "buffer_len_field_cut":
		if !hasBody || headerSize+2+qlen+1 > len(d) {
			return nil, false
		}
		d = d[:headerSize+2+qlen+1] // body ends in the middle of the second length field
		binary.BigEndian.PutUint32(d, uint32(len(d)))
	case "queue_len_eats_everything":
		if !hasBody {
			return nil, false
		}
		put16(headerSize, len(d)-headerSize-2) // queue path = rest of the body, no room for the buffer length
	case "empty_paths":
		if !hasBody {
			return nil, false
		}
		d = d[:headerSize+4]
		put16(headerSize, 0)
		put16(headerSize+2, 0)
		binary.BigEndian.PutUint32(d, uint32(len(d)))
	case "empty_body":
		if !hasBody {
			return nil, false
		}
		d = d[:headerSize]
		binary.BigEndian.PutUint32(d, headerSize)
	case "garbage_body":
		if !hasBody {
			return nil, false
		}
		rng.Read(d[headerSize:])
	case "huge_paths":
		if !hasBody {
			return nil, false
		}
		q := strings.Repeat("q", 30000)
		b := strings.Repeat("b", 30000)
		nd := rawMetadata(header(d).MsgType(), d[6], "/dev/shm/"+q, "/dev/shm/"+b)
		return nd, true
	case "paths_are_directories":
		if !hasBody {
			return nil, false
		}
		return rawMetadata(header(d).MsgType(), d[6], "/dev/shm", "/dev"), true
	case "paths_missing":
		if !hasBody {
			return nil, false
		}
		return rawMetadata(header(d).MsgType(), d[6], "/dev/shm/verif_no_such_queue", "/dev/shm/verif_no_such_buffer"), true
	case "random":
		d = make([]byte, 1+arg%64)
		rng.Read(d)
	default:
		return nil, false
	}
	return d, true
}

var fzHsMutations = []string{"truncate_half", "truncate_header", "header_only", "len_zero", "len_below_header", "len_header_only",
	"len_short_body", "len_above", "len_max", "len_huge_1g", "bad_magic", "queue_len_exceeds_body", "queue_len_max",
	"buffer_len_exceeds_body", "buffer_len_field_cut", "queue_len_eats_everything", "empty_paths", "empty_body", "garbage_body",
	"huge_paths", "paths_are_directories", "paths_missing", "random"}

func fzHsCaseList(full bool) []fzHsCase {
	var out []fzHsCase
	for _, sc := range []struct {
		kind, judged string
		memfd        bool
	}{{"c3m", "server", true}, {"c3f", "server", false}, {"c2f", "server", false}, {"s3m", "client", true}} {
		for k, st := range rawScript(sc.kind) {
			if !st.Send {
				continue
			}
			base := fzHsCase{Script: sc.kind, Judged: sc.judged, Memfd: sc.memfd, Step: k, StepName: st.Name}
			if st.bytes == nil {
				// the descriptor passing step
				for _, m := range []string{"fds_one", "fds_three", "fds_not_memfd", "fds_none_but_data", "fds_closed_peer"} {
					cs := base
					cs.Mut = m
					out = append(out, cs)
				}
				continue
			}
			for _, m := range fzHsMutations {
				cs := base
				cs.Mut = m
				out = append(out, cs)
			}
			for _, ver := range []int{0, 1, 2, 4, 255} {
				cs := base
				cs.Mut, cs.Arg = "version", ver
				out = append(out, cs)
			}
			step := 1
			if !full && k > 0 {
				step = 9 // all 256 types on the first message of each exchange, a sample on the later ones
			}
			for ty := 0; ty < 256; ty += step {
				cs := base
				cs.Mut, cs.Arg = "type", ty
				out = append(out, cs)
			}
		}
	}
	return out
}

func fzRunHsCase(r *fzRun, cs fzHsCase, idx int) {
	rng := caseRand(r.a.Seed, 9000000+idx)
	libIsClient := cs.Judged == "client"
	prefix := fmt.Sprintf("%sfzh%d", shmPrefix(), atomic.AddUint64(&fzSeq, 1))
	conf := fzConf(prefix, cs.Memfd, fzHsTO)
	defer func() {
		for _, f := range []string{prefix + "_queue", prefix + "_buffer"} {
			_ = os.Remove(f)
		}
	}()
	cli, srv, path, err := connPair(false)
	if err != nil {
		r.count("s3_setup_failed", 1)
		return
	}
	if path != "" {
		defer os.Remove(path)
	}
	libConn, rawConn := srv, cli
	if libIsClient {
		libConn, rawConn = cli, srv
	}
	raw, err := rawFromConn(rawConn)
	if err != nil {
		libConn.Close()
		r.count("s3_setup_failed", 1)
		return
	}
	defer raw.releaseShm()
	defer raw.close()
	if !libIsClient {
		if err := raw.createShm(prefix, cs.Memfd, conf.QueueCap, conf.ShareMemoryBufferCap, conf.BufferSliceSizes); err != nil {
			libConn.Close()
			r.count("s3_setup_failed", 1)
			return
		}
		if cs.Script == "c2f" {
			raw.version = 2
		}
	}
	steps := rawScript(cs.Script)
	var sent []byte
	var extraFds []int
	defer func() {
		for _, fd := range extraFds {
			unix.Close(fd)
		}
	}()
	// build the mutated message before the library end starts, so that the log line precedes the execution
	if steps[cs.Step].bytes != nil {
		var ok bool
		sent, ok = fzHsMutateBytes(steps[cs.Step].bytes(raw), steps[cs.Step].HasBody, cs.Mut, cs.Arg, rng)
		if !ok {
			libConn.Close()
			r.count("s3_mutation_not_applicable", 1)
			return
		}
	}
	childLog("S3 %d %s step=%d %s %s arg=%d %s", idx, cs.Script, cs.Step, cs.StepName, cs.Mut, cs.Arg, hex.EncodeToString(sent[:minInt(len(sent), 256)]))
	mutName := cs.Mut
	if cs.Mut == "type" {
		mutName = fmt.Sprintf("hs_type_%d", cs.Arg)
	} else if cs.Mut == "version" {
		mutName = fmt.Sprintf("hs_version_%d", cs.Arg)
	} else {
		mutName = "hs_" + cs.Mut
	}
	r.input(mutName, fzHash("S3", cs.Script, cs.StepName, mutName), true)
	resCh := hsStartLib(conf, libConn, libIsClient)
	_, serr := raw.runScript(steps, 0, cs.Step, 5*time.Second, nil)
	var cerr error
	if serr == nil {
		if sent != nil {
			_ = raw.send(sent)
		} else {
			switch cs.Mut {
			case "fds_one":
				_ = raw.sendFds(raw.bmFd)
			case "fds_three":
				_ = raw.sendFds(raw.bmFd, raw.qm.memFd, raw.bmFd)
			case "fds_not_memfd":
				a, e1 := unix.Open("/dev/null", unix.O_RDWR, 0)
				b, e2 := unix.Socket(unix.AF_UNIX, unix.SOCK_STREAM, 0)
				if e1 == nil && e2 == nil {
					extraFds = append(extraFds, a, b)
					_ = raw.sendFds(a, b)
				}
			case "fds_none_but_data":
				_ = raw.send(rawEvent(raw.version, typeAckShareMemory))
			case "fds_closed_peer":
				raw.close()
			}
		}
		// go on with the rest of the exchange as if nothing had happened (a benign mutation may let it complete)
		_, cerr = raw.runScript(steps, cs.Step+1, len(steps), 400*time.Millisecond, nil)
	}
	res := hsAwait(resCh, 30*time.Second)
	w := map[string]interface{}{"layer": "socket S3 (handshake)", "case": cs, "idx": idx, "sent_hex": hex.EncodeToString(sent[:minInt(len(sent), 256)])}
	switch {
	case !res.returned:
		if res.maxLate >= hsLateLimit {
			r.mu.Lock()
			r.sum.Inconcl = append(r.sum.Inconcl, fmt.Sprintf("S3-%d newSession did not return within 30 s on a late machine", idx))
			r.mu.Unlock()
		} else {
			r.viol(fmt.Sprintf("S3-%s-%d-%s", cs.Script, cs.Step, mutName), "newSession did not return within 30 s (InitializeTimeout 1 s) after a mutated handshake message", w)
		}
		raw.close()
		hsAwait(resCh, 5*time.Second)
	case res.sess != nil:
		// the library end accepted the exchange: the session it returned has to be usable, not just exist
		r.count("s3_handshake_completed_despite_mutation", 1)
		rawReady := serr == nil && cerr == nil && raw.qm != nil && raw.bm != nil && !raw.isClosed()
		childLog("S3X %d %s step=%d %s %s arg=%d: exercising the session (version %d, raw peer ready %v)", idx, cs.Script, cs.Step, cs.StepName,
			cs.Mut, cs.Arg, res.sess.communicationVersion, rawReady)
		fzExerciseSession(r, fmt.Sprintf("S3-%s-%d-%s-use", cs.Script, cs.Step, mutName), w, res.sess, raw, rawReady)
		raw.close()
	case res.err != nil && strings.Contains(res.err.Error(), "timeout"):
		r.count("s3_waited_until_timeout", 1)
	default:
		r.count("s3_rejected_with_error", 1)
	}
	if serr != nil {
		r.count("s3_script_did_not_reach_the_step", 1)
	}
}

// fzExerciseSession uses a session whose handshake completed although one message of the exchange was odd: the negotiated
// version must be one this build supports, and every path that stamps or looks up something by that version, or walks the
// memory the exchange set up, must work: a write through share memory (queue element + polling event), inbound data
// (element + polling event from the raw peer), a write that falls back to the socket, the stream's close, the session's
// close. Judged: no panic here, none on the event loop (the child stays alive), version in range. A step that merely
// does not complete (watchdog, short data) is counted, not judged: C13 is about crashes.
func fzExerciseSession(r *fzRun, name string, w map[string]interface{}, s *Session, raw *rawPeer, rawReady bool) {
	step := "start"
	defer func() {
		if p := recover(); p != nil {
			w["panic"], w["stack"], w["exercise_step"] = fmt.Sprint(p), truncate(string(debug.Stack()), 4000), step
			w["communication_version"] = s.communicationVersion
			r.viol(name, fmt.Sprintf("panic while using a session (communicationVersion %d) whose handshake completed after an odd message, at step %q: %v",
				s.communicationVersion, step, p), w)
		}
		s.Close()
		waitTeardown(s, 20*time.Second)
	}()
	failed := func(what string, err error) {
		r.count("s3_exercise_step_incomplete_not_judged", 1)
		r.mu.Lock()
		if len(r.sum.Samples) < 6 {
			r.sum.Samples = append(r.sum.Samples, map[string]interface{}{"layer": "S3 exercise", "case": name, "step": what, "error": fmt.Sprint(err)})
		}
		r.mu.Unlock()
	}
	r.count("s3_sessions_exercised", 1)
	if v := s.communicationVersion; v == 0 || v > maxSupportProtoVersion {
		w["communication_version"] = v
		r.viol(name, fmt.Sprintf("the handshake completed with communicationVersion %d; this build supports 1..%d (every later event is stamped with it and pollingEventWithVersion is indexed by it)",
			v, maxSupportProtoVersion), w)
		// go on: the child has to survive the use of this session as well
	}
	key := uint64(0xe0e0) + uint64(s.communicationVersion)
	step = "OpenStream"
	st, err := s.OpenStream()
	if err != nil {
		failed(step, err)
		return
	}
	_ = st.SetDeadline(time.Now().Add(10 * time.Second))
	out := make([]byte, 100)
	fillKeyed(out, key, 0)
	step = "WriteBytes+Flush through share memory"
	if _, err := st.BufferWriter().WriteBytes(out); err != nil {
		failed(step, err)
		return
	}
	if err := st.Flush(false); err != nil {
		failed(step, err)
		return
	}
	if rawReady {
		step = "raw peer takes the element after the polling event"
		got, _, _, err := raw.awaitStream(st.id, len(out), false, 10*time.Second)
		if err != nil || string(got) != string(out) {
			failed(step, fmt.Errorf("%d of %d bytes, err %v", len(got), len(out), err))
			return
		}
		r.count("s3_exercise_outbound_shm_ok", 1)
		step = "inbound polling event + data element"
		in := make([]byte, 60)
		fillKeyed(in, key+1, 0)
		if _, err := raw.shmPut(st.id, in, streamOpened); err != nil {
			failed(step, err)
			return
		}
		if raw.wakeNeeded() {
			if err := raw.send(rawEvPolling(raw.version)); err != nil {
				failed(step, err)
				return
			}
		}
		got = got[:0]
		buf := make([]byte, len(in))
		for len(got) < len(in) {
			n, err := st.Read(buf)
			got = append(got, buf[:n]...)
			if err != nil {
				break
			}
		}
		if string(got) != string(in) {
			failed(step, fmt.Errorf("read %d of %d bytes", len(got), len(in)))
			return
		}
		st.BufferReader().ReleasePreviousRead()
		r.count("s3_exercise_inbound_ok", 1)
	}
	step = "write that falls back to the socket"
	var hoarded [][]*bufferSlice
	for i := range s.bufferManager.lists {
		hoarded = append(hoarded, hoard(s.bufferManager, i, 1<<20))
	}
	fb := make([]byte, 80)
	fillKeyed(fb, key+2, 0)
	_, werr := st.Write(fb)
	for _, h := range hoarded {
		unhoard(s.bufferManager, h)
	}
	if werr != nil {
		failed(step, werr)
		return
	}
	if rawReady {
		got, via, _, err := raw.awaitStream(st.id, len(fb), false, 10*time.Second)
		if err != nil || string(got) != string(fb) || via == 0 {
			failed(step, fmt.Errorf("%d of %d bytes, %d fallback events, err %v", len(got), len(fb), via, err))
			return
		}
		r.count("s3_exercise_fallback_ok", 1)
	}
	step = "Stream.Close"
	if err := st.Close(); err != nil {
		failed(step, err)
		return
	}
	if rawReady {
		if _, _, closed, err := raw.awaitStream(st.id, 0, true, 10*time.Second); err != nil || !closed {
			failed("raw peer sees the stream's close", err)
			return
		}
		r.count("s3_exercise_close_seen", 1)
	}
	step = "Session.Close"
	r.count("s3_exercise_complete", 1)
}

func fzSockS3(r *fzRun, echo *fzEcho) {
	list := fzHsCaseList(r.a.S3Full)
	var wg sync.WaitGroup
	jobs := make(chan int)
	for w := 0; w < 12; w++ {
		wg.Add(1)
		go func() {
			defer wg.Done()
			for i := range jobs {
				fzRunHsCase(r, list[i], i)
			}
		}()
	}
	n := 0
	for i := range list {
		if r.a.Shards > 1 && i%r.a.Shards != r.a.Shard {
			continue
		}
		n++
		jobs <- i
		if n%200 == 199 {
			if !r.echoCheck(echo, fmt.Sprintf("S3-upto-%d", i), map[string]interface{}{"after_handshake_case": list[i]}) {
				break
			}
		}
	}
	close(jobs)
	wg.Wait()
	fence()
	r.echoCheck(echo, "S3-end", map[string]interface{}{"after": "all handshake mutations"})
	r.count("s3_cases", int64(n))
}

// ---------------------------------------------------------------------------------------------
// parent

func fzLastLogLines(path string, n int) []string {
	data, err := os.ReadFile(path)
	if err != nil {
		return nil
	}
	if len(data) > 1<<16 {
		data = data[len(data)-(1<<16):]
	}
	lines := strings.Split(strings.TrimRight(string(data), "\n"), "\n")
	if len(lines) > n {
		lines = lines[len(lines)-n:]
	}
	for i := range lines {
		lines[i] = truncate(lines[i], 1200)
	}
	return lines
}

func fzRunChild(c *checkCtx, role string, a fzArgs, agg *fzAgg) {
	data, _ := json.Marshal(a)
	var env []string
	if a.Batch%3 == 1 {
		// a legal, rarely used configuration: protocol tracing on (its output is level-gated and stays silent here)
		env = append(env, "SHMIPC_PROTOCOL_TRACE=1")
		c.count("child_batches_with_protocol_trace_on", 1)
	}
	cp, err := c.spawnChild(role, []string{string(data)}, env...)
	if err != nil {
		c.inconclusiveCase(fmt.Sprintf("%s-%s-%d", role, a.Role, a.Batch), "spawn: "+err.Error())
		return
	}
	name := fmt.Sprintf("%s-%s-memfd%v-batch%d", a.Layer, a.Role, a.Memfd, a.Batch)
	var sum fzSummary
	_, ok := cp.recv(time.Duration(c.pick(5, 40))*time.Minute, &sum)
	cp.stdin.Close()
	pid := 0
	if cp.cmd != nil && cp.cmd.Process != nil {
		pid = cp.cmd.Process.Pid
	}
	ex := cp.wait(20 * time.Second)
	if pid > 0 {
		// a child that died could not remove the shared memory files of its victims
		if m, _ := filepath.Glob(fmt.Sprintf("/dev/shm/verif_%d_fz*", pid)); len(m) > 0 {
			for _, f := range m {
				_ = os.Remove(f)
			}
		}
	}
	if !ok || !sum.Finished {
		nLast := 4
		if a.S3 {
			nLast = 14 // twelve handshake cases are in flight at any time
		}
		last := fzLastLogLines(cp.logPath, nLast)
		w := map[string]interface{}{"child": name, "args": a, "exit_code": ex.Code, "signal": ex.Signal, "timed_out": ex.TimedOut,
			"last_logged_inputs": last, "stderr": truncate(ex.Stderr, 6000)}
		if ex.TimedOut && !strings.Contains(ex.Stderr, "panic") && !strings.Contains(ex.Stderr, "fatal error") {
			c.inconclusiveCase(name, "the child did not finish within its watchdog (no panic in its stderr)")
		} else {
			lastOne := ""
			if len(last) > 0 {
				lastOne = last[len(last)-1]
			}
			reason := "exit code " + fmt.Sprint(ex.Code)
			if ex.Signal != "" {
				reason = "signal " + ex.Signal
			}
			first := ""
			for _, l := range strings.Split(ex.Stderr, "\n") {
				if strings.HasPrefix(l, "panic:") || strings.HasPrefix(l, "fatal error:") || strings.Contains(l, "unexpected fault address") {
					first = l
					break
				}
			}
			if a.S3 {
				c.violation(name, w, "the process hosting the sessions died (%s) %s; twelve handshake inputs were in flight, the last %d logged ones are in the witness; the very last: %s",
					reason, first, len(last), truncate(lastOne, 300))
			} else {
				c.violation(name, w, "the process hosting the sessions died (%s) %s; last logged input: %s", reason, first, truncate(lastOne, 300))
			}
		}
		return
	}
	cp.cleanupFiles()
	agg.add(c, name, sum)
}

type fzAgg struct {
	mu sync.Mutex
}

func (g *fzAgg) add(c *checkCtx, name string, s fzSummary) {
	g.mu.Lock()
	defer g.mu.Unlock()
	c.eval(s.Inputs)
	for k, n := range s.ByKind {
		c.count("inputs_"+k, n)
	}
	for k, n := range s.Counts {
		c.count(k, n)
	}
	for _, k := range s.Keys {
		c.nontrivial(fmt.Sprintf("%016x", k))
	}
	for _, v := range s.Viol {
		c.violation(name+"-"+v.Case, v.Witness, "%s", v.Msg)
	}
	for _, m := range s.Inconcl {
		c.inconclusiveCase(name, m)
	}
	for _, smp := range s.Samples {
		c.sample(smp)
	}
}

func checkFuzz(c *checkCtx) {
	c.level = "fault_enumeration"
	c.rule = "one input = (layer, victim role, event type sequence of the valid prefix incl. stream-slot classes and shared-memory elements, exact mutation); " +
		"it is non-trivial when it carries at least one complete 8-byte header (so validation or a handler ran on it); handshake inputs are keyed by (exchange, message, mutation)"
	c.assume("handleEvents is called directly only on sessions whose raw peer never sends, so the event loop never runs a handler of that session concurrently")
	c.assume("a session that returned an error is retired at once: no input is offered to a state that production (exitErr -> Close) cannot reach")
	c.assume("Length values that make the reader wait for bytes that never come are 'the session stalls until the peer closes' (allowed); hostile shared-memory contents are outside the statement")
	c.assume("no -race/checkptr build is used for this check")
	fenceInit()
	agg := &fzAgg{}
	type job struct {
		role string
		a    fzArgs
	}
	var jobs []job
	batch := 0
	d1, d1hard, d2 := c.pick(5000, 100000), c.pick(150, 3000), c.pick(8000, 160000)
	s1, s2 := c.pick(150, 3000), c.pick(90, 1800)
	for _, role := range []string{"server", "client"} {
		for _, memfd := range []bool{true, false} {
			batch++
			jobs = append(jobs, job{"fzdirect", fzArgs{Layer: "direct", Role: role, Memfd: memfd, Seed: c.seed, Batch: batch, D1: d1, D1Hard: d1hard, D2: d2}})
			batch++
			jobs = append(jobs, job{"fzdirect", fzArgs{Layer: "direct", Role: role, Memfd: memfd, Seed: c.seed, Batch: batch, D1: d1, D1Hard: d1hard, D2: d2}})
			batch++
			jobs = append(jobs, job{"fzsock", fzArgs{Layer: "socket", Role: role, Memfd: memfd, Seed: c.seed, Batch: batch, S1: s1, S2: s2}})
		}
	}
	for shard := 0; shard < 3; shard++ {
		batch++
		jobs = append(jobs, job{"fzsock", fzArgs{Layer: "socket-handshake", Role: "server", Memfd: true, Seed: c.seed, Batch: batch, S3: true,
			S3Full: c.thorough(), Shard: shard, Shards: 3}})
	}
	width := 6
	if c.jobs < width {
		width = c.jobs
	}
	ch := make(chan job)
	var wg sync.WaitGroup
	for w := 0; w < width; w++ {
		wg.Add(1)
		go func() {
			defer wg.Done()
			for j := range ch {
				fzRunChild(c, j.role, j.a, agg)
			}
		}()
	}
	for _, j := range jobs {
		ch <- j
	}
	close(ch)
	wg.Wait()
	c.setExtra("children", len(jobs))
	c.setExtra("mutation_kinds", fzMutations)
	c.setExtra("handshake_mutation_kinds", append(append([]string{}, fzHsMutations...), "version{0,1,2,4,255}", "type{0..255}", "fds_one", "fds_three", "fds_not_memfd", "fds_none_but_data", "fds_closed_peer"))
	if c.counter("d2_fragmentations_compared") == 0 || c.counter("s1_fragmentations_compared") == 0 {
		c.noObservation("no fragmentation comparison completed")
	}
	if c.counter("d1_sessions_ended_with_error")+c.counter("s2_sessions_ended_with_error") == 0 {
		c.noObservation("no malformed input ended a session")
	}
}
