package shmipc

// C04: the IO queue delivers every element exactly once, intact and in order.
// Real queue.put / queue.pop with P producers and one consumer on heap-backed and mmap-backed rings;
// every element is unique; histories are recorded at the caller boundary on one logical clock and checked by
// linear scans (long histories) and by porcupine against a bounded-FIFO model (short histories).

import (
	"bufio"
	"fmt"
	"math/rand"
	"os"
	"runtime"
	"sort"
	"sync"
	"sync/atomic"
	"syscall"
	"time"
	"unsafe"

	"github.com/anishathalye/porcupine"
)

func init() {
	verifChecks["C04"] = checkQueue
	verifChildRoles["qconsumer"] = qConsumerChild
}

type qCase struct {
	Idx       int    `json:"idx"`
	Cap       uint32 `json:"cap"`
	Producers int    `json:"producers"`
	PerProd   int    `json:"elements_per_producer"`
	Start     int64  `json:"cursor_start"`
	Backend   string `json:"backend"`
	Profile   string `json:"profile"`
	Porcupine bool   `json:"porcupine"`
	Seed      int64  `json:"seed"`
}

type qOp struct {
	put      bool
	prod     int
	n        uint32 // element counter of the producer (put), or popped element's counter
	ok       bool   // put: accepted; pop: got an element
	got      queueElement
	call     int64
	ret      int64
	consumer bool
}

func qChecksum(prod, n uint32) uint32 { return (prod*2654435761 ^ n*40503) + 0x9e37 }

var qProfiles = []allocProfile{
	{"natural", nil},
	{"put-stores-sleep", func(k *ctl) {
		k.set(vpQPutStore1, 200, 20*time.Microsecond, 60)
		k.set(vpQPutStore2, 200, 20*time.Microsecond, 60)
	}},
	{"put-before-tail-sleep", func(k *ctl) { k.set(vpQPutBeforeTail, 300, 30*time.Microsecond, 70) }},
	{"put-checked-sleep", func(k *ctl) { k.set(vpQPutChecked, 300, 30*time.Microsecond, 70) }},
	{"pop-loads-sleep", func(k *ctl) {
		k.set(vpQPopNonEmpty, 200, 20*time.Microsecond, 60)
		k.set(vpQPopLoad1, 200, 20*time.Microsecond, 60)
		k.set(vpQPopLoad2, 200, 20*time.Microsecond, 60)
	}},
	{"pop-before-head-sleep", func(k *ctl) { k.set(vpQPopBeforeHead, 300, 30*time.Microsecond, 70) }},
	{"all-gosched", func(k *ctl) {
		k.setAll(qPutPoints, 300, 0, 0)
		k.setAll(qPopPoints, 300, 0, 0)
	}},
}

type qResult struct {
	viol     []string
	ops      []qOp
	sig      string
	cross    uint64
	fulls    int
	empties  int
	maxSize  int64
	wraps    int64
	overlaps int
	porcVerd string
	porcInfo string
	elements int
}

func runQueueCase(c *checkCtx, cs qCase) (res qResult) {
	var q *queue
	clk := new(int64)
	stopP := new(uint32)
	var xfd = -1
	var xmem []byte
	if cs.Backend == "mmap" || cs.Backend == "memfd-2proc" {
		size := 64 + countQueueMemSize(cs.Cap)
		mem, fd, err := mapShared(size)
		if err != nil {
			panic(err)
		}
		defer func() { syscall.Munmap(mem); syscall.Close(fd) }()
		q = createQueueFromBytes(mem[64:], cs.Cap)
		if cs.Backend == "memfd-2proc" {
			// logical clock and stop flag live in the shared mapping too: both processes tick the same counter
			clk = (*int64)(unsafe.Pointer(&mem[0]))
			stopP = (*uint32)(unsafe.Pointer(&mem[8]))
			xfd, xmem = fd, mem
		}
	} else {
		q = createQueue(cs.Cap)
	}
	_ = xmem
	*q.head = cs.Start
	*q.tail = cs.Start
	var k *ctl
	for _, p := range qProfiles {
		if p.name == cs.Profile && p.build != nil {
			k = newCtl(p.name, cs.Seed)
			p.build(k)
			k.install()
			defer uninstallCtl()
		}
	}
	total := cs.Producers * cs.PerProd
	opsCh := make([][]qOp, cs.Producers+1)
	var wg sync.WaitGroup
	var maxSize int64
	sample := func() {
		s := q.size()
		for {
			old := atomic.LoadInt64(&maxSize)
			if s <= old || atomic.CompareAndSwapInt64(&maxSize, old, s) {
				break
			}
		}
	}
	var violMu sync.Mutex
	violate := func(format string, a ...interface{}) {
		violMu.Lock()
		if len(res.viol) < 8 {
			res.viol = append(res.viol, fmt.Sprintf(format, a...))
		}
		violMu.Unlock()
	}
	for p := 0; p < cs.Producers; p++ {
		wg.Add(1)
		go func(p int) {
			defer wg.Done()
			rng := rand.New(rand.NewSource(cs.Seed + int64(p)*977))
			var ops []qOp
			for n := 0; n < cs.PerProd && atomic.LoadUint32(stopP) == 0; {
				e := queueElement{seqID: uint32(p + 1), offsetInShmBuf: uint32(n + 1), status: qChecksum(uint32(p+1), uint32(n+1))}
				t0 := atomic.AddInt64(clk, 1)
				err := q.put(e)
				t1 := atomic.AddInt64(clk, 1)
				op := qOp{put: true, prod: p + 1, n: uint32(n + 1), ok: err == nil, call: t0, ret: t1}
				if err != nil && err != ErrQueueFull {
					violate("put returned unexpected error %v", err)
				}
				// unsuccessful answers have no effect on the queue, so leaving some of them out of the history is sound:
				// of every run of retries the first and the latest 'full' answer are kept
				if err == nil || len(ops) == 0 || ops[len(ops)-1].ok {
					ops = append(ops, op)
				} else {
					ops[len(ops)-1] = op // keep the latest full answer of a run of retries
				}
				if err == nil {
					n++
				} else {
					runtime.Gosched()
				}
				if rng.Intn(16) == 0 {
					sample()
				}
				if rng.Intn(64) == 0 {
					runtime.Gosched()
				}
			}
			opsCh[p] = ops
		}(p)
	}
	var consumerChild *childProc
	if cs.Backend == "memfd-2proc" {
		cp, err := c.spawnChildFiles("qconsumer", []string{fmt.Sprint(64 + countQueueMemSize(cs.Cap)), fmt.Sprint(total), fmt.Sprint(cs.Seed), cs.Profile},
			[]*os.File{os.NewFile(uintptr(dupFd(xfd)), "ring")})
		if err != nil {
			panic(err)
		}
		consumerChild = cp
	} else {
		wg.Add(1)
		go func() { // the single consumer
			defer wg.Done()
			ops, starved := qConsume(q, clk, stopP, total, cs.Seed, sample)
			if starved > 0 {
				violate("consumer starved: %d of %d elements never arrived", starved, total)
			}
			opsCh[cs.Producers] = ops
		}()
	}
	done := make(chan struct{})
	go func() { wg.Wait(); close(done) }()
	select {
	case <-done:
	case <-time.After(120 * time.Second):
		atomic.StoreUint32(stopP, 1)
		violate("watchdog: queue workload did not finish (producers/consumer stuck)")
		<-done
	}
	if consumerChild != nil {
		var ops []qOp
		finished := false
		for {
			line, ok := consumerChild.recv(150*time.Second, nil)
			if !ok {
				break
			}
			if line == "END" {
				finished = true
				break
			}
			var o qOp
			var okI int
			if n, _ := fmt.Sscanf(line, "%d %d %d %d %d %d", &o.call, &o.ret, &okI, &o.got.seqID, &o.got.offsetInShmBuf, &o.got.status); n == 6 {
				o.consumer, o.ok = true, okI == 1
				ops = append(ops, o)
			} else if len(line) > 7 && line[:7] == "STARVED" {
				violate("consumer process starved: %s", line)
			}
		}
		ex := consumerChild.wait(20 * time.Second)
		if !finished {
			violate("consumer process did not deliver its history (exit=%v code=%d signal=%s): %s", ex.Exited, ex.Code, ex.Signal, truncate(ex.Stderr, 1500))
		}
		consumerChild.cleanupFiles()
		opsCh[cs.Producers] = ops
	}
	for _, o := range opsCh {
		res.ops = append(res.ops, o...)
	}
	res.maxSize = maxSize
	res.wraps = (atomic.LoadInt64(q.tail) - cs.Start) / int64(cs.Cap)
	if k != nil {
		res.sig = k.signature()
		res.cross, _ = k.crossTransitions(qPutPoints, qPopPoints)
	}
	res.elements = total
	// ---- linear checks
	if maxSize > int64(cs.Cap) {
		violate("size() observed %d > capacity %d", maxSize, cs.Cap)
	}
	if q.size() != 0 {
		violate("queue not empty after the consumer received everything: size %d", q.size())
	}
	type putInfo struct {
		call, ret int64
		popIdx    int
	}
	puts := map[uint64]*putInfo{}
	var putCalls, popRets []int64
	for i := range res.ops {
		o := &res.ops[i]
		if o.put {
			putCalls = append(putCalls, o.call)
			if o.ok {
				puts[uint64(o.prod)<<32|uint64(o.n)] = &putInfo{call: o.call, ret: o.ret, popIdx: -1}
			} else {
				res.fulls++
			}
			if o.ret-o.call > 1 {
				res.overlaps++
			}
		}
	}
	lastN := map[uint32]uint32{}
	popIdx := 0
	var popOrder []*putInfo
	for i := range res.ops {
		o := &res.ops[i]
		if !o.consumer {
			continue
		}
		if !o.ok {
			res.empties++
			continue
		}
		if o.ret-o.call > 1 {
			res.overlaps++
		}
		popRets = append(popRets, o.ret)
		e := o.got
		if e.status != qChecksum(e.seqID, e.offsetInShmBuf) {
			violate("torn element popped: seqID=%d offset=%d status=%#x (fields from different puts)", e.seqID, e.offsetInShmBuf, e.status)
			continue
		}
		pi, ok := puts[uint64(e.seqID)<<32|uint64(e.offsetInShmBuf)]
		if !ok {
			violate("popped element (producer %d, #%d) that was never successfully put", e.seqID, e.offsetInShmBuf)
			continue
		}
		if pi.popIdx >= 0 {
			violate("element (producer %d, #%d) popped twice", e.seqID, e.offsetInShmBuf)
			continue
		}
		if o.ret < pi.call {
			violate("element (producer %d, #%d) popped before its put was called", e.seqID, e.offsetInShmBuf)
		}
		pi.popIdx = popIdx
		popIdx++
		popOrder = append(popOrder, pi)
		if e.offsetInShmBuf <= lastN[e.seqID] {
			violate("per-producer order broken: producer %d element #%d popped after #%d", e.seqID, e.offsetInShmBuf, lastN[e.seqID])
		}
		lastN[e.seqID] = e.offsetInShmBuf
	}
	if len(res.viol) == 0 {
		for key, pi := range puts {
			if pi.popIdx < 0 {
				violate("element (producer %d, #%d) was put successfully but never popped", key>>32, key&0xffffffff)
				break
			}
		}
		// real-time order: ret(put a) < call(put b)  =>  a popped before b
		minRetLater := int64(1) << 62
		for i := len(popOrder) - 1; i >= 0; i-- {
			b := popOrder[i]
			if minRetLater < b.call {
				violate("real-time order broken: an element whose put returned at tick %d was popped after an element whose put was called at tick %d", minRetLater, b.call)
				break
			}
			if b.ret < minRetLater {
				minRetLater = b.ret
			}
		}
	}
	// an 'empty' answer is only legal if no element was certainly in the queue during the whole call: every element whose
	// put had returned before the empty pop was called must have been popped earlier by the (sequential) consumer.
	if len(res.viol) == 0 && res.empties > 0 {
		type pr struct {
			ret    int64
			popIdx int
		}
		var byRet []pr
		for _, pi := range puts {
			byRet = append(byRet, pr{pi.ret, pi.popIdx})
		}
		sort.Slice(byRet, func(i, j int) bool { return byRet[i].ret < byRet[j].ret })
		prefMax := make([]int, len(byRet))
		m := -1
		for i, p := range byRet {
			if p.popIdx > m {
				m = p.popIdx
			}
			prefMax[i] = m
		}
		poppedBefore := 0
		for i := range res.ops {
			o := &res.ops[i]
			if !o.consumer {
				continue
			}
			if o.ok {
				poppedBefore++
				continue
			}
			n := sort.Search(len(byRet), func(k int) bool { return byRet[k].ret >= o.call })
			if n > 0 && prefMax[n-1] >= poppedBefore {
				violate("pop answered 'empty' at [%d,%d] although an element whose put had already returned was still queued", o.call, o.ret)
				break
			}
		}
	}
	// "full" must be justified: the number of puts that had started before the full answer returned minus the number
	// of pops that had finished before it was called is an upper bound of the queue's size during the call.
	if len(res.viol) == 0 && res.fulls > 0 {
		var okPutCalls []int64
		for i := range res.ops {
			if o := &res.ops[i]; o.put && o.ok {
				okPutCalls = append(okPutCalls, o.call)
			}
		}
		sort.Slice(okPutCalls, func(i, j int) bool { return okPutCalls[i] < okPutCalls[j] })
		sort.Slice(popRets, func(i, j int) bool { return popRets[i] < popRets[j] })
		for i := range res.ops {
			o := &res.ops[i]
			if !o.put || o.ok {
				continue
			}
			started := sort.Search(len(okPutCalls), func(k int) bool { return okPutCalls[k] >= o.ret })
			finished := sort.Search(len(popRets), func(k int) bool { return popRets[k] >= o.call })
			if started-finished < int(cs.Cap) {
				violate("put answered 'full' at [%d,%d] although at most %d elements (capacity %d) can have been queued during the call",
					o.call, o.ret, started-finished, cs.Cap)
				break
			}
		}
	}
	_ = putCalls
	// ---- porcupine on short histories
	if cs.Porcupine && len(res.viol) == 0 {
		res.porcVerd, res.porcInfo = porcupineQueue(res.ops, int(cs.Cap))
		if res.porcVerd == "illegal" {
			violate("history is not linearizable w.r.t. a FIFO queue bounded by %d (porcupine): %s", cs.Cap, res.porcInfo)
		}
	}
	return
}

// qConsume is the single consumer's loop (in a goroutine, or in a child process for the two-process back-end).
func qConsume(q *queue, clk *int64, stopP *uint32, total int, seed int64, sample func()) (ops []qOp, starved int) {
	rng := rand.New(rand.NewSource(seed ^ 0x5555))
	got := 0
	idle := 0
	for got < total {
		t0 := atomic.AddInt64(clk, 1)
		e, err := q.pop()
		t1 := atomic.AddInt64(clk, 1)
		if err == nil {
			ops = append(ops, qOp{consumer: true, ok: true, got: e, call: t0, ret: t1})
			got++
			idle = 0
		} else {
			if len(ops) == 0 || ops[len(ops)-1].ok {
				ops = append(ops, qOp{consumer: true, ok: false, call: t0, ret: t1})
			}
			idle++
			if idle > 50_000_000 || atomic.LoadUint32(stopP) != 0 {
				atomic.StoreUint32(stopP, 1)
				return ops, total - got
			}
			runtime.Gosched()
		}
		if sample != nil && rng.Intn(16) == 0 {
			sample()
		}
	}
	return ops, 0
}

// child: the consumer of a ring that lives in a memfd shared with the producers' process
func qConsumerChild(args []string) {
	var size, total int
	var seed int64
	fmt.Sscan(args[0], &size)
	fmt.Sscan(args[1], &total)
	fmt.Sscan(args[2], &seed)
	mem, err := syscall.Mmap(3, 0, size, syscall.PROT_READ|syscall.PROT_WRITE, syscall.MAP_SHARED)
	if err != nil {
		fmt.Fprintln(os.Stderr, "mmap:", err)
		os.Exit(4)
	}
	q := mappingQueueFromBytes(mem[64:])
	for _, p := range qProfiles {
		if p.name == args[3] && p.build != nil {
			k := newCtl(p.name, seed)
			p.build(k)
			k.install()
		}
	}
	ops, starved := qConsume(q, (*int64)(unsafe.Pointer(&mem[0])), (*uint32)(unsafe.Pointer(&mem[8])), total, seed, nil)
	w := bufio.NewWriterSize(os.Stdout, 1<<20)
	for _, o := range ops {
		ok := 0
		if o.ok {
			ok = 1
		}
		fmt.Fprintf(w, "%d %d %d %d %d %d\n", o.call, o.ret, ok, o.got.seqID, o.got.offsetInShmBuf, o.got.status)
	}
	if starved > 0 {
		fmt.Fprintf(w, "STARVED %d of %d elements never arrived\n", starved, total)
	}
	fmt.Fprintln(w, "END")
	w.Flush()
}

type qIn struct {
	put bool
	id  uint64
}
type qOut struct {
	ok bool
	id uint64
}

func porcupineQueue(ops []qOp, capacity int) (verdict, info string) {
	model := porcupine.Model{
		Init: func() interface{} { return "" },
		Step: func(state, input, output interface{}) (bool, interface{}) {
			st := state.(string)
			in := input.(qIn)
			out := output.(qOut)
			if in.put {
				if out.ok {
					if len(st)/8 >= capacity {
						return false, st
					}
					return true, st + fmt.Sprintf("%08x", in.id&0xffffffff^in.id>>32<<20)
				}
				return len(st)/8 == capacity, st
			}
			if !out.ok {
				return len(st) == 0, st
			}
			if len(st) == 0 {
				return false, st
			}
			if st[:8] != fmt.Sprintf("%08x", out.id&0xffffffff^out.id>>32<<20) {
				return false, st
			}
			return true, st[8:]
		},
		Equal: func(a, b interface{}) bool { return a.(string) == b.(string) },
		DescribeOperation: func(input, output interface{}) string {
			return fmt.Sprintf("%+v -> %+v", input, output)
		},
	}
	var pops []porcupine.Operation
	for _, o := range ops {
		if o.put {
			pops = append(pops, porcupine.Operation{ClientId: o.prod, Input: qIn{put: true, id: uint64(o.prod)<<32 | uint64(o.n)},
				Call: o.call, Output: qOut{ok: o.ok}, Return: o.ret})
		} else if o.consumer {
			id := uint64(o.got.seqID)<<32 | uint64(o.got.offsetInShmBuf)
			pops = append(pops, porcupine.Operation{ClientId: 0, Input: qIn{}, Call: o.call, Output: qOut{ok: o.ok, id: id}, Return: o.ret})
		}
	}
	r, inf := porcupine.CheckOperationsVerbose(model, pops, 4*time.Second)
	switch r {
	case porcupine.Ok:
		return "ok", ""
	case porcupine.Illegal:
		// the longest linearizable prefix is the witness
		best := 0
		for _, pl := range inf.PartialLinearizations() {
			for _, l := range pl {
				if len(l) > best {
					best = len(l)
				}
			}
		}
		return "illegal", fmt.Sprintf("longest linearizable prefix has %d of %d operations", best, len(pops))
	default:
		return "unknown", "checker time-out"
	}
}

func genQueueCase(c *checkCtx, idx int, short bool, medium bool) qCase {
	rng := caseRand(c.seed, 100000+idx)
	cs := qCase{Idx: idx, Porcupine: short, Backend: "heap"}
	cs.Cap = []uint32{1, 1, 2, 3, 8, 8, 1024}[rng.Intn(7)]
	cs.Producers = []int{1, 2, 3, 4, 8, 16}[rng.Intn(6)]
	if short {
		// porcupine's search is exponential in the number of concurrently queued elements whose order is only fixed by later
		// pops; short histories use shallow rings and few producers so that it decides them (the linear scans, which are
		// complete for unique elements and one consumer, carry the deep/wide cases)
		cs.PerProd = 8 + rng.Intn(32)
		cs.Cap = []uint32{1, 1, 2, 3}[rng.Intn(4)]
		cs.Producers = []int{1, 2, 3, 4}[rng.Intn(4)]
	} else if medium {
		cs.PerProd = 50 + rng.Intn(400)
	} else {
		cs.PerProd = 200000 / cs.Producers
	}
	switch rng.Intn(4) {
	case 0:
		cs.Start = 0
	case 1:
		cs.Start = int64(cs.Cap)*1000003 - 3
	case 2:
		cs.Start = 1<<40 - 3
	default:
		cs.Start = int64(rng.Intn(1 << 20))
	}
	switch rng.Intn(6) {
	case 0, 1:
		cs.Backend = "mmap"
	case 2:
		if !short {
			cs.Backend = "memfd-2proc" // producers here, the consumer in a child process: the topology the library supports
		}
	}
	cs.Profile = qProfiles[rng.Intn(len(qProfiles))].name
	if !short && !medium && cs.Profile != "natural" && cs.Profile != "all-gosched" {
		cs.PerProd /= 20 // perturbed long histories are slow; keep them bounded
		if cs.PerProd < 500 {
			cs.PerProd = 500
		}
	}
	cs.Seed = rng.Int63()
	return cs
}

func checkQueue(c *checkCtx) {
	c.rule = "cases = (capacity 1,2,3,8,1024; 1..16 producers + 1 consumer; cursor start 0 / just below a multiple of cap / 2^40-3 / random; heap or " +
		"mmap ring; perturbation profile) from PRNG(VERIF_SEED, index); short shallow histories (cap<=3, <=4 producers) are checked by porcupine against a bounded " +
		"FIFO, all histories by linear scans (never-put, twice, torn element, per-producer order, real-time order, unjustified 'empty', unjustified " +
		"'full', size<=cap — the bad-pattern characterisation of FIFO linearizability for unique elements and one consumer); " +
		"non-trivial = at least one put or pop overlapped a foreign operation on the logical clock; distinct = distinct (cap, producers, backend, " +
		"profile, cursor class, hook-transition signature)"
	c.assume("single consumer, producers of one process (they share the queue's process-local mutex): the topology the library supports")
	c.assume("x86-TSO; int64 cursor overflow not explored")
	if isRacePass() {
		// reduced workload for the race build: heap-backed rings only
		for i := 0; i < 30; i++ {
			cs := genQueueCase(c, i, false, true)
			cs.Backend = "heap"
			cs.Porcupine = false
			res := runQueueCase(c, cs)
			c.eval(1)
			c.nontrivial(fmt.Sprint(i))
			for _, v := range res.viol {
				fmt.Println("RACEPASS-VIOL", v)
			}
		}
		c.sample("race pass")
		return
	}
	nShort := c.pick(300, 20000)
	nMedium := c.pick(400, 20000)
	nLong := c.pick(12, 300)
	porc := map[string]int{}
	judge := func(cs qCase, res qResult) {
		c.eval(1)
		c.count("elements delivered", int64(res.elements))
		c.count("executions."+cs.Backend, 1)
		c.count("put answered full", int64(res.fulls))
		c.count("ops overlapping a foreign op", int64(res.overlaps))
		c.count("ring wrap-arounds", res.wraps)
		c.count("hook transitions put<->pop", int64(res.cross))
		if res.porcVerd != "" {
			porc[res.porcVerd]++
		}
		if res.porcVerd == "unknown" {
			c.inconclusiveCase(fmt.Sprintf("queue-%d", cs.Idx), fmt.Sprintf("porcupine time-out %+v ops=%d fulls=%d empties=%d", cs, len(res.ops), res.fulls, res.empties))
		}
		if res.overlaps > 0 {
			cls := "rand"
			switch cs.Start {
			case 0:
				cls = "0"
			case 1<<40 - 3:
				cls = "2^40"
			}
			c.nontrivial(fmt.Sprintf("%d/%d/%s/%s/%s/%s", cs.Cap, cs.Producers, cs.Backend, cs.Profile, cls, res.sig))
		}
		if len(res.viol) > 0 {
			hist := res.ops
			if len(hist) > 400 {
				hist = hist[:400]
			}
			var lines []string
			for _, o := range hist {
				if o.put {
					lines = append(lines, fmt.Sprintf("[%d,%d] put p%d#%d ok=%v", o.call, o.ret, o.prod, o.n, o.ok))
				} else {
					lines = append(lines, fmt.Sprintf("[%d,%d] pop -> p%d#%d ok=%v", o.call, o.ret, o.got.seqID, o.got.offsetInShmBuf, o.ok))
				}
			}
			c.violation(fmt.Sprintf("queue-%d", cs.Idx), map[string]interface{}{"case": cs, "violations": res.viol, "history_prefix": lines},
				"%s", res.viol[0])
		}
	}
	for i := 0; i < nShort; i++ {
		cs := genQueueCase(c, i, true, false)
		judge(cs, runQueueCase(c, cs))
		if i < 2 {
			c.sample(cs)
		}
	}
	for i := 0; i < nMedium; i++ {
		cs := genQueueCase(c, 500000+i, false, true)
		judge(cs, runQueueCase(c, cs))
		if i < 2 {
			c.sample(cs)
		}
	}
	for i := 0; i < nLong; i++ {
		cs := genQueueCase(c, 1000000+i, false, false)
		judge(cs, runQueueCase(c, cs))
		if i < 2 {
			c.sample(cs)
		}
	}
	c.setExtra("porcupine_verdicts", porc)
	// race-detector pass with the C04 sentinel set
	reports, ran, info := c.runRacePass(10 * time.Minute)
	if ran {
		c.count("race pass: reports", int64(len(reports)))
		sentinel := 0
		for _, r := range reports {
			if stackHas(r.Stack1, "(*queue).put", "(*queue).pop") && stackHas(r.Stack2, "(*queue).put", "(*queue).pop") {
				sentinel++
				if sentinel == 1 {
					c.violation("queue-race", map[string]interface{}{"report": r.Raw},
						"race detector: unordered accesses inside queue.put/queue.pop on ring memory (some schedule loses, duplicates or tears an element): %v | %v",
						firstN(r.Stack1, 3), firstN(r.Stack2, 3))
				}
			}
		}
		c.setExtra("race_pairs", racePairs(reports))
		if info != "" {
			c.setExtra("race_pass_exit", truncate(info, 500))
		}
	} else {
		c.setExtra("race_pass", "not run: "+info)
	}
}

func firstN(s []string, n int) []string {
	if len(s) > n {
		return s[:n]
	}
	return s
}
