package shmipc

// C10: stream close is final, propagates to the peer and is reported exactly once.
//
// An enumerated scenario table (who closes x when x mode x from where x transport) is executed with PRNG timing and a
// perturbation profile per execution, each on a fresh session pair. Every operation at the API boundary (Flush, Read,
// Close, callback entries) is recorded per stream on one logical clock; the rules of the property are evaluated on
// logical conditions only (Close returned, close callback fired, pair quiescent + fences) - never on wall-clock.

import (
	"fmt"
	"math/rand"
	"os"
	"runtime"
	"runtime/debug"
	"strings"
	"sync"
	"sync/atomic"
	"time"
)

func init() {
	verifChecks["C10"] = checkClose
}

// ---------------------------------------------------------------------------------------------
// scenario table

type clsScenario struct {
	Idx       int    `json:"idx"`
	Closer    string `json:"closer"`    // client | server | both | twice-client | twice-server | twoG-client | twoG-server
	When      string `json:"when"`      // nodata | inflight | unread
	Mode      string `json:"mode"`      // sync | cb-client | cb-server | cb-both
	From      string `json:"from"`      // user | ondata | user-during-ondata | onremoteclose
	Transport string `json:"transport"` // shm | fallback
}

func (s clsScenario) key() string {
	return s.Closer + "/" + s.When + "/" + s.Mode + "/" + s.From + "/" + s.Transport
}

// closers returns which ends call Close in the close phase ("c", "s") and how (1 = once, 2 = twice, 3 = two goroutines).
func (s clsScenario) closers() (ends []string, how int) {
	switch s.Closer {
	case "client":
		return []string{"c"}, 1
	case "server":
		return []string{"s"}, 1
	case "both":
		return []string{"c", "s"}, 1
	case "twice-client":
		return []string{"c"}, 2
	case "twice-server":
		return []string{"s"}, 2
	case "twoG-client":
		return []string{"c"}, 3
	case "twoG-server":
		return []string{"s"}, 3
	}
	return nil, 0
}

func (s clsScenario) hasCb(end string) bool {
	switch s.Mode {
	case "cb-both":
		return true
	case "cb-client":
		return end == "c"
	case "cb-server":
		return end == "s"
	}
	return false
}

func clsScenarioTable() []clsScenario {
	var out []clsScenario
	closers := []string{"client", "server", "both", "twice-client", "twice-server", "twoG-client", "twoG-server"}
	whens := []string{"nodata", "inflight", "unread"}
	modes := []string{"sync", "cb-client", "cb-server", "cb-both"}
	froms := []string{"user", "ondata", "user-during-ondata", "onremoteclose"}
	transports := []string{"shm", "fallback"}
	for _, f := range froms {
		for _, cl := range closers {
			for _, w := range whens {
				for _, m := range modes {
					for _, t := range transports {
						sc := clsScenario{Closer: cl, When: w, Mode: m, From: f, Transport: t}
						ends, how := sc.closers()
						ok := true
						switch f {
						case "ondata", "user-during-ondata":
							for _, e := range ends { // the closing end(s) need callbacks
								if !sc.hasCb(e) {
									ok = false
								}
							}
							if f == "user-during-ondata" && w == "unread" {
								ok = false // same as inflight here: the gate message is the unread data
							}
						case "onremoteclose":
							// the named end closes inside its OnRemoteClose, i.e. after its peer closed from a user goroutine
							if len(ends) != 1 || how == 3 || !sc.hasCb(ends[0]) {
								ok = false
							}
						}
						if ok {
							sc.Idx = len(out)
							out = append(out, sc)
						}
					}
				}
			}
		}
	}
	return out
}

// ---------------------------------------------------------------------------------------------
// perturbation profiles (one per execution)

type clsProfile struct {
	name  string
	build func(k *ctl)
}

var clsProfiles = []clsProfile{
	{"natural", func(k *ctl) {}},
	{"close-cased", func(k *ctl) { k.set(vpStreamCloseCASed, 700, 400*time.Microsecond, 80) }},
	{"close-before-notify", func(k *ctl) { k.set(vpStreamCloseBeforeNotify, 700, 400*time.Microsecond, 80) }},
	{"half-closed", func(k *ctl) { k.set(vpHalfClosed, 700, 150*time.Microsecond, 80) }},
	{"cb-store0", func(k *ctl) {
		k.set(vpCbBeforeStore0, 600, 300*time.Microsecond, 80)
		k.set(vpCbAfterStore0, 600, 300*time.Microsecond, 80)
	}},
	{"close-enter", func(k *ctl) { k.set(vpStreamCloseEnter, 600, 200*time.Microsecond, 70) }},
	// close() held between its state load and its CAS: the peer's half-close or a starting callback falls into the window
	{"close-loaded", func(k *ctl) { k.set(vpStreamCloseLoaded, 500, 100*time.Microsecond, 80) }},
	{"mixed", func(k *ctl) {
		k.set(vpStreamCloseLoaded, 300, 60*time.Microsecond, 60)
		k.set(vpStreamCloseCASed, 400, 200*time.Microsecond, 60)
		k.set(vpStreamCloseBeforeNotify, 400, 200*time.Microsecond, 60)
		k.set(vpHalfClosed, 300, 100*time.Microsecond, 60)
		k.set(vpCbBeforeStore0, 300, 150*time.Microsecond, 60)
		k.set(vpCbAfterStore0, 300, 150*time.Microsecond, 60)
		k.set(vpFillBeforeCbCAS, 200, 50*time.Microsecond, 50)
	}},
}

// ---------------------------------------------------------------------------------------------
// per-execution record

type clsEvent struct {
	T    int64
	End  string
	Kind string
	Info string
}

type clsExec struct {
	c      *checkCtx
	sc     clsScenario
	timing int
	rng    *rand.Rand
	p      *sessPair
	k      *ctl
	reg    *clsRegistry
	ends   map[string]*clsEnd

	clock int64
	mu    sync.Mutex
	evs   []clsEvent
	viol  []string
	inc   string // inconclusive reason (first)

	fresh      bool
	noise      *clsNoise
	hoarded    []*bufferSlice
	profile    string
	watchdog   time.Duration
	deferredN  int64 // closes that were deferred (Close while callbackInProcess)
	cbArrivals int64
	readers    map[string]chan clsReaderRes
}

func (x *clsExec) rec(end, kind, format string, a ...interface{}) {
	t := atomic.AddInt64(&x.clock, 1)
	info := format
	if len(a) > 0 {
		info = fmt.Sprintf(format, a...)
	}
	x.mu.Lock()
	if len(x.evs) < 4000 {
		x.evs = append(x.evs, clsEvent{t, end, kind, info})
	}
	x.mu.Unlock()
}

func (x *clsExec) violate(format string, a ...interface{}) {
	msg := fmt.Sprintf(format, a...)
	x.rec("-", "VIOLATION", "%s", msg)
	x.mu.Lock()
	if len(x.viol) < 8 {
		x.viol = append(x.viol, msg)
	}
	x.mu.Unlock()
}

func (x *clsExec) inconclusive(format string, a ...interface{}) {
	msg := fmt.Sprintf(format, a...)
	x.rec("-", "INCONCLUSIVE", "%s", msg)
	x.mu.Lock()
	if x.inc == "" {
		x.inc = msg
	}
	x.mu.Unlock()
}

func (x *clsExec) failed() bool {
	x.mu.Lock()
	defer x.mu.Unlock()
	return len(x.viol) > 0 || x.inc != ""
}

func (x *clsExec) history(max int) []string {
	x.mu.Lock()
	defer x.mu.Unlock()
	evs := x.evs
	var out []string
	if len(evs) > max {
		out = append(out, fmt.Sprintf("... %d earlier events omitted", len(evs)-max))
		evs = evs[len(evs)-max:]
	}
	for _, e := range evs {
		out = append(out, fmt.Sprintf("%5d %s %-22s %s", e.T, e.End, e.Kind, e.Info))
	}
	return out
}

// ---------------------------------------------------------------------------------------------
// one end of the stream under test

type clsEnd struct {
	x    *clsExec
	name string // "c" | "s"
	sess *Session
	st   *Stream
	peer *clsEnd
	key  uint64 // key of the bytes this end sends

	sendMu    sync.Mutex // sendBuf is used by one goroutine at a time (user goroutine / callbacks)
	sendOff   uint64     // bytes written so far (under sendMu)
	flushedOK uint64     // bytes whose Flush returned nil (atomic)
	recvOff   uint64     // bytes read and verified (atomic; one reader at a time by construction)

	cb *clsCallbacks // nil in synchronous mode

	closeCalls    int32 // Close calls issued (atomic)
	closeReturned int32 // Close calls returned (atomic)
	closedLocally int32 // 1 once every Close issued in the close phase has returned (atomic)
	sawEOS        int32 // 1 once this end observed end-of-stream (read error / OnRemoteClose)
	stateMu       sync.Mutex
	stateMaxRank  int32
	sampStop      chan struct{}
	sampDone      chan struct{}
}

func clsStateRank(s uint32) int32 {
	switch streamState(s) {
	case streamOpened:
		return 0
	case streamHalfClosed, streamState(3): // 3 = streamHalfClosedLocal (a deferred local close)
		return 1
	case streamClosed:
		return 2
	}
	return -1
}

func clsStateName(s uint32) string {
	switch streamState(s) {
	case streamOpened:
		return "open"
	case streamHalfClosed:
		return "half-closed"
	case streamState(3):
		return "half-closed(local, deferred)"
	case streamClosed:
		return "closed"
	}
	return fmt.Sprintf("state(%d)", s)
}

// observeState feeds one sample of the state into the monotonicity rule. The load happens under the monitor's lock, so
// the samples of all observers are totally ordered (a stale sample compared with a newer maximum would be a monitor artefact).
func (e *clsEnd) observeState(where string) uint32 {
	e.stateMu.Lock()
	defer e.stateMu.Unlock()
	s := e.st.getStreamState()
	r := clsStateRank(s)
	switch {
	case r < e.stateMaxRank:
		e.x.violate("end %s: state went backwards: sampled %s (%s) after a state of rank %d had been seen (open<half-closed<closed)",
			e.name, clsStateName(s), where, e.stateMaxRank)
	case r > e.stateMaxRank:
		e.stateMaxRank = r
		e.x.rec(e.name, "state", "%s (%s)", clsStateName(s), where)
	}
	return s
}

func (e *clsEnd) startSampler() {
	e.sampStop = make(chan struct{})
	e.sampDone = make(chan struct{})
	go func() {
		defer close(e.sampDone)
		for i := 0; ; i++ {
			select {
			case <-e.sampStop:
				return
			default:
			}
			e.observeState("sampler")
			if i%8 == 7 {
				time.Sleep(10 * time.Microsecond) // the API-boundary samples carry the rule; the sampler adds in-between points without hogging a CPU
			} else {
				runtime.Gosched()
			}
		}
	}()
}

func (e *clsEnd) stopSampler() {
	if e.sampStop != nil {
		close(e.sampStop)
		<-e.sampDone
		e.sampStop = nil
	}
}

// flush writes n keyed bytes and flushes them. The caller must not hold sendMu.
func (e *clsEnd) flush(n int, where string) error {
	e.sendMu.Lock()
	defer e.sendMu.Unlock()
	return e.flushLocked(n, where)
}

func (e *clsEnd) flushLocked(n int, where string) (err error) {
	buf := make([]byte, n)
	fillKeyed(buf, e.key, e.sendOff)
	defer func() {
		if r := recover(); r != nil {
			e.x.rec(e.name, "Flush.panic", "%v", r)
			e.x.violate("end %s: Flush (%s) panicked: %v\n%s", e.name, where, r, truncate(string(debug.Stack()), 1500))
			err = fmt.Errorf("panic: %v", r)
		}
	}()
	e.x.rec(e.name, "Flush.call", "%d bytes at %d (%s)", n, e.sendOff, where)
	if _, werr := e.st.BufferWriter().WriteBytes(buf); werr != nil {
		e.x.rec(e.name, "Flush.ret", "WriteBytes err=%v", werr)
		return werr
	}
	err = e.st.Flush(false)
	e.x.rec(e.name, "Flush.ret", "err=%v", err)
	if err == nil {
		e.sendOff += uint64(n)
		atomic.AddUint64(&e.flushedOK, uint64(n))
	}
	return err
}

// mustNotFlush: a Flush of non-empty data must fail with a closed-stream error now.
func (e *clsEnd) mustNotFlush(why string, locked bool) {
	if !locked {
		e.sendMu.Lock()
		defer e.sendMu.Unlock()
	}
	before := atomic.LoadUint64(&e.flushedOK)
	err := e.flushLocked(1+e.x.timing%7, "must fail: "+why)
	if err == nil {
		e.x.violate("end %s: Flush of non-empty data succeeded %s (bytes %d..%d accepted)", e.name, why, before, atomic.LoadUint64(&e.flushedOK))
	} else if !isClosedStreamErr(err) {
		e.x.violate("end %s: Flush %s failed with %q, not with a closed-stream error", e.name, why, err.Error())
	}
}

// readSome performs one Read at the API boundary (copying read) and verifies the bytes.
func (e *clsEnd) readSome(p []byte, wd time.Duration, where string) (n int, err error) {
	defer func() {
		if r := recover(); r != nil {
			e.x.rec(e.name, "Read.panic", "%v", r)
			e.x.violate("end %s: Read (%s) panicked: %v\n%s", e.name, where, r, truncate(string(debug.Stack()), 1500))
			err = fmt.Errorf("panic: %v", r)
		}
	}()
	e.st.SetReadDeadline(time.Now().Add(wd))
	e.x.rec(e.name, "Read.call", "%s", where)
	n, err = e.st.Read(p)
	e.x.rec(e.name, "Read.ret", "n=%d err=%v", n, err)
	if n > 0 {
		off := atomic.LoadUint64(&e.recvOff)
		if i := checkKeyed(p[:n], e.peer.key, off); i >= 0 {
			e.x.violate("end %s: byte %d of the received stream is wrong (got %#x want %#x)", e.name, off+uint64(i), p[i], keyedByte(e.peer.key, off+uint64(i)))
		}
		atomic.AddUint64(&e.recvOff, uint64(n))
	}
	return
}

// drainUntilError reads until an error is returned; returns the error. With viaReadBytes the first (possibly blocking)
// read is a zero-copy ReadBytes(1), the rest are copying reads.
func (e *clsEnd) drainUntilError(wd time.Duration, where string, viaReadBytes bool) (err error) {
	if viaReadBytes {
		func() {
			defer func() {
				if r := recover(); r != nil {
					e.x.rec(e.name, "ReadBytes.panic", "%v", r)
					e.x.violate("end %s: ReadBytes(1) (%s) panicked: %v\n%s", e.name, where, r, truncate(string(debug.Stack()), 1500))
					err = fmt.Errorf("panic: %v", r)
				}
			}()
			e.st.SetReadDeadline(time.Now().Add(wd))
			e.x.rec(e.name, "ReadBytes.call", "1 (%s)", where)
			var b []byte
			b, err = e.st.BufferReader().ReadBytes(1)
			e.x.rec(e.name, "ReadBytes.ret", "n=%d err=%v", len(b), err)
			if err == nil {
				off := atomic.LoadUint64(&e.recvOff)
				if len(b) != 1 || b[0] != keyedByte(e.peer.key, off) {
					e.x.violate("end %s: byte %d of the received stream is wrong (ReadBytes(1) returned %v)", e.name, off, b)
				}
				atomic.AddUint64(&e.recvOff, uint64(len(b)))
				e.st.BufferReader().ReleasePreviousRead()
			}
		}()
		if err != nil {
			return err
		}
	}
	p := make([]byte, 8192)
	for zero := 0; ; {
		n, err := e.readSome(p, wd, where)
		if err != nil {
			return err
		}
		if n == 0 {
			zero++
			if zero > 3 {
				return fmt.Errorf("Read returned (0, nil) repeatedly")
			}
		}
	}
}

// mustNotRead: after a local close completed, every read fails with a closed-stream error.
func (e *clsEnd) mustNotRead(why string) {
	p := make([]byte, 64)
	n, err := e.readSome(p, e.x.watchdog, "must fail: "+why)
	if err == nil {
		e.x.violate("end %s: Read %s succeeded (n=%d, err=nil)", e.name, why, n)
	} else if !isClosedStreamErr(err) && !strings.HasPrefix(err.Error(), "panic") {
		e.x.violate("end %s: Read %s failed with %q, not with a closed-stream error", e.name, why, err.Error())
	}
	func() {
		defer func() {
			if r := recover(); r != nil {
				e.x.rec(e.name, "ReadBytes.panic", "%v", r)
				e.x.violate("end %s: ReadBytes(1) %s panicked instead of failing with a closed-stream error: %v", e.name, why, r)
			}
		}()
		e.st.SetReadDeadline(time.Now().Add(e.x.watchdog))
		e.x.rec(e.name, "ReadBytes.call", "1 (must fail: %s)", why)
		b, err := e.st.BufferReader().ReadBytes(1)
		e.x.rec(e.name, "ReadBytes.ret", "n=%d err=%v", len(b), err)
		if err == nil {
			e.x.violate("end %s: ReadBytes(1) %s succeeded", e.name, why)
		} else if !isClosedStreamErr(err) {
			e.x.violate("end %s: ReadBytes(1) %s failed with %q, not with a closed-stream error", e.name, why, err.Error())
		}
	}()
}

// doClose is one Close call at the API boundary.
func (e *clsEnd) doClose(where string) {
	atomic.AddInt32(&e.closeCalls, 1)
	inCb := atomic.LoadUint32(&e.st.callbackInProcess) == 1
	e.x.rec(e.name, "Close.call", "%s (callbackInProcess=%v state=%s)", where, inCb, clsStateName(e.st.getStreamState()))
	if inCb {
		atomic.AddInt64(&e.x.deferredN, 1)
	}
	err := e.st.Close()
	e.observeState("after Close")
	e.x.rec(e.name, "Close.ret", "err=%v state=%s", err, clsStateName(e.st.getStreamState()))
	atomic.AddInt32(&e.closeReturned, 1)
	if err != nil && !isClosedStreamErr(err) {
		e.x.rec(e.name, "Close.err", "%v", err)
	}
}

func (e *clsEnd) inTable() bool {
	return e.sess.getStreamById(e.st.id) == e.st
}

func (e *clsEnd) cbIdle() bool {
	if e.cb == nil {
		return true
	}
	return atomic.LoadUint32(&e.st.callbackInProcess) == 0 && atomic.LoadInt32(&e.cb.inData) == 0
}

// ---------------------------------------------------------------------------------------------
// callbacks of one end

type clsCallbacks struct {
	e        *clsEnd
	inData   int32
	nData    int32
	nLocal   int32
	nRemote  int32
	localCh  chan struct{} // closed at the first OnLocalClose
	remoteCh chan struct{} // closed at the first OnRemoteClose

	// "close inside OnData"
	closeArmed  int32
	closeFired  int32
	closeHow    int           // 1 once, 2 twice, 3 together with a user goroutine
	consumePct  int           // share of the buffered bytes consumed before Close
	userGo      chan struct{} // closed right before Close is called inside OnData (how==3)
	closeDoneCh chan struct{} // closed when the in-callback close sequence finished
	goCh        chan struct{} // closed when no user goroutine is flushing on this stream any more (Close and Flush of one end never overlap)
	goOnce      sync.Once

	// "Close from a user goroutine while OnData is running"
	gateArmed int32
	gateUsed  int32
	insideCh  chan struct{} // closed when OnData is inside and waiting
	releaseCh chan struct{} // closed by the user goroutine after its Close returned
	relOnce   sync.Once

	// "close inside OnRemoteClose"
	rcArmed int32
	rcHow   int
}

func newClsCallbacks(e *clsEnd) *clsCallbacks {
	return &clsCallbacks{e: e, localCh: make(chan struct{}), remoteCh: make(chan struct{}), userGo: make(chan struct{}),
		closeDoneCh: make(chan struct{}), goCh: make(chan struct{}), insideCh: make(chan struct{}), releaseCh: make(chan struct{})}
}

func (cb *clsCallbacks) letClose() { cb.goOnce.Do(func() { close(cb.goCh) }) }

func (cb *clsCallbacks) release() { cb.relOnce.Do(func() { close(cb.releaseCh) }) }

func (cb *clsCallbacks) guard(what string) {
	if r := recover(); r != nil {
		cb.e.x.rec(cb.e.name, what+".panic", "%v", r)
		cb.e.x.violate("end %s: panic inside %s: %v\n%s", cb.e.name, what, r, truncate(string(debug.Stack()), 1500))
	}
}

func (cb *clsCallbacks) consume(r BufferReader, n int) {
	e := cb.e
	if n <= 0 {
		return
	}
	buf, err := r.ReadBytes(n)
	if err != nil {
		e.x.rec(e.name, "OnData.read", "ReadBytes(%d) err=%v", n, err)
		return
	}
	off := atomic.LoadUint64(&e.recvOff)
	if i := checkKeyed(buf, e.peer.key, off); i >= 0 {
		e.x.violate("end %s: byte %d offered to OnData is wrong (got %#x want %#x)", e.name, off+uint64(i), buf[i], keyedByte(e.peer.key, off+uint64(i)))
	}
	atomic.AddUint64(&e.recvOff, uint64(len(buf)))
	r.ReleasePreviousRead()
}

func (cb *clsCallbacks) OnData(r BufferReader) {
	e := cb.e
	x := e.x
	defer cb.guard("OnData")
	if n := atomic.AddInt32(&cb.inData, 1); n > 1 {
		x.rec(e.name, "OnData.reentered", "%d invocations at once", n)
	}
	defer atomic.AddInt32(&cb.inData, -1)
	atomic.AddInt32(&cb.nData, 1)
	avail := r.Len()
	x.rec(e.name, "OnData.enter", "len=%d state=%s", avail, clsStateName(e.st.getStreamState()))
	defer x.rec(e.name, "OnData.exit", "")
	// the property: no OnData after the local close completed (the close callback fired)
	if atomic.LoadInt32(&cb.nLocal) > 0 {
		x.violate("end %s: OnData entered after OnLocalClose had fired", e.name)
	}
	if atomic.LoadInt32(&cb.gateArmed) == 1 && atomic.CompareAndSwapInt32(&cb.gateUsed, 0, 1) {
		close(cb.insideCh)
		select {
		case <-cb.releaseCh:
		case <-time.After(x.watchdog):
			x.inconclusive("end %s: user goroutine did not release the gated OnData", e.name)
		}
	}
	if atomic.LoadInt32(&cb.closeArmed) == 1 && atomic.CompareAndSwapInt32(&cb.closeFired, 0, 1) {
		defer close(cb.closeDoneCh)
		select {
		case <-cb.goCh:
		case <-time.After(x.watchdog):
			x.inconclusive("end %s: the user goroutines did not finish flushing", e.name)
		}
		cb.consume(r, avail*cb.consumePct/100)
		if cb.closeHow == 3 {
			close(cb.userGo)
		}
		e.doClose("inside OnData")
		if cb.closeHow == 2 {
			e.doClose("inside OnData, second call")
		}
		// the close is deferred to the end of this callback: Flush must already fail ...
		if e.sendMu.TryLock() {
			e.mustNotFlush("inside OnData after Close returned", true)
			e.sendMu.Unlock()
		}
		// ... while bytes already buffered may still be read here (exempt from the rule): exercise it, no verdict
		if rest := r.Len(); rest > 0 {
			cb.consume(r, rest)
		}
		return
	}
	cb.consume(r, avail)
}

func (cb *clsCallbacks) OnLocalClose() {
	e := cb.e
	defer cb.guard("OnLocalClose")
	n := atomic.AddInt32(&cb.nLocal, 1)
	e.x.rec(e.name, "OnLocalClose", "#%d (OnRemoteClose so far %d)", n, atomic.LoadInt32(&cb.nRemote))
	e.observeState("OnLocalClose")
	if n == 1 {
		close(cb.localCh)
	}
}

func (cb *clsCallbacks) OnRemoteClose() {
	e := cb.e
	defer cb.guard("OnRemoteClose")
	n := atomic.AddInt32(&cb.nRemote, 1)
	e.x.rec(e.name, "OnRemoteClose", "#%d (OnLocalClose so far %d)", n, atomic.LoadInt32(&cb.nLocal))
	e.observeState("OnRemoteClose")
	atomic.StoreInt32(&e.sawEOS, 1)
	if n == 1 {
		defer close(cb.remoteCh)
	}
	if atomic.CompareAndSwapInt32(&cb.rcArmed, 1, 2) {
		e.doClose("inside OnRemoteClose")
		if cb.rcHow == 2 {
			e.doClose("inside OnRemoteClose, second call")
		}
		atomic.StoreInt32(&e.closedLocally, 1)
	}
}

// ---------------------------------------------------------------------------------------------
// server side stream registry (listenCallback: callbacks are installed before the first byte is delivered)

type clsRegistry struct {
	mu      sync.Mutex
	cond    *sync.Cond
	streams map[uint32][]*Stream
	onNew   map[uint32]func(*Stream) // runs on the event loop before the first byte is delivered
	all     []*Stream
}

func newClsRegistry() *clsRegistry {
	r := &clsRegistry{streams: map[uint32][]*Stream{}, onNew: map[uint32]func(*Stream){}}
	r.cond = sync.NewCond(&r.mu)
	return r
}

func (r *clsRegistry) OnNewStream(s *Stream) {
	r.mu.Lock()
	if fn := r.onNew[s.id]; fn != nil && len(r.streams[s.id]) == 0 {
		fn(s) // before the stream becomes visible to wait()
	}
	r.streams[s.id] = append(r.streams[s.id], s)
	r.all = append(r.all, s)
	r.cond.Broadcast()
	r.mu.Unlock()
}

func (r *clsRegistry) OnShutdown(reason string) {}

func (r *clsRegistry) wait(id uint32, timeout time.Duration) *Stream {
	deadline := time.Now().Add(timeout)
	timer := time.AfterFunc(timeout, func() {
		r.mu.Lock()
		r.cond.Broadcast()
		r.mu.Unlock()
	})
	defer timer.Stop()
	r.mu.Lock()
	defer r.mu.Unlock()
	for {
		if l := r.streams[id]; len(l) > 0 {
			return l[0]
		}
		if time.Now().After(deadline) {
			return nil
		}
		r.cond.Wait()
	}
}

func (r *clsRegistry) snapshot() []*Stream {
	r.mu.Lock()
	defer r.mu.Unlock()
	return append([]*Stream(nil), r.all...)
}

// ---------------------------------------------------------------------------------------------
// background traffic on other streams of the same session (keeps the queue consumers busy)

type clsNoise struct {
	gate    sync.RWMutex // the scenario holds Lock while the allocator is exhausted on purpose
	locked  int32
	stop    int32
	wg      sync.WaitGroup // readers
	wwg     sync.WaitGroup // writers
	cl      []*Stream
	msgs    int64
	sendErr int64
}

func (x *clsExec) startNoise(n int) bool {
	nz := &clsNoise{}
	for i := 0; i < n; i++ {
		st, err := x.p.client.OpenStream()
		if err != nil {
			return false
		}
		nz.cl = append(nz.cl, st)
	}
	for i, st := range nz.cl {
		var sentB, recvB int64 // flow control: the writer stays at most 4 KiB ahead of the reader (noise must stay in share memory)
		msgLen := 48 + 16*i
		nz.wwg.Add(1)
		go func(st *Stream) {
			defer nz.wwg.Done()
			msg := make([]byte, msgLen)
			for atomic.LoadInt32(&nz.stop) == 0 {
				if atomic.LoadInt64(&sentB)-atomic.LoadInt64(&recvB) > 4096 {
					time.Sleep(5 * time.Microsecond)
					continue
				}
				nz.gate.RLock()
				_, _ = st.BufferWriter().WriteBytes(msg)
				err := st.Flush(false)
				nz.gate.RUnlock()
				if err != nil {
					atomic.AddInt64(&nz.sendErr, 1)
					time.Sleep(50 * time.Microsecond)
					continue
				}
				atomic.AddInt64(&sentB, int64(msgLen))
				if atomic.AddInt64(&nz.msgs, 1)%8 == 0 {
					runtime.Gosched()
				}
			}
		}(st)
		// the server's reader for this stream
		nz.wg.Add(1)
		go func(id uint32) {
			defer nz.wg.Done()
			sv := x.reg.wait(id, x.watchdog)
			if sv == nil {
				return
			}
			p := make([]byte, 4096)
			for zero := 0; zero < 3; {
				sv.SetReadDeadline(time.Now().Add(200 * time.Millisecond))
				n, err := sv.Read(p)
				atomic.AddInt64(&recvB, int64(n))
				if n == 0 && err == nil {
					zero++ // a broken tree may answer (0, nil) on a closed stream: never spin on it
				}
				if err == ErrTimeout {
					if atomic.LoadInt32(&nz.stop) != 0 {
						return
					}
					continue
				}
				if err != nil {
					return
				}
			}
		}(st.id)
	}
	x.noise = nz
	return true
}

func (x *clsExec) stopNoise() {
	nz := x.noise
	if nz == nil {
		return
	}
	atomic.StoreInt32(&nz.stop, 1)
	if atomic.CompareAndSwapInt32(&nz.locked, 1, 0) {
		nz.gate.Unlock()
	}
	nz.wwg.Wait() // a stream is closed only when nobody is writing to it any more
	for _, st := range nz.cl {
		st.Close() // wakes the server side readers through end-of-stream
	}
	nz.wg.Wait()
	x.noise = nil
	x.c.count("noise messages on other streams", atomic.LoadInt64(&nz.msgs))
	x.c.count("noise flush errors", atomic.LoadInt64(&nz.sendErr))
	if os.Getenv("VERIF_DEBUG") != "" {
		fmt.Printf("DEBUG noise msgs=%d errs=%d fallbackWrites c=%d s=%d\n", nz.msgs, nz.sendErr,
			atomic.LoadUint64(&x.p.client.stats.fallbackWriteCount), atomic.LoadUint64(&x.p.server.stats.fallbackWriteCount))
	}
}

// ---------------------------------------------------------------------------------------------
// helpers on the pair

func clsHoardAll(bm *bufferManager) []*bufferSlice {
	var out []*bufferSlice
	for i := range bm.lists {
		out = append(out, hoard(bm, i, 1<<30)...)
	}
	return out
}

// settle: the pair is quiescent and no callback goroutine is running on the streams under test.
func (x *clsExec) settle() bool {
	deadline := time.Now().Add(x.watchdog)
	for {
		if x.noise != nil {
			// background traffic never lets the queues drain; fences are what matters then
			if !fenceN(2) {
				return false
			}
		} else if !x.p.quiesce(x.watchdog) {
			return false
		}
		idle := true
		for _, e := range x.ends {
			if e.st != nil && !e.cbIdle() {
				idle = false
			}
		}
		if idle {
			return fenceN(1)
		}
		if time.Now().After(deadline) {
			return false
		}
		time.Sleep(100 * time.Microsecond)
	}
}

var clsViolationsSoFar int32

// eventually waits for a condition that the property promises as bounded progress. It returns true when the
// condition holds; otherwise it decides between violation (the pair is quiescent, everything sent has been handled,
// nothing else is going to happen) and inconclusive (the machine did not even let the pair settle).
func (x *clsExec) eventually(what string, cond func() bool) bool {
	wd := x.watchdog
	if atomic.LoadInt32(&clsViolationsSoFar) >= 2 {
		wd = 2 * time.Second // the run has failed already; do not spend a full watchdog per further witness
	}
	deadline := time.Now().Add(wd)
	for i := 0; ; i++ {
		if cond() {
			return true
		}
		if time.Now().After(deadline) {
			break
		}
		if i < 50 {
			runtime.Gosched()
		} else {
			fenceOnce(5 * time.Second)
			time.Sleep(100 * time.Microsecond)
		}
	}
	// last word: settle, fence, look again
	if x.noise != nil {
		x.stopNoise()
	}
	if !x.settle() || !fenceN(3) {
		x.inconclusive("%s: pair did not settle within the watchdog", what)
		return false
	}
	if cond() {
		return true
	}
	x.violate("%s (pair quiescent, %d fences passed, waited %v)", what, 3, wd)
	return false
}

func clsSortedEnds(m map[string]*clsEnd) []*clsEnd {
	var out []*clsEnd
	for _, k := range []string{"c", "s"} {
		if e := m[k]; e != nil {
			out = append(out, e)
		}
	}
	return out
}

// ---------------------------------------------------------------------------------------------
// one execution of one scenario

type clsReaderRes struct{ err error }

type clsPlan struct { // everything PRNG-determined is drawn up front (the generator is not shared between goroutines)
	sizesA       map[string][]int // messages an end flushes right before / well before its Close
	sizesB       map[string][]int // messages the non-closing end flushes concurrently
	delayUs      map[string]int   // delay of each closing goroutine after the barrier
	delay2       map[string]int
	trigger      int
	pct          int
	viaReadBytes bool
	blocked      bool // the non-closing synchronous end has a reader blocked in Read before the close happens
	hello        int
}

func clsMsgSize(rng *rand.Rand) int {
	switch rng.Intn(10) {
	case 0:
		return 1
	case 1, 2, 3:
		return 1 + rng.Intn(64)
	case 4, 5, 6, 7:
		return 1 + rng.Intn(4096)
	case 8:
		return 1 + rng.Intn(20000)
	default:
		return 1 + rng.Intn(65536)
	}
}

func clsDelay(us int) {
	switch {
	case us <= 0:
	case us == 1:
		runtime.Gosched()
	case us < 10:
		spinFor(us * 200)
	default:
		time.Sleep(time.Duration(us) * time.Microsecond)
	}
}

func clsRun(c *checkCtx, sc clsScenario, timing int) *clsExec {
	x := &clsExec{c: c, sc: sc, timing: timing, ends: map[string]*clsEnd{}, watchdog: 15 * time.Second}
	x.rng = caseRand(c.seed, 1000*sc.Idx+timing)
	rng := x.rng
	prof := clsProfiles[rng.Intn(len(clsProfiles))]
	x.profile = prof.name
	x.k = newCtl("C10/"+prof.name, rng.Int63())
	prof.build(x.k)
	x.reg = newClsRegistry()
	closerEnds, how := sc.closers()

	// ---- plan
	pl := clsPlan{sizesA: map[string][]int{}, sizesB: map[string][]int{}, delayUs: map[string]int{}, delay2: map[string]int{}}
	for _, n := range []string{"c", "s"} {
		for i, k := 0, 1+rng.Intn(3); i < k; i++ {
			pl.sizesA[n] = append(pl.sizesA[n], clsMsgSize(rng))
		}
		for i, k := 0, 1+rng.Intn(3); i < k; i++ {
			pl.sizesB[n] = append(pl.sizesB[n], clsMsgSize(rng))
		}
		pl.delayUs[n] = []int{0, 0, 1, 3, 8, 20, 60, 150}[rng.Intn(8)]
		pl.delay2[n] = []int{0, 0, 1, 3, 8, 20, 60}[rng.Intn(7)]
	}
	pl.trigger = clsMsgSize(rng)
	pl.pct = []int{0, 50, 100}[rng.Intn(3)]
	if sc.When == "unread" {
		pl.pct = 0
	}
	pl.blocked = rng.Intn(2) == 0
	pl.hello = 1 + rng.Intn(200)
	pl.viaReadBytes = rng.Intn(2) == 0
	fallback := sc.Transport == "fallback"
	keepHoarded := fallback && rng.Intn(3) == 0
	useNoise := (fallback && !keepHoarded) || (!fallback && rng.Intn(3) == 0)
	x.fresh = sc.From == "user" && sc.When != "nodata" && len(closerEnds) == 1 && closerEnds[0] == "c" && rng.Intn(2) == 0
	queueCap := uint32(0)
	if rng.Intn(3) == 0 {
		queueCap = 64
	}

	// ---- pair
	p, err := newSessionPair(pairOpt{noAccept: true, queueCap: queueCap, memfd: rng.Intn(2) == 0, initTO: 20 * time.Second, sizes: smallSizes(1024, 20, 16384, 80),
		serverCfg: func(cfg *Config) { cfg.listenCallback = x.reg }})
	if err != nil {
		x.inconclusive("pair: %v", err)
		return x
	}
	x.p = p
	x.k.install()
	defer func() {
		// ---- teardown (no verdicts here)
		for _, e := range x.ends {
			e.stopSampler()
			if e.cb != nil {
				e.cb.release()
				e.cb.letClose()
			}
		}
		x.stopNoise()
		if x.hoarded != nil {
			unhoard(p.client.bufferManager, x.hoarded)
			x.hoarded = nil
		}
		for n, ch := range x.readers {
			// a reader is still inside Read (early return): end-of-stream from the peer wakes it; only then is its stream closed
			if e := x.ends[n]; e != nil && e.peer.st != nil {
				e.peer.st.Close()
				select {
				case <-ch:
				case <-time.After(5 * time.Second):
				}
			}
		}
		for _, e := range x.ends {
			if e.st != nil {
				e.st.Close()
			}
		}
		for _, st := range x.reg.snapshot() {
			st.Close()
		}
		uninstallCtl()
		if atomic.LoadInt64(&x.deferredN) > 0 {
			// a callback goroutine may still be between OnLocalClose and the peer notification of its deferred close (the library's
			// teardown does not wait for it); no verdict depends on this pause, it only keeps that goroutine off a torn-down session
			fenceN(1)
			time.Sleep(500 * time.Microsecond)
		}
		p.close()
	}()

	if useNoise && !x.startNoise(1) {
		x.inconclusive("noise streams could not be opened")
		return x
	}
	hoardNow := func() {
		if x.noise != nil {
			x.noise.gate.Lock()
			atomic.StoreInt32(&x.noise.locked, 1)
		}
		x.hoarded = clsHoardAll(p.client.bufferManager)
		x.rec("-", "hoard", "%d buffers taken from the allocator: every flush falls back to the socket", len(x.hoarded))
	}
	unhoardNow := func() {
		if x.hoarded != nil && !keepHoarded {
			unhoard(p.client.bufferManager, x.hoarded)
			x.hoarded = nil
			x.rec("-", "unhoard", "")
		}
		if x.noise != nil && atomic.CompareAndSwapInt32(&x.noise.locked, 1, 0) {
			x.noise.gate.Unlock()
		}
	}

	// ---- the stream under test
	cst, err := p.client.OpenStream()
	if err != nil {
		x.inconclusive("open: %v", err)
		return x
	}
	ce := &clsEnd{x: x, name: "c", sess: p.client, st: cst, key: uint64(cst.id)*2 + 1000}
	se := &clsEnd{x: x, name: "s", sess: p.server, key: uint64(cst.id)*2 + 1001}
	ce.peer, se.peer = se, ce
	x.ends["c"], x.ends["s"] = ce, se
	if sc.hasCb("c") {
		ce.cb = newClsCallbacks(ce)
		if err := cst.SetCallbacks(ce.cb); err != nil {
			x.inconclusive("SetCallbacks: %v", err)
			return x
		}
	}
	if sc.hasCb("s") {
		se.cb = newClsCallbacks(se)
	}
	x.reg.mu.Lock()
	x.reg.onNew[cst.id] = func(s *Stream) {
		se.st = s
		if se.cb != nil {
			_ = s.SetCallbacks(se.cb)
		}
	}
	x.reg.mu.Unlock()
	ce.startSampler()
	serverUp := func() bool {
		if se.sampStop != nil {
			return true
		}
		if st := x.reg.wait(cst.id, x.watchdog); st == nil {
			x.inconclusive("the server side stream did not appear although the client flushed data")
			return false
		}
		se.startSampler()
		return true
	}
	// recvExactly: the end consumes until its received offset reaches want (synchronous: reads; callbacks: waits)
	recvExactly := func(e *clsEnd, want uint64) bool {
		if e.cb != nil {
			if !waitUntil(x.watchdog, func() bool { return atomic.LoadUint64(&e.recvOff) >= want }) {
				x.inconclusive("end %s: callbacks were offered %d of %d bytes during set-up", e.name, atomic.LoadUint64(&e.recvOff), want)
				return false
			}
			return true
		}
		for atomic.LoadUint64(&e.recvOff) < want {
			rest := want - atomic.LoadUint64(&e.recvOff)
			if rest > 8192 {
				rest = 8192
			}
			if _, err := e.readSome(make([]byte, rest), x.watchdog, "set-up"); err != nil {
				x.inconclusive("end %s: set-up read failed: %v", e.name, err)
				return false
			}
		}
		return true
	}

	// ---- establish (hello round trip), possibly with the allocator exhausted so that both ends are in fallback state
	if fallback {
		if keepHoarded {
			x.stopNoise()
		}
		hoardNow()
	}
	if !x.fresh {
		if err := ce.flush(pl.hello, "hello"); err != nil {
			x.inconclusive("hello flush: %v", err)
			return x
		}
		if !serverUp() || !recvExactly(se, uint64(pl.hello)) {
			return x
		}
		if err := se.flush(pl.hello/2+1, "hello back"); err != nil {
			x.inconclusive("hello-back flush: %v", err)
			return x
		}
		if !recvExactly(ce, uint64(pl.hello/2+1)) {
			return x
		}
		if fallback {
			unhoardNow()
		}
	}
	c.count("executions with a fresh stream (first data then close)", b2i(x.fresh))

	isCloser := map[string]bool{}
	for _, n := range closerEnds {
		isCloser[n] = true
	}
	// firstClosers: the ends whose Close comes first (for onremoteclose: the peer of the named end, from a user goroutine)
	firstClosers := closerEnds
	var rcEnd *clsEnd
	if sc.From == "onremoteclose" {
		rcEnd = x.ends[closerEnds[0]]
		firstClosers = []string{rcEnd.peer.name}
		rcEnd.cb.rcHow = how
		atomic.StoreInt32(&rcEnd.cb.rcArmed, 1)
	}
	isFirst := map[string]bool{}
	for _, n := range firstClosers {
		isFirst[n] = true
	}
	flushList := func(e *clsEnd, sizes []int, where string, tolerateClosed bool) {
		for _, n := range sizes {
			if err := e.flush(n, where); err != nil {
				if tolerateClosed && isClosedStreamErr(err) {
					return
				}
				if !isClosedStreamErr(err) {
					x.rec(e.name, "Flush.unexpected", "%v", err)
				}
				return
			}
		}
	}

	// ---- a reader blocked on the non-closing synchronous end before anything is closed
	readerCh := map[string]chan clsReaderRes{}
	x.readers = readerCh
	if pl.blocked && !x.fresh && sc.When != "unread" {
		for _, e := range clsSortedEnds(x.ends) {
			if !isFirst[e.name] && e != rcEnd && e.cb == nil {
				ch := make(chan clsReaderRes, 1)
				readerCh[e.name] = ch
				go func(e *clsEnd) {
					ch <- clsReaderRes{e.drainUntilError(2*x.watchdog, "reader started before the close", pl.viaReadBytes)}
				}(e)
			}
		}
		c.count("executions with a reader blocked before the close", b2i(len(readerCh) > 0))
	}

	// ---- "unread": data sits on both sides before anything is closed
	if sc.When == "unread" && !x.fresh {
		for _, e := range clsSortedEnds(x.ends) {
			if isFirst[e.name] {
				flushList(e, pl.sizesA[e.name], "before close (will be unread)", false)
			} else {
				flushList(e, pl.sizesB[e.name], "to the closing end (will be unread)", false)
			}
		}
		if !x.settle() {
			x.inconclusive("pair did not settle before the close phase")
			return x
		}
	}

	// ---- close phase
	var wg, wgFlush sync.WaitGroup
	barrier := make(chan struct{})
	flushFirst := sc.When == "inflight" || (x.fresh && sc.When == "unread")
	switch sc.From {
	case "user", "onremoteclose":
		for _, n := range firstClosers {
			e := x.ends[n]
			h := how
			if sc.From == "onremoteclose" {
				h = 1
			}
			wg.Add(1)
			go func(e *clsEnd, h int) {
				defer wg.Done()
				<-barrier
				if flushFirst {
					flushList(e, pl.sizesA[e.name], "right before Close", false)
					if x.fresh && fallback {
						unhoardNow()
					}
				}
				clsDelay(pl.delayUs[e.name])
				if h == 3 {
					var w2 sync.WaitGroup
					w2.Add(1)
					go func() {
						defer w2.Done()
						clsDelay(pl.delay2[e.name])
						e.doClose("user goroutine B")
					}()
					e.doClose("user goroutine A")
					w2.Wait()
				} else {
					e.doClose("user goroutine")
					if h == 2 {
						clsDelay(pl.delay2[e.name])
						e.doClose("user goroutine, second call")
					}
				}
				atomic.StoreInt32(&e.closedLocally, 1)
				if e.cb == nil {
					e.mustNotFlush("right after Close returned", false)
				}
				// with callbacks the Close may have been deferred to a callback goroutine that finishes it at any moment; a Flush
				// attempted now would make the harness a writer concurrent with the library's own cleanup of the send buffer
				// (see the report: that combination can crash). The deferral interval is checked where it is well defined:
				// inside OnData and with OnData parked (user-during-ondata).
			}(e, h)
		}
		if sc.When == "inflight" && !x.fresh {
			for _, e := range clsSortedEnds(x.ends) {
				if isFirst[e.name] {
					continue
				}
				if e == rcEnd {
					// this end closes on the event loop as soon as it learns of the peer's close: its own flushes come first
					flushList(e, pl.sizesB[e.name], "towards the closing end (before it closes)", true)
					continue
				}
				wg.Add(1)
				go func(e *clsEnd) { // data in flight towards the closing end
					defer wg.Done()
					<-barrier
					flushList(e, pl.sizesB[e.name], "towards the closing end", true)
				}(e)
			}
		}
		close(barrier)
		wg.Wait()
		if x.fresh && fallback && x.hoarded != nil && !keepHoarded {
			unhoardNow()
		}
		if x.fresh && !serverUp() {
			return x
		}
		if rcEnd != nil {
			// the named end closes inside its OnRemoteClose
			x.eventually(fmt.Sprintf("end %s: OnRemoteClose fires after the peer's Close returned", rcEnd.name), func() bool {
				return atomic.LoadInt32(&rcEnd.closedLocally) == 1
			})
		}
	case "ondata":
		for _, n := range closerEnds {
			e := x.ends[n]
			if sc.When == "inflight" {
				flushList(e, pl.sizesA[n], "before the in-callback Close", false)
			}
			e.cb.closeHow = how
			e.cb.consumePct = pl.pct
			atomic.StoreInt32(&e.cb.closeArmed, 1)
		}
		for _, n := range closerEnds {
			e := x.ends[n]
			wg.Add(1)
			wgFlush.Add(1)
			go func(e *clsEnd) { // the peer's message makes OnData run on e
				defer wg.Done()
				defer wgFlush.Done()
				<-barrier
				clsDelay(pl.delayUs[e.name])
				flushList(e.peer, []int{pl.trigger}, "trigger for the in-callback Close", true)
				if sc.When == "inflight" {
					flushList(e.peer, pl.sizesB[e.peer.name], "behind the trigger", true)
				}
			}(e)
			if how == 3 {
				wg.Add(1)
				go func(e *clsEnd) {
					defer wg.Done()
					select {
					case <-e.cb.userGo:
						clsDelay(pl.delay2[e.name])
						e.doClose("user goroutine, concurrent with the Close inside OnData")
					case <-time.After(x.watchdog):
					}
				}(e)
			}
		}
		close(barrier)
		flushersDone := make(chan struct{})
		go func() { // the in-callback Close starts when nobody is inside Flush on these streams any more
			wgFlush.Wait()
			for _, n := range closerEnds {
				x.ends[n].cb.letClose()
			}
			close(flushersDone)
		}()
		wg.Wait()
		<-flushersDone
		for _, n := range closerEnds {
			e := x.ends[n]
			select {
			case <-e.cb.closeDoneCh:
				atomic.StoreInt32(&e.closedLocally, 1)
			case <-time.After(x.watchdog):
				// both ends armed: the peer may have closed first, after which this end is (rightly) offered nothing more
				if atomic.LoadInt32(&e.cb.nRemote) > 0 || !e.peer.st.IsOpen() {
					x.rec(e.name, "note", "in-callback close never triggered: the peer closed first")
				} else {
					x.inconclusive("end %s: OnData was not invoked for the trigger message", e.name)
					return x
				}
			}
		}
	case "user-during-ondata":
		for _, n := range closerEnds {
			atomic.StoreInt32(&x.ends[n].cb.gateArmed, 1)
		}
		for _, n := range closerEnds {
			e := x.ends[n]
			flushList(e.peer, []int{pl.trigger}, "message that keeps OnData busy", false)
		}
		for _, n := range closerEnds {
			e := x.ends[n]
			select {
			case <-e.cb.insideCh:
			case <-time.After(x.watchdog):
				x.inconclusive("end %s: OnData was not invoked for the gate message", e.name)
				return x
			}
		}
		for _, n := range closerEnds {
			e := x.ends[n]
			wg.Add(1)
			go func(e *clsEnd) {
				defer wg.Done()
				<-barrier
				if sc.When == "inflight" {
					flushList(e, pl.sizesA[e.name], "right before Close (OnData running)", false)
				}
				clsDelay(pl.delayUs[e.name])
				if how == 3 {
					var w2 sync.WaitGroup
					w2.Add(1)
					go func() {
						defer w2.Done()
						clsDelay(pl.delay2[e.name])
						e.doClose("user goroutine B while OnData is running")
					}()
					e.doClose("user goroutine A while OnData is running")
					w2.Wait()
				} else {
					e.doClose("user goroutine while OnData is running")
					if how == 2 {
						e.doClose("user goroutine while OnData is running, second call")
					}
				}
				atomic.StoreInt32(&e.closedLocally, 1)
				// the close is deferred; Flush must fail already
				e.mustNotFlush("after Close returned while OnData is still running", false)
				clsDelay(pl.delay2[e.name])
				e.cb.release()
			}(e)
		}
		close(barrier)
		wg.Wait()
	}
	if x.failed() {
		return x
	}

	// ---- rules for every end that closed locally
	completed := map[string]bool{}
	checkLocal := func(e *clsEnd, why string) {
		done := func() bool { return e.st.getStreamState() == uint32(streamClosed) && !e.inTable() }
		if e.cb == nil {
			// no callbacks: Close does everything before it returns (every Close call issued has returned by now)
			if !done() {
				x.violate("end %s: after Close returned (%s) the stream is in state %s and %s the session table (active streams %d)",
					e.name, why, clsStateName(e.st.getStreamState()), map[bool]string{true: "still in", false: "not in"}[e.inTable()], e.sess.GetActiveStreamCount())
				return
			}
			completed[e.name] = true
			e.observeState("close completed")
			e.mustNotFlush("after the local close completed", false)
			e.mustNotRead("after the local close completed")
			return
		}
		if !x.eventually(fmt.Sprintf("end %s: the (possibly deferred) local close completes: state closed and stream removed from the session's table of active streams (%s)", e.name, why), done) {
			return
		}
		completed[e.name] = true
		e.observeState("close completed")
		// exactly one close callback is due; OnLocalClose is also the only signal that a deferred close has finished its cleanup
		if !x.eventually(fmt.Sprintf("end %s: one of OnLocalClose/OnRemoteClose is called for the closure (%s)", e.name, why),
			func() bool { return atomic.LoadInt32(&e.cb.nLocal)+atomic.LoadInt32(&e.cb.nRemote) > 0 }) {
			return
		}
		if atomic.LoadInt32(&e.cb.nLocal) == 0 {
			// the end already knew of the closure (OnRemoteClose came first): a deferred close then ends silently, so the moment its
			// cleanup is over cannot be observed at the API; operations issued now could overlap that cleanup
			c.count("post-completion Flush/Read checks skipped (deferred close of an already known closure has no completion signal)", 1)
			return
		}
		if !waitUntil(x.watchdog, e.cbIdle) {
			x.inconclusive("end %s: callback goroutine still running after OnLocalClose", e.name)
			return
		}
		e.mustNotFlush("after the local close completed (OnLocalClose fired)", false)
		e.mustNotRead("after the local close completed (OnLocalClose fired)")
	}
	for _, e := range clsSortedEnds(x.ends) {
		if atomic.LoadInt32(&e.closedLocally) == 1 {
			checkLocal(e, "close phase")
		}
	}
	if x.failed() {
		return x
	}

	// ---- the peer of a closed end observes end-of-stream after draining, then cannot send
	for _, e := range clsSortedEnds(x.ends) {
		if atomic.LoadInt32(&e.closedLocally) == 1 || !completed[e.peer.name] {
			continue
		}
		a := e.peer
		flushed := atomic.LoadUint64(&a.flushedOK)
		if !x.eventually(fmt.Sprintf("end %s: end-of-stream becomes observable after the peer's close completed (stream state leaves 'open')", e.name),
			func() bool { return e.st.getStreamState() != uint32(streamOpened) }) {
			return x
		}
		if e.cb == nil {
			var rerr error
			if ch := readerCh[e.name]; ch != nil {
				select {
				case r := <-ch:
					rerr = r.err
				case <-time.After(3 * x.watchdog):
					x.inconclusive("end %s: blocked reader did not return", e.name)
					return x
				}
				delete(readerCh, e.name)
			} else {
				rerr = e.drainUntilError(x.watchdog, "drain after the peer closed", pl.viaReadBytes)
			}
			got := atomic.LoadUint64(&e.recvOff)
			switch {
			case rerr == ErrTimeout:
				if x.settle() {
					x.violate("end %s: read timed out after %d bytes although the peer's close completed and the pair is quiescent (no end-of-stream)", e.name, got)
				} else {
					x.inconclusive("end %s: read watchdog", e.name)
				}
				return x
			case !isClosedStreamErr(rerr):
				x.violate("end %s: draining ended with %q, not with end-of-stream", e.name, rerr)
				return x
			case got != flushed:
				x.violate("end %s: end-of-stream observed after %d bytes but the peer had flushed %d bytes before its Close (close overtook data / data lost)", e.name, got, flushed)
				return x
			}
			atomic.StoreInt32(&e.sawEOS, 1)
		} else {
			if !x.eventually(fmt.Sprintf("end %s: OnRemoteClose fires for the peer's close", e.name),
				func() bool { return atomic.LoadInt32(&e.cb.nRemote)+atomic.LoadInt32(&e.cb.nLocal) > 0 }) {
				return x
			}
		}
		e.mustNotFlush("after it observed end-of-stream", false)
		// now this end closes as well (the second closure; it already knows about the first)
		e.doClose("second closure (user goroutine)")
		atomic.StoreInt32(&e.closedLocally, 1)
		checkLocal(e, "closing after end-of-stream")
		if x.failed() {
			return x
		}
	}
	for n, ch := range readerCh { // readers of ends that closed themselves meanwhile
		select {
		case <-ch:
			delete(readerCh, n)
		case <-time.After(3 * x.watchdog):
			x.inconclusive("end %s: blocked reader did not return", n)
			return x
		}
	}

	// ---- final: callback counts and the active-stream count, judged after quiescence and fences
	x.stopNoise()
	if x.hoarded != nil {
		unhoard(p.client.bufferManager, x.hoarded)
		x.hoarded = nil
	}
	if !x.settle() {
		x.inconclusive("pair did not settle at the end")
		return x
	}
	for _, st := range x.reg.snapshot() { // zombies and noise streams on the server side
		if st != se.st {
			st.Close()
		}
	}
	if !x.settle() || !fenceN(2) {
		x.inconclusive("pair did not settle at the end")
		return x
	}
	for _, e := range clsSortedEnds(x.ends) {
		e.observeState("end")
		if e.cb == nil {
			continue
		}
		if atomic.LoadInt32(&e.cb.nLocal)+atomic.LoadInt32(&e.cb.nRemote) == 0 {
			// the callback is the last step of the closing goroutine: give it its bounded time before calling it missing
			x.eventually(fmt.Sprintf("end %s: one of OnLocalClose/OnRemoteClose is called for a closure the end did not know about (Close calls returned: %d)",
				e.name, atomic.LoadInt32(&e.closeReturned)),
				func() bool { return atomic.LoadInt32(&e.cb.nLocal)+atomic.LoadInt32(&e.cb.nRemote) > 0 })
		}
		if l, r := atomic.LoadInt32(&e.cb.nLocal), atomic.LoadInt32(&e.cb.nRemote); l+r > 1 {
			x.violate("end %s: close callbacks fired %d times (OnLocalClose %d, OnRemoteClose %d)", e.name, l+r, l, r)
		}
	}
	for _, s := range []*Session{p.client, p.server} {
		if n := s.GetActiveStreamCount(); n != 0 {
			s.streamLock.RLock()
			var left []string
			for id, st := range s.streams {
				left = append(left, fmt.Sprintf("%d:%s", id, clsStateName(st.getStreamState())))
			}
			s.streamLock.RUnlock()
			// a zombie re-created by late data for an already closed stream is the application's to close; close and re-check
			x.rec("-", "active", "client=%v leftover %v", s.isClient, left)
			for _, st := range x.reg.snapshot() {
				st.Close()
			}
			if !x.settle() {
				x.inconclusive("pair did not settle at the end")
				return x
			}
			if n2 := s.GetActiveStreamCount(); n2 != 0 {
				x.violate("GetActiveStreamCount of the %s session is %d after every stream was closed on both ends (left: %v)",
					map[bool]string{true: "client", false: "server"}[s.isClient], n2, left)
			}
		}
	}
	return x
}

func b2i(b bool) int64 {
	if b {
		return 1
	}
	return 0
}

// clsWindowEntries counts hook transitions that enter the second point of a critical window from a point that is not
// the window's first point: another goroutine passed a hook between the two steps.
func clsWindowEntries(k *ctl) (n uint64) {
	// second point of a window -> the points that precede it in the goroutine's own path
	windows := map[int][]int{
		vpStreamCloseLoaded:       {vpStreamCloseEnter, vpCbAfterStore0, vpStreamCloseLoaded}, // close() runs in Close(), at the end of the callback goroutine, or retries
		vpStreamCloseCASed:        {vpStreamCloseLoaded},
		vpStreamCloseBeforeNotify: {vpStreamCloseCASed},
		vpCbAfterStore0:           {vpCbBeforeStore0},
		vpCbBeforeRecheck:         {vpCbAfterStore0},
	}
	for second, own := range windows {
		for prev := 1; prev <= vpPointCount; prev++ {
			isOwn := false
			for _, o := range own {
				if prev-1 == o {
					isOwn = true
				}
			}
			if !isOwn {
				n += atomic.LoadUint64(&k.trans[prev][second])
			}
		}
	}
	n += atomic.LoadUint64(&k.trans[vpStreamCloseEnter+1][vpStreamCloseEnter]) // two Close calls entered back to back
	return
}

// ---------------------------------------------------------------------------------------------
// aligned simultaneous closes: the second end's Close is released at the very moment the event loop pops the first end's
// close notification, so that the local close() and the peer-initiated halfClose() work on the state word at the same time
// (many repetitions; windows of a few instructions cannot be widened with hooks).

type clsStormResult struct {
	pairs, released, halfFirst, localFirst int64
	viol                                   []string
	inc                                    string
}

func clsStorm(c *checkCtx, round int, streams int) (res clsStormResult) {
	rng := caseRand(c.seed, 900000+round)
	reg := newClsRegistry()
	p, err := newSessionPair(pairOpt{noAccept: true, initTO: 20 * time.Second, memfd: round%2 == 0,
		serverCfg: func(cfg *Config) { cfg.listenCallback = reg }})
	if err != nil {
		res.inc = "pair: " + err.Error()
		return
	}
	var tickC, tickS int64
	k := newCtl("C10/storm", rng.Int63())
	k.on(vpPollPopped, func(obj interface{}, n int64) {
		if obj == interface{}(p.server) {
			atomic.AddInt64(&tickS, 1)
		} else {
			atomic.AddInt64(&tickC, 1)
		}
	})
	k.install()
	var cl, sv []*Stream
	defer func() {
		for _, st := range cl {
			st.Close()
		}
		for _, st := range reg.snapshot() {
			st.Close()
		}
		uninstallCtl()
		p.close()
	}()
	for i := 0; i < streams; i++ {
		st, err := p.client.OpenStream()
		if err != nil {
			res.inc = "open: " + err.Error()
			return
		}
		st.BufferWriter().WriteBytes([]byte{byte(i)})
		if err := st.Flush(false); err != nil {
			res.inc = "flush: " + err.Error()
			return
		}
		cl = append(cl, st)
	}
	for _, st := range cl {
		s := reg.wait(st.id, 15*time.Second)
		if s == nil {
			res.inc = "server stream did not appear"
			return
		}
		sv = append(sv, s)
	}
	if !p.quiesce(15 * time.Second) {
		res.inc = "pair did not settle"
		return
	}
	for i := range cl {
		first, second, tick := cl[i], sv[i], &tickS // the client closes first; its notification is popped by the server session
		if i%2 == 1 {
			first, second, tick = sv[i], cl[i], &tickC
		}
		spin := rng.Intn(40)
		t0 := atomic.LoadInt64(tick)
		done := make(chan bool, 1)
		ready := make(chan struct{})
		go func() {
			close(ready)
			released := false
			for j := 0; j < 50_000_000; j++ {
				if atomic.LoadInt64(tick) != t0 {
					released = true
					break
				}
			}
			spinFor(spin)
			second.Close()
			done <- released
		}()
		<-ready
		runtime.Gosched()
		first.Close()
		released := <-done
		res.pairs++
		if released {
			res.released++
		}
		for _, st := range []*Stream{first, second} {
			// no callbacks installed: Close does everything before it returns
			if st.getStreamState() != uint32(streamClosed) || st.session.getStreamById(st.id) == st {
				res.viol = append(res.viol, fmt.Sprintf("storm round %d stream %d: both ends closed at once; after Close returned on the %s end the stream is in state %s and %s the session's table of active streams (second Close released when the event loop popped the peer's close notification: %v)",
					round, st.id, map[bool]string{true: "client", false: "server"}[st.session.isClient], clsStateName(st.getStreamState()),
					map[bool]string{true: "still in", false: "not in"}[st.session.getStreamById(st.id) == st], released))
			}
		}
		if len(res.viol) > 0 {
			return
		}
	}
	res.halfFirst = int64(k.hitCount(vpHalfClosed))
	if !p.quiesce(15*time.Second) || !fenceN(2) {
		res.inc = "pair did not settle at the end"
		return
	}
	for _, s := range []*Session{p.client, p.server} {
		if n := s.GetActiveStreamCount(); n != 0 {
			res.viol = append(res.viol, fmt.Sprintf("storm round %d: GetActiveStreamCount of the %s session is %d after every stream was closed on both ends",
				round, map[bool]string{true: "client", false: "server"}[s.isClient], n))
		}
	}
	return
}

// ---------------------------------------------------------------------------------------------
// close-at-callback-exit storm: a user goroutine's Close() lands in the few nanoseconds in which the callback goroutine
// leaves OnData and hands the stream back (store callbackInProcess=0, look at callbackCloseState). Whatever the
// interleaving, somebody must finish the close: either Close() itself or the ending callback goroutine.
// Per iteration: a fresh callback stream on the server, one message; OnData consumes it, raises a flag and burns a swept
// number of loop turns before it returns; a second goroutine spins on the flag, burns its own swept delay and calls Close().
// Verdict per batch, as bounded progress: pair quiescent + fences (+ a generous watchdog): every stream is closed, out of
// the session's table, got exactly one OnLocalClose (no OnRemoteClose), and the peer observes end-of-stream.

type clsExitStream struct {
	id       uint32
	cl, sv   *Stream
	flag     int32 // raised by OnData right before it returns
	burn     int
	nData    int32
	nLocal   int32
	nRemote  int32
	deferred bool // Close returned with the close still pending (evidence)
}

var clsBurnSink uint64

func clsBurn(n int) {
	x := uint64(n)
	for i := 0; i < n; i++ {
		x = x*2862933555777941757 + 3037000493
	}
	if x == 42 {
		atomic.AddUint64(&clsBurnSink, 1)
	}
}

func (e *clsExitStream) OnData(r BufferReader) {
	defer func() { _ = recover() }()
	atomic.AddInt32(&e.nData, 1)
	if n := r.Len(); n > 0 {
		_, _ = r.ReadBytes(n)
		r.ReleasePreviousRead()
	}
	atomic.StoreInt32(&e.flag, 1)
	clsBurn(e.burn)
}
func (e *clsExitStream) OnLocalClose()  { atomic.AddInt32(&e.nLocal, 1) }
func (e *clsExitStream) OnRemoteClose() { atomic.AddInt32(&e.nRemote, 1) }

type clsExitRegistry struct {
	mu   sync.Mutex
	byID map[uint32]*clsExitStream
}

func (r *clsExitRegistry) OnNewStream(s *Stream) {
	r.mu.Lock()
	e := r.byID[s.id]
	r.mu.Unlock()
	if e != nil && e.sv == nil {
		e.sv = s
		_ = s.SetCallbacks(e)
	}
}
func (r *clsExitRegistry) OnShutdown(string) {}

type clsExitResult struct {
	iters, deferred, direct int64
	viol                    []string
	witness                 []map[string]interface{}
	inc                     string
}

func clsExitStorm(c *checkCtx, round, batches, perBatch int) (res clsExitResult) {
	rng := caseRand(c.seed, 950000+round)
	reg := &clsExitRegistry{byID: map[uint32]*clsExitStream{}}
	p, err := newSessionPair(pairOpt{noAccept: true, initTO: 20 * time.Second, memfd: round%2 == 0,
		serverCfg: func(cfg *Config) { cfg.listenCallback = reg }})
	if err != nil {
		res.inc = "pair: " + err.Error()
		return
	}
	var all []*clsExitStream
	defer func() {
		for _, e := range all {
			e.cl.Close()
			if e.sv != nil {
				e.sv.Close()
			}
		}
		p.close()
	}()
	wd := 15 * time.Second
	center := 64
	for b := 0; b < batches; b++ {
		var batch []*clsExitStream
		for i := 0; i < perBatch; i++ {
			st, err := p.client.OpenStream()
			if err != nil {
				res.inc = "open: " + err.Error()
				return
			}
			// both delays are swept over the range in which "OnData returns" and "Close loads callbackInProcess" cross
			// OnData's burn is servoed to the point where "OnData returns" and "Close loads callbackInProcess" cross (a Close that
			// found the callback in process came early: burn less; one that found none came late: burn more) and dithered
			// around it; the closer adds a small swept delay of its own. Timing calibration only - the verdict does not depend on it.
			burn := center + rng.Intn(65) - 32
			if burn < 0 {
				burn = 0
			}
			e := &clsExitStream{id: st.id, cl: st, burn: burn}
			delay := rng.Intn(24)
			reg.mu.Lock()
			reg.byID[st.id] = e
			reg.mu.Unlock()
			batch = append(batch, e)
			all = append(all, e)
			done := make(chan struct{})
			go func() {
				defer close(done)
				for j := 0; atomic.LoadInt32(&e.flag) == 0; j++ {
					if j > 200_000_000 {
						return
					}
				}
				clsBurn(delay)
				e.deferred = atomic.LoadUint32(&e.sv.callbackInProcess) == 1 // sampled a moment before Close does (evidence of the crossing, no verdict)
				_ = e.sv.Close()
			}()
			st.BufferWriter().WriteBytes([]byte{byte(i), 1, 2, 3})
			if err := st.Flush(false); err != nil {
				res.inc = "flush: " + err.Error()
				atomic.StoreInt32(&e.flag, 1)
				<-done
				return
			}
			select {
			case <-done:
			case <-time.After(wd):
				res.inc = "OnData was not invoked / closer did not return"
				return
			}
			res.iters++
			if e.deferred {
				res.deferred++
				if center > 0 {
					center -= 2
				}
			} else {
				res.direct++
				if center < 4000 {
					center += 2
				}
			}
		}
		// ---- bounded progress: everything sent has been handled; the closes must be complete
		ok := func(e *clsExitStream) bool {
			return e.sv != nil && e.sv.getStreamState() == uint32(streamClosed) && p.server.getStreamById(e.id) != e.sv &&
				atomic.LoadInt32(&e.nLocal) == 1 && e.cl.getStreamState() != uint32(streamOpened)
		}
		allOK := func() bool {
			for _, e := range batch {
				if !ok(e) {
					return false
				}
			}
			return true
		}
		if !p.quiesce(wd) || !fenceN(2) {
			res.inc = "pair did not settle"
			return
		}
		if !allOK() {
			// the ending callback goroutine may still be on its way through close(): generous watchdog, then look again
			waitUntil(wd/3, allOK)
			if !p.quiesce(wd) || !fenceN(3) {
				res.inc = "pair did not settle"
				return
			}
		}
		for _, e := range batch {
			l, r := atomic.LoadInt32(&e.nLocal), atomic.LoadInt32(&e.nRemote)
			switch {
			case ok(e) && r == 0:
			case ok(e):
				res.viol = append(res.viol, fmt.Sprintf("close-at-callback-exit: stream %d: OnRemoteClose fired %d time(s) although only the local end closed (OnLocalClose %d)", e.id, r, l))
			default:
				inTable := e.sv != nil && p.server.getStreamById(e.id) == e.sv
				res.viol = append(res.viol, fmt.Sprintf("close-at-callback-exit: stream %d: Close() was called right when OnData returned and returned nil; with the pair quiescent (fences passed, %v waited) the stream is in state %s, %s the session's table (active streams %d), OnLocalClose %d, OnRemoteClose %d, peer's stream state %s, callbackInProcess %d, OnData calls %d",
					e.id, wd/3, clsStateName(e.sv.getStreamState()), map[bool]string{true: "still in", false: "not in"}[inTable], p.server.GetActiveStreamCount(), l, r,
					clsStateName(e.cl.getStreamState()), atomic.LoadUint32(&e.sv.callbackInProcess), atomic.LoadInt32(&e.nData)))
			}
			if len(res.viol) > 0 {
				res.witness = append(res.witness, map[string]interface{}{"stream": e.id, "ondata_burn": e.burn, "close_deferred": e.deferred})
				return
			}
		}
		for _, e := range batch {
			e.cl.Close()
		}
		reg.mu.Lock()
		for _, e := range batch {
			delete(reg.byID, e.id)
		}
		reg.mu.Unlock()
		all = all[:0]
	}
	return
}

// ---------------------------------------------------------------------------------------------
// OnData blocked in a read for more than has arrived; then the PEER closes: the blocked read must end with a closed-stream
// error (bounded progress), OnData returns, exactly one close callback (OnRemoteClose), and a later local Close completes.

type clsBlkCase struct {
	Idx    int    `json:"idx"`
	End    string `json:"callback_end"` // server | client
	API    string `json:"read_api"`     // ReadBytes | Peek | Discard
	Timing string `json:"peer_close"`   // after-blocked | at-once
	Sent   int    `json:"bytes_sent"`
	Asked  int    `json:"bytes_asked"`
}

type clsBlkEnd struct {
	cs       clsBlkCase
	st       *Stream
	inside   int32
	returned int32
	readErr  atomic.Value // clsErrBox
	nData    int32
	nLocal   int32
	nRemote  int32
	once     int32
}

type clsErrBox struct{ e error }

func (b *clsBlkEnd) OnData(r BufferReader) {
	defer func() {
		if rec := recover(); rec != nil {
			b.readErr.Store(clsErrBox{fmt.Errorf("panic: %v", rec)})
			atomic.StoreInt32(&b.returned, 1)
		}
	}()
	atomic.AddInt32(&b.nData, 1)
	if !atomic.CompareAndSwapInt32(&b.once, 0, 1) {
		if n := r.Len(); n > 0 {
			_, _ = r.ReadBytes(n)
			r.ReleasePreviousRead()
		}
		return
	}
	atomic.StoreInt32(&b.inside, 1)
	var err error
	switch b.cs.API {
	case "ReadBytes":
		_, err = r.ReadBytes(b.cs.Asked)
	case "Peek":
		_, err = r.Peek(b.cs.Asked)
	default:
		_, err = r.Discard(b.cs.Asked)
	}
	b.readErr.Store(clsErrBox{err})
	if n := r.Len(); n > 0 { // keep the callback loop moving
		_, _ = r.ReadBytes(n)
	}
	r.ReleasePreviousRead()
	atomic.StoreInt32(&b.returned, 1)
}
func (b *clsBlkEnd) OnLocalClose()  { atomic.AddInt32(&b.nLocal, 1) }
func (b *clsBlkEnd) OnRemoteClose() { atomic.AddInt32(&b.nRemote, 1) }

func clsBlockedReadCase(c *checkCtx, cs clsBlkCase) (viol []string, inc string) {
	reg := newClsRegistry()
	p, err := newSessionPair(pairOpt{noAccept: true, initTO: 20 * time.Second, memfd: cs.Idx%2 == 0,
		serverCfg: func(cfg *Config) { cfg.listenCallback = reg }})
	if err != nil {
		return nil, "pair: " + err.Error()
	}
	b := &clsBlkEnd{cs: cs}
	var waiting int32
	k := newCtl("C10/blocked-read", int64(cs.Idx))
	k.on(vpReadMoreBeforeWait, func(obj interface{}, n int64) {
		if st, _ := obj.(*Stream); st != nil && st == b.st && atomic.LoadInt32(&b.inside) == 1 {
			atomic.StoreInt32(&waiting, 1)
		}
	})
	k.install()
	var cst, sst *Stream
	defer func() {
		if cst != nil {
			cst.Close()
		}
		for _, st := range reg.snapshot() {
			st.Close()
		}
		uninstallCtl()
		p.close()
	}()
	wd := 15 * time.Second
	cst, err = p.client.OpenStream()
	if err != nil {
		return nil, "open: " + err.Error()
	}
	write := func(st *Stream, n int) error {
		st.BufferWriter().WriteBytes(make([]byte, n))
		return st.Flush(false)
	}
	var peer *Stream
	if cs.End == "server" {
		reg.mu.Lock()
		reg.onNew[cst.id] = func(s *Stream) { b.st = s; _ = s.SetCallbacks(b) }
		reg.mu.Unlock()
		peer = cst
		if err := write(cst, cs.Sent); err != nil {
			return nil, "flush: " + err.Error()
		}
		if sst = reg.wait(cst.id, wd); sst == nil {
			return nil, "server stream did not appear"
		}
	} else {
		b.st = cst
		if err := cst.SetCallbacks(b); err != nil {
			return nil, "SetCallbacks: " + err.Error()
		}
		if err := write(cst, 1); err != nil { // the server learns of the stream
			return nil, "flush: " + err.Error()
		}
		if sst = reg.wait(cst.id, wd); sst == nil {
			return nil, "server stream did not appear"
		}
		peer = sst
		if err := write(sst, cs.Sent); err != nil {
			return nil, "flush: " + err.Error()
		}
	}
	if cs.Timing == "after-blocked" {
		// the read is known to be waiting: everything sent has arrived and the reader is past its last look at the buffer
		if !waitUntil(wd, func() bool { return atomic.LoadInt32(&waiting) == 1 }) || !p.quiesce(wd) {
			return nil, "OnData did not reach the blocking read"
		}
	}
	_ = peer.Close() // the peer closes mid-message
	x := &clsExec{c: c, watchdog: wd, p: p, ends: map[string]*clsEnd{}}
	name := fmt.Sprintf("blocked-read: %s end, %s(%d) with %d bytes sent, peer closes %s", cs.End, cs.API, cs.Asked, cs.Sent, cs.Timing)
	if !x.eventually(name+": the read blocked inside OnData returns after the peer closed (OnData returned)", func() bool { return atomic.LoadInt32(&b.returned) == 1 }) {
		return x.viol, x.inc
	}
	if box, _ := b.readErr.Load().(clsErrBox); box.e == nil || !isClosedStreamErr(box.e) {
		x.violate("%s: the read for more bytes than the peer sent before closing returned %v, not a closed-stream error", name, box.e)
		return x.viol, x.inc
	}
	if !x.eventually(name+": OnRemoteClose fires", func() bool { return atomic.LoadInt32(&b.nRemote) >= 1 }) {
		return x.viol, x.inc
	}
	// a later local Close completes and the stream leaves the table
	_ = b.st.Close()
	if !x.eventually(name+": a later local Close completes (state closed, stream removed from the session's table)", func() bool {
		return b.st.getStreamState() == uint32(streamClosed) && b.st.session.getStreamById(b.st.id) != b.st
	}) {
		return x.viol, x.inc
	}
	if !p.quiesce(wd) || !fenceN(2) {
		return x.viol, "pair did not settle at the end"
	}
	if l, r := atomic.LoadInt32(&b.nLocal), atomic.LoadInt32(&b.nRemote); l+r != 1 {
		x.violate("%s: close callbacks fired %d times (OnLocalClose %d, OnRemoteClose %d)", name, l+r, l, r)
	}
	return x.viol, x.inc
}

func checkClose(c *checkCtx) {
	table := clsScenarioTable()
	timings := c.pick(3, 150)
	c.rule = fmt.Sprintf("enumerated scenario table (%d scenarios: closer x when x mode x from-where x transport, invalid combinations removed) x %d PRNG timings "+
		"(message sizes, delays, blocked reader, fresh stream, background traffic, queue capacity, perturbation profile from PRNG(VERIF_SEED, scenario, timing)); "+
		"one fresh session pair per execution; non-trivial = the execution had at least one foreign hook transition inside a close/callback-exit window "+
		"(a hook of another goroutine between Close-enter/state-CAS/peer-notification or between the callback goroutine's store-0/re-check steps); "+
		"distinct = distinct (scenario, hook-transition signature); plus three sub-checks with fixed counts per tier: aligned simultaneous closes (second Close released when the "+
		"event loop pops the first one's notification), close-at-callback-exit storm (Close racing with the return of OnData, delay servoed to the crossing point and dithered; "+
		"non-trivial = both outcomes 'callback still in process' and 'no callback in process' occurred), OnData blocked in ReadBytes/Peek/Discard for more than was sent when the peer closes", len(table), timings)
	c.assume("client and server session live in one process (one event loop, one buffer manager object)")
	c.assume("ErrStreamClosed and ErrEndOfStream both count as closed-stream errors; a Close issued while OnData runs completes when the callback goroutine ends " +
		"(Flush fails at once, reads of already buffered bytes inside that OnData are exempt)")
	c.assume("Close and Flush of one end are never issued concurrently by the harness; on an end with callbacks, operations after Close are issued only where they cannot overlap " +
		"the deferred close's own cleanup (inside OnData, with OnData parked, or after OnLocalClose fired): an operation racing with that cleanup can crash (documented residual, F2 family)")
	c.assume("bounded progress is judged logically: closer's close completed + pair quiescent + fences passed; a pair that does not settle is inconclusive")
	perFrom := map[string]int{}
	var execs, nontriv int
	hitTotals := map[int]uint64{}
	points := []int{vpStreamCloseEnter, vpStreamCloseLoaded, vpStreamCloseCASed, vpStreamCloseBeforeNotify, vpHalfClosed, vpCbBeforeStore0, vpCbAfterStore0, vpCbBeforeRecheck,
		vpFallbackBeforeSend, vpReadMoreBeforeWait}
	stop := false
	for t := 0; t < timings && !stop; t++ {
		for _, sc := range table {
			if os.Getenv("VERIF_DEBUG") != "" {
				fmt.Printf("DEBUG %s#%d %s\n", sc.key(), t, time.Now().Format("15:04:05.000"))
			}
			x := clsRun(c, sc, t)
			execs++
			name := fmt.Sprintf("%s#%d", sc.key(), t)
			for _, pt := range points {
				hitTotals[pt] += x.k.hitCount(pt)
			}
			if x.inc != "" && len(x.viol) == 0 {
				c.inconclusiveCase(name, x.inc)
				continue
			}
			c.eval(1)
			perFrom[sc.From]++
			we := clsWindowEntries(x.k)
			c.count("foreign hook transitions inside close/callback-exit windows", int64(we))
			if we > 0 {
				nontriv++
				c.nontrivial(sc.key() + "/" + x.k.signature())
			}
			c.count("Close calls", int64(atomic.LoadInt32(&x.ends["c"].closeCalls)+atomic.LoadInt32(&x.ends["s"].closeCalls)))
			c.count("closes deferred (Close while callbackInProcess)", atomic.LoadInt64(&x.deferredN))
			for _, e := range x.ends {
				if e.cb != nil {
					c.count("OnData invocations", int64(atomic.LoadInt32(&e.cb.nData)))
					c.count("OnLocalClose invocations", int64(atomic.LoadInt32(&e.cb.nLocal)))
					c.count("OnRemoteClose invocations", int64(atomic.LoadInt32(&e.cb.nRemote)))
				}
				c.count("end-of-stream observed by a peer", int64(atomic.LoadInt32(&e.sawEOS)))
			}
			c.count("executions with transport fallback", b2i(sc.Transport == "fallback"))
			if len(x.viol) > 0 {
				atomic.AddInt32(&clsViolationsSoFar, 1)
				c.violation(name, map[string]interface{}{"scenario": sc, "timing": t, "profile": x.profile, "fresh_stream": x.fresh,
					"violations": x.viol, "history": x.history(120)}, "%s", x.viol[0])
				if atomic.LoadInt32(&clsViolationsSoFar) >= 6 {
					stop = true
					break
				}
			} else if t == 0 && (sc.Idx%97 == 5) {
				c.sample(map[string]interface{}{"scenario": sc, "profile": x.profile, "history_tail": x.history(25)})
			}
		}
	}
	for r, rounds := 0, c.pick(24, 2000); r < rounds && !stop; r++ {
		res := clsStorm(c, r, 128)
		name := fmt.Sprintf("storm#%d", r)
		if res.inc != "" {
			c.inconclusiveCase(name, res.inc)
			continue
		}
		c.eval(1)
		c.count("storm: pairs of simultaneous closes", res.pairs)
		c.count("storm: second Close released by the pop of the peer's close notification", res.released)
		c.count("storm: peer-initiated half-close won against the simultaneous local close", res.halfFirst)
		if res.halfFirst > 0 && res.halfFirst < res.pairs {
			c.nontrivial(fmt.Sprintf("storm/%d/%d", r, res.halfFirst))
		}
		if len(res.viol) > 0 {
			c.violation(name, map[string]interface{}{"round": r, "violations": res.viol}, "%s", res.viol[0])
			break
		}
	}
	// ---- close-at-callback-exit storm
	for r, rounds := 0, c.pick(6, 300); r < rounds && !stop; r++ {
		res := clsExitStorm(c, r, 16, 256)
		name := fmt.Sprintf("exit-storm#%d", r)
		c.count("exit storm: Close calls racing with the return of OnData", res.iters)
		c.count("exit storm: Close found the callback still in process (deferred)", res.deferred)
		c.count("exit storm: Close found no callback in process (direct)", res.direct)
		if res.inc != "" && len(res.viol) == 0 {
			c.inconclusiveCase(name, res.inc)
			continue
		}
		c.eval(1)
		if res.deferred > 0 && res.direct > 0 {
			c.nontrivial(fmt.Sprintf("exit-storm/%d/%d", r, res.deferred*16/(res.iters+1)))
		}
		if len(res.viol) > 0 {
			c.violation(name, map[string]interface{}{"round": r, "violations": res.viol, "streams": res.witness, "iterations_before": res.iters}, "%s", res.viol[0])
			stop = true
		}
	}
	// ---- OnData blocked in a read, then the peer closes
	for i, reps := 0, c.pick(2, 40); i < reps*12 && !stop; i++ {
		rng := caseRand(c.seed, 970000+i)
		cs := clsBlkCase{Idx: i, End: []string{"server", "client"}[i%2], API: []string{"ReadBytes", "Peek", "Discard"}[(i/2)%3],
			Timing: []string{"after-blocked", "at-once"}[(i/6)%2], Sent: 1 + rng.Intn(3000)}
		cs.Asked = cs.Sent + 1 + rng.Intn(2000)
		viol, inc := clsBlockedReadCase(c, cs)
		name := fmt.Sprintf("blocked-read#%d", i)
		if inc != "" && len(viol) == 0 {
			c.inconclusiveCase(name, inc)
			continue
		}
		c.eval(1)
		c.count("blocked-read cases (OnData waiting for more than was sent, then the peer closes)", 1)
		c.nontrivial(fmt.Sprintf("blocked-read/%s/%s/%s", cs.End, cs.API, cs.Timing))
		if len(viol) > 0 {
			atomic.AddInt32(&clsViolationsSoFar, 1)
			c.violation(name, map[string]interface{}{"case": cs, "violations": viol}, "%s", viol[0])
			if atomic.LoadInt32(&clsViolationsSoFar) >= 4 {
				stop = true
			}
		}
	}
	if !stop {
		clsDirectedExtra(c)
	}
	for _, pt := range points {
		c.count("hook hits "+vpPointNames[pt], int64(hitTotals[pt]))
	}
	c.setExtra("executions_per_from", perFrom)
	c.setExtra("scenarios", len(table))
	if !stop {
		if hitTotals[vpStreamCloseCASed] == 0 || hitTotals[vpHalfClosed] == 0 || hitTotals[vpCbAfterStore0] == 0 {
			c.noObservation("close / half-close / callback-exit hook points were never reached")
		}
		if c.counter("closes deferred (Close while callbackInProcess)") == 0 {
			c.noObservation("no Close was ever deferred to a running callback")
		}
	}
	_ = nontriv
	_ = execs
}

// ---------------------------------------------------------------------------------------------
// C10, two further directed scenarios (called from checkClose):
//
//	session-end-after-peer-close: a callback-mode stream whose peer has closed (OnRemoteClose reported, the local user has not
//	    closed yet) when the session ends (local Session.Close or the peer's): the closure the end already knew about must not
//	    be reported again; a stream that was still open at that moment gets exactly one close callback.
//	putback-in-ondata: a pooled stream in callback mode is given back (streamPool.putOrCloseStream, what SessionManager.PutBack
//	    does) from inside OnData while it still holds unread data: the pool must close it, and that close - deferred to the
//	    running callback - must complete: state closed, gone from the session's table, OnLocalClose once, the peer sees the end.

type cls2Cb struct {
	nData, nLocal, nRemote int32
	onData                 func(r BufferReader)
}

func (c *cls2Cb) OnData(r BufferReader) {
	atomic.AddInt32(&c.nData, 1)
	if c.onData != nil {
		c.onData(r)
	}
}
func (c *cls2Cb) OnLocalClose()  { atomic.AddInt32(&c.nLocal, 1) }
func (c *cls2Cb) OnRemoteClose() { atomic.AddInt32(&c.nRemote, 1) }

type cls2Registry struct {
	mu   sync.Mutex
	byID map[uint32]*cls2Cb
	strs map[uint32]*Stream
}

func (r *cls2Registry) OnNewStream(s *Stream) {
	r.mu.Lock()
	cb := r.byID[s.id]
	if cb == nil {
		cb = &cls2Cb{}
		r.byID[s.id] = cb
	}
	r.strs[s.id] = s
	r.mu.Unlock()
	cb.onData = func(rd BufferReader) {
		if n := rd.Len(); n > 0 {
			rd.ReadBytes(n)
			rd.ReleasePreviousRead()
		}
	}
	_ = s.SetCallbacks(cb)
}
func (r *cls2Registry) OnShutdown(string) {}

func cls2SessionEnd(c *checkCtx, idx int) (viol []string, inc string) {
	rng := caseRand(c.seed, 990000+idx)
	who := []string{"local-session-close", "peer-session-close"}[idx%2]
	reg := &cls2Registry{byID: map[uint32]*cls2Cb{}, strs: map[uint32]*Stream{}}
	p, err := newSessionPair(pairOpt{noAccept: true, memfd: idx%4 < 2, serverCfg: func(cfg *Config) { cfg.listenCallback = reg }})
	if err != nil {
		return nil, "pair: " + err.Error()
	}
	defer p.close()
	nStreams := 2 + rng.Intn(5)
	var cls []*Stream
	peerClosed := map[uint32]bool{}
	for i := 0; i < nStreams; i++ {
		st, err := p.client.OpenStream()
		if err != nil {
			return nil, "open: " + err.Error()
		}
		st.BufferWriter().WriteBytes(make([]byte, 1+rng.Intn(300)))
		if err := st.Flush(false); err != nil {
			return nil, "flush: " + err.Error()
		}
		cls = append(cls, st)
	}
	if !waitUntil(10*time.Second, func() bool { reg.mu.Lock(); defer reg.mu.Unlock(); return len(reg.strs) == nStreams }) {
		return nil, "server streams did not appear"
	}
	// the peer (client) closes some of its streams: their server ends learn about it (OnRemoteClose) and stay half-closed
	for i, st := range cls {
		if i%2 == 0 || rng.Intn(3) == 0 {
			st.Close()
			peerClosed[st.id] = true
		}
	}
	if !p.quiesce(10*time.Second) || !fenceN(2) {
		return nil, "pair did not settle"
	}
	for id := range peerClosed {
		cb := reg.byID[id]
		if !waitUntil(5*time.Second, func() bool { return atomic.LoadInt32(&cb.nRemote) == 1 }) {
			return nil, fmt.Sprintf("OnRemoteClose of stream %d not seen before the session end (C10's other scenarios judge that)", id)
		}
	}
	// the session ends
	if who == "local-session-close" {
		p.server.Close()
	} else {
		p.client.Close()
	}
	if !waitUntil(10*time.Second, func() bool { fenceOnce(5 * time.Second); return p.server.IsClosed() }) || !waitTeardown(p.server, 10*time.Second) {
		return nil, "server session did not end"
	}
	fenceN(2)
	time.Sleep(5 * time.Millisecond)
	for id, cb := range reg.byID {
		l, r := atomic.LoadInt32(&cb.nLocal), atomic.LoadInt32(&cb.nRemote)
		if peerClosed[id] {
			if r != 1 || l != 0 {
				viol = append(viol, fmt.Sprintf("session-end-after-peer-close (%s): stream %d had been closed by its peer (OnRemoteClose reported once, the local user had not closed) when the session ended: "+
					"afterwards OnRemoteClose was called %d time(s) and OnLocalClose %d time(s); the closure it already knew about was reported again", who, id, r, l))
			}
		} else if l+r != 1 {
			viol = append(viol, fmt.Sprintf("session-end (%s): stream %d was open when the session ended and got %d close callbacks (OnLocalClose %d, OnRemoteClose %d), expected exactly one", who, id, l+r, l, r))
		}
	}
	return viol, ""
}

func cls2PutBackInOnData(c *checkCtx, idx int) (viol []string, inc string) {
	rng := caseRand(c.seed, 995000+idx)
	p, err := newSessionPair(pairOpt{memfd: idx%2 == 0})
	if err != nil {
		return nil, "pair: " + err.Error()
	}
	defer p.close()
	pool := newStreamPool(uint32(1 + rng.Intn(4)))
	pool.session.Store(p.client)
	st, err := pool.getOrOpenStream()
	if err != nil {
		return nil, "getOrOpenStream: " + err.Error()
	}
	reply := 50 + rng.Intn(3000)
	take := 1 + rng.Intn(reply-1)
	cb := &cls2Cb{}
	var putBackDone int32
	cb.onData = func(r BufferReader) {
		if atomic.LoadInt32(&cb.nData) > 1 {
			return
		}
		// the user handles the head of the reply and gives the stream back with the rest unread
		r.ReadBytes(take)
		pool.putOrCloseStream(st)
		atomic.StoreInt32(&putBackDone, 1)
	}
	if err := st.SetCallbacks(cb); err != nil {
		return nil, "SetCallbacks: " + err.Error()
	}
	st.BufferWriter().WriteBytes(make([]byte, 32))
	if err := st.Flush(false); err != nil {
		return nil, "flush: " + err.Error()
	}
	sv := p.serverStream(st.StreamID(), 10*time.Second)
	if sv == nil {
		return nil, "server stream did not appear"
	}
	if _, err := sv.BufferReader().ReadBytes(32); err != nil {
		return nil, "server read: " + err.Error()
	}
	sv.BufferReader().ReleasePreviousRead()
	sv.BufferWriter().WriteBytes(make([]byte, reply))
	if err := sv.Flush(false); err != nil {
		return nil, "server flush: " + err.Error()
	}
	if !waitUntil(10*time.Second, func() bool { return atomic.LoadInt32(&putBackDone) == 1 }) {
		return nil, "OnData / put-back did not happen"
	}
	cn := startCanary()
	defer cn.close()
	done := func() bool {
		return st.getStreamState() == uint32(streamClosed) && p.client.getStreamById(st.id) != st && atomic.LoadInt32(&cb.nLocal) == 1
	}
	p.quiesce(10 * time.Second)
	fenceN(2)
	if !waitUntil(8*time.Second, done) {
		if !cn.healthy(500 * time.Millisecond) {
			return nil, "close not complete, scheduler canary unhealthy"
		}
		inTable := p.client.getStreamById(st.id) == st
		viol = append(viol, fmt.Sprintf("putback-in-ondata: a pooled callback-mode stream was given back from inside OnData with %d of %d reply bytes unread; the pool has to close it, but with the pair "+
			"quiescent and 8 s waited the stream is in state %d, %s the session's table (active streams %d), OnLocalClose %d, OnRemoteClose %d, callbackInProcess %d",
			reply-take, reply, st.getStreamState(), map[bool]string{true: "still in", false: "not in"}[inTable], p.client.GetActiveStreamCount(),
			atomic.LoadInt32(&cb.nLocal), atomic.LoadInt32(&cb.nRemote), atomic.LoadUint32(&st.callbackInProcess)))
		return viol, ""
	}
	// the peer observes the end
	sv.SetReadDeadline(time.Now().Add(8 * time.Second))
	if _, err := sv.BufferReader().ReadBytes(1); err == nil || err == ErrTimeout {
		if cn.healthy(500 * time.Millisecond) {
			viol = append(viol, fmt.Sprintf("putback-in-ondata: the pool closed the stream but its peer does not observe end-of-stream (read returned %v)", err))
		}
	}
	if r := atomic.LoadInt32(&cb.nRemote); r != 0 {
		viol = append(viol, fmt.Sprintf("putback-in-ondata: OnRemoteClose fired %d time(s) although only the local end closed", r))
	}
	sv.Close()
	return viol, ""
}

func clsDirectedExtra(c *checkCtx) {
	n := c.pick(8, 120)
	for i := 0; i < n; i++ {
		for k, f := range []func(*checkCtx, int) ([]string, string){cls2SessionEnd, cls2PutBackInOnData} {
			kind := []string{"session-end-after-peer-close", "putback-in-ondata"}[k]
			viol, inc := f(c, i)
			name := fmt.Sprintf("%s#%d", kind, i)
			if inc != "" && len(viol) == 0 {
				c.inconclusiveCase(name, inc)
				continue
			}
			c.eval(1)
			c.count(kind+" cases", 1)
			c.nontrivial(fmt.Sprintf("%s/%d", kind, i%4))
			if len(viol) > 0 {
				c.violation(name, map[string]interface{}{"index": i, "violations": viol}, "%s", viol[0])
			}
		}
	}
}
