package shmipc

// C18: the event connection moves bytes exactly once and in order under any kernel IO.
//
// (a) connEventHandler alone: a writer handler (conn.write) on one end of a unix socketpair / loopback tcp pair with
//     SO_SNDBUF/SO_RCVBUF down to the kernel minimum, on the other end either a second handler with a recording
//     callback that consumes PRNG-chosen prefixes (0, hold-back phases, everything) or a raw reader paced by sleeps.
//     Oracles: bytes consumed == keyed bytes written (exact, every consumed byte compared), prefix rule (each callback
//     buffer starts with the previous call's unconsumed tail), nothing beyond the written bytes is ever delivered,
//     nothing is missing once the kernel queues are empty, and no write enters a conn that has a write outstanding.
// (b) a real client session (file-path handshake, protocol v2: one way) whose peer is a scripted raw reader: 2..32
//     goroutines produce polling, fallback-data (stream path and waitForSend(hdr, body)), stream-close and hot-restart
//     events concurrently; the raw reader parses strictly (magic, version, type, exact length, keyed payload, exactly
//     once, polling prefix adjacency) and the writer-exclusion monitor watches the hooks in connEventHandler.write.
// The workload runs in a child process (a fault on the dispatcher goroutine kills the process) and a reduced
// version runs in the -race build (different dispatcher source file).

import (
	"encoding/binary"
	"encoding/json"
	"fmt"
	"hash/fnv"
	"io"
	"math/rand"
	"net"
	"os"
	"path/filepath"
	"sort"
	"strconv"
	"strings"
	"sync"
	"sync/atomic"
	"syscall"
	"time"
	"unsafe"
)

func init() {
	verifChecks["C18"] = checkEvconn
	verifChildRoles["evcWork"] = evcChildMain
}

// ---------------------------------------------------------------------------------------------
// collector: what a worker process observed; serialised to a report file after every case

type evcViolRec struct {
	Case    string      `json:"case"`
	Msg     string      `json:"msg"`
	Witness interface{} `json:"witness"`
}

type evcReport struct {
	Evals    int64            `json:"evals"`
	Counters map[string]int64 `json:"counters"`
	Maxima   map[string]int64 `json:"maxima"`
	Distinct []string         `json:"distinct"`
	Samples  []interface{}    `json:"samples"`
	Viol     []evcViolRec     `json:"viol"`
	Inconcl  [][2]string      `json:"inconcl"`
	Finished bool             `json:"finished"`
	LastCase string           `json:"last_case"`
	Timings  []string         `json:"timings,omitempty"`
}

type evcCol struct {
	mu       sync.Mutex
	r        evcReport
	distinct map[string]struct{}
	path     string
}

func newEvcCol(path string) *evcCol {
	return &evcCol{path: path, distinct: map[string]struct{}{}, r: evcReport{Counters: map[string]int64{}, Maxima: map[string]int64{}}}
}

func (k *evcCol) count(name string, n int64) {
	k.mu.Lock()
	k.r.Counters[name] += n
	k.mu.Unlock()
}

func (k *evcCol) max(name string, v int64) {
	k.mu.Lock()
	if v > k.r.Maxima[name] {
		k.r.Maxima[name] = v
	}
	k.mu.Unlock()
}

func (k *evcCol) nontrivial(key string) {
	k.mu.Lock()
	k.distinct[key] = struct{}{}
	k.mu.Unlock()
}

func (k *evcCol) sample(s interface{}) {
	k.mu.Lock()
	if len(k.r.Samples) < 6 {
		k.r.Samples = append(k.r.Samples, s)
	}
	k.mu.Unlock()
}

func (k *evcCol) violation(cs string, witness interface{}, format string, a ...interface{}) {
	k.mu.Lock()
	if len(k.r.Viol) < 30 {
		k.r.Viol = append(k.r.Viol, evcViolRec{Case: cs, Msg: fmt.Sprintf(format, a...), Witness: witness})
	}
	k.r.Counters["violations seen by worker"]++
	k.mu.Unlock()
}

func (k *evcCol) timing(s string) {
	if os.Getenv("VERIF_EVC_DEBUG") == "" {
		return
	}
	k.mu.Lock()
	k.r.Timings = append(k.r.Timings, s)
	k.mu.Unlock()
}

func (k *evcCol) inconclusive(cs, reason string) {
	k.mu.Lock()
	if len(k.r.Inconcl) < 50 {
		k.r.Inconcl = append(k.r.Inconcl, [2]string{cs, reason})
	}
	k.mu.Unlock()
}

func (k *evcCol) flush(lastCase string, finished bool) {
	k.mu.Lock()
	defer k.mu.Unlock()
	k.r.LastCase = lastCase
	k.r.Finished = finished
	k.r.Distinct = k.r.Distinct[:0]
	for d := range k.distinct {
		k.r.Distinct = append(k.r.Distinct, d)
	}
	sort.Strings(k.r.Distinct)
	if k.path == "" {
		return
	}
	data, err := json.Marshal(&k.r)
	if err != nil {
		return
	}
	tmp := k.path + ".tmp"
	if os.WriteFile(tmp, data, 0o644) == nil {
		_ = os.Rename(tmp, k.path)
	}
}

func evcLoadReport(path string) (*evcReport, bool) {
	data, err := os.ReadFile(path)
	if err != nil {
		return nil, false
	}
	var r evcReport
	if json.Unmarshal(data, &r) != nil {
		return nil, false
	}
	return &r, true
}

// ---------------------------------------------------------------------------------------------
// write-side monitor, fed by the hooks in connEventHandler.write (obj = *connEventHandler)

type evcWMon struct {
	mu        sync.Mutex
	remaining int64 // bytes of the write that is inside the conn
	overlaps  int64
	firstOv   string
	writes    int64
	eagain    int64
	partial   int64 // write syscalls that moved fewer bytes than asked for
	split     int64 // write() calls that needed more than one syscall
	curParts  int
	patHash   uint64
	reads     int64
	readBytes int64
	bytes     int64 // bytes the write syscalls reported as written
}

var evcMons sync.Map // *connEventHandler -> *evcWMon

func evcMonOf(obj interface{}) *evcWMon {
	h, ok := obj.(*connEventHandler)
	if !ok || h == nil {
		return nil
	}
	if m, ok := evcMons.Load(h); ok {
		return m.(*evcWMon)
	}
	return nil
}

func evcLog2(n int64) int {
	b := 0
	for n > 1 {
		n >>= 1
		b++
	}
	return b
}

func (m *evcWMon) mix(v uint64) {
	m.patHash = (m.patHash ^ v) * 0x100000001b3
}

func evcInstallCtl(name string, seed int64, build func(k *ctl)) *ctl {
	k := newCtl(name, seed)
	k.on(vpConnWriteEnter, func(obj interface{}, n int64) {
		if m := evcMonOf(obj); m != nil {
			m.mu.Lock()
			if m.remaining > 0 {
				m.overlaps++
				if m.firstOv == "" {
					m.firstOv = fmt.Sprintf("write of %d bytes entered while a write on the same conn still had %d bytes outstanding", n, m.remaining)
				}
			}
			m.remaining = n
			m.writes++
			m.curParts = 0
			m.mu.Unlock()
		}
	})
	k.on(vpConnWritePartial, func(obj interface{}, n int64) {
		if m := evcMonOf(obj); m != nil {
			m.mu.Lock()
			if n < m.remaining {
				m.partial++
			}
			m.remaining -= n
			m.bytes += n
			m.curParts++
			if m.curParts == 2 {
				m.split++
			}
			if m.curParts >= 2 || m.remaining > 0 {
				m.mix(uint64(evcLog2(n)) + 1)
			}
			if m.remaining <= 0 && m.curParts >= 2 {
				m.mix(0xff)
			}
			m.mu.Unlock()
		}
	})
	k.on(vpConnWriteEAGAIN, func(obj interface{}, n int64) {
		if m := evcMonOf(obj); m != nil {
			m.mu.Lock()
			m.eagain++
			m.mix(0x77)
			m.mu.Unlock()
		}
	})
	k.on(vpConnWriteExit, func(obj interface{}, n int64) {
		if m := evcMonOf(obj); m != nil {
			m.mu.Lock()
			m.remaining = 0
			m.mu.Unlock()
		}
	})
	k.on(vpConnRead, func(obj interface{}, n int64) {
		if m := evcMonOf(obj); m != nil {
			m.mu.Lock()
			m.reads++
			m.readBytes += n
			m.mu.Unlock()
		}
	})
	if build != nil {
		build(k)
	}
	k.install()
	return k
}

// ---------------------------------------------------------------------------------------------
// socket helpers

func evcSetBufFd(fd int, opt int, v int) {
	if v > 0 {
		_ = syscall.SetsockoptInt(fd, syscall.SOL_SOCKET, opt, v)
	}
}

func evcSetBufConn(c net.Conn, opt int, v int) {
	if v <= 0 {
		return
	}
	if sc, ok := c.(syscall.Conn); ok {
		if rc, err := sc.SyscallConn(); err == nil {
			_ = rc.Control(func(fd uintptr) { evcSetBufFd(int(fd), opt, v) })
		}
	}
}

func evcIoctlInt(fd int, req uintptr) (int, bool) {
	var v int32
	_, _, e := syscall.Syscall(syscall.SYS_IOCTL, uintptr(fd), req, uintptr(unsafe.Pointer(&v)))
	if e != 0 {
		return 0, false
	}
	return int(v), true
}

const (
	evcTIOCOUTQ = 0x5411
	evcFIONREAD = 0x541B
)

func evcConnFd(c net.Conn) int {
	fd := -1
	if sc, ok := c.(syscall.Conn); ok {
		if rc, err := sc.SyscallConn(); err == nil {
			_ = rc.Control(func(f uintptr) { fd = int(f) })
		}
	}
	return fd
}

// evcKernelQuiet: no byte is left in the kernel between the two ends (send queue of w empty, receive queue of r empty).
func evcKernelQuiet(wfd, rfd int) (quiet bool, outq, inq int) {
	o, ok1 := evcIoctlInt(wfd, evcTIOCOUTQ)
	i, ok2 := evcIoctlInt(rfd, evcFIONREAD)
	return ok1 && ok2 && o == 0 && i == 0, o, i
}

// evcCloseConn closes an event connection the way the library does: from a lambda on the dispatcher goroutine
// (connEventHandler.close is not meant to run concurrently with the event loop's onWriteReady).
func evcCloseConn(h *connEventHandler) {
	done := make(chan struct{})
	defaultDispatcher.post(func() { h.close(); close(done) })
	for i := 0; i < 10; i++ {
		fenceOnce(5 * time.Second)
		select {
		case <-done:
			return
		default:
		}
	}
}

type evcNullCb struct {
	got    int64
	closed int32
}

func (n *evcNullCb) onEventData(buf []byte, conn eventConn) error {
	atomic.AddInt64(&n.got, int64(len(buf)))
	conn.commitRead(len(buf))
	return nil
}
func (n *evcNullCb) onRemoteClose() { atomic.StoreInt32(&n.closed, 1) }
func (n *evcNullCb) onLocalClose()  { atomic.StoreInt32(&n.closed, 1) }

// ---------------------------------------------------------------------------------------------
// (a) the recording consumer

type evcConsProfile struct {
	Name        string `json:"name"`
	PAll        int    `json:"p_all"`
	PPrefix     int    `json:"p_prefix"`
	PZero       int    `json:"p_zero"`
	PHoldCalls  int    `json:"p_hold_calls"`
	PHoldBytes  int    `json:"p_hold_bytes"`
	HoldTargets []int  `json:"hold_targets"`
	SleepEvery  int    `json:"sleep_every"` // one callback in n sleeps a little (lets the socket buffer fill up)
}

type evcConsumer struct {
	key   uint64
	total int64
	rng   *rand.Rand
	prof  evcConsProfile

	// dispatcher goroutine only
	consumed     int64
	prevLen      int
	prevConsumed int
	prevStart    int
	prevBase     *byte
	holdBytes    int
	holdCalls    int
	lastBufLen   int
	broken       bool

	arrived int64 // atomic: consumed + len(last buffer)
	closed  int32 // atomic

	mu         sync.Mutex
	viol       []string
	calls      int64
	zeroCalls  int64
	holdPhases int64
	grow       int64
	shrink     int64
	moved      int64
	sameAgain  int64
	thresh     int64 // callbacks with a window >= 1 MiB
	maxBuf     int64
	maxWindow  int64
	traj       []string
	decisions  []string
}

func (q *evcConsumer) violate(format string, a ...interface{}) {
	q.mu.Lock()
	if len(q.viol) < 6 {
		q.viol = append(q.viol, fmt.Sprintf(format, a...))
	}
	q.mu.Unlock()
	q.broken = true
}

func (q *evcConsumer) noteBuf(bl int) {
	if bl == q.lastBufLen {
		return
	}
	q.mu.Lock()
	if q.lastBufLen != 0 {
		if bl > q.lastBufLen {
			q.grow++
		} else {
			q.shrink++
		}
	}
	if len(q.traj) < 64 {
		q.traj = append(q.traj, strconv.Itoa(bl>>10)+"K")
	}
	if int64(bl) > q.maxBuf {
		q.maxBuf = int64(bl)
	}
	q.mu.Unlock()
	q.lastBufLen = bl
}

func (q *evcConsumer) checkRange(buf []byte, streamOff int64, what string) bool {
	if i := checkKeyed(buf, q.key, uint64(streamOff)); i >= 0 {
		q.violate("%s: byte at stream offset %d is %#02x, written was %#02x (window starts at stream offset %d; the previous call offered %d bytes at readStartOff %d and consumed %d; read buffer is %d bytes)",
			what, streamOff+int64(i), buf[i], keyedByte(q.key, uint64(streamOff)+uint64(i)), q.consumed, q.prevLen, q.prevStart, q.prevConsumed, q.lastBufLen)
		return false
	}
	return true
}

func (q *evcConsumer) onEventData(buf []byte, conn eventConn) error {
	h := conn.(*connEventHandler)
	q.noteBuf(len(h.readBuffer))
	q.mu.Lock()
	q.calls++
	if int64(len(buf)) > q.maxWindow {
		q.maxWindow = int64(len(buf))
	}
	if len(buf) >= 1<<20 {
		q.thresh++
	}
	q.mu.Unlock()
	if q.broken {
		q.drainBroken(buf, h)
		return nil
	}
	tail := q.prevLen - q.prevConsumed
	var base *byte
	if len(h.readBuffer) > 0 {
		base = &h.readBuffer[0]
	}
	moved := tail > 0 && (base != q.prevBase || h.readStartOff != q.prevStart+q.prevConsumed)
	if moved {
		q.mu.Lock()
		q.moved++
		q.mu.Unlock()
	}
	if len(buf) < tail {
		q.violate("prefix rule: the previous callback left %d unconsumed bytes (stream offset %d..), this callback's buffer has only %d bytes", tail, q.consumed, len(buf))
		tail = len(buf)
	}
	if len(buf) == tail && tail > 0 {
		q.mu.Lock()
		q.sameAgain++
		q.mu.Unlock()
	}
	if q.consumed+int64(len(buf)) > q.total {
		q.violate("delivered beyond what was written: window [%d,%d) but only %d bytes were written (something was delivered twice)", q.consumed, q.consumed+int64(len(buf)), q.total)
	}
	fullyChecked := true
	if !q.broken && tail > 0 {
		if moved || tail <= 8192 {
			q.checkRange(buf[:tail], q.consumed, "prefix rule (buffer does not start with the previous call's unconsumed tail)")
		} else {
			fullyChecked = false
			ok := q.checkRange(buf[:64], q.consumed, "prefix rule (head of the unconsumed tail)") &&
				q.checkRange(buf[tail-64:tail], q.consumed+int64(tail-64), "prefix rule (end of the unconsumed tail)")
			for i := 0; ok && i < 16; i++ {
				p := q.rng.Intn(tail - 8)
				ok = q.checkRange(buf[p:p+8], q.consumed+int64(p), "prefix rule (inside the unconsumed tail)")
			}
		}
	}
	if !q.broken && len(buf) > tail {
		end := len(buf)
		if over := q.consumed + int64(end) - q.total; over > 0 {
			end -= int(over)
		}
		if end > tail {
			q.checkRange(buf[tail:end], q.consumed+int64(tail), "new bytes out of order / not what was written")
		}
	}
	atomic.StoreInt64(&q.arrived, q.consumed+int64(len(buf)))
	if q.broken {
		q.drainBroken(buf, h)
		return nil
	}

	// ---- how much to consume
	n := 0
	final := q.consumed+int64(len(buf)) >= q.total
	release := func() int {
		if q.rng.Intn(10) < 7 || len(buf) == 0 {
			return len(buf)
		}
		return q.rng.Intn(len(buf) + 1)
	}
	switch {
	case final:
		n = len(buf)
	case q.holdBytes > 0:
		if len(buf) >= q.holdBytes {
			q.holdBytes = 0
			n = release()
		}
	case q.holdCalls > 0:
		q.holdCalls--
		if q.holdCalls == 0 {
			n = release()
		}
	default:
		r := q.rng.Intn(1000)
		p := q.prof
		switch {
		case r < p.PAll:
			n = len(buf)
		case r < p.PAll+p.PPrefix:
			if len(buf) > 0 {
				switch q.rng.Intn(6) {
				case 0:
					n = 1
				case 1:
					n = len(buf) - 1
				default:
					n = q.rng.Intn(len(buf) + 1)
				}
			}
		case r < p.PAll+p.PPrefix+p.PZero:
			n = 0
		case r < p.PAll+p.PPrefix+p.PZero+p.PHoldCalls:
			q.holdCalls = 1 + q.rng.Intn(40)
			q.mu.Lock()
			q.holdPhases++
			q.mu.Unlock()
		default:
			if len(p.HoldTargets) > 0 {
				t := p.HoldTargets[q.rng.Intn(len(p.HoldTargets))]
				t += q.rng.Intn(t/8 + 1)
				q.holdBytes = t
				q.mu.Lock()
				q.holdPhases++
				if len(q.decisions) < 40 {
					q.decisions = append(q.decisions, fmt.Sprintf("hold until window>=%d", t))
				}
				q.mu.Unlock()
			}
		}
	}
	if n == 0 {
		q.mu.Lock()
		q.zeroCalls++
		q.mu.Unlock()
	}
	if n > 0 && !fullyChecked {
		// every consumed byte is compared with what was written in the call that consumes it
		q.checkRange(buf[:n], q.consumed, "consumed bytes differ from the bytes written")
	}
	q.mu.Lock()
	if len(q.decisions) < 40 {
		q.decisions = append(q.decisions, fmt.Sprintf("win=%d consume=%d", len(buf), n))
	}
	q.mu.Unlock()
	q.prevStart = h.readStartOff
	q.prevBase = base
	conn.commitRead(n)
	q.consumed += int64(n)
	q.prevLen, q.prevConsumed = len(buf), n
	q.noteBuf(len(h.readBuffer))
	if q.prof.SleepEvery > 0 && q.rng.Intn(q.prof.SleepEvery) == 0 {
		time.Sleep(time.Duration(20+q.rng.Intn(300)) * time.Microsecond)
	}
	return nil
}

// drainBroken: after a violation the consumer only keeps the connection flowing (never commits more than the handler holds)
func (q *evcConsumer) drainBroken(buf []byte, h *connEventHandler) {
	n := h.readEndOff - h.readStartOff
	if n < 0 {
		n = 0
	}
	if n > len(buf) {
		n = len(buf)
	}
	h.commitRead(n)
	q.consumed += int64(n)
	q.prevLen, q.prevConsumed = n, n
	atomic.StoreInt64(&q.arrived, q.total) // lets the case end
}

func (q *evcConsumer) onRemoteClose() { atomic.StoreInt32(&q.closed, 1) }
func (q *evcConsumer) onLocalClose()  { atomic.StoreInt32(&q.closed, 1) }

// ---------------------------------------------------------------------------------------------
// (a) cases

type evcACase struct {
	Idx       int            `json:"idx"`
	Transport string         `json:"transport"`
	SndBuf    int            `json:"so_sndbuf"`
	RcvBuf    int            `json:"so_rcvbuf"`
	Reader    string         `json:"reader"` // handler | raw
	NWrites   int            `json:"writes"`
	Total     int64          `json:"total_bytes"`
	MaxWrite  int            `json:"max_write"`
	Prof      evcConsProfile `json:"consumer"`
	Seed      int64          `json:"seed"`
	sizes     []int
}

func evcGenSizes(rng *rand.Rand, budget int64, big bool) []int {
	var out []int
	var sum int64
	if big {
		// one write of 4..6 MiB first or somewhere
		n := 4<<20 + rng.Intn(2<<20+1)
		out = append(out, n)
		sum += int64(n)
	}
	for sum < budget {
		var n int
		switch r := rng.Intn(100); {
		case r < 15:
			n = 1 + rng.Intn(3)
		case r < 35:
			n = 1 + rng.Intn(64)
		case r < 60:
			n = 64 + rng.Intn(4096)
		case r < 80:
			n = 4096 + rng.Intn(60<<10)
		case r < 95:
			n = 64<<10 + rng.Intn(960<<10)
		default:
			n = 1<<20 + rng.Intn(2<<20)
		}
		if int64(n) > budget-sum {
			n = int(budget - sum)
		}
		out = append(out, n)
		sum += int64(n)
		if len(out) > 20000 {
			break
		}
	}
	rng.Shuffle(len(out), func(i, j int) { out[i], out[j] = out[j], out[i] })
	return out
}

func evcGenACase(seed int64, idx int, race bool) evcACase {
	rng := caseRand(seed, 1800000+idx)
	cs := evcACase{Idx: idx, Seed: rng.Int63()}
	cs.Transport = []string{"unix", "unix", "tcp"}[rng.Intn(3)]
	bufs := []int{1, 1, 1, 4096, 16384, 65536, 0}
	cs.SndBuf = bufs[rng.Intn(len(bufs))]
	cs.RcvBuf = bufs[rng.Intn(len(bufs))]
	if cs.Transport == "tcp" {
		cs.RcvBuf = []int{1, 4096, 16384, 65536, 65536, 0, 0}[rng.Intn(7)]
	}
	cs.Reader = "handler"
	if rng.Intn(4) == 0 {
		cs.Reader = "raw"
	}
	class := idx % 4 // 0,1: small windows; 2: up to the 1 MiB threshold; 3: past 4 MiB (growth to 8 MiB and shrink)
	var budget int64
	big := false
	switch class {
	case 0:
		budget = 200<<10 + int64(rng.Intn(1<<20))
		cs.Prof = evcConsProfile{Name: "mixed-small", PAll: 300, PPrefix: 400, PZero: 100, PHoldCalls: 100, PHoldBytes: 100, HoldTargets: []int{70 << 10, 130 << 10, 300 << 10}, SleepEvery: 40}
	case 1:
		budget = 1<<20 + int64(rng.Intn(3<<20))
		cs.Prof = evcConsProfile{Name: "prefix-heavy", PAll: 100, PPrefix: 600, PZero: 150, PHoldCalls: 100, PHoldBytes: 50, HoldTargets: []int{66 << 10, 200 << 10, 600 << 10}, SleepEvery: 0}
	case 2:
		budget = 6<<20 + int64(rng.Intn(4<<20))
		cs.Prof = evcConsProfile{Name: "hold-1MiB", PAll: 250, PPrefix: 350, PZero: 100, PHoldCalls: 100, PHoldBytes: 200, HoldTargets: []int{300 << 10, 1100 << 10, 2200 << 10}, SleepEvery: 200}
	default:
		budget = 16<<20 + int64(rng.Intn(6<<20))
		big = true
		cs.Prof = evcConsProfile{Name: "hold-4MiB", PAll: 300, PPrefix: 300, PZero: 50, PHoldCalls: 50, PHoldBytes: 300, HoldTargets: []int{1100 << 10, 4300 << 10, 5 << 20, 8300 << 10}, SleepEvery: 0}
	}
	if race {
		budget /= 3
		if class == 3 {
			budget = 11 << 20
			cs.Prof.HoldTargets = []int{4300 << 10, 8300 << 10}
		}
	}
	if cs.Transport == "tcp" {
		// loopback tcp with a receive buffer below one segment crawls (persist timer, delayed acks: 15..200 KB/s measured);
		// those socket-buffer settings are kept, with a transfer small enough to finish
		switch cs.RcvBuf {
		case 1:
			budget, big = 16<<10, false
		case 4096:
			budget, big = 48<<10, false
		case 16384:
			if budget > 256<<10 {
				budget, big = 256<<10, false
			}
		}
		if (cs.SndBuf == 4096 || cs.SndBuf == 16384) && budget > 256<<10 {
			budget, big = 256<<10, false
		}
	}
	cs.sizes = evcGenSizes(rng, budget, big)
	for _, n := range cs.sizes {
		cs.Total += int64(n)
		if n > cs.MaxWrite {
			cs.MaxWrite = n
		}
	}
	cs.NWrites = len(cs.sizes)
	return cs
}

// evcMakePair returns the writer end as a file for a connEventHandler and the reader end either as a file (handler) or
// as an io.ReadCloser (raw); rfd is the reader's descriptor for the kernel-queue probe.
func evcMakePair(transport string, snd, rcv int) (wf *os.File, rf *os.File, rconn net.Conn, err error) {
	if transport == "unix" {
		fds, e := syscall.Socketpair(syscall.AF_UNIX, syscall.SOCK_STREAM, 0)
		if e != nil {
			return nil, nil, nil, e
		}
		evcSetBufFd(fds[0], syscall.SO_SNDBUF, snd)
		evcSetBufFd(fds[1], syscall.SO_RCVBUF, rcv)
		return os.NewFile(uintptr(fds[0]), "evc-w"), os.NewFile(uintptr(fds[1]), "evc-r"), nil, nil
	}
	cli, srv, _, e := connPair(true)
	if e != nil {
		return nil, nil, nil, e
	}
	evcSetBufConn(cli, syscall.SO_SNDBUF, snd)
	evcSetBufConn(srv, syscall.SO_RCVBUF, rcv)
	wf, e = cli.(*net.TCPConn).File()
	cli.Close()
	if e != nil {
		srv.Close()
		return nil, nil, nil, e
	}
	return wf, nil, srv, nil
}

func evcRunACase(col *evcCol, cs evcACase, k *ctl) {
	name := fmt.Sprintf("a-%d", cs.Idx)
	wf, rf, rconn, err := evcMakePair(cs.Transport, cs.SndBuf, cs.RcvBuf)
	if err != nil {
		col.inconclusive(name, "cannot create socket pair: "+err.Error())
		return
	}
	data := make([]byte, cs.Total)
	key := uint64(cs.Seed)
	fillKeyed(data, key, 0)

	wconn := defaultDispatcher.newConnection(wf).(*connEventHandler)
	wmon := &evcWMon{}
	evcMons.Store(wconn, wmon)
	defer evcMons.Delete(wconn)
	wcb := &evcNullCb{}
	if err := wconn.setCallback(wcb); err != nil {
		col.inconclusive(name, "setCallback: "+err.Error())
		return
	}
	var viol []string
	var violMu sync.Mutex
	violate := func(format string, a ...interface{}) {
		violMu.Lock()
		if len(viol) < 8 {
			viol = append(viol, fmt.Sprintf(format, a...))
		}
		violMu.Unlock()
	}

	var cons *evcConsumer
	var rconnH *connEventHandler
	var rmon *evcWMon
	rawDone := make(chan struct{})
	var rawGot int64
	var rawExtra int64
	var rfd int
	if cs.Reader == "handler" {
		if rf == nil { // tcp
			f, e := rconn.(*net.TCPConn).File()
			rconn.Close()
			if e != nil {
				col.inconclusive(name, "File(): "+e.Error())
				evcCloseConn(wconn)
				return
			}
			rf = f
		}
		rconnH = defaultDispatcher.newConnection(rf).(*connEventHandler)
		rmon = &evcWMon{}
		evcMons.Store(rconnH, rmon)
		defer evcMons.Delete(rconnH)
		cons = &evcConsumer{key: key, total: cs.Total, rng: rand.New(rand.NewSource(cs.Seed ^ 0x1234)), prof: cs.Prof}
		rfd = rconnH.fd
		if err := rconnH.setCallback(cons); err != nil {
			col.inconclusive(name, "setCallback: "+err.Error())
			evcCloseConn(wconn)
			return
		}
		close(rawDone)
	} else {
		var rd io.Reader
		if rf != nil {
			rd = rf
			rfd = int(rf.Fd())
		} else {
			rd = rconn
			rfd = evcConnFd(rconn)
		}
		go func() {
			defer close(rawDone)
			rng := rand.New(rand.NewSource(cs.Seed ^ 0x77))
			buf := make([]byte, 256<<10)
			var off int64
			bad := false
			for {
				chunk := 1 + rng.Intn(len(buf))
				if rng.Intn(3) == 0 {
					chunk = 1 + rng.Intn(4096)
				}
				n, err := rd.Read(buf[:chunk])
				if n > 0 {
					if off+int64(n) > cs.Total {
						atomic.AddInt64(&rawExtra, off+int64(n)-cs.Total)
						violate("raw reader received %d bytes beyond the %d written (delivered twice)", off+int64(n)-cs.Total, cs.Total)
						n = int(cs.Total - off)
						if n < 0 {
							n = 0
						}
					}
					if !bad {
						if i := checkKeyed(buf[:n], key, uint64(off)); i >= 0 {
							violate("raw reader: byte at stream offset %d is %#02x, written was %#02x", off+int64(i), buf[i], keyedByte(key, uint64(off)+uint64(i)))
							bad = true // keep the connection flowing, stop judging
							atomic.StoreInt64(&rawGot, -1)
						}
					}
					off += int64(n)
					if !bad {
						atomic.StoreInt64(&rawGot, off)
					}
				}
				if err != nil || n == 0 && chunk > 0 && err == nil {
					return
				}
				if rng.Intn(4) == 0 {
					time.Sleep(time.Duration(10+rng.Intn(400)) * time.Microsecond)
				}
			}
		}()
	}

	// ---- the writer
	var wrote int64
	wdone := make(chan error, 1)
	go func() {
		var off int64
		for _, n := range cs.sizes {
			if err := wconn.write(data[off : off+int64(n)]); err != nil {
				wdone <- fmt.Errorf("write of %d bytes at stream offset %d failed: %v", n, off, err)
				return
			}
			off += int64(n)
			atomic.StoreInt64(&wrote, off)
		}
		wdone <- nil
	}()
	arrivedNow := func() int64 {
		if cons != nil {
			return atomic.LoadInt64(&cons.arrived)
		}
		return atomic.LoadInt64(&rawGot)
	}
	stuck := false
	select {
	case err := <-wdone:
		if err != nil {
			violate("%v", err)
		}
	case <-time.After(120 * time.Second):
		stuck = true
		col.inconclusive(name, fmt.Sprintf("watchdog: writer stuck after %d of %d bytes, %d arrived", atomic.LoadInt64(&wrote), cs.Total, arrivedNow()))
	}
	expectArrive := cs.Total
	if !stuck && len(viol) == 0 {
		wmon.mu.Lock()
		kernelTook := wmon.bytes
		wmon.mu.Unlock()
		if kernelTook != cs.Total {
			violate("every write returned nil for %d bytes in total, but the write syscalls reported %d bytes taken by the kernel", cs.Total, kernelTook)
			expectArrive = kernelTook
		}
	}
	if !stuck && (len(viol) == 0 || expectArrive != cs.Total) {
		ok := waitUntil(60*time.Second, func() bool {
			a := arrivedNow()
			return a >= expectArrive || a < 0 || (cons != nil && cons.brokenSeen())
		})
		if !ok {
			// not a timing verdict: if the kernel holds nothing and the event loop has handled everything, the bytes are gone
			fence()
			quiet, outq, inq := evcKernelQuiet(wconn.fd, rfd)
			fence()
			if a := arrivedNow(); a < expectArrive {
				if quiet {
					violate("lost bytes: %d handed to the kernel, only %d arrived although the kernel queues are empty (outq=%d inq=%d) and the event loop is idle", expectArrive, a, outq, inq)
				} else {
					col.inconclusive(name, fmt.Sprintf("watchdog: %d of %d bytes arrived, kernel still holds data (outq=%d inq=%d)", a, expectArrive, outq, inq))
				}
			}
		}
	}
	// close the writer; the reader must see the end of the stream and nothing more
	evcCloseConn(wconn)
	if cons != nil {
		if !stuck {
			if !waitUntil(20*time.Second, func() bool { fenceOnce(5 * time.Second); return atomic.LoadInt32(&cons.closed) == 1 }) {
				col.count("a: reader did not observe the close in time", 1)
			}
		}
		evcCloseConn(rconnH)
		fence()
	} else {
		fence() // the close of the writer's descriptor is a posted lambda
		select {
		case <-rawDone:
		case <-time.After(20 * time.Second):
			col.count("a: raw reader did not see EOF in time", 1)
			_ = syscall.Shutdown(rfd, syscall.SHUT_RDWR)
		}
		if rf != nil {
			rf.Close()
		} else {
			rconn.Close()
		}
		<-rawDone
		fence()
	}
	if atomic.LoadInt64(&wcb.got) != 0 {
		violate("the writing end received %d bytes although its peer never writes", atomic.LoadInt64(&wcb.got))
	}
	// ---- verdict and evidence
	wmon.mu.Lock()
	ov, firstOv, eag, part, split, writes, pat := wmon.overlaps, wmon.firstOv, wmon.eagain, wmon.partial, wmon.split, wmon.writes, wmon.patHash
	wmon.mu.Unlock()
	if ov > 0 {
		violate("writer exclusion: %s (%d times)", firstOv, ov)
	}
	col.count("a: write() calls", writes)
	col.count("a: EAGAIN on write", eag)
	col.count("a: partial write syscalls", part)
	col.count("a: write() calls that needed several syscalls", split)
	col.count("a: bytes written", atomic.LoadInt64(&wrote))
	trajSig := ""
	var witness map[string]interface{}
	if cons != nil {
		cons.mu.Lock()
		viol = append(viol, cons.viol...)
		col.count("a: callback invocations", cons.calls)
		col.count("a: callbacks that consumed nothing", cons.zeroCalls)
		col.count("a: hold-back phases", cons.holdPhases)
		col.count("a: read buffer growth events", cons.grow)
		col.count("a: read buffer shrink events", cons.shrink)
		col.count("a: windows moved inside/between buffers with a non-zero start", cons.moved)
		col.count("a: callbacks with a window >= 1 MiB", cons.thresh)
		col.count("a: callbacks re-offering the same window", cons.sameAgain)
		col.max("a: max read buffer size", cons.maxBuf)
		col.max("a: max window offered", cons.maxWindow)
		trajSig = strings.Join(cons.traj, ">")
		witness = map[string]interface{}{"case": cs, "buffer_trajectory": trajSig, "first_decisions": cons.decisions,
			"consumed": atomic.LoadInt64(&cons.arrived), "callbacks": cons.calls}
		cons.mu.Unlock()
		rmon.mu.Lock()
		col.count("a: read syscalls that returned data", rmon.reads)
		rmon.mu.Unlock()
	} else {
		witness = map[string]interface{}{"case": cs, "raw_reader_got": atomic.LoadInt64(&rawGot)}
	}
	if len(viol) > 0 {
		witness["violations"] = viol
		col.violation(name, witness, "%s", viol[0])
	}
	col.mu.Lock()
	col.r.Evals++
	col.mu.Unlock()
	if eag > 0 || split > 0 || strings.Contains(trajSig, ">") {
		h := fnv.New64a()
		fmt.Fprintf(h, "%s", trajSig)
		col.nontrivial(fmt.Sprintf("a/%s/%s/w%016x/t%016x", cs.Transport, cs.Reader, pat, h.Sum64()))
	}
	if cs.Idx < 4 {
		col.sample(map[string]interface{}{"case": cs, "eagain": eag, "partial_writes": part, "buffer_trajectory": trajSig})
	}
}

func (q *evcConsumer) brokenSeen() bool {
	q.mu.Lock()
	defer q.mu.Unlock()
	return len(q.viol) > 0
}

// ---------------------------------------------------------------------------------------------
// (b) a real session against a scripted raw reader

type evcBCase struct {
	Idx       int    `json:"idx"`
	Transport string `json:"transport"`
	SndBuf    int    `json:"so_sndbuf"`
	RcvBuf    int    `json:"so_rcvbuf"`
	Writers   int    `json:"writers"`
	OpsPer    int    `json:"ops_per_writer"`
	Profile   string `json:"profile"`
	MaxPay    int    `json:"max_payload"`
	Mode      string `json:"mode"` // mixed: slow raw reader, blocking senders dominate; storm: fast reader, fast-path senders spin on the flag
	Seed      int64  `json:"seed"`
}

type evcProfile struct {
	name  string
	build func(k *ctl)
}

var evcBProfiles = []evcProfile{
	{"natural", nil},
	{"hold-writer", func(k *ctl) {
		k.set(vpConnWritePartial, 100, 150*time.Microsecond, 60)
		k.set(vpConnWriteEAGAIN, 200, 150*time.Microsecond, 60)
	}},
	{"delay-send-loop", func(k *ctl) { k.set(vpSendLoopBeforeCAS, 300, 100*time.Microsecond, 70) }},
	{"delay-after-mark", func(k *ctl) { k.set(vpWakeMarked, 300, 100*time.Microsecond, 70) }},
	{"delay-in-flag", func(k *ctl) { k.set(vpWriteEventEnter, 200, 80*time.Microsecond, 60) }},
	{"hold-in-enter", func(k *ctl) { k.set(vpConnWriteEnter, 60, 40*time.Microsecond, 60) }},
	{"gosched-all", func(k *ctl) {
		k.setAll([]int{vpWriteEventEnter, vpSendLoopBeforeCAS, vpWakeMarked, vpWakeSlow, vpConnWriteEnter, vpConnWritePartial}, 300, 0, 0)
	}},
}

func evcGenBCase(seed int64, idx int, race bool) evcBCase {
	rng := caseRand(seed, 1810000+idx)
	cs := evcBCase{Idx: idx, Seed: rng.Int63()}
	cs.Transport = []string{"unix", "unix", "tcp"}[rng.Intn(3)]
	bufs := []int{1, 1, 4096, 16384, 0}
	cs.SndBuf = bufs[rng.Intn(len(bufs))]
	cs.RcvBuf = bufs[rng.Intn(len(bufs))]
	if cs.Transport == "tcp" && cs.RcvBuf != 0 {
		cs.RcvBuf = 65536 // loopback tcp crawls with a receive buffer below one segment (see (a)); the send buffer stays small
	}
	cs.Writers = []int{2, 3, 4, 8, 16, 32}[rng.Intn(6)]
	cs.OpsPer = 1200/cs.Writers + rng.Intn(40)
	if race {
		cs.OpsPer = cs.OpsPer/3 + 5
	}
	cs.Profile = evcBProfiles[rng.Intn(len(evcBProfiles))].name
	cs.MaxPay = []int{2000, 20000, 200000}[rng.Intn(3)]
	cs.Mode = "mixed"
	if idx%3 == 2 {
		cs.Mode = "storm"
		cs.Writers = []int{8, 16, 32}[rng.Intn(3)]
		cs.OpsPer = 24000 / cs.Writers
		if race {
			cs.OpsPer /= 4
		}
		cs.SndBuf = []int{0, 65536, 16384}[rng.Intn(3)]
		cs.RcvBuf = []int{0, 65536}[rng.Intn(2)]
		cs.MaxPay = 2000
	}
	return cs
}

type evcEvKey struct {
	kind byte // 'd' data, 'c' close, 'h' hot restart
	w    uint32
	seq  uint32
}

// evcRawParser checks the byte stream a session wrote to its socket, strictly.
type evcRawParser struct {
	buf        []byte
	off        int64 // stream offset of buf[0]
	version    uint8
	maxPay     int
	gotShake   bool
	qPath      string
	bPath      string
	closeIDs   *sync.Map // stream id -> evcEvKey
	seen       map[evcEvKey]int
	lastSeq    map[uint32]uint32
	pollings   int64
	streamData int64
	directData int64
	closes     int64
	hots       int64
	events     int64
	prevType   int
	recent     []string
	fail       string
}

func (p *evcRawParser) note(s string) {
	if len(p.recent) >= 12 {
		p.recent = p.recent[1:]
	}
	p.recent = append(p.recent, s)
}

func (p *evcRawParser) failf(format string, a ...interface{}) {
	if p.fail == "" {
		n := len(p.buf)
		if n > 48 {
			n = 48
		}
		p.fail = fmt.Sprintf(format, a...) + fmt.Sprintf(" [at socket stream offset %d, event #%d; next bytes % x; preceding events: %s]",
			p.off, p.events, p.buf[:n], strings.Join(p.recent, " | "))
	}
}

func (p *evcRawParser) feed(data []byte) {
	if p.fail != "" {
		return
	}
	p.buf = append(p.buf, data...)
	for p.fail == "" && len(p.buf) >= headerSize {
		h := header(p.buf[:headerSize])
		length := int(h.Length())
		typ := h.MsgType()
		if h.Magic() != magicNumber {
			p.failf("event header without the magic number (%#04x): an event was cut or interleaved", h.Magic())
			return
		}
		if h.Version() != p.version {
			p.failf("event header with version %d, session speaks %d", h.Version(), p.version)
			return
		}
		want := -1
		switch typ {
		case typeShareMemoryByFilePath:
			if p.gotShake {
				p.failf("a second handshake event in the stream")
				return
			}
			want = headerSize + 2 + len(p.qPath) + 2 + len(p.bPath)
		case typePolling:
			want = headerSize
		case typeStreamClose:
			want = headerSize + 4
		case typeHotRestart, typeHotRestartAck:
			want = headerSize + 8
		case typeFallbackData:
			if length < headerSize+8+12 || length > headerSize+8+12+p.maxPay {
				p.failf("fallback data event with impossible length %d", length)
				return
			}
			want = length
		default:
			p.failf("event header with type %d that this session never sends", typ)
			return
		}
		if !p.gotShake && typ != typeShareMemoryByFilePath {
			p.failf("first event is %s, expected the share memory metadata", typ.String())
			return
		}
		if length != want {
			p.failf("%s event with length %d, must be %d", typ.String(), length, want)
			return
		}
		if len(p.buf) < length {
			return // need more bytes
		}
		body := p.buf[headerSize:length]
		switch typ {
		case typeShareMemoryByFilePath:
			ql := int(binary.BigEndian.Uint16(body[0:2]))
			if ql != len(p.qPath) || string(body[2:2+ql]) != p.qPath || string(body[4+ql:]) != p.bPath {
				p.failf("handshake metadata differs from the session's paths")
				return
			}
			p.gotShake = true
			p.note("handshake")
		case typePolling:
			p.pollings++
			p.note("polling")
		case typeStreamClose:
			id := binary.BigEndian.Uint32(body[:4])
			v, ok := p.closeIDs.Load(id)
			if !ok {
				p.failf("stream close event for stream %d which no writer closed", id)
				return
			}
			if p.prevType != int(typePolling) {
				p.failf("stream close event for stream %d is not preceded by its polling event (written as one buffer under one flag acquisition)", id)
				return
			}
			k := v.(evcEvKey)
			p.seen[k]++
			if p.seen[k] > 1 {
				p.failf("stream close event of writer %d op %d received twice", k.w, k.seq)
				return
			}
			if k.seq <= p.lastSeq[k.w] && p.lastSeq[k.w] != 0 {
				p.failf("events of writer %d reordered: op %d after op %d (each send had returned before the next was issued)", k.w, k.seq, p.lastSeq[k.w])
				return
			}
			p.lastSeq[k.w] = k.seq
			p.closes++
			p.note(fmt.Sprintf("close(w%d#%d)", k.w, k.seq))
		case typeHotRestart, typeHotRestartAck:
			ep := binary.BigEndian.Uint64(body[:8])
			k := evcEvKey{'h', uint32(ep >> 32), uint32(ep)}
			p.seen[k]++
			if p.seen[k] > 1 {
				p.failf("hot restart event of writer %d op %d received twice", k.w, k.seq)
				return
			}
			p.hots++
			p.note(fmt.Sprintf("hot(w%d#%d)", k.w, k.seq))
		case typeFallbackData:
			seqID := binary.BigEndian.Uint32(body[0:4])
			pay := body[8:]
			w := binary.BigEndian.Uint32(pay[0:4])
			seq := binary.BigEndian.Uint32(pay[4:8])
			plen := int(binary.BigEndian.Uint32(pay[8:12]))
			if plen != len(pay)-12 {
				p.failf("fallback data event (seqID %#x) of length %d carries a payload that says %d bytes: header and body of different events", seqID, length, plen)
				return
			}
			if i := checkKeyed(pay[12:], uint64(w)<<32|uint64(seq), 0); i >= 0 {
				p.failf("fallback data event of writer %d op %d: payload byte %d of %d is not what the writer sent (foreign bytes inside an event)", w, seq, i, plen)
				return
			}
			direct := seqID&0x80000000 != 0
			if !direct && p.prevType != int(typePolling) {
				p.failf("stream data event of writer %d op %d is not preceded by its polling event (written as one buffer under one flag acquisition)", w, seq)
				return
			}
			k := evcEvKey{'d', w, seq}
			p.seen[k]++
			if p.seen[k] > 1 {
				p.failf("data event of writer %d op %d received twice", w, seq)
				return
			}
			if seq <= p.lastSeq[w] && p.lastSeq[w] != 0 {
				p.failf("events of writer %d reordered: op %d after op %d (each send had returned before the next was issued)", w, seq, p.lastSeq[w])
				return
			}
			p.lastSeq[w] = seq
			if direct {
				p.directData++
			} else {
				p.streamData++
			}
			p.note(fmt.Sprintf("data(w%d#%d,%dB)", w, seq, plen))
		}
		p.prevType = int(typ)
		p.events++
		p.buf = p.buf[length:]
		p.off += int64(length)
	}
}

func evcPayload(w, seq uint32, plen int) []byte {
	b := make([]byte, 12+plen)
	binary.BigEndian.PutUint32(b[0:4], w)
	binary.BigEndian.PutUint32(b[4:8], seq)
	binary.BigEndian.PutUint32(b[8:12], uint32(plen))
	fillKeyed(b[12:], uint64(w)<<32|uint64(seq), 0)
	return b
}

func evcRunBCase(col *evcCol, cs evcBCase) {
	name := fmt.Sprintf("b-%d", cs.Idx)
	var build func(k *ctl)
	for _, p := range evcBProfiles {
		if p.name == cs.Profile {
			build = p.build
		}
	}
	cli, srv, path, err := connPair(cs.Transport == "tcp")
	if err != nil {
		col.inconclusive(name, "connPair: "+err.Error())
		return
	}
	evcSetBufConn(cli, syscall.SO_SNDBUF, cs.SndBuf)
	evcSetBufConn(srv, syscall.SO_RCVBUF, cs.RcvBuf)
	conf, _ := newTestConfig(pairOpt{queueCap: 64, bufCap: 1 << 20, sizes: smallSizes(4096, 100)})
	conf.ConnectionWriteTimeout = 30 * time.Minute
	s, err := newSession(conf, cli, true)
	if path != "" {
		_ = os.Remove(path)
	}
	if err != nil {
		srv.Close()
		col.inconclusive(name, "newSession: "+err.Error())
		return
	}
	h := s.eventConn.(*connEventHandler)
	mon := &evcWMon{}
	evcMons.Store(h, mon)
	defer evcMons.Delete(h)
	hoarded := hoard(s.bufferManager, 0, 1<<30)
	var flagTaken int64 // send loop found the writing flag taken by a fast-path writer
	k := evcInstallCtl(cs.Profile, cs.Seed, func(k *ctl) {
		if build != nil {
			build(k)
		}
		k.on(vpSendLoopBeforeCAS, func(obj interface{}, n int64) {
			if ss, ok := obj.(*Session); ok && ss == s && atomic.LoadUint32(&s.writing) == 1 {
				atomic.AddInt64(&flagTaken, 1)
			}
		})
	})
	defer evcInstallCtl("idle", 0, nil)
	hsLen := int64(headerSize + 2 + len(s.queueManager.path) + 2 + len(s.bufferManager.path))

	closeIDs := &sync.Map{}
	parser := &evcRawParser{version: s.communicationVersion, maxPay: cs.MaxPay + 3200, qPath: s.queueManager.path, bPath: s.bufferManager.path,
		closeIDs: closeIDs, seen: map[evcEvKey]int{}, lastSeq: map[uint32]uint32{}, prevType: -1}
	var (
		pmu       sync.Mutex // protects parser
		stopRead  int32
		readerEnd = make(chan struct{})
		rawBytes  int64
	)
	go func() {
		defer close(readerEnd)
		rng := rand.New(rand.NewSource(cs.Seed ^ 0x3c3c))
		buf := make([]byte, 64<<10)
		for atomic.LoadInt32(&stopRead) == 0 {
			_ = srv.SetReadDeadline(time.Now().Add(50 * time.Millisecond))
			chunk := 1 + rng.Intn(len(buf))
			if rng.Intn(3) == 0 {
				chunk = 1 + rng.Intn(512)
			}
			if cs.Mode == "storm" {
				chunk = len(buf)
			}
			n, err := srv.Read(buf[:chunk])
			if n > 0 {
				pmu.Lock()
				parser.feed(buf[:n])
				pmu.Unlock()
				atomic.AddInt64(&rawBytes, int64(n))
			}
			if err != nil {
				if ne, ok := err.(net.Error); ok && ne.Timeout() {
					continue
				}
				return
			}
			if cs.Mode != "storm" && rng.Intn(3) == 0 {
				time.Sleep(time.Duration(10+rng.Intn(300)) * time.Microsecond)
			}
		}
	}()

	// ---- producers
	type issued struct {
		key evcEvKey
		err error
	}
	perWriter := make([][]issued, cs.Writers)
	var sendErrs int64
	var wg sync.WaitGroup
	var pollCalls, hotCalls, streamWrites, directSends, streamCloses, queueCloses int64
	var maybeClose sync.Map // stream ids closed without fallback state: the close may travel through the queue or the socket
	start := make(chan struct{})
	for w := 0; w < cs.Writers; w++ {
		wg.Add(1)
		go func(w int) {
			defer wg.Done()
			defer func() {
				if r := recover(); r != nil {
					col.violation(name, map[string]interface{}{"case": cs, "panic": fmt.Sprint(r)}, "panic in a producer: %v", r)
				}
			}()
			rng := rand.New(rand.NewSource(cs.Seed + int64(w)*7919))
			wid := uint32(w + 1)
			var seq uint32
			st, err := s.OpenStream()
			if err != nil {
				atomic.AddInt64(&sendErrs, 1)
				return
			}
			paySize := func() int {
				if cs.Mode == "storm" {
					return 1 + rng.Intn(120)
				}
				switch r := rng.Intn(100); {
				case r < 50:
					return 1 + rng.Intn(200)
				case r < 85:
					return 200 + rng.Intn(3000)
				case r < 97:
					return rng.Intn(cs.MaxPay/4 + 1)
				default:
					return rng.Intn(cs.MaxPay + 1)
				}
			}
			<-start
			var mine []issued
			for op := 0; op < cs.OpsPer; op++ {
				r := rng.Intn(100)
				if cs.Mode == "storm" {
					// mostly non-blocking fast-path senders; writers 1..3 keep sending header+body and stream data
					x := rng.Intn(100)
					switch {
					case w < 3 && x < 60:
						r = 70 + rng.Intn(20) // header+body
					case w < 3 && x < 80:
						r = 50 + rng.Intn(20) // stream data
					case x < 45:
						r = 0 // polling
					case x < 97:
						r = 30 // hot restart
					default:
						r = 95 // close
					}
				}
				switch {
				case r < 30: // polling event: the peer (played here) had marked the queue not-working
					atomic.StoreUint32(s.queueManager.sendQueue.workingFlag, 0)
					_ = s.wakeUpPeer()
					atomic.AddInt64(&pollCalls, 1)
				case r < 50:
					seq++
					typ := typeHotRestart
					if rng.Intn(2) == 0 {
						typ = typeHotRestartAck
					}
					err := s.hotRestart(uint64(wid)<<32|uint64(seq), typ)
					mine = append(mine, issued{evcEvKey{'h', wid, seq}, err})
					atomic.AddInt64(&hotCalls, 1)
				case r < 70: // data through the stream: all share memory is taken, so Write falls back to the socket
					seq++
					pay := evcPayload(wid, seq, paySize())
					n, err := st.Write(pay)
					if err == nil && n != len(pay) {
						err = fmt.Errorf("short write %d of %d", n, len(pay))
					}
					mine = append(mine, issued{evcEvKey{'d', wid, seq}, err})
					atomic.AddInt64(&streamWrites, 1)
				case r < 90: // data through the send loop's header+body path
					seq++
					pay := evcPayload(wid, seq, paySize())
					var ev fallbackDataEvent
					ev.encode(len(ev)+len(pay), s.communicationVersion, 0x80000000|wid, 0)
					err := s.waitForSend(ev[:], pay)
					mine = append(mine, issued{evcEvKey{'d', wid, seq}, err})
					atomic.AddInt64(&directSends, 1)
				default: // stream close event
					st2, err := s.OpenStream()
					if err != nil {
						atomic.AddInt64(&sendErrs, 1)
						continue
					}
					if rng.Intn(4) != 0 {
						seq++
						pay := evcPayload(wid, seq, 1+rng.Intn(100))
						_, err := st2.Write(pay) // puts the stream into fallback state: its close travels on the socket
						mine = append(mine, issued{evcEvKey{'d', wid, seq}, err})
						atomic.AddInt64(&streamWrites, 1)
						seq++
						ck := evcEvKey{'c', wid, seq}
						closeIDs.Store(st2.StreamID(), ck)
						err = st2.Close()
						mine = append(mine, issued{ck, err})
						atomic.AddInt64(&streamCloses, 1)
					} else {
						seq++
						ck := evcEvKey{'c', wid, seq}
						closeIDs.Store(st2.StreamID(), ck)
						maybeClose.Store(ck, true)
						_ = st2.Close() // queue element, or socket event once the 64-element queue is full
						atomic.AddInt64(&queueCloses, 1)
					}
				}
			}
			perWriter[w] = mine
		}(w)
	}
	close(start)
	pdone := make(chan struct{})
	go func() { wg.Wait(); close(pdone) }()
	stuck := false
	select {
	case <-pdone:
	case <-time.After(180 * time.Second):
		stuck = true
		col.inconclusive(name, "watchdog: producers did not finish; goroutines:\n"+truncate(goroutineDump(), 6000))
	}
	var viol []string
	expected := map[evcEvKey]bool{}
	if !stuck {
		for _, l := range perWriter {
			for _, it := range l {
				if it.err != nil {
					atomic.AddInt64(&sendErrs, 1)
					continue
				}
				expected[it.key] = true
			}
		}
		// everything issued must arrive: wait for the logical condition, decide by the kernel queues if it does not come
		complete := func() bool {
			pmu.Lock()
			defer pmu.Unlock()
			if parser.fail != "" {
				return true
			}
			for k := range expected {
				if parser.seen[k] == 0 {
					return false
				}
			}
			want := int64(atomic.LoadUint64(&s.stats.sendPollingEventCount)) + parser.streamData + parser.closes
			return parser.pollings >= want && len(s.sendCh) == 0
		}
		ok := waitUntil(90*time.Second, complete)
		// let anything that should not be there arrive as well: logical drain = the raw reader has parsed exactly the bytes the
		// write syscalls reported, nothing is queued in the session and nobody holds the writing flag
		settle := func() bool {
			mon.mu.Lock()
			written := mon.bytes
			mon.mu.Unlock()
			return atomic.LoadInt64(&rawBytes) == hsLen+written && len(s.sendCh) == 0 && atomic.LoadUint32(&s.writing) == 0
		}
		quiet := waitUntil(30*time.Second, func() bool { return settle() && settle() })
		pmu.Lock()
		if parser.fail != "" {
			viol = append(viol, parser.fail)
		} else if !quiet {
			col.inconclusive(name, fmt.Sprintf("socket did not drain (complete=%v)", ok))
		} else {
			missing := 0
			var firstMissing evcEvKey
			for k := range expected {
				if parser.seen[k] == 0 {
					if missing == 0 {
						firstMissing = k
					}
					missing++
				}
			}
			if missing > 0 {
				viol = append(viol, fmt.Sprintf("%d events whose send returned nil never reached the peer although the socket is drained (first: kind %c writer %d op %d)",
					missing, firstMissing.kind, firstMissing.w, firstMissing.seq))
			}
			for k, n := range parser.seen {
				if _, mb := maybeClose.Load(k); !expected[k] && !mb && n > 0 {
					// an event whose send reported an error may or may not have been written; anything else was never issued
					known := false
					for _, l := range perWriter {
						for _, it := range l {
							if it.key == k {
								known = true
							}
						}
					}
					if !known {
						viol = append(viol, fmt.Sprintf("event kind %c writer %d op %d received but never issued", k.kind, k.w, k.seq))
						break
					}
				}
			}
			want := int64(atomic.LoadUint64(&s.stats.sendPollingEventCount)) + parser.streamData + parser.closes
			if parser.pollings != want {
				viol = append(viol, fmt.Sprintf("polling events: %d received, %d written (%d wake-ups + %d stream data prefixes + %d close prefixes)",
					parser.pollings, want, atomic.LoadUint64(&s.stats.sendPollingEventCount), parser.streamData, parser.closes))
			}
			if len(parser.buf) != 0 {
				viol = append(viol, fmt.Sprintf("%d trailing bytes that are not a complete event after the socket drained", len(parser.buf)))
			}
		}
		pmu.Unlock()
	}
	mon.mu.Lock()
	ov, firstOv, eag, part, split, writes, pat := mon.overlaps, mon.firstOv, mon.eagain, mon.partial, mon.split, mon.writes, mon.patHash
	mon.mu.Unlock()
	if ov > 0 {
		viol = append(viol, fmt.Sprintf("writer exclusion: %s (%d times)", firstOv, ov))
	}
	// ---- teardown
	unhoard(s.bufferManager, hoarded)
	s.Close()
	waitTeardown(s, 10*time.Second)
	atomic.StoreInt32(&stopRead, 1)
	<-readerEnd
	srv.Close()
	if stuck {
		return
	}
	pmu.Lock()
	col.count("b: events parsed by the raw reader", parser.events)
	col.count("b: polling events parsed", parser.pollings)
	col.count("b: stream data events parsed", parser.streamData)
	col.count("b: header+body data events parsed", parser.directData)
	col.count("b: stream close events parsed", parser.closes)
	col.count("b: hot restart events parsed", parser.hots)
	evN := parser.events
	pmu.Unlock()
	slow := int64(k.hitCount(vpWakeSlow))
	col.count("b: bytes read by the raw reader", atomic.LoadInt64(&rawBytes))
	col.count("b: wake-ups that found the flag taken (slow path)", slow)
	col.count("b: send loop found the flag taken by a fast-path writer", atomic.LoadInt64(&flagTaken))
	col.count("b: write() calls", writes)
	col.count("b: EAGAIN on write", eag)
	col.count("b: partial write syscalls", part)
	col.count("b: write() calls that needed several syscalls", split)
	col.count("b: sends that reported an error", atomic.LoadInt64(&sendErrs))
	col.count("b: closes of streams not in fallback state", atomic.LoadInt64(&queueCloses))
	if len(viol) > 0 {
		col.violation(name, map[string]interface{}{"case": cs, "violations": viol, "events_parsed": evN}, "%s", viol[0])
	}
	col.mu.Lock()
	col.r.Evals++
	col.mu.Unlock()
	if slow > 0 || atomic.LoadInt64(&flagTaken) > 0 {
		col.nontrivial(fmt.Sprintf("b/%s/%s/%d/%s/w%016x/%s", cs.Mode, cs.Transport, cs.Writers, cs.Profile, pat, k.signature()))
	}
	if cs.Idx < 2 {
		col.sample(map[string]interface{}{"case": cs, "events": evN, "slow_path": slow, "send_loop_contended": atomic.LoadInt64(&flagTaken), "eagain": eag})
	}
}

// ---------------------------------------------------------------------------------------------
// worker (child process of the normal build, or the race build's pass)

func evcWorker(tier string, seed int64, race bool, reportPath string) *evcCol {
	col := newEvcCol(reportPath)
	ensureDefaultDispatcherInit()
	fenceInit()
	thorough := tier == "thorough"
	nA, nB := 48, 27
	if thorough {
		nA, nB = 2400, 1350
	}
	if race {
		nA, nB = 12, 9
		if thorough {
			nA, nB = 240, 180
		}
	}
	switch os.Getenv("VERIF_EVC_ONLY") { // debugging aid only
	case "a":
		nB = 0
	case "b":
		nA = 0
	}
	k := evcInstallCtl("evc-a", seed, nil)
	defer uninstallCtl()
	for i := 0; i < nA; i++ {
		cs := evcGenACase(seed, i, race)
		name := fmt.Sprintf("a-%d", i)
		col.flush(name, false)
		func() {
			defer func() {
				if r := recover(); r != nil {
					col.violation(name, map[string]interface{}{"case": cs, "panic": fmt.Sprint(r)}, "panic: %v", r)
				}
			}()
			t0 := time.Now()
			evcRunACase(col, cs, k)
			col.timing(fmt.Sprintf("%s %.2fs %s/%s snd=%d rcv=%d total=%d class=%s", name, time.Since(t0).Seconds(), cs.Transport, cs.Reader, cs.SndBuf, cs.RcvBuf, cs.Total, cs.Prof.Name))
		}()
	}
	for i := 0; i < nB; i++ {
		cs := evcGenBCase(seed, i, race)
		name := fmt.Sprintf("b-%d", i)
		col.flush(name, false)
		func() {
			defer func() {
				if r := recover(); r != nil {
					col.violation(name, map[string]interface{}{"case": cs, "panic": fmt.Sprint(r)}, "panic: %v", r)
				}
			}()
			t0 := time.Now()
			evcRunBCase(col, cs)
			col.timing(fmt.Sprintf("%s %.2fs %+v", name, time.Since(t0).Seconds(), cs))
		}()
	}
	nC := 6
	if thorough {
		nC = 80
	}
	if race {
		nC = 3
	}
	if os.Getenv("VERIF_EVC_ONLY") != "" {
		nC = 0
	}
	for i := 0; i < nC; i++ {
		name := fmt.Sprintf("c-%d", i)
		col.flush(name, false)
		func() {
			defer func() {
				if r := recover(); r != nil {
					col.violation(name, map[string]interface{}{"index": i, "panic": fmt.Sprint(r)}, "panic: %v", r)
				}
			}()
			evcRunCCase(col, seed, i)
		}()
	}
	if os.Getenv("VERIF_EVC_PROBE") != "" { // debugging aid only: write immediately followed by close
		evcProbeClose(col)
	}
	col.count("hook hits ConnWriteEnter", int64(atomic.LoadUint64(&verifHookHits[vpConnWriteEnter])))
	col.count("hook hits ConnWriteEAGAIN", int64(atomic.LoadUint64(&verifHookHits[vpConnWriteEAGAIN])))
	col.count("hook hits ConnWritePartial", int64(atomic.LoadUint64(&verifHookHits[vpConnWritePartial])))
	col.count("hook hits ConnRead", int64(atomic.LoadUint64(&verifHookHits[vpConnRead])))
	col.flush("", true)
	_ = os.RemoveAll(sockDir())
	return col
}

func evcChildMain(args []string) {
	tier := "quick"
	seed := int64(1)
	if len(args) > 0 {
		tier = args[0]
	}
	if len(args) > 1 {
		seed, _ = strconv.ParseInt(args[1], 10, 64)
	}
	evcWorker(tier, seed, false, os.Getenv("VERIF_EVC_REPORT"))
	childReply(map[string]interface{}{"done": true})
}

func evcMerge(c *checkCtx, rep *evcReport, prefix string) {
	c.eval(rep.Evals)
	for k, v := range rep.Counters {
		c.count(prefix+k, v)
	}
	for k, v := range rep.Maxima {
		c.mu.Lock()
		if v > c.counters[prefix+k] {
			c.counters[prefix+k] = v
		}
		c.mu.Unlock()
	}
	for _, d := range rep.Distinct {
		c.nontrivial(prefix + d)
	}
	for _, s := range rep.Samples {
		if prefix == "" {
			c.sample(s)
		}
	}
	for _, v := range rep.Viol {
		if prefix != "" {
			fmt.Printf("RACEPASS-VIOL %s: %s\n", v.Case, truncate(v.Msg, 400))
		}
		c.violation(strings.TrimSpace(prefix+v.Case), v.Witness, "%s%s", prefix, v.Msg)
	}
	for _, ic := range rep.Inconcl {
		c.inconclusiveCase(prefix+ic[0], ic[1])
	}
}

func checkEvconn(c *checkCtx) {
	c.rule = "(a) one execution = a PRNG(VERIF_SEED, index) sequence of conn.write sizes 1 B..6 MiB over a unix socketpair or loopback tcp pair with SO_SNDBUF/SO_RCVBUF from " +
		"{kernel minimum, 4K, 16K, 64K, default}, read by a second connEventHandler whose callback consumes PRNG prefixes (0, hold-back phases up to 8 MiB windows, all) or by a " +
		"raw reader paced by sleeps; (b) one execution = a real client session whose peer is a strict raw parser, 2..32 goroutines sending polling / stream fallback data / " +
		"header+body data / stream close / hot restart events under a perturbation profile. Non-trivial = (a) at least one EAGAIN or split write or one read-buffer resize was " +
		"measured, (b) at least one wake-up found the writing flag taken or the send loop found it taken by a fast-path writer. Distinct = distinct (transport, reader, hash of the " +
		"bucketed partial-write size sequence, read-buffer size trajectory) resp. (transport, writers, profile, write pattern hash, hook-transition signature). The same workload " +
		"(reduced) runs in the -race build, whose dispatcher is a different source file."
	c.assume("Linux loopback: unix stream socketpair and 127.0.0.1 tcp; partial writes are produced by small socket buffers and slow readers, not by signal interruption")
	c.assume("the raw peer of (b) never writes; a library client with file-path mapping needs no handshake reply (protocol v2)")
	c.assume("race reports of the race pass are evidence only; its oracle failures are violations")
	if isRacePass() {
		col := evcWorker(c.tier, c.seed, true, os.Getenv("VERIF_EVC_REPORT"))
		c.eval(col.r.Evals)
		for _, v := range col.r.Viol {
			fmt.Printf("RACEPASS-VIOL %s: %s\n", v.Case, truncate(v.Msg, 400))
		}
		return
	}
	// ---- main pass in a child of the normal build
	rp := filepath.Join(c.work, fmt.Sprintf("evc-%d-main.json", os.Getpid()))
	_ = os.Remove(rp)
	if os.Getenv("VERIF_EVC_DEBUG") == "" {
		defer os.Remove(rp)
	}
	cp, err := c.spawnChild("evcWork", []string{c.tier, strconv.FormatInt(c.seed, 10)}, "VERIF_EVC_REPORT="+rp)
	if err != nil {
		c.inconclusiveCase("spawn", err.Error())
		return
	}
	limit := time.Duration(c.pick(15, 600)) * time.Minute
	finished := false
	for {
		line, ok := cp.recv(limit, nil)
		if !ok {
			break
		}
		if strings.Contains(line, `"done"`) {
			finished = true
			break
		}
	}
	ex := cp.wait(20 * time.Second)
	rep, ok := evcLoadReport(rp)
	if ok {
		evcMerge(c, rep, "")
	}
	if !finished || !ok || !rep.Finished {
		last := ""
		if ok {
			last = rep.LastCase
		}
		switch {
		case ex.TimedOut && !finished:
			c.inconclusiveCase("worker", "watchdog: worker did not finish, last case "+last)
		case ex.Signal != "" || (ex.Exited && ex.Code != 0):
			c.violation("worker-died-"+last, map[string]interface{}{"last_case": last, "exit": ex.Code, "signal": ex.Signal, "stderr": truncate(ex.Stderr, 8000)},
				"the worker process died during case %s (exit %d signal %q): a fault on a library goroutine; stderr: %s", last, ex.Code, ex.Signal, truncate(ex.Stderr, 600))
		default:
			c.inconclusiveCase("worker", "worker ended without a complete report, last case "+last)
		}
	}
	cp.cleanupFiles()
	if ok {
		if rep.Counters["a: EAGAIN on write"] == 0 || rep.Counters["a: read buffer growth events"] == 0 || rep.Counters["a: read buffer shrink events"] == 0 {
			c.noObservation("EAGAIN / read-buffer growth / shrink were not all reached")
		}
		if rep.Counters["b: events parsed by the raw reader"] == 0 {
			c.noObservation("no event parsed by the raw reader")
		}
	}
	// ---- the same workload, reduced, in the race build
	if os.Getenv("VERIF_EVC_NORACE") != "" { // debugging aid only
		return
	}
	rp2 := filepath.Join(c.work, fmt.Sprintf("evc-%d-race.json", os.Getpid()))
	_ = os.Remove(rp2)
	defer os.Remove(rp2)
	os.Setenv("VERIF_EVC_REPORT", rp2)
	reports, ran, info := c.runRacePass(time.Duration(c.pick(15, 600)) * time.Minute)
	os.Unsetenv("VERIF_EVC_REPORT")
	if !ran {
		c.setExtra("race_pass", "not run: "+info)
		return
	}
	c.count("race pass: race reports (evidence only)", int64(len(reports)))
	c.setExtra("race_pairs", racePairs(reports))
	rep2, ok2 := evcLoadReport(rp2)
	if ok2 {
		evcMerge(c, rep2, "race pass: ")
	}
	if !ok2 || !rep2.Finished {
		last := ""
		if ok2 {
			last = rep2.LastCase
		}
		if strings.Contains(info, "panic:") || strings.Contains(info, "fatal error") {
			c.violation("race-pass-died-"+last, map[string]interface{}{"last_case": last, "info": truncate(info, 6000)},
				"the race-build worker died during case %s: %s", last, truncate(info, 600))
		} else {
			c.inconclusiveCase("race-pass", "race-build worker ended without a complete report (last case "+last+"): "+truncate(info, 300))
		}
	}
	if info != "" {
		c.setExtra("race_pass_exit", truncate(info, 500))
	}
}

// evcProbeClose (not part of the verdict): the peer writes n bytes and closes at once; does the callback see all n bytes
// before onRemoteClose? (handleEvent returns on EPOLLRDHUP without reading.)
func evcProbeClose(col *evcCol) {
	lost, runs := 0, 0
	for i := 0; i < 200; i++ {
		fds, err := syscall.Socketpair(syscall.AF_UNIX, syscall.SOCK_STREAM, 0)
		if err != nil {
			return
		}
		n := 1 + i*37%5000
		cb := &evcNullCb{}
		h := defaultDispatcher.newConnection(os.NewFile(uintptr(fds[1]), "probe")).(*connEventHandler)
		if h.setCallback(cb) != nil {
			return
		}
		buf := make([]byte, n)
		_, _ = syscall.Write(fds[0], buf)
		_ = syscall.Close(fds[0])
		waitUntil(5*time.Second, func() bool { fenceOnce(time.Second); return atomic.LoadInt32(&cb.closed) == 1 })
		runs++
		if atomic.LoadInt64(&cb.got) != int64(n) {
			lost++
		}
		fence()
	}
	col.count("probe: write+close runs", int64(runs))
	col.count("probe: write+close runs that lost the tail", int64(lost))
}

// ---------------------------------------------------------------------------------------------
// C cases: traffic in both directions with the writer under back-pressure. The writer is parked in EAGAIN; while the event
// loop is busy with something else the peer both drains its socket (the connection becomes writable) and sends data (it
// becomes readable), so the loop's next epoll_wait reports both conditions in ONE event. The parked writer must be woken and
// all of its bytes must arrive.
func evcRunCCase(col *evcCol, seed int64, idx int) {
	name := fmt.Sprintf("c-%d", idx)
	rng := caseRand(seed, 330000+idx)
	total := (128 << 10) + rng.Intn(256<<10)
	snd := []int{4096, 8192, 16384}[rng.Intn(3)]
	fds, e := syscall.Socketpair(syscall.AF_UNIX, syscall.SOCK_STREAM, 0)
	if e != nil {
		col.inconclusive(name, "socketpair: "+e.Error())
		return
	}
	evcSetBufFd(fds[0], syscall.SO_SNDBUF, snd)
	evcSetBufFd(fds[1], syscall.SO_RCVBUF, snd)
	wf := os.NewFile(uintptr(fds[0]), "evc-c")
	peer := fds[1]
	defer syscall.Close(peer)
	h := defaultDispatcher.newConnection(wf).(*connEventHandler)
	cb := &evcNullCb{}
	if err := h.setCallback(cb); err != nil {
		col.inconclusive(name, "setCallback: "+err.Error())
		return
	}
	defer evcCloseConn(h)
	data := make([]byte, total)
	key := uint64(seed)*31 + uint64(idx)
	fillKeyed(data, key, 0)
	eagainBefore := atomic.LoadUint64(&verifHookHits[vpConnWriteEAGAIN])
	wdone := make(chan error, 1)
	go func() { wdone <- h.write(data) }()
	if !waitUntil(5*time.Second, func() bool { return atomic.LoadUint64(&verifHookHits[vpConnWriteEAGAIN]) > eagainBefore }) {
		col.inconclusive(name, "the writer did not run into EAGAIN")
		// let it finish
		go func() {
			buf := make([]byte, 64<<10)
			for {
				if n, _ := syscall.Read(peer, buf); n <= 0 {
					return
				}
			}
		}()
		select {
		case <-wdone:
		case <-time.After(10 * time.Second):
		}
		return
	}
	time.Sleep(time.Duration(rng.Intn(2000)) * time.Microsecond)
	hold := make(chan struct{})
	held := make(chan struct{})
	loopRun(func() { close(held); <-hold })
	select {
	case <-held:
	case <-time.After(10 * time.Second):
		close(hold)
		col.inconclusive(name, "event loop could not be parked")
		return
	}
	// the peer sends something and drains what is queued towards it, while the loop is busy
	var got int64
	bad := int64(-1)
	buf := make([]byte, 64<<10)
	take := func(n int) {
		if bad < 0 {
			if i := checkKeyed(buf[:n], key, uint64(got)); i >= 0 {
				bad = got + int64(i)
			}
		}
		got += int64(n)
	}
	incoming := 16 + rng.Intn(200)
	if _, err := syscall.Write(peer, make([]byte, incoming)); err != nil {
		close(hold)
		col.inconclusive(name, "peer write: "+err.Error())
		return
	}
	for {
		n, _, err := syscall.Recvfrom(peer, buf, syscall.MSG_DONTWAIT)
		if n > 0 {
			take(n)
			continue
		}
		_ = err
		break
	}
	drainedWhileHeld := got
	cn := startCanary()
	defer cn.close()
	close(hold)
	// from now on the peer reads normally
	rdone := make(chan struct{})
	go func() {
		defer close(rdone)
		for got < int64(total) {
			n, err := syscall.Read(peer, buf)
			if n <= 0 || err != nil {
				return
			}
			take(n)
		}
	}()
	col.count("c_cases (readable and writable reported together while the writer waits in EAGAIN)", 1)
	col.count("c_bytes drained by the peer while the loop was busy", drainedWhileHeld)
	col.nontrivial(fmt.Sprintf("c/%d/%d", snd, total>>16))
	select {
	case err := <-wdone:
		if err != nil {
			col.violation(name, map[string]interface{}{"index": idx, "total": total, "sndbuf": snd}, "write of %d bytes failed with %v although the peer was reading", total, err)
			return
		}
	case <-time.After(10 * time.Second):
		if cn.healthy(500 * time.Millisecond) {
			col.violation(name, map[string]interface{}{"index": idx, "total": total, "sndbuf": snd},
				"a writer parked in EAGAIN was not woken: 10 s after the connection became writable again (the peer drained %d bytes and sent %d bytes while the event loop was busy, "+
					"so readable and writable were reported in one event) the write of %d bytes has not returned", drainedWhileHeld, incoming, total)
		} else {
			col.inconclusive(name, "writer slow, scheduler canary unhealthy")
		}
		syscall.Shutdown(peer, syscall.SHUT_RDWR)
		return
	}
	select {
	case <-rdone:
	case <-time.After(10 * time.Second):
	}
	if got != int64(total) {
		col.violation(name, map[string]interface{}{"index": idx, "total": total}, "the write of %d bytes returned nil but the peer received %d", total, got)
	} else if bad >= 0 {
		col.violation(name, map[string]interface{}{"index": idx, "total": total}, "byte at stream offset %d differs from what was written", bad)
	}
	if !waitUntil(5*time.Second, func() bool { return atomic.LoadInt64(&cb.got) == int64(incoming) }) {
		col.violation(name, map[string]interface{}{"index": idx}, "the %d bytes the peer sent were not delivered to the connection's callback (got %d)", incoming, atomic.LoadInt64(&cb.got))
	}
}
