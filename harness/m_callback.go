package shmipc

// C20: callback mode offers every received byte to OnData once, in order, serially.
//
// Each execution: one session pair, 1..64 streams with StreamCallbacks on the receiving end (server side installed in
// ListenCallback.OnNewStream before the first byte is delivered, client side right after OpenStream), keyed payloads
// sent in bursts whose gaps are around the callback's own duration, several OnData behaviours, Close / peer close at
// PRNG points. A recorder inside OnData checks re-entrancy and the byte sequence; after every round of bursts the
// quiescence predicate of the property is evaluated (writers returned, pair quiescent, no callback running):
// a stream that is still open on both ends - or that only the peer closed - must have been offered every flushed byte.

import (
	"fmt"
	"math/rand"
	"runtime"
	"runtime/debug"
	"sync"
	"sync/atomic"
	"time"
)

func init() {
	verifChecks["C20"] = checkCallback
}

// ---- attribution of the known allocator finding F1 (ABA in bufferList.pop): a pop whose CAS won a slot that somebody else
// had popped after this popper's head load is a suspect; an execution with a suspect cannot blame callback mode for
// corrupted or lost data (the free list itself may be corrupt), so its violations are reported as inconclusive.
var (
	cbkAbaSeq      uint64
	cbkAbaSuspects int64
	cbkAbaMu       sync.Mutex
	cbkAbaLast     = map[uint64]uint64{}
)

func cbkInstallAbaDetector() {
	verifPopHook.Store(&verifPopHooks{
		begin: func(b *bufferList) uint64 { return atomic.AddUint64(&cbkAbaSeq, 1) },
		won: func(b *bufferList, slot uint32, begin uint64) {
			key := uint64(b.offsetInShm)<<32 | uint64(slot)
			cbkAbaMu.Lock()
			if cbkAbaLast[key] > begin {
				atomic.AddInt64(&cbkAbaSuspects, 1)
			}
			cbkAbaLast[key] = atomic.AddUint64(&cbkAbaSeq, 1)
			cbkAbaMu.Unlock()
		},
	})
}

func cbkResetAbaDetector() int64 {
	cbkAbaMu.Lock()
	cbkAbaLast = map[uint64]uint64{}
	cbkAbaMu.Unlock()
	return atomic.SwapInt64(&cbkAbaSuspects, 0)
}

// watchdog of blocking reads inside OnData (an absolute read deadline set when the stream is created; executions last a few seconds)
const cbkReadWatchdog = 8 * time.Second

type cbkProfile struct {
	name  string
	build func(k *ctl)
}

// sleeps on the callback goroutine may be long; the vpFill... points run on the process-wide event loop: <= 200us there
var cbkProfiles = []cbkProfile{
	{"natural", func(k *ctl) {}},
	{"cb-before-store0", func(k *ctl) { k.set(vpCbBeforeStore0, 800, 400*time.Microsecond, 85) }},
	{"cb-after-store0", func(k *ctl) { k.set(vpCbAfterStore0, 800, 400*time.Microsecond, 85) }},
	{"cb-before-recheck", func(k *ctl) { k.set(vpCbBeforeRecheck, 800, 400*time.Microsecond, 85) }},
	{"fill-before-cas", func(k *ctl) { k.set(vpFillBeforeCbCAS, 500, 150*time.Microsecond, 80) }},
	{"handoff-all", func(k *ctl) {
		k.set(vpCbBeforeStore0, 500, 200*time.Microsecond, 70)
		k.set(vpCbAfterStore0, 500, 200*time.Microsecond, 70)
		k.set(vpCbBeforeRecheck, 500, 200*time.Microsecond, 70)
		k.set(vpFillBeforeCbCAS, 300, 80*time.Microsecond, 60)
		k.set(vpFillAdded, 200, 50*time.Microsecond, 50)
		k.set(vpStreamCloseLoaded, 300, 80*time.Microsecond, 60)
	}},
	// a local Close held between its state load and its CAS while arrivals start callbacks
	{"close-loaded", func(k *ctl) {
		k.set(vpStreamCloseLoaded, 500, 100*time.Microsecond, 80)
		k.set(vpFillBeforeCbCAS, 200, 50*time.Microsecond, 50)
	}},
}

type cbkCase struct {
	Idx      int    `json:"idx"`
	Streams  int    `json:"streams"`
	Rounds   int    `json:"rounds"`
	Profile  string `json:"profile"`
	SizeSet  int    `json:"size_set"`
	QueueCap uint32 `json:"queue_cap"`
	Memfd    bool   `json:"memfd"`
	Seed     int64  `json:"seed"`
	Directed string `json:"directed,omitempty"`
}

type cbkMsg struct {
	Size  int
	GapUs int // pause after this message
}

type cbkStreamPlan struct {
	Dir       string `json:"dir"`       // c2s: client sends, server has the callbacks | s2c: server sends, client has the callbacks
	Behaviour string `json:"behaviour"` // all | prefix | block | slow | mixed
	Close     string `json:"close"`     // none | peer (flush then close at once) | peer-gap | local (receiver's user goroutine) | local-ondata
	CloseAt   int    `json:"close_round"`
	LocalAt   uint64 `json:"local_close_after_bytes"`
	SlowUs    int    `json:"slow_us"`
	rounds    [][]cbkMsg
	Planned   int `json:"planned_bytes"`
	Msgs      int `json:"messages"`
}

type cbkStream struct {
	x    *cbkExec
	idx  int
	plan cbkStreamPlan
	id   uint32
	cl   *Stream // client side
	sv   *Stream // server side (set on the event loop in OnNewStream)
	key  uint64

	// sender
	sendOff      uint64
	flushedOK    uint64 // atomic
	senderClosed int32  // the sending end called Close (after its last flush)
	senderFailed int32

	// receiver (the recorder)
	rng          *rand.Rand // used inside OnData only (serial by the property; guarded by inData for the monitor's own safety)
	inData       int32
	consumed     uint64 // atomic: bytes taken inside OnData and verified
	offered      uint64 // atomic: max(consumed + Len) seen at an OnData entry
	nData        int64
	plainSerial  int   // deliberately plain: written by every OnData invocation (race-detector sentinel of "serially")
	closeCalled  int32 // 1 once the receiver's user goroutine is about to call Close
	closeRet     int32 // 1 once a local Close (receiver side) returned
	closeInCb    int32 // the local Close was issued inside OnData
	postRet      int32 // OnData entries after the local Close returned
	completed    int32 // OnLocalClose fired (the local close completed)
	nLocal       int32
	nRemote      int32
	lastLenAtRet int64
	closeArmed   int32 // local-ondata: close inside the next OnData once consumed >= LocalAt
	blockedReads int64
	seqBroken    int32
	growTrigger  int32         // the last OnData invocation consumed bytes yet returned with Len >= Len at its entry (its blocking read pulled more in)
	gate         chan struct{} // directed cases: one OnData invocation parks here
	gateIn       chan struct{}
	gateMode     string       // x11 | x17 | x18
	gateArmed    int32        // the next OnData invocation parks (atomic)
	lastTakeErr  atomic.Value // cbkErr: error of the last failed ReadBytes inside OnData
	quietTimeout bool         // the directed X18 case judges a blocked read through Close(), not through the read watchdog
}

func (s *cbkStream) recvStream() *Stream {
	if s.plan.Dir == "c2s" {
		return s.sv
	}
	return s.cl
}

func (s *cbkStream) sendStream() *Stream {
	if s.plan.Dir == "c2s" {
		return s.cl
	}
	return s.sv
}

type cbkExec struct {
	c    *checkCtx
	cs   cbkCase
	p    *sessPair
	k    *ctl
	strs []*cbkStream

	mu          sync.Mutex
	byID        map[uint32]*cbkStream
	cond        *sync.Cond
	viol        []string
	violInfo    []map[string]interface{}
	inc         string
	stuck       bool
	abaSuspects int64
	timeouts    int64

	// directed close-window cases
	parkArmed    *int32
	closerParked chan struct{}
	closerGo     chan struct{}
	closerCASed  chan struct{}
	zombies      []*Stream
	allSent      int32

	arrivedDuringCb int64
	arrivals        int64
	checksOpen      int64
	checksPeer      int64
	stranded        int64
}

func (x *cbkExec) violate(s *cbkStream, format string, a ...interface{}) {
	msg := fmt.Sprintf(format, a...)
	x.mu.Lock()
	defer x.mu.Unlock()
	if len(x.viol) < 8 {
		x.viol = append(x.viol, msg)
		if s != nil {
			st := s.recvStream()
			info := map[string]interface{}{"stream_index": s.idx, "stream_id": s.id, "plan": s.plan,
				"flushed": atomic.LoadUint64(&s.flushedOK), "consumed_in_OnData": atomic.LoadUint64(&s.consumed), "offered": atomic.LoadUint64(&s.offered),
				"OnData_calls": atomic.LoadInt64(&s.nData), "local_close_returned": atomic.LoadInt32(&s.closeRet), "sender_closed": atomic.LoadInt32(&s.senderClosed)}
			if st != nil {
				st.pendingData.Lock()
				info["pending_unread_slices"] = len(st.pendingData.unread)
				st.pendingData.Unlock()
				info["callbackInProcess"] = atomic.LoadUint32(&st.callbackInProcess)
				info["receiver_state"] = st.getStreamState()
			}
			x.violInfo = append(x.violInfo, info)
		}
	}
}

func (x *cbkExec) inconclusive(format string, a ...interface{}) {
	x.mu.Lock()
	if x.inc == "" {
		x.inc = fmt.Sprintf(format, a...)
	}
	x.mu.Unlock()
}

func (x *cbkExec) failed() bool {
	x.mu.Lock()
	defer x.mu.Unlock()
	return len(x.viol) > 0 || x.inc != ""
}

// ListenCallback of the server session: callbacks are installed before the first byte is delivered.
func (x *cbkExec) OnNewStream(st *Stream) {
	x.mu.Lock()
	s := x.byID[st.id]
	if s != nil && s.sv == nil {
		s.sv = st
		if s.plan.Dir == "c2s" {
			st.SetReadDeadline(time.Now().Add(10 * time.Minute)) // replaced by a relative deadline before every blocking read inside OnData
			_ = st.SetCallbacks(s)
		}
	} else {
		// late data re-created a stream the server had already closed: the application closes it (at the end of the execution)
		x.zombies = append(x.zombies, st)
	}
	x.cond.Broadcast()
	x.mu.Unlock()
}

func (x *cbkExec) OnShutdown(reason string) {}

func (x *cbkExec) waitServer(s *cbkStream, timeout time.Duration) bool {
	deadline := time.Now().Add(timeout)
	t := time.AfterFunc(timeout, func() { x.mu.Lock(); x.cond.Broadcast(); x.mu.Unlock() })
	defer t.Stop()
	x.mu.Lock()
	defer x.mu.Unlock()
	for s.sv == nil {
		if time.Now().After(deadline) {
			return false
		}
		x.cond.Wait()
	}
	return true
}

// ---------------------------------------------------------------------------------------------
// the recorder: StreamCallbacks of the receiving end

type cbkErr struct{ e error }

func (s *cbkStream) takeErr() error {
	v, _ := s.lastTakeErr.Load().(cbkErr)
	return v.e
}

func (s *cbkStream) take(r BufferReader, n int) bool {
	if n <= 0 {
		return true
	}
	buf, err := r.ReadBytes(n)
	if err != nil {
		s.lastTakeErr.Store(cbkErr{err})
		// only a blocking read (n > Len) can fail: the stream was closed under it - or the watchdog deadline passed
		if err == ErrTimeout && !s.quietTimeout {
			atomic.AddInt64(&s.x.timeouts, 1)
			st := s.recvStream()
			s.x.inconclusive("stream %d (%s): a blocking ReadBytes(%d) inside OnData for bytes the writer had already flushed did not return within the %v watchdog (receiver state %d, local Close called/armed: %v, Close returned: %v)",
				s.idx, s.plan.Dir, n, cbkReadWatchdog, st.getStreamState(), atomic.LoadInt32(&s.closeCalled) == 1 || atomic.LoadInt32(&s.closeArmed) == 2, atomic.LoadInt32(&s.closeRet) == 1)
		}
		return false
	}
	off := atomic.LoadUint64(&s.consumed)
	if i := checkKeyed(buf, s.key, off); i >= 0 && atomic.CompareAndSwapInt32(&s.seqBroken, 0, 1) {
		// classify: where in the keyed sequence do the bytes that were delivered belong?
		at := off + uint64(i)
		where := "nowhere near"
		w := buf[i:]
		if len(w) > 12 {
			w = w[:12]
		}
		if len(w) >= 6 {
			for d := int64(-300000); d <= 300000; d++ {
				o := int64(at) + d
				if o < 0 || d == 0 {
					continue
				}
				if checkKeyed(w, s.key, uint64(o)) < 0 {
					switch {
					case d < 0:
						where = fmt.Sprintf("offset %d (bytes offered again / reordered, %d back)", o, -d)
					default:
						where = fmt.Sprintf("offset %d (%d bytes skipped: gap or reorder)", o, d)
					}
					break
				}
			}
		}
		msg := fmt.Sprintf("stream %d (%s, OnData style %s): byte %d consumed inside OnData is %#x, the keyed sequence has %#x there; the delivered bytes belong to %s",
			s.idx, s.plan.Dir, s.plan.Behaviour, at, buf[i], keyedByte(s.key, at), where)
		s.x.violate(s, "%s", msg)
	}
	atomic.AddUint64(&s.consumed, uint64(len(buf)))
	r.ReleasePreviousRead()
	return true
}

func (s *cbkStream) OnData(r BufferReader) {
	x := s.x
	defer func() {
		if rec := recover(); rec != nil {
			msg := fmt.Sprintf("stream %d: panic inside OnData: %v\n%s", s.idx, rec, truncate(string(debug.Stack()), 1500))
			x.violate(s, "%s", msg)
		}
	}()
	if n := atomic.AddInt32(&s.inData, 1); n > 1 {
		x.violate(s, "stream %d (%s): OnData entered while another OnData of the same stream is running (%d at once)", s.idx, s.plan.Dir, n)
		defer atomic.AddInt32(&s.inData, -1)
		return // never touch the reader from two goroutines
	}
	defer atomic.AddInt32(&s.inData, -1)
	s.plainSerial++ // plain on purpose, see the race pass
	atomic.AddInt64(&s.nData, 1)
	avail := r.Len()
	atomic.StoreInt32(&s.growTrigger, 0)
	consumedAtEntry := atomic.LoadUint64(&s.consumed)
	defer func() {
		if left := r.Len(); left > 0 && left >= avail && atomic.LoadUint64(&s.consumed) > consumedAtEntry {
			atomic.StoreInt32(&s.growTrigger, 1)
		}
	}()
	if s.gate != nil && atomic.CompareAndSwapInt32(&s.gateArmed, 1, 2) {
		if s.gateMode == "x17" {
			s.take(r, 1) // the front slice of the receive buffer is in use by this invocation from here on
		}
		close(s.gateIn)
		select {
		case <-s.gate:
		case <-time.After(60 * time.Second):
		}
		switch s.gateMode {
		case "x11":
			s.recvStream().SetReadDeadline(time.Now().Add(cbkReadWatchdog))
			if !s.take(r, avail+5) { // a blocking read for 5 bytes more than were buffered at entry
				s.take(r, r.Len())
			}
		case "x17":
			// Len() said avail bytes when this invocation was entered (stream open): they must still be readable and intact now
			if !s.take(r, avail-1) {
				err := s.takeErr()
				x.violate(s, "directed close-window (X17): OnData was entered with Len()=%d on an open stream; while it was running the stream was closed locally and one more message arrived; "+
					"reading the bytes it had been offered then failed with %v (receive buffer recycled under the running OnData), Len() now %d", avail, err, r.Len())
			}
		case "x18":
			s.recvStream().SetReadDeadline(time.Now().Add(30 * time.Second)) // far beyond the 10 s bound of the verdict; only stops a broken tree from hanging for good
			if !s.take(r, avail+200) {                                       // the rest would be message 2, which a closed stream never delivers
				s.take(r, r.Len())
			}
		}
		return
	}
	if o := atomic.LoadUint64(&s.consumed) + uint64(avail); o > atomic.LoadUint64(&s.offered) {
		atomic.StoreUint64(&s.offered, o)
	}
	if atomic.LoadInt32(&s.completed) == 1 {
		x.violate(s, "stream %d (%s): OnData entered after the local close completed (OnLocalClose had fired)", s.idx, s.plan.Dir)
		s.take(r, avail)
		return
	}
	if atomic.LoadInt32(&s.closeRet) == 1 {
		n := atomic.AddInt32(&s.postRet, 1)
		// one invocation may be in flight (its loop check preceded the Close); a Close issued inside OnData leaves room for none
		if n > 1 || atomic.LoadInt32(&s.closeInCb) == 1 {
			x.violate(s, "stream %d (%s): OnData entered (%d bytes) although the local Close had returned before (entry #%d after the return, close issued inside OnData: %v)",
				s.idx, s.plan.Dir, avail, n, atomic.LoadInt32(&s.closeInCb) == 1)
		}
		s.take(r, avail) // keep the callback loop moving whatever the tree does
		return
	}
	if avail == 0 {
		return
	}
	if s.plan.Close == "local-ondata" && atomic.LoadInt32(&s.closeArmed) == 1 && atomic.LoadUint64(&s.consumed)+uint64(avail) >= s.plan.LocalAt {
		if atomic.CompareAndSwapInt32(&s.closeArmed, 1, 2) {
			s.take(r, avail/2)
			atomic.StoreInt32(&s.closeInCb, 1)
			_ = s.recvStream().Close()
			atomic.StoreInt32(&s.closeRet, 1)
			return // the rest stays unread: a closed stream must not offer it again
		}
	}
	beh := s.plan.Behaviour
	if beh == "mixed" {
		beh = []string{"all", "prefix", "block", "slow"}[s.rng.Intn(4)]
	}
	switch beh {
	case "all":
		s.take(r, avail)
	case "prefix":
		n := 1
		if avail > 1 {
			n = 1 + s.rng.Intn(avail-1)
		}
		s.take(r, n)
	case "slow":
		time.Sleep(time.Duration(1+s.rng.Intn(s.plan.SlowUs)) * time.Microsecond)
		s.take(r, avail)
	case "block":
		// ask for more than is buffered, but never for more than the writer has already flushed: those bytes are on their way
		inFlight := int64(atomic.LoadUint64(&s.flushedOK)) - int64(atomic.LoadUint64(&s.consumed)) - int64(avail)
		n := avail
		if inFlight > 0 {
			extra := 1 + s.rng.Intn(int(inFlight))
			if extra > 70000 {
				extra = 70000
			}
			n += extra
			atomic.AddInt64(&s.blockedReads, 1)
			s.recvStream().SetReadDeadline(time.Now().Add(cbkReadWatchdog)) // same goroutine as the read
		}
		if !s.take(r, n) {
			s.take(r, r.Len())
		}
	}
}

func (s *cbkStream) OnLocalClose() {
	atomic.AddInt32(&s.nLocal, 1)
	if atomic.LoadInt32(&s.inData) != 0 {
		s.x.violate(s, "stream %d: OnLocalClose while OnData is running", s.idx)
	}
	atomic.StoreInt32(&s.completed, 1)
}

func (s *cbkStream) OnRemoteClose() { atomic.AddInt32(&s.nRemote, 1) }

// ---------------------------------------------------------------------------------------------

func cbkMsgSize(rng *rand.Rand) int {
	switch rng.Intn(12) {
	case 0:
		return 1
	case 1, 2, 3:
		return 1 + rng.Intn(100)
	case 4, 5, 6:
		return 1 + rng.Intn(2000)
	case 7, 8:
		return 1 + rng.Intn(9000)
	case 9, 10:
		return 1 + rng.Intn(30000)
	default:
		return 1 + rng.Intn(65536)
	}
}

func cbkGap(rng *rand.Rand, burstEnd bool) int {
	if !burstEnd {
		return []int{0, 0, 0, 1, 1, 3}[rng.Intn(6)]
	}
	// around the duration of a callback invocation (a few us natural, up to hundreds with slow OnData / perturbation)
	return []int{0, 1, 3, 8, 20, 50, 120, 300, 600}[rng.Intn(9)]
}

func genCbkCase(c *checkCtx, idx int) cbkCase {
	rng := caseRand(c.seed, 200000+idx)
	cs := cbkCase{Idx: idx, Seed: rng.Int63()}
	cs.Streams = []int{1, 1, 2, 3, 4, 8, 8, 16, 32, 64}[rng.Intn(10)]
	cs.Rounds = 2 + rng.Intn(3)
	cs.Profile = cbkProfiles[idx%len(cbkProfiles)].name
	cs.SizeSet = rng.Intn(2)
	if rng.Intn(4) == 0 {
		cs.QueueCap = 256
	}
	cs.Memfd = rng.Intn(2) == 0
	return cs
}

func genCbkPlan(rng *rand.Rand, cs cbkCase, budget int) cbkStreamPlan {
	pl := cbkStreamPlan{Dir: "c2s"}
	if rng.Intn(4) == 0 {
		pl.Dir = "s2c"
	}
	pl.Behaviour = []string{"all", "all", "prefix", "block", "slow", "mixed", "mixed"}[rng.Intn(7)]
	pl.Close = []string{"none", "none", "none", "peer", "peer", "peer-gap", "local", "local-ondata"}[rng.Intn(8)]
	pl.SlowUs = []int{5, 30, 150, 400}[rng.Intn(4)]
	pl.CloseAt = rng.Intn(cs.Rounds)
	for r := 0; r < cs.Rounds; r++ {
		var msgs []cbkMsg
		bursts := 1 + rng.Intn(3)
		for b := 0; b < bursts; b++ {
			n := 1 + rng.Intn(6)
			for i := 0; i < n; i++ {
				sz := cbkMsgSize(rng)
				if sz > budget {
					sz = 1 + rng.Intn(budget)
				}
				msgs = append(msgs, cbkMsg{Size: sz, GapUs: cbkGap(rng, i == n-1)})
			}
		}
		if (pl.Close == "peer" || pl.Close == "peer-gap") && r > pl.CloseAt {
			msgs = nil
		}
		pl.rounds = append(pl.rounds, msgs)
		for _, m := range msgs {
			pl.Planned += m.Size
			pl.Msgs++
		}
	}
	if pl.Close == "local" || pl.Close == "local-ondata" {
		pl.LocalAt = uint64(rng.Intn(pl.Planned + 1))
	}
	return pl
}

func cbkPause(us int) {
	switch {
	case us <= 0:
	case us == 1:
		runtime.Gosched()
	case us < 10:
		spinFor(us * 200)
	default:
		time.Sleep(time.Duration(us) * time.Microsecond)
	}
}

// settle: writers have returned (caller), the pair is quiescent and no callback goroutine is alive. callbackInProcess == 0
// alone is not enough: the flag is 0 for a moment while a live callback goroutine is between its store and its re-check.
// Once the pair is quiescent nothing arrives any more, so no new callback goroutine can start and waiting for the
// stream's own WaitGroup (as Stream.Close does) tells that the last one has ended.
func (x *cbkExec) settle(wd time.Duration) bool {
	deadline := time.Now().Add(wd)
	for {
		if !x.p.quiesce(wd) {
			return false
		}
		done := make(chan struct{})
		go func() {
			for _, s := range x.strs {
				if st := s.recvStream(); st != nil {
					st.asyncGoroutineWg.Wait()
				}
			}
			close(done)
		}()
		select {
		case <-done:
		case <-time.After(wd):
			return false
		}
		if !x.p.quiesce(wd) {
			return false
		}
		idle := true
		for _, s := range x.strs {
			st := s.recvStream()
			if st != nil && (atomic.LoadUint32(&st.callbackInProcess) != 0 || atomic.LoadInt32(&s.inData) != 0) {
				idle = false
				break
			}
		}
		if idle {
			return fenceN(2)
		}
		if time.Now().After(deadline) {
			return false
		}
		time.Sleep(100 * time.Microsecond)
	}
}

// directedBlockingRead: data flushed before the peer's close, OnData in the middle of a blocking read (deterministic).
func (x *cbkExec) directedBlockingRead(wd time.Duration) {
	s := x.strs[0]
	send := func(n int) bool {
		buf := make([]byte, n)
		fillKeyed(buf, s.key, s.sendOff)
		s.cl.BufferWriter().WriteBytes(buf)
		if err := s.cl.Flush(false); err != nil {
			x.inconclusive("directed: flush: %v", err)
			return false
		}
		s.sendOff += uint64(n)
		atomic.AddUint64(&s.flushedOK, uint64(n))
		return true
	}
	if !send(10) {
		return
	}
	select {
	case <-s.gateIn: // OnData is inside with the first 10 bytes
	case <-time.After(wd):
		x.inconclusive("directed: OnData was not invoked for the first message")
		close(s.gate)
		return
	}
	if !send(1000) {
		close(s.gate)
		return
	}
	_ = s.cl.Close()
	atomic.StoreInt32(&s.senderClosed, 1)
	ok := x.p.quiesce(wd) && fenceN(2) // data and close have been handled by the event loop: 1000 bytes pending, stream half-closed
	close(s.gate)
	if !ok || !x.settle(wd) {
		x.inconclusive("directed: pair did not settle")
		return
	}
	flushed, consumed := atomic.LoadUint64(&s.flushedOK), atomic.LoadUint64(&s.consumed)
	atomic.AddInt64(&x.checksPeer, 1)
	if consumed != flushed {
		msg := fmt.Sprintf("directed x11-blocking-read: the peer flushed %d bytes and then closed while OnData was running; OnData did a blocking ReadBytes(15) with 10 bytes buffered; at quiescence %d bytes have been consumed in %d OnData calls, %d bytes were never offered",
			flushed, consumed, atomic.LoadInt64(&s.nData), flushed-consumed)
		x.violate(s, "%s", msg)
	}
}

// directedCloseWindow: a user goroutine's Close() on the callback end is held between close()'s state load and its CAS
// (hook vpStreamCloseLoaded) while a message arrives and the callback goroutine enters OnData on the still open stream;
// then the closer goes on (CAS -> closed, waits for the callback goroutine), one more message arrives and is handled by the
// closed-stream branch of fillDataToReadBuffer while OnData is still inside.
//
//	x17: OnData then reads the bytes it had been offered at its entry: they must be readable and intact;
//	x18: OnData asks for more than it was offered (the rest is the dropped message): the read must end and Close() must return.
func (x *cbkExec) directedCloseWindow(wd time.Duration) {
	s := x.strs[0]
	mode := s.gateMode
	send := func(n int) bool {
		buf := make([]byte, n)
		fillKeyed(buf, s.key, s.sendOff)
		s.cl.BufferWriter().WriteBytes(buf)
		if err := s.cl.Flush(false); err != nil {
			x.inconclusive("directed close-window: flush: %v", err)
			return false
		}
		s.sendOff += uint64(n)
		atomic.AddUint64(&s.flushedOK, uint64(n))
		return true
	}
	released := false
	release := func() {
		if !released {
			released = true
			close(s.gate)
		}
	}
	closerDone := make(chan struct{})
	closerStarted := false
	defer func() {
		// never leave with parked goroutines
		if atomic.LoadInt32(x.parkArmed) < 3 {
			select {
			case <-x.closerGo:
			default:
				close(x.closerGo)
			}
		}
		release()
		if closerStarted {
			select {
			case <-closerDone:
			case <-time.After(45 * time.Second):
				x.stuck = true
			}
		}
	}()
	// message 0 creates the server side stream and is consumed by an ordinary OnData
	if !send(20) || !x.waitServer(s, wd) {
		x.inconclusive("directed close-window: server side stream did not appear")
		return
	}
	if !waitUntil(wd, func() bool { return atomic.LoadUint64(&s.consumed) == 20 }) || !x.settle(wd) {
		x.inconclusive("directed close-window: set-up did not settle")
		return
	}
	// the closer: no callback is running now, so Close() takes the direct path into close()
	atomic.StoreInt32(x.parkArmed, 1)
	closerStarted = true
	go func() {
		defer close(closerDone)
		atomic.StoreInt32(&s.closeCalled, 1)
		_ = s.sv.Close()
		atomic.StoreInt32(&s.closeRet, 1)
	}()
	select {
	case <-x.closerParked:
	case <-time.After(wd):
		x.inconclusive("directed close-window: Close() did not reach vpStreamCloseLoaded with state opened")
		return
	}
	// message 1: the callback goroutine starts and enters OnData on the still open stream
	atomic.StoreInt32(&s.gateArmed, 1)
	if !send(3000) {
		return
	}
	select {
	case <-s.gateIn:
	case <-time.After(wd):
		x.inconclusive("directed close-window: OnData was not invoked for message 1")
		return
	}
	// the closer goes on: CAS -> closed, then it waits for the callback goroutine
	close(x.closerGo)
	select {
	case <-x.closerCASed:
	case <-time.After(wd):
		x.inconclusive("directed close-window: close() did not pass its CAS")
		return
	}
	// message 2 meets a closed stream that is still in the session's table while OnData is inside
	if !send(500) {
		return
	}
	if !x.p.quiesce(wd) || !fenceN(2) {
		x.inconclusive("directed close-window: pair did not settle after message 2")
		return
	}
	cn := startCanary()
	defer cn.close()
	release()
	atomic.AddInt64(&x.checksOpen, 1)
	select {
	case <-closerDone:
	case <-time.After(10 * time.Second):
		if cn.healthy(500 * time.Millisecond) {
			st := s.sv
			x.violate(s, "directed close-window (%s): Close() of the callback end did not return within 10 s (scheduler canary healthy): OnData is still inside (in OnData: %d, callbackInProcess %d, stream state %d) - "+
				"a blocked read inside OnData is not woken by the close that waits for it", mode, atomic.LoadInt32(&s.inData), atomic.LoadUint32(&st.callbackInProcess), st.getStreamState())
		} else {
			x.inconclusive("directed close-window: Close() watchdog, scheduler canary unhealthy")
		}
		return
	}
	if mode == "x18" {
		if err := s.takeErr(); err == nil {
			// the read was satisfied: the tree delivered message 2 to a closing stream - not what is judged here
			x.c.count("directed x18: blocking read was satisfied instead of failing", 1)
		} else if !isClosedStreamErr(err) {
			x.violate(s, "directed close-window (x18): the blocking ReadBytes inside OnData ended with %q, not with a closed-stream error", err)
		}
	}
	if got := atomic.LoadUint64(&s.consumed); got < 20+3000 {
		x.violate(s, "directed close-window (%s): OnData was entered with 3000 bytes buffered on an open stream but could only consume %d of them", mode, got-20)
	}
}

func runCbkCase(c *checkCtx, cs cbkCase, race bool) *cbkExec {
	x := &cbkExec{c: c, cs: cs, byID: map[uint32]*cbkStream{}}
	x.cond = sync.NewCond(&x.mu)
	rng := rand.New(rand.NewSource(cs.Seed))
	wd := 20 * time.Second
	sizes := smallSizes(1024, 20, 16384, 80) // messages above 16 KiB travel as chains of slices
	if cs.SizeSet == 1 {
		sizes = smallSizes(4096, 30, 65536, 70)
	}
	p, err := newSessionPair(pairOpt{noAccept: true, memfd: cs.Memfd, queueCap: cs.QueueCap, bufCap: 32 << 20, sizes: sizes, initTO: 20 * time.Second,
		serverCfg: func(cfg *Config) { cfg.listenCallback = x }})
	if err != nil {
		x.inconclusive("pair: %v", err)
		return x
	}
	x.p = p
	x.k = newCtl("C20/"+cs.Profile, cs.Seed)
	for _, pr := range cbkProfiles {
		if pr.name == cs.Profile {
			pr.build(x.k)
		}
	}
	x.k.on(vpFillBeforeCbCAS, func(obj interface{}, n int64) {
		atomic.AddInt64(&x.arrivals, 1)
		if st, ok := obj.(*Stream); ok && atomic.LoadUint32(&st.callbackInProcess) == 1 {
			atomic.AddInt64(&x.arrivedDuringCb, 1)
		}
	})
	if cs.Directed == "close-window-x17" || cs.Directed == "close-window-x18" {
		x.parkArmed, x.closerParked, x.closerGo, x.closerCASed = new(int32), make(chan struct{}), make(chan struct{}), make(chan struct{})
		x.k.on(vpStreamCloseLoaded, func(obj interface{}, n int64) {
			// the user goroutine's close() has loaded state "opened" and is about to CAS: hold it there
			st, _ := obj.(*Stream)
			if st == nil || n != int64(streamOpened) || atomic.LoadInt32(x.parkArmed) != 1 || st != x.strs[0].sv {
				return
			}
			if atomic.CompareAndSwapInt32(x.parkArmed, 1, 2) {
				close(x.closerParked)
				select {
				case <-x.closerGo:
				case <-time.After(60 * time.Second):
				}
			}
		})
		x.k.on(vpStreamCloseCASed, func(obj interface{}, n int64) {
			if st, _ := obj.(*Stream); st != nil && atomic.LoadInt32(x.parkArmed) == 2 && st == x.strs[0].sv && atomic.CompareAndSwapInt32(x.parkArmed, 2, 3) {
				close(x.closerCASed)
			}
		})
	}
	x.k.install()
	cbkResetAbaDetector()
	defer func() {
		x.abaSuspects = cbkResetAbaDetector()
		for _, s := range x.strs {
			if s.cl != nil {
				s.cl.Close()
			}
		}
		x.mu.Lock()
		svs := append([]*Stream(nil), x.zombies...)
		for _, s := range x.strs {
			if s.sv != nil {
				svs = append(svs, s.sv)
			}
		}
		x.mu.Unlock()
		for _, sv := range svs {
			sv.Close()
		}
		uninstallCtl()
		p.close()
	}()

	// ---- streams
	budget := (8 << 20) / cs.Streams // keeps the data in flight well inside the mapping
	if budget > 65536 {
		budget = 65536
	}
	for i := 0; i < cs.Streams; i++ {
		st, err := p.client.OpenStream()
		if err != nil {
			x.inconclusive("open: %v", err)
			return x
		}
		s := &cbkStream{x: x, idx: i, id: st.id, cl: st, key: uint64(cs.Idx)<<20 + uint64(st.id), plan: genCbkPlan(rng, cs, budget)}
		switch cs.Directed {
		case "x11-blocking-read":
			s.plan = cbkStreamPlan{Dir: "c2s", Behaviour: "all", Close: "directed", Planned: 1010, Msgs: 2}
			s.gate, s.gateIn, s.gateMode, s.gateArmed = make(chan struct{}), make(chan struct{}), "x11", 1
		case "close-window-x17", "close-window-x18":
			s.plan = cbkStreamPlan{Dir: "c2s", Behaviour: "all", Close: "directed", Planned: 20 + 3000 + 500, Msgs: 3}
			s.gate, s.gateIn, s.gateMode = make(chan struct{}), make(chan struct{}), cs.Directed[len(cs.Directed)-3:]
			s.quietTimeout = true
		}
		s.rng = rand.New(rand.NewSource(rng.Int63()))
		if s.plan.Close == "local-ondata" {
			s.closeArmed = 1
		}
		x.mu.Lock()
		x.byID[st.id] = s
		x.mu.Unlock()
		x.strs = append(x.strs, s)
		// a generous read deadline is the watchdog of the blocking reads inside OnData
		if s.plan.Dir == "s2c" {
			st.SetReadDeadline(time.Now().Add(10 * time.Minute))
			if err := st.SetCallbacks(s); err != nil {
				x.inconclusive("SetCallbacks: %v", err)
				return x
			}
			// the server learns of the stream through a first byte; it never reads it
			st.BufferWriter().WriteBytes([]byte{0x5a})
			if err := st.Flush(false); err != nil {
				x.inconclusive("hello: %v", err)
				return x
			}
		}
	}
	for _, s := range x.strs {
		if s.plan.Dir == "s2c" && !x.waitServer(s, wd) {
			x.inconclusive("server side of stream %d did not appear", s.idx)
			return x
		}
	}

	switch cs.Directed {
	case "x11-blocking-read":
		x.directedBlockingRead(wd)
		return x
	case "close-window-x17", "close-window-x18":
		x.directedCloseWindow(wd)
		return x
	}

	// ---- rounds
	closers := sync.WaitGroup{}
	for r := 0; r < cs.Rounds; r++ {
		var wg sync.WaitGroup
		for _, s := range x.strs {
			msgs := s.plan.rounds[r]
			if len(msgs) == 0 || atomic.LoadInt32(&s.senderClosed) == 1 || atomic.LoadInt32(&s.senderFailed) == 1 {
				continue
			}
			wg.Add(1)
			go func(s *cbkStream, r int, msgs []cbkMsg) {
				defer wg.Done()
				st := s.sendStream()
				for _, m := range msgs {
					buf := make([]byte, m.Size)
					fillKeyed(buf, s.key, s.sendOff)
					if _, err := st.BufferWriter().WriteBytes(buf); err != nil {
						atomic.StoreInt32(&s.senderFailed, 1)
						return
					}
					if err := st.Flush(false); err != nil {
						// the receiver closed (local close plans) - or the transport refused; nothing of this message was sent
						atomic.StoreInt32(&s.senderFailed, 1)
						if !isClosedStreamErr(err) {
							x.c.count("flush errors other than closed-stream", 1)
						}
						return
					}
					s.sendOff += uint64(m.Size)
					atomic.AddUint64(&s.flushedOK, uint64(m.Size))
					cbkPause(m.GapUs)
				}
				if (s.plan.Close == "peer" || s.plan.Close == "peer-gap") && r == s.plan.CloseAt {
					if s.plan.Close == "peer-gap" {
						cbkPause(msgs[len(msgs)-1].GapUs + 1)
					}
					_ = st.Close() // "flush then close at once"
					atomic.StoreInt32(&s.senderClosed, 1)
				}
			}(s, r, msgs)
			if s.plan.Close == "local" && r == 0 {
				// the receiving end's user goroutine closes once LocalAt bytes have been consumed (or the writer has finished)
				closers.Add(1)
				go func(s *cbkStream) {
					defer closers.Done()
					if s.plan.Dir == "c2s" && !x.waitServer(s, wd) {
						return
					}
					deadline := time.Now().Add(wd)
					for i := 0; atomic.LoadUint64(&s.consumed) < s.plan.LocalAt && atomic.LoadInt32(&x.allSent) == 0 && time.Now().Before(deadline); i++ {
						if i%256 == 255 {
							time.Sleep(20 * time.Microsecond)
						} else {
							runtime.Gosched()
						}
					}
					atomic.StoreInt32(&s.closeCalled, 1)
					_ = s.recvStream().Close()
					atomic.StoreInt32(&s.closeRet, 1)
				}(s)
			}
		}
		wg.Wait()
		if r == cs.Rounds-1 {
			atomic.StoreInt32(&x.allSent, 1)
			closers.Wait()
		}
		// ---- quiescence predicate
		if !x.settle(wd) {
			x.inconclusive("round %d: pair / callbacks did not settle within the watchdog\n%s", r, truncate(goroutineDump(), 6000))
			x.stuck = true
			return x
		}
		for _, s := range x.strs {
			flushed := atomic.LoadUint64(&s.flushedOK)
			consumed := atomic.LoadUint64(&s.consumed)
			rs, ss := s.recvStream(), s.sendStream()
			if rs == nil || ss == nil {
				if flushed > 0 {
					x.violate(s, "stream %d: %d bytes were flushed but the receiving side stream never appeared", s.idx, flushed)
				}
				continue
			}
			localClosing := atomic.LoadInt32(&s.closeRet) == 1 || atomic.LoadInt32(&s.closeArmed) == 2 || (s.plan.Close == "local" && rs.getStreamState() != uint32(streamOpened) && atomic.LoadInt32(&s.senderClosed) == 0)
			switch {
			case consumed > flushed:
				x.violate(s, "stream %d: OnData consumed %d bytes but only %d were flushed", s.idx, consumed, flushed)
			case localClosing:
				// closed locally: whatever had not been offered yet is dropped, by the statement's last clause
			case atomic.LoadInt32(&s.senderClosed) == 1:
				atomic.AddInt64(&x.checksPeer, 1)
				if consumed != flushed {
					atomic.AddInt64(&x.stranded, 1)
					msg := fmt.Sprintf("round %d, stream %d (%s, OnData style %s): the peer flushed %d bytes and then closed; at quiescence OnData has been offered %d and consumed %d (data flushed before the peer's close was never offered)",
						r, s.idx, s.plan.Dir, s.plan.Behaviour, flushed, atomic.LoadUint64(&s.offered), consumed)
					if atomic.LoadInt32(&s.growTrigger) == 1 {
						msg += " [the last OnData invocation consumed bytes but returned with Len >= Len at its entry (a blocking read pulled more in); no OnData followed]"
					}
					x.violate(s, "%s", msg)
				}
			case rs.IsOpen() && ss.IsOpen():
				atomic.AddInt64(&x.checksOpen, 1)
				if consumed != flushed {
					atomic.AddInt64(&x.stranded, 1)
					x.violate(s, "round %d, stream %d (%s, OnData style %s): writer finished, pair quiescent, no callback running, stream open on both ends: flushed %d bytes, OnData was offered %d and consumed %d (data stranded until further traffic)",
						r, s.idx, s.plan.Dir, s.plan.Behaviour, flushed, atomic.LoadUint64(&s.offered), consumed)
				}
			}
		}
		if x.failed() {
			return x
		}
	}
	_ = race
	return x
}

func checkCallback(c *checkCtx) {
	c.rule = "executions = (1..64 callback streams, 2-4 rounds of bursts, message sizes 1 B-64 KiB, OnData style all/prefix/blocking-ReadBytes/slow/mixed, " +
		"no close / peer close right after the last flush / peer close after a gap / local Close from a user goroutine / local Close inside OnData, " +
		"perturbation profile targeting one hand-off point) from PRNG(VERIF_SEED, index); the quiescence predicate is evaluated after every round; " +
		"non-trivial = at least one hook transition between the callback goroutine's hand-off points and the event loop's fill points (an arrival inside the hand-off); " +
		"distinct = distinct (streams, profile, hook-transition signature)"
	c.assume("client and server session live in one process; OnData consumes at least one byte per invocation (the library re-invokes it while data is buffered)")
	c.assume("'closed' in the statement's last clause is the local close (C10's final state); data flushed before a peer's close must still be offered (X11)")
	c.assume("after a local Close returned at most one OnData entry is tolerated (the invocation whose loop check preceded the Close), none when Close was called inside OnData")
	cbkInstallAbaDetector()
	if isRacePass() {
		for i := 0; i < 30; i++ {
			cs := genCbkCase(c, i)
			if cs.Streams > 8 {
				cs.Streams = 8
			}
			x := runCbkCase(c, cs, true)
			c.eval(1)
			c.nontrivial(fmt.Sprint(i))
			for _, v := range x.viol {
				fmt.Println("RACEPASS-VIOL", v)
			}
		}
		c.sample("race pass")
		return
	}
	n := c.pick(110, 7500)
	var hits [vpPointCount]uint64
	samples := 0
	ownViolations := 0
	directed := []string{"x11-blocking-read", "close-window-x17", "close-window-x18"}
	for i := -len(directed); i < n; i++ {
		var cs cbkCase
		if i >= 0 {
			cs = genCbkCase(c, i)
		} else {
			cs = cbkCase{Idx: 999999 + i + len(directed), Streams: 1, Rounds: 1, Profile: "natural", Seed: c.seed, Directed: directed[i+len(directed)]}
		}
		x := runCbkCase(c, cs, false)
		name := fmt.Sprintf("cb-%d", cs.Idx)
		if cs.Directed != "" {
			name = "directed-" + cs.Directed
			c.count("directed cases run", 1)
		}
		if x.k != nil {
			for _, pt := range append(append([]int{}, cbPoints...), fillPoints...) {
				hits[pt] += x.k.hitCount(pt)
			}
		}
		c.count("allocator ABA suspects (known finding F1) during callback executions", x.abaSuspects)
		if x.abaSuspects > 0 && len(x.viol) > 0 {
			c.inconclusiveCase(name, fmt.Sprintf("%d allocator ABA suspects (known finding F1) in this execution; not attributable to callback mode: %s", x.abaSuspects, x.viol[0]))
			continue
		}
		if x.inc != "" && len(x.viol) == 0 {
			c.inconclusiveCase(name, x.inc)
			if x.stuck { // a settle watchdog leaves goroutines behind that cannot be reclaimed
				c.abortRun()
			}
			continue
		}
		c.eval(1)
		var msgs, bytes, calls, blocked, post int64
		var lc, lcIn, pc int64
		for _, s := range x.strs {
			msgs += int64(s.plan.Msgs)
			bytes += int64(atomic.LoadUint64(&s.consumed))
			calls += atomic.LoadInt64(&s.nData)
			blocked += atomic.LoadInt64(&s.blockedReads)
			post += int64(atomic.LoadInt32(&s.postRet))
			if atomic.LoadInt32(&s.closeRet) == 1 {
				lc++
				if atomic.LoadInt32(&s.closeInCb) == 1 {
					lcIn++
				}
			}
			pc += int64(atomic.LoadInt32(&s.senderClosed))
		}
		c.count("streams", int64(len(x.strs)))
		c.count("messages planned", msgs)
		c.count("bytes consumed inside OnData", bytes)
		c.count("OnData invocations", calls)
		c.count("blocking ReadBytes inside OnData (asked for more than buffered)", blocked)
		c.count("messages that arrived while a callback was in process", atomic.LoadInt64(&x.arrivedDuringCb))
		c.count("message arrivals on callback streams", atomic.LoadInt64(&x.arrivals))
		c.count("local closes (receiver side)", lc)
		c.count("local closes issued inside OnData", lcIn)
		c.count("peer closes right after the last flush / after a gap", pc)
		c.count("OnData entries in flight when a local Close returned", post)
		c.count("quiescence checks on streams open on both ends", atomic.LoadInt64(&x.checksOpen))
		c.count("quiescence checks on streams closed by the peer", atomic.LoadInt64(&x.checksPeer))
		cross, _ := x.k.crossTransitions(cbPoints, fillPoints)
		c.count("hook transitions callback hand-off <-> event-loop fill", int64(cross))
		if cross > 0 {
			c.nontrivial(fmt.Sprintf("%d/%s/%s", cs.Streams, cs.Profile, x.k.signature()))
		}
		c.count("blocking reads inside OnData that hit the watchdog", atomic.LoadInt64(&x.timeouts))
		if len(x.viol) > 0 {
			ownViolations++
			c.violation(name, map[string]interface{}{"case": cs, "violations": x.viol, "streams": x.violInfo,
				"transitions": x.k.transitionNames(cbPoints, fillPoints, 12)}, "%s", x.viol[0])
			if ownViolations >= 5 {
				break
			}
		} else if samples < 4 && cross > 0 {
			samples++
			var plans []cbkStreamPlan
			for j, s := range x.strs {
				if j < 3 {
					plans = append(plans, s.plan)
				}
			}
			c.sample(map[string]interface{}{"case": cs, "first_stream_plans": plans, "transitions": x.k.transitionNames(cbPoints, fillPoints, 6)})
		}
	}
	for _, pt := range append(append([]int{}, cbPoints...), fillPoints...) {
		c.count("hook hits "+vpPointNames[pt], int64(hits[pt]))
	}
	if ownViolations == 0 {
		if hits[vpCbBeforeRecheck] == 0 || hits[vpFillBeforeCbCAS] == 0 {
			c.noObservation("callback hand-off hook points never reached")
		}
		if c.counter("messages that arrived while a callback was in process") == 0 {
			c.noObservation("no message ever arrived while a callback was in process")
		}
	}
	// ---- directed: OnData already waits inside a read for more than has arrived when the rest arrives
	for i := 0; i < c.pick(6, 120) && ownViolations == 0; i++ {
		viol, inc := cbkDirectedLateData(c, i)
		name := fmt.Sprintf("directed-late-data-%d", i)
		if inc != "" {
			c.inconclusiveCase(name, inc)
			continue
		}
		c.eval(1)
		c.count("directed late-data cases (OnData parked in a read when the rest of the record arrives)", 1)
		c.nontrivial(fmt.Sprintf("late-data/%d", i%4))
		if viol != "" {
			ownViolations++
			c.violation(name, map[string]interface{}{"index": i}, "%s", viol)
		}
	}
	// ---- directed: a user goroutine's Close() waits for the ending callback goroutine while the event loop starts the next one
	if ownViolations == 0 {
		iters, reached, viol, inc := cbkDirectedCloseVsRestart(c, c.pick(8000, 60000))
		c.eval(1)
		c.count("directed close-vs-restart iterations (Close waiting for the ending callback goroutine while a message arrives)", int64(iters))
		c.count("directed close-vs-restart iterations in which all three parties were held at their points", int64(reached))
		if inc != "" {
			c.inconclusiveCase("directed-close-vs-restart", inc)
		}
		if reached > 0 {
			c.nontrivial("close-vs-restart")
		}
		if viol != "" {
			ownViolations++
			c.violation("directed-close-vs-restart", map[string]interface{}{"iterations": iters}, "%s", viol)
		}
	}
	// ---- race-detector pass: evidence (pairs listed) plus one sound sentinel: the recorder's deliberately plain per-stream
	// counter is written by every OnData invocation; on a correct tree consecutive invocations are ordered by the atomics on
	// callbackInProcess / the goroutine start, so a report with both stacks inside the recorder's OnData means two invocations
	// of one stream were not ordered - "never running twice at the same time" has a refuting schedule.
	if ownViolations == 0 {
		reports, ran, info := c.runRacePass(15 * time.Minute)
		if ran {
			c.count("race pass: reports", int64(len(reports)))
			sentinel := 0
			for _, r := range reports {
				if stackHas(r.Stack1[:cbkMin(len(r.Stack1), 2)], "(*cbkStream).OnData") && stackHas(r.Stack2[:cbkMin(len(r.Stack2), 2)], "(*cbkStream).OnData") {
					sentinel++
					if sentinel == 1 {
						c.violation("callback-race", map[string]interface{}{"report": r.Raw},
							"race detector: two OnData invocations of one stream are not ordered (unsynchronised accesses to the recorder's per-stream state)")
					}
				}
			}
			c.setExtra("race_pairs", racePairs(reports))
			if info != "" {
				c.setExtra("race_pass_exit", truncate(info, 500))
			}
		} else {
			c.setExtra("race_pass", "not run: "+info)
		}
	}
}

func cbkMin(a, b int) int {
	if a < b {
		return a
	}
	return b
}

// ---------------------------------------------------------------------------------------------
// cbkDirectedLateData: a record arrives in two flushes; OnData is entered with the first part and asks for the whole record
// (a blocking read inside the callback). The second part arrives while that read waits: no new callback goroutine is started
// (one is in process), so the bytes only become available if the waiting read is woken. Every byte must be consumed, in order.
type cbkLateCb struct {
	key            uint64
	first, total   int
	entered, done  chan struct{}
	once           sync.Once
	got            int32
	bad            int32
	err            atomic.Value
	nLocal, nRemot int32
}

func (l *cbkLateCb) OnData(r BufferReader) {
	fresh := false
	l.once.Do(func() { fresh = true })
	if !fresh {
		if n := r.Len(); n > 0 {
			r.ReadBytes(n)
			r.ReleasePreviousRead()
		}
		return
	}
	close(l.entered)
	b, err := r.ReadBytes(l.total)
	if err != nil {
		l.err.Store(cbkErr{err})
	} else {
		atomic.StoreInt32(&l.got, int32(len(b)))
		if i := checkKeyed(b, l.key, 0); i >= 0 {
			atomic.StoreInt32(&l.bad, int32(i)+1)
		}
		r.ReleasePreviousRead()
	}
	close(l.done)
}
func (l *cbkLateCb) OnLocalClose()  { atomic.AddInt32(&l.nLocal, 1) }
func (l *cbkLateCb) OnRemoteClose() { atomic.AddInt32(&l.nRemot, 1) }

func cbkDirectedLateData(c *checkCtx, idx int) (viol string, inc string) {
	rng := caseRand(c.seed, 1480000+idx)
	p, err := newSessionPair(pairOpt{memfd: idx%2 == 0})
	if err != nil {
		return "", "pair: " + err.Error()
	}
	defer p.close()
	cl, err := p.client.OpenStream()
	if err != nil {
		return "", "open: " + err.Error()
	}
	first := 1 + rng.Intn(200)
	total := first + 1 + rng.Intn(5000)
	cb := &cbkLateCb{key: uint64(0xC20000 + idx), first: first, total: total, entered: make(chan struct{}), done: make(chan struct{})}
	if err := cl.SetCallbacks(cb); err != nil {
		return "", "SetCallbacks: " + err.Error()
	}
	cl.BufferWriter().WriteBytes([]byte("go"))
	if err := cl.Flush(false); err != nil {
		return "", "flush: " + err.Error()
	}
	sv := p.serverStream(cl.StreamID(), 10*time.Second)
	if sv == nil {
		return "", "server stream did not appear"
	}
	sv.BufferReader().ReadBytes(2)
	sv.BufferReader().ReleasePreviousRead()
	data := make([]byte, total)
	fillKeyed(data, cb.key, 0)
	sv.BufferWriter().WriteBytes(data[:first])
	if err := sv.Flush(false); err != nil {
		return "", "server flush: " + err.Error()
	}
	select {
	case <-cb.entered:
	case <-time.After(10 * time.Second):
		return "", "OnData was not entered"
	}
	// let the read park (it has the first part only)
	time.Sleep(time.Duration(1+rng.Intn(4)) * time.Millisecond)
	cn := startCanary()
	defer cn.close()
	sv.BufferWriter().WriteBytes(data[first:])
	if err := sv.Flush(false); err != nil {
		return "", "server flush 2: " + err.Error()
	}
	p.quiesce(10 * time.Second)
	fenceN(2)
	select {
	case <-cb.done:
	case <-time.After(8 * time.Second):
		if !cn.healthy(500 * time.Millisecond) {
			cl.Close()
			return "", "read not finished, scheduler canary unhealthy"
		}
		pend := 0
		cl.pendingData.Lock()
		pend = len(cl.pendingData.unread)
		cl.pendingData.Unlock()
		cl.Close()
		select {
		case <-cb.done:
		case <-time.After(10 * time.Second):
		}
		return fmt.Sprintf("directed late-data: the peer flushed a record of %d bytes in two parts (%d + %d); OnData was entered with the first part and asked for the whole record; "+
			"8 s after the second part was flushed (pair quiescent, fences passed) the bytes have not been offered: the read inside OnData still waits "+
			"(buffers delivered to the stream and never looked at: %d)", total, first, total-first, pend), ""
	}
	if e, _ := cb.err.Load().(cbkErr); e.e != nil {
		return fmt.Sprintf("directed late-data: the read inside OnData failed with %v although the peer flushed all %d bytes and nobody closed", e.e, total), ""
	}
	if got := int(atomic.LoadInt32(&cb.got)); got != total {
		return fmt.Sprintf("directed late-data: OnData's ReadBytes(%d) returned %d bytes", total, got), ""
	}
	if b := atomic.LoadInt32(&cb.bad); b > 0 {
		return fmt.Sprintf("directed late-data: byte %d of the record differs from what the peer flushed", b-1), ""
	}
	return "", ""
}

// ---------------------------------------------------------------------------------------------
// cbkDirectedCloseVsRestart: the ending callback goroutine is held right after it has cleared callbackInProcess (hook
// CbAfterStore0), the event loop is held with the next message just before it starts a callback goroutine (hook
// FillBeforeCbCAS), a user goroutine calls Close() and waits for the ending goroutine; then both are let go, the goroutine a
// few hundred nanoseconds before the loop. Whatever the order, nothing may panic (a callback goroutine started while Close
// is returning from its wait is a WaitGroup misuse: the process dies) and Close must return.
type cbkWgCb struct{ nLocal, nRemote int32 }

func (w *cbkWgCb) OnData(r BufferReader) {
	if n := r.Len(); n > 0 {
		r.ReadBytes(n)
		r.ReleasePreviousRead()
	}
}
func (w *cbkWgCb) OnLocalClose()  { atomic.AddInt32(&w.nLocal, 1) }
func (w *cbkWgCb) OnRemoteClose() { atomic.AddInt32(&w.nRemote, 1) }

func cbkDirectedCloseVsRestart(c *checkCtx, iters int) (done int, reached int, viol string, inc string) {
	p, err := newSessionPair(pairOpt{})
	if err != nil {
		return 0, 0, "", "pair: " + err.Error()
	}
	defer p.close()
	var target atomic.Value // *Stream under test
	var arm1, arm2 int32
	g1Parked, loopParked := make(chan struct{}, 1), make(chan struct{}, 1)
	var g1Release, loopRelease atomic.Value // chan struct{}
	k := newCtl("close-vs-restart", c.seed)
	hold := func(arm *int32, parked chan struct{}, rel *atomic.Value) func(obj interface{}, n int64) {
		return func(obj interface{}, n int64) {
			st, _ := obj.(*Stream)
			if t, _ := target.Load().(*Stream); st == nil || st != t || !atomic.CompareAndSwapInt32(arm, 1, 0) {
				return
			}
			ch, _ := rel.Load().(chan struct{})
			parked <- struct{}{}
			select {
			case <-ch:
			case <-time.After(5 * time.Second):
			}
		}
	}
	k.on(vpCbAfterStore0, hold(&arm1, g1Parked, &g1Release))
	k.on(vpFillBeforeCbCAS, hold(&arm2, loopParked, &loopRelease))
	k.install()
	defer uninstallCtl()
	rng := caseRand(c.seed, 1490000)
	wait := func(ch chan struct{}) bool {
		select {
		case <-ch:
			return true
		case <-time.After(5 * time.Second):
			return false
		}
	}
	misses := 0
	started := time.Now()
	for it := 0; it < iters; it++ {
		if time.Since(started) > 10*time.Minute {
			break // a budget, not a verdict: on a very slow machine fewer iterations are run
		}
		cl, err := p.client.OpenStream()
		if err != nil {
			return done, reached, "", "open: " + err.Error()
		}
		cb := &cbkWgCb{}
		cl.SetCallbacks(cb)
		cl.BufferWriter().WriteBytes([]byte("go"))
		if cl.Flush(false) != nil {
			return done, reached, "", "flush"
		}
		sv := p.serverStream(cl.StreamID(), 10*time.Second)
		if sv == nil {
			return done, reached, "", "server stream did not appear"
		}
		sv.BufferReader().ReadBytes(2)
		sv.BufferReader().ReleasePreviousRead()
		g1c, lpc := make(chan struct{}), make(chan struct{})
		g1Release.Store(g1c)
		loopRelease.Store(lpc)
		target.Store(cl)
		send := func() bool {
			sv.BufferWriter().WriteBytes(make([]byte, 16))
			return sv.Flush(false) == nil
		}
		ok := true
		atomic.StoreInt32(&arm1, 1)
		if !send() || !wait(g1Parked) { // the callback goroutine of message 1 is ending: callbackInProcess is 0, it is still counted
			ok = false
		}
		if ok {
			atomic.StoreInt32(&arm2, 1)
			if !send() || !wait(loopParked) { // message 2 is on the event loop, which has seen the stream open
				ok = false
			}
		}
		closed := make(chan struct{})
		if ok {
			go func() { cl.Close(); close(closed) }()
			// the closer has marked the stream closed and waits for the ending goroutine
			ok = waitUntil(5*time.Second, func() bool { return cl.getStreamState() == uint32(streamClosed) })
			time.Sleep(time.Duration(50+rng.Intn(300)) * time.Microsecond)
		}
		atomic.StoreInt32(&arm1, 0)
		atomic.StoreInt32(&arm2, 0)
		close(g1c)
		spinFor(rng.Intn(30000))
		close(lpc)
		done++
		if !ok {
			sv.Close()
			cl.Close()
			misses++
			if misses >= 3 {
				// the parties cannot be brought to their points here (each miss costs seconds of waiting): give up, nothing is judged
				if reached == 0 {
					inc = "the three parties could not be held at their points together"
				}
				return
			}
			continue
		}
		misses = 0
		reached++
		select {
		case <-closed:
		case <-time.After(10 * time.Second):
			return done, reached, fmt.Sprintf("directed close-vs-restart: iteration %d: Close() from a user goroutine did not return within 10 s (stream state %d, callbackInProcess %d)",
				it, cl.getStreamState(), atomic.LoadUint32(&cl.callbackInProcess)), ""
		}
		sv.Close()
	}
	if reached == 0 {
		inc = "the three parties were never held at their points together"
	}
	return
}
