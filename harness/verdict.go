package shmipc

import (
	"encoding/json"
	"fmt"
	"os"
	"path/filepath"
	"sort"
	"sync"
	"time"
)

// checkCtx carries tier/seed, collects what the monitors observed and writes verdict + evidence.
type checkCtx struct {
	prop  string
	tier  string // quick | thorough | replay
	seed  int64
	jobs  int
	dir   string // /verif
	work  string // /verif/.work
	level string // evidence level
	wall  float64
	start time.Time

	mu           sync.Mutex
	evaluations  int64
	distinct     map[string]struct{}
	rule         string
	samples      []interface{}
	maxSamples   int
	extra        map[string]interface{}
	counters     map[string]int64
	assumptions  []string
	violations   int
	violationMsg []string
	knownHits    map[string]int
	knownPrinted map[string]bool
	inconclusive []string
	noObs        []string
	known        map[string]knownFinding
	replayN      int
	alsoEvidence []string // further property ids that get a copy of the evidence (shared workloads)
	replayOf     string   // tier recorded in the replay file (replay mode)
}

type knownFinding struct {
	ID         string   `json:"id"`
	Property   []string `json:"property"`
	Status     string   `json:"status"` // known | fixed
	Classifier string   `json:"classifier,omitempty"`
	Commit     string   `json:"commit,omitempty"`
	What       string   `json:"what"`
}

func newCheckCtx(prop string) *checkCtx {
	c := &checkCtx{
		prop:         prop,
		tier:         os.Getenv("VERIF_TIER"),
		seed:         envInt("VERIF_SEED", 1),
		jobs:         int(envInt("VERIF_JOBS", 16)),
		dir:          os.Getenv("VERIF_DIR"),
		work:         os.Getenv("VERIF_WORK"),
		level:        "exploration",
		distinct:     map[string]struct{}{},
		extra:        map[string]interface{}{},
		counters:     map[string]int64{},
		knownHits:    map[string]int{},
		knownPrinted: map[string]bool{},
		known:        map[string]knownFinding{},
		maxSamples:   5,
		start:        time.Now(),
	}
	if c.tier == "" {
		c.tier = "quick"
	}
	if c.dir == "" {
		c.dir = "/verif"
	}
	if c.work == "" {
		c.work = filepath.Join(c.dir, ".work")
	}
	c.loadKnown()
	return c
}

func (c *checkCtx) quick() bool { return !c.thorough() }
func (c *checkCtx) thorough() bool {
	return c.tier == "thorough" || (c.tier == "replay" && c.replayOf == "thorough")
}

// pick returns q in the quick tier and t in the thorough tier.
func (c *checkCtx) pick(q, t int) int {
	if c.thorough() {
		return t
	}
	return q
}

func (c *checkCtx) loadKnown() {
	data, err := os.ReadFile(filepath.Join(c.dir, "known_findings.json"))
	if err != nil {
		return
	}
	var list []knownFinding
	if err := json.Unmarshal(data, &list); err != nil {
		fmt.Printf("WARNING: known_findings.json unreadable: %v\n", err)
		return
	}
	for _, k := range list {
		c.known[k.ID] = k
	}
}

// isKnown reports whether finding id is listed as status "known" for this property.
func (c *checkCtx) isKnown(id string) bool {
	k, ok := c.known[id]
	if !ok || k.Status != "known" {
		return false
	}
	for _, p := range k.Property {
		if p == c.prop {
			return true
		}
	}
	return false
}

func (c *checkCtx) eval(n int64) {
	c.mu.Lock()
	c.evaluations += n
	c.mu.Unlock()
}

func (c *checkCtx) count(name string, n int64) {
	c.mu.Lock()
	c.counters[name] += n
	c.mu.Unlock()
}

func (c *checkCtx) counter(name string) int64 {
	c.mu.Lock()
	defer c.mu.Unlock()
	return c.counters[name]
}

// nontrivial records one distinct non-trivial case key.
func (c *checkCtx) nontrivial(key string) {
	c.mu.Lock()
	if len(c.distinct) < 2000000 {
		c.distinct[key] = struct{}{}
	}
	c.mu.Unlock()
}

func (c *checkCtx) sample(s interface{}) {
	c.mu.Lock()
	if len(c.samples) < c.maxSamples {
		c.samples = append(c.samples, s)
	}
	c.mu.Unlock()
}

func (c *checkCtx) setExtra(k string, v interface{}) {
	c.mu.Lock()
	c.extra[k] = v
	c.mu.Unlock()
}

func (c *checkCtx) assume(s string) {
	c.mu.Lock()
	c.assumptions = append(c.assumptions, s)
	c.mu.Unlock()
}

// violation records a violation, writes a replay file and prints the VIOLATION line.
func (c *checkCtx) violation(caseName string, replay interface{}, format string, args ...interface{}) {
	msg := fmt.Sprintf(format, args...)
	c.mu.Lock()
	c.violations++
	n := c.violations
	if len(c.violationMsg) < 20 {
		c.violationMsg = append(c.violationMsg, caseName+": "+msg)
	}
	c.replayN++
	rn := c.replayN
	c.mu.Unlock()
	if n > 25 {
		return // enough witnesses, keep counting only
	}
	suffix := ""
	if c.tier == "replay" {
		suffix = "-replayed" // never overwrite the file that is being replayed
	}
	path := filepath.Join(c.replayDir(), fmt.Sprintf("%s-%d-%s-%d%s.json", c.prop, c.seed, sanitizeName(caseName), rn, suffix))
	_ = os.MkdirAll(filepath.Dir(path), 0o755)
	doc := map[string]interface{}{
		"property": c.prop, "tier": c.tier, "seed": c.seed, "case": caseName, "what": msg, "witness": replay,
	}
	data, _ := json.MarshalIndent(doc, "", " ")
	_ = os.WriteFile(path, data, 0o644)
	fmt.Printf("VIOLATION property=%s replay=%s\n", c.prop, path)
	fmt.Printf("  case=%s: %s\n", caseName, truncate(msg, 600))
}

// knownFindingHit reports an observation that a known finding's classifier claimed. If the finding is not
// listed (status known, for this property) in known_findings.json it is an ordinary violation.
func (c *checkCtx) knownFindingHit(id string, caseName string, replay interface{}, format string, args ...interface{}) {
	if !c.isKnown(id) {
		c.violation(caseName, replay, "(classifier %s, not listed as known) "+format, append([]interface{}{id}, args...)...)
		return
	}
	c.mu.Lock()
	c.knownHits[id]++
	first := !c.knownPrinted[id]
	c.knownPrinted[id] = true
	c.mu.Unlock()
	if first {
		fmt.Printf("KNOWN-FINDING: property=%s %s %s [first hit: case=%s %s]\n", c.prop, id, c.known[id].What, caseName,
			truncate(fmt.Sprintf(format, args...), 300))
	}
}

func (c *checkCtx) inconclusiveCase(caseName, reason string) {
	c.mu.Lock()
	if len(c.inconclusive) < 50 {
		c.inconclusive = append(c.inconclusive, caseName+": "+reason)
	}
	c.counters["inconclusive"]++
	c.mu.Unlock()
	fmt.Printf("INCONCLUSIVE property=%s case=%s reason=%s\n", c.prop, caseName, truncate(reason, 300))
}

// noObservation marks a structural blind spot: the monitor observed nothing for something it must observe.
func (c *checkCtx) noObservation(what string) {
	c.mu.Lock()
	c.noObs = append(c.noObs, what)
	c.mu.Unlock()
}

// abortRun ends the whole run now (used when a watchdog fired and stuck goroutines cannot be reclaimed).
func (c *checkCtx) abortRun() {
	c.wall = time.Since(c.start).Seconds()
	code := c.finish()
	if m := os.Getenv("VERIF_DONE_MARKER"); m != "" {
		_ = os.WriteFile(m, []byte(fmt.Sprint(code)), 0o644)
	}
	os.Exit(code)
}

func (c *checkCtx) finish() int {
	c.mu.Lock()
	defer c.mu.Unlock()
	tier := c.tier
	if tier != "thorough" {
		tier = "quick"
	}
	cov := map[string]interface{}{
		"evaluations":         c.evaluations,
		"distinct_nontrivial": len(c.distinct),
		"rule":                c.rule,
		"samples":             c.samples,
		"exhaustive":          false,
	}
	names := make([]string, 0, len(c.counters))
	for k := range c.counters {
		names = append(names, k)
	}
	sort.Strings(names)
	cnt := map[string]int64{}
	for _, k := range names {
		cnt[k] = c.counters[k]
	}
	cov["observed"] = cnt
	for k, v := range c.extra {
		cov[k] = v
	}
	if len(c.knownHits) > 0 {
		cov["known_finding_hits"] = c.knownHits
	}
	if len(c.inconclusive) > 0 {
		cov["inconclusive"] = c.inconclusive
	}
	if len(c.noObs) > 0 {
		cov["no_observation"] = c.noObs
	}
	if len(c.violationMsg) > 0 {
		cov["violation_messages"] = c.violationMsg
	}
	if c.samples == nil {
		cov["samples"] = []interface{}{}
	}
	ev := map[string]interface{}{
		"property_id": c.prop,
		"tier":        tier,
		"seed":        c.seed,
		"level":       c.level,
		"coverage":    cov,
		"assumptions": c.assumptions,
		"wall_s":      c.wall,
		"violations":  c.violations,
	}
	if c.assumptions == nil {
		ev["assumptions"] = []string{}
	}
	if c.tier != "replay" {
		for _, p := range append([]string{c.prop}, c.alsoEvidence...) {
			ev["property_id"] = p
			data, _ := json.MarshalIndent(ev, "", " ")
			_ = os.MkdirAll(c.evidenceDir(), 0o755)
			if err := os.WriteFile(filepath.Join(c.evidenceDir(), p+".json"), data, 0o644); err != nil {
				fmt.Printf("cannot write evidence: %v\n", err)
			}
		}
	}
	fmt.Printf("SUMMARY property=%s tier=%s seed=%d evaluations=%d distinct_nontrivial=%d violations=%d known_hits=%v inconclusive=%d wall=%.1fs\n",
		c.prop, c.tier, c.seed, c.evaluations, len(c.distinct), c.violations, c.knownHits, len(c.inconclusive), c.wall)
	for _, k := range names {
		fmt.Printf("  observed %-40s %d\n", k, c.counters[k])
	}
	if c.violations > 0 {
		return 1
	}
	if c.evaluations == 0 || len(c.noObs) > 0 {
		fmt.Printf("INCONCLUSIVE property=%s reason=no-observation %v\n", c.prop, c.noObs)
		return 2
	}
	return 0
}

func (c *checkCtx) evidenceDir() string {
	if d := os.Getenv("VERIF_EVIDENCE_DIR"); d != "" {
		return d
	}
	return filepath.Join(c.dir, "evidence")
}

func (c *checkCtx) replayDir() string {
	if d := os.Getenv("VERIF_REPLAY_DIR"); d != "" {
		return d
	}
	return filepath.Join(c.dir, "replays")
}

func sanitizeName(s string) string {
	b := []byte(s)
	for i, ch := range b {
		if !(ch >= 'a' && ch <= 'z' || ch >= 'A' && ch <= 'Z' || ch >= '0' && ch <= '9' || ch == '-' || ch == '_') {
			b[i] = '_'
		}
	}
	if len(b) > 60 {
		b = b[:60]
	}
	return string(b)
}

func truncate(s string, n int) string {
	if len(s) > n {
		return s[:n] + "…"
	}
	return s
}
