package shmipc

// C14: peer death and session close are contained and release every resource.
// Fault enumeration over process-level scenarios: a survivor node and a victim node (both children of the check,
// each hosting one library session) run echo traffic; the victim kills itself / severs the connection at the k-th
// hit of a hook point (handshake steps, flush, wake-up, queue element k, control event k, fallback, close), or is
// SIGSTOPped/SIGKILLed from outside. The survivor reports what it observed. Separately: Session.Close called by
// 1..8 goroutines under traffic (with OpenStream / GetMetrics racing), in a child. Known finding F2 (teardown does
// not wait for users of the session's streams and memory) is expressed by two directed scenarios and a narrow
// classifier on the survivor's crash output.

import (
	"bufio"
	"encoding/json"
	"fmt"
	"math/rand"
	"net"
	"os"
	"path/filepath"
	"strings"
	"sync"
	"sync/atomic"
	"syscall"
	"time"
)

func init() {
	verifChecks["C14"] = checkDeath
	verifChildRoles["c14node"] = c14Node
	verifChildRoles["c14close"] = c14CloseNode
}

type c14Conf struct {
	Role      string `json:"role"` // client | server
	Sock      string `json:"sock"`
	Prefix    string `json:"prefix"`
	Memfd     bool   `json:"memfd"`
	Streams   int    `json:"streams"`
	Callbacks bool   `json:"callbacks"`
	MsgSize   int    `json:"msg"`
	Victim    bool   `json:"victim"`
	Action    string `json:"action"` // die | sever | none
	Point     string `json:"point"`
	K         int64  `json:"k"`
	HsStep    int64  `json:"hs_step"`  // for point Handshake: the step number
	Directed  string `json:"directed"` // "" | retain | stallflush
	Rounds    int    `json:"rounds"`
	InitTOms  int    `json:"init_timeout_ms"`
}

type c14Report struct {
	Phase           string   `json:"phase"`
	HandshakeErr    string   `json:"handshake_err,omitempty"`
	HandshakeMs     int64    `json:"handshake_ms"`
	SessionClosed   bool     `json:"session_closed"`
	ClosedAfterMs   int64    `json:"closed_after_ms"`
	CanaryLateMs    int64    `json:"canary_late_ms"`
	Workers         int      `json:"workers"`
	WorkersReturned int      `json:"workers_returned"`
	NilAfterDeath   []string `json:"nil_after_death,omitempty"`
	LaterCallsOK    []string `json:"later_calls_ok,omitempty"`
	CbStreams       int      `json:"cb_streams"`
	CbNone          int      `json:"cb_none"`
	CbTwice         int      `json:"cb_twice"`
	RoundTrips      int64    `json:"round_trips"`
	CensusDiff      []string `json:"census_diff,omitempty"`
	TeardownDone    bool     `json:"teardown_done"`
	Hits            int64    `json:"victim_point_hits"`
	Note            string   `json:"note,omitempty"`
}

func c14PointByName(name string) int {
	for i, n := range vpPointNames {
		if n == name {
			return i
		}
	}
	return -1
}

type c14Callbacks struct {
	st     *Stream
	local  int32
	remote int32
	msg    int
	echo   bool
	node   *c14State
	// blocking: OnData keeps reading whole messages, parked inside ReadBytes between messages
	blocking bool
	// linger: OnData keeps working on the zero-copy bytes it was given for a while (a handler that parses in place); the
	// session's teardown has to wait for a running OnData before it releases the memory
	linger bool
}

var c14Sink uint64

func (cb *c14Callbacks) OnData(r BufferReader) {
	// blocking style: keep reading whole messages, i.e. between messages this invocation is parked inside ReadBytes
	// (documented use: ReadBytes blocks until enough data arrived). At the session's end that read must fail.
	for cb.blocking || r.Len() >= cb.msg {
		b, err := r.ReadBytes(cb.msg)
		if err != nil {
			return
		}
		if cb.linger {
			var sum uint64
			for t0 := time.Now(); time.Since(t0) < 12*time.Millisecond; {
				for _, x := range b {
					sum += uint64(x)
				}
				time.Sleep(200 * time.Microsecond)
			}
			atomic.AddUint64(&c14Sink, sum)
		}
		if cb.echo {
			cb.st.BufferWriter().WriteBytes(b)
			r.ReleasePreviousRead()
			_ = cb.st.Flush(false)
		} else {
			r.ReleasePreviousRead()
		}
		atomic.AddInt64(&cb.node.roundTrips, 1)
	}
}
func (cb *c14Callbacks) OnLocalClose()  { atomic.AddInt32(&cb.local, 1) }
func (cb *c14Callbacks) OnRemoteClose() { atomic.AddInt32(&cb.remote, 1) }

type c14State struct {
	roundTrips int64
}

// c14Node: one library session in this process. Prints line-JSON reports on stdout.
func c14Node(args []string) {
	var cf c14Conf
	if err := json.Unmarshal([]byte(os.Getenv("C14_CONF")), &cf); err != nil {
		fmt.Fprintln(os.Stderr, "bad conf", err)
		os.Exit(4)
	}
	node := &c14State{}
	can := startCanary()
	fenceInit()
	// warm up netpoll so that the baseline census already contains the runtime's own descriptors
	if c1, c2, p, err := connPair(false); err == nil {
		c1.Close()
		c2.Close()
		os.Remove(p)
	}
	var hits int64
	var sess *Session
	var sessMu sync.Mutex
	if cf.Action != "" && cf.Action != "none" {
		pt := c14PointByName(cf.Point)
		k := newCtl("c14", 1)
		if pt >= 0 {
			k.on(pt, func(obj interface{}, n int64) {
				if pt == vpHandshake && n != cf.HsStep {
					return
				}
				if atomic.AddInt64(&hits, 1) != cf.K {
					return
				}
				childLog("ACTION %s at %s hit %d", cf.Action, cf.Point, cf.K)
				switch cf.Action {
				case "die":
					dieNow()
				case "sever":
					var s *Session
					switch o := obj.(type) {
					case *Session:
						s = o
					case *Stream:
						s = o.session
					}
					if s == nil {
						sessMu.Lock()
						s = sess
						sessMu.Unlock()
					}
					severSession(s)
				}
			})
		}
		k.on(vpSessTeardownBegin, func(obj interface{}, n int64) { childLog("TEARDOWN-BEGIN") })
		k.install()
	} else {
		k := newCtl("c14", 1)
		var stallOnce int32
		k.on(vpSessTeardownBegin, func(obj interface{}, n int64) { childLog("TEARDOWN-BEGIN") })
		k.on(vpSessTeardownEnd, func(obj interface{}, n int64) { childLog("TEARDOWN-END") })
		if cf.Directed == "stallflush" {
			k.on(vpFlushStateChecked, func(obj interface{}, n int64) {
				st, _ := obj.(*Stream)
				if st == nil || !atomic.CompareAndSwapInt32(&stallOnce, 0, 1) {
					return
				}
				childLog("STALL-FLUSH begin")
				// hold this Flush between its state check and done() until the session has been torn down
				waitUntil(20*time.Second, func() bool {
					st.session.shutdownLock.Lock()
					d := st.session.queueManager == nil
					st.session.shutdownLock.Unlock()
					return d
				})
				childLog("STALL-FLUSH resume after teardown")
			})
		}
		k.install()
	}
	base := takeCensus(cf.Prefix)
	conf, _ := newTestConfig(pairOpt{memfd: cf.Memfd, sizes: smallSizes(256, 30, 4096, 70), bufCap: 2 << 20})
	conf.ShareMemoryPathPrefix = cf.Prefix
	conf.QueuePath = cf.Prefix + "_queue"
	if cf.InitTOms > 0 {
		conf.InitializeTimeout = time.Duration(cf.InitTOms) * time.Millisecond
	}
	var conn net.Conn
	var ln net.Listener
	var err error
	if cf.Role == "server" {
		ln, err = net.Listen("unix", cf.Sock)
		if err != nil {
			childReply(c14Report{Phase: "listen", HandshakeErr: err.Error()})
			return
		}
		childReply(c14Report{Phase: "listening"})
		ln.(*net.UnixListener).SetDeadline(time.Now().Add(20 * time.Second))
		conn, err = ln.Accept()
		ln.Close()
		if err != nil {
			childReply(c14Report{Phase: "final", HandshakeErr: "accept: " + err.Error(), Note: "no-peer"})
			return
		}
	} else {
		for i := 0; i < 200; i++ {
			conn, err = net.Dial("unix", cf.Sock)
			if err == nil {
				break
			}
			time.Sleep(10 * time.Millisecond)
		}
		if err != nil {
			childReply(c14Report{Phase: "final", HandshakeErr: "dial: " + err.Error(), Note: "no-peer"})
			return
		}
	}
	t0 := time.Now()
	s, err := newSession(conf, conn, cf.Role == "client")
	hsMs := time.Since(t0).Milliseconds()
	if err != nil {
		// handshake failed: nothing may be left behind
		fenceN(2)
		time.Sleep(20 * time.Millisecond)
		rep := c14Report{Phase: "final", HandshakeErr: err.Error(), HandshakeMs: hsMs, Hits: atomic.LoadInt64(&hits),
			CanaryLateMs: atomic.LoadInt64(&can.maxLate) / 1e6}
		after := takeCensus(cf.Prefix)
		rep.CensusDiff = diffCensus(base, after)
		rep.TeardownDone = true
		childReply(rep)
		return
	}
	sessMu.Lock()
	sess = s
	sessMu.Unlock()
	childReply(c14Report{Phase: "ready", HandshakeMs: hsMs})
	childLog("READY")

	var wg sync.WaitGroup
	var workers, returned int32
	var repMu sync.Mutex
	rep := c14Report{Phase: "final", HandshakeMs: hsMs}
	var cbs []*c14Callbacks
	var deathSeen uint32 // set once this node observed its session closed and torn down
	var retained []byte
	var retainedFrom *Stream
	runClientStream := func(st *Stream, idx int) {
		defer wg.Done()
		defer atomic.AddInt32(&returned, 1)
		msg := make([]byte, cf.MsgSize)
		for r := 0; cf.Rounds == 0 || r < cf.Rounds; r++ {
			fillKeyed(msg, uint64(idx), uint64(r*cf.MsgSize))
			after := atomic.LoadUint32(&deathSeen) == 1
			st.BufferWriter().WriteBytes(msg)
			if err := st.Flush(false); err != nil {
				return
			}
			if after {
				repMu.Lock()
				rep.LaterCallsOK = append(rep.LaterCallsOK, fmt.Sprintf("Flush on stream %d returned nil after the session was closed and torn down", st.StreamID()))
				repMu.Unlock()
				return
			}
			after = atomic.LoadUint32(&deathSeen) == 1
			b, err := st.BufferReader().ReadBytes(cf.MsgSize)
			if err != nil {
				return
			}
			if after {
				repMu.Lock()
				rep.LaterCallsOK = append(rep.LaterCallsOK, fmt.Sprintf("ReadBytes on stream %d returned data after the session was closed and torn down", st.StreamID()))
				repMu.Unlock()
				return
			}
			if cf.Directed == "retain" && idx == 0 && retained == nil {
				retained = b // keep the zero-copy result (do NOT release), touch it after the session died
				retainedFrom = st
				atomic.AddInt64(&node.roundTrips, 1)
				<-s.CloseChan()
				return
			}
			if bad := checkKeyed(b, uint64(idx), uint64(r*cf.MsgSize)); bad >= 0 {
				// a read that overlaps the session's teardown may see recycled buffers (known finding F2: teardown does not wait
				// for users); only a mismatch on a session that is not shutting down is a data-integrity problem
				if !s.IsClosed() {
					repMu.Lock()
					rep.Note += fmt.Sprintf("echo mismatch on stream %d at byte %d; ", st.StreamID(), bad)
					repMu.Unlock()
				}
				return
			}
			st.BufferReader().ReleasePreviousRead()
			atomic.AddInt64(&node.roundTrips, 1)
			if idx%2 == 0 && r%16 == 15 && cf.Directed == "" {
				// stream churn: close this stream and carry on with a fresh one (reaches the close / half-close fault points)
				st.Close()
				ns, err := s.OpenStream()
				if err != nil {
					return
				}
				st = ns
			}
		}
		// rounds exhausted: wait for the end of the session
		<-s.CloseChan()
	}
	if cf.Role == "client" {
		for i := 0; i < cf.Streams; i++ {
			st, err := s.OpenStream()
			if err != nil {
				break
			}
			if cf.Callbacks && i%2 == 1 {
				cb := &c14Callbacks{st: st, msg: cf.MsgSize, node: node, blocking: i%4 == 3, linger: i%4 == 1}
				st.SetCallbacks(cb)
				if st.IsOpen() {
					// only a stream that was still open once its callbacks were installed owes a close callback
					cbs = append(cbs, cb)
				}
				// callback streams on the client only send; the echo is consumed by OnData
				wg.Add(1)
				atomic.AddInt32(&workers, 1)
				go func(st *Stream, idx int) {
					defer wg.Done()
					defer atomic.AddInt32(&returned, 1)
					msg := make([]byte, cf.MsgSize)
					for r := 0; cf.Rounds == 0 || r < cf.Rounds; r++ {
						st.BufferWriter().WriteBytes(msg)
						if err := st.Flush(false); err != nil {
							return
						}
						time.Sleep(200 * time.Microsecond)
					}
					<-s.CloseChan()
				}(st, i)
				continue
			}
			wg.Add(1)
			atomic.AddInt32(&workers, 1)
			go runClientStream(st, i)
		}
	} else {
		// server: accept streams until the session ends; echo (sync or callback mode)
		wg.Add(1)
		atomic.AddInt32(&workers, 1)
		go func() {
			defer wg.Done()
			defer atomic.AddInt32(&returned, 1)
			n := 0
			for {
				st, err := s.AcceptStream()
				if err != nil {
					return
				}
				n++
				// callback mode for the streams the client also runs in callback mode (its odd-indexed initial streams, ids 3, 5, …);
				// streams opened later by the client's churn are always served synchronously
				if id := st.StreamID(); cf.Callbacks && int(id) <= cf.Streams+1 && (id-2)%2 == 1 {
					cb := &c14Callbacks{st: st, msg: cf.MsgSize, echo: true, node: node, blocking: st.StreamID()%4 == 1, linger: st.StreamID()%4 == 3 || st.StreamID()%8 == 6}
					st.SetCallbacks(cb)
					if st.IsOpen() {
						repMu.Lock()
						cbs = append(cbs, cb)
						repMu.Unlock()
					}
					continue
				}
				wg.Add(1)
				atomic.AddInt32(&workers, 1)
				go func(st *Stream) {
					defer wg.Done()
					defer atomic.AddInt32(&returned, 1)
					defer st.Close()
					for {
						after := atomic.LoadUint32(&deathSeen) == 1
						b, err := st.BufferReader().ReadBytes(cf.MsgSize)
						if err != nil {
							return
						}
						if after {
							repMu.Lock()
							rep.LaterCallsOK = append(rep.LaterCallsOK, fmt.Sprintf("ReadBytes on stream %d returned data after the session was closed and torn down", st.StreamID()))
							repMu.Unlock()
							return
						}
						st.BufferWriter().WriteBytes(b)
						st.BufferReader().ReleasePreviousRead()
						if err := st.Flush(false); err != nil {
							return
						}
						atomic.AddInt64(&node.roundTrips, 1)
					}
				}(st)
			}
		}()
	}
	if cf.Victim {
		// the victim just runs until its action fires (or it is killed from outside); if the survivor ends the session first, exit
		<-s.CloseChan()
		time.Sleep(50 * time.Millisecond)
		childReply(c14Report{Phase: "final", Note: "victim-outlived", Hits: atomic.LoadInt64(&hits)})
		return
	}
	// survivor: wait for the session to end (the orchestrator knows when the victim died and judges the delay)
	in := bufio.NewReader(os.Stdin)
	cmdCh := make(chan string, 4)
	go func() {
		for {
			line, err := in.ReadString('\n')
			if err != nil {
				return
			}
			cmdCh <- strings.TrimSpace(line)
		}
	}()
	var deathAt time.Time
	closedSeen := false
	for !closedSeen {
		select {
		case <-s.CloseChan():
			closedSeen = true
		case cmd := <-cmdCh:
			if strings.HasPrefix(cmd, "DEAD") {
				// the orchestrator saw the victim die: start the clock for "session becomes closed"
				deathAt = time.Now()
				can.reset()
				select {
				case <-s.CloseChan():
					closedSeen = true
				case <-time.After(15 * time.Second):
					rep.SessionClosed = false
					rep.ClosedAfterMs = 15000
					rep.CanaryLateMs = atomic.LoadInt64(&can.maxLate) / 1e6
					rep.Note += "session still open 15 s after the victim's death; "
					rep.RoundTrips = atomic.LoadInt64(&node.roundTrips)
					childReply(rep)
					return
				}
			}
			if cmd == "CLOSE" {
				s.Close()
			}
		}
	}
	rep.SessionClosed = s.IsClosed()
	if !deathAt.IsZero() {
		rep.ClosedAfterMs = time.Since(deathAt).Milliseconds()
	}
	rep.CanaryLateMs = atomic.LoadInt64(&can.maxLate) / 1e6
	rep.TeardownDone = waitTeardown(s, 15*time.Second)
	if !rep.TeardownDone {
		rep.Note += "teardown stuck: " + truncate(goroutineDump(), 9000)
	}
	atomic.StoreUint32(&deathSeen, 1)
	// every worker must come back (pending calls fail)
	done := make(chan struct{})
	go func() { wg.Wait(); close(done) }()
	select {
	case <-done:
	case <-time.After(15 * time.Second):
	}
	rep.Workers = int(atomic.LoadInt32(&workers))
	rep.WorkersReturned = int(atomic.LoadInt32(&returned))
	if rep.Workers != rep.WorkersReturned {
		rep.Note += "stuck workers: " + truncate(goroutineDump(), 6000)
	}
	// idempotent Close
	s.Close()
	s.Close()
	fenceN(2)
	// a close that was deferred to a running OnData is finished by the callback goroutine after it has told the teardown
	// that it is leaving (asyncGoroutineWg.Done precedes its close()), so the callback may come a moment after the teardown
	// has finished: wait for it (bounded) instead of sampling at once
	waitUntil(5*time.Second, func() bool {
		repMu.Lock()
		defer repMu.Unlock()
		for _, cb := range cbs {
			if atomic.LoadInt32(&cb.local)+atomic.LoadInt32(&cb.remote) == 0 {
				return false
			}
		}
		return true
	})
	repMu.Lock()
	for _, cb := range cbs {
		rep.CbStreams++
		n := atomic.LoadInt32(&cb.local) + atomic.LoadInt32(&cb.remote)
		if n == 0 {
			rep.CbNone++
		}
		if n > 1 {
			rep.CbTwice++
		}
	}
	repMu.Unlock()
	if cf.Directed == "retain" && retained != nil {
		childLog("TOUCH-RETAINED")
		c14TouchRetained(retained)
		_ = retainedFrom
	}
	// later calls on a stream of the dead session must fail
	if st, err := s.OpenStream(); err == nil && st != nil {
		rep.LaterCallsOK = append(rep.LaterCallsOK, "OpenStream succeeded on a closed session")
	}
	time.Sleep(10 * time.Millisecond)
	after := takeCensus(cf.Prefix)
	rep.CensusDiff = diffCensus(base, after)
	rep.RoundTrips = atomic.LoadInt64(&node.roundTrips)
	childReply(rep)
}

//go:noinline
func c14TouchRetained(b []byte) byte {
	var x byte
	for i := range b {
		x ^= b[i]
	}
	return x
}

// ---- Session.Close under traffic, in a child (in-process pair)

type c14CloseConf struct {
	Closers   int   `json:"closers"`
	Streams   int   `json:"streams"`
	Memfd     bool  `json:"memfd"`
	Seed      int64 `json:"seed"`
	Both      bool  `json:"both_ends"`
	Openers   int   `json:"openers"`
	Callbacks bool  `json:"callbacks"`
	Backlog   int   `json:"accept_backlog"` // >0: nobody accepts; this many streams are opened before Close (1024 fill the accept channel)
}

type c14CloseReport struct {
	CloseReturned int      `json:"close_returned"`
	Closers       int      `json:"closers"`
	BothClosed    bool     `json:"both_closed"`
	Teardown      bool     `json:"teardown_done"`
	Workers       int      `json:"workers"`
	Returned      int      `json:"workers_returned"`
	CensusDiff    []string `json:"census_diff,omitempty"`
	LaterOK       []string `json:"later_calls_ok,omitempty"`
	RoundTrips    int64    `json:"round_trips"`
	OpenAfter     int64    `json:"open_attempts_during_close"`
	Note          string   `json:"note,omitempty"`
}

func c14CloseNode(args []string) {
	var cf c14CloseConf
	json.Unmarshal([]byte(os.Getenv("C14_CONF")), &cf)
	fenceInit()
	if c1, c2, p, err := connPair(false); err == nil {
		c1.Close()
		c2.Close()
		os.Remove(p)
	}
	k := newCtl("c14close", cf.Seed)
	k.on(vpSessTeardownBegin, func(obj interface{}, n int64) { childLog("TEARDOWN-BEGIN") })
	k.set(vpSessCloseCASed, 1000, 500*time.Microsecond, 100)
	k.set(vpSessCloseBeforeCh, 500, 200*time.Microsecond, 80)
	k.install()
	rng := rand.New(rand.NewSource(cf.Seed))
	base := takeCensus(shmPrefix())
	p, err := newSessionPair(pairOpt{memfd: cf.Memfd, sizes: smallSizes(256, 30, 4096, 70), bufCap: 2 << 20, noAccept: cf.Backlog > 0})
	if err != nil {
		childReply(c14CloseReport{Note: "pair: " + err.Error()})
		return
	}
	childLog("READY")
	var rep c14CloseReport
	if cf.Backlog > 0 {
		// an application that stopped accepting: the accept channel fills up and the event loop parks on it; a local
		// Session.Close must still get through (its shutdown channel releases the parked loop) and release everything
		cf.Streams = 0
		for i := 0; i < cf.Backlog; i++ {
			st, err := p.client.OpenStream()
			if err != nil {
				break
			}
			st.BufferWriter().WriteBytes(make([]byte, 64))
			if st.Flush(false) != nil {
				break
			}
		}
		parked := waitUntil(5*time.Second, func() bool {
			return len(p.server.acceptCh) == cap(p.server.acceptCh) && !fenceOnce(100*time.Millisecond)
		})
		if parked {
			childLog("LOOP-PARKED-ON-ACCEPT-BACKLOG")
			rep.Note += "loop parked on the accept backlog; "
		}
	}
	var wg sync.WaitGroup
	var workers, returned int32
	var rt int64
	for i := 0; i < cf.Streams; i++ {
		st, err := p.client.OpenStream()
		if err != nil {
			break
		}
		st.BufferWriter().WriteBytes(make([]byte, 64))
		if st.Flush(false) != nil {
			break
		}
		sv := p.serverStream(st.StreamID(), 10*time.Second)
		if sv == nil {
			break
		}
		wg.Add(2)
		atomic.AddInt32(&workers, 2)
		go func() { // server echo
			defer wg.Done()
			defer atomic.AddInt32(&returned, 1)
			for {
				b, err := sv.BufferReader().ReadBytes(64)
				if err != nil {
					return
				}
				sv.BufferWriter().WriteBytes(b)
				sv.BufferReader().ReleasePreviousRead()
				if sv.Flush(false) != nil {
					return
				}
			}
		}()
		go func() { // client
			defer wg.Done()
			defer atomic.AddInt32(&returned, 1)
			msg := make([]byte, 64)
			for {
				if _, err := st.BufferReader().ReadBytes(64); err != nil {
					return
				}
				st.BufferReader().ReleasePreviousRead()
				atomic.AddInt64(&rt, 1)
				// mostly parked in the read above; a short pause keeps the Flush/teardown overlap (known finding F2) rare
				time.Sleep(time.Duration(50+rng.Intn(200)) * time.Microsecond)
				st.BufferWriter().WriteBytes(msg)
				if st.Flush(false) != nil {
					return
				}
			}
		}()
	}
	var stopOpen uint32
	var openAttempts int64
	var nilNil atomic.Value
	for o := 0; o < cf.Openers; o++ {
		wg.Add(1)
		atomic.AddInt32(&workers, 1)
		go func() { // OpenStream / GetMetrics racing with Close (X14)
			defer wg.Done()
			defer atomic.AddInt32(&returned, 1)
			for atomic.LoadUint32(&stopOpen) == 0 {
				st, err := p.client.OpenStream()
				atomic.AddInt64(&openAttempts, 1)
				if err == nil && st == nil {
					nilNil.Store(true)
					return
				}
				if err == nil {
					st.Close()
				}
				p.client.GetMetrics()
				p.client.GetActiveStreamCount()
			}
		}()
	}
	time.Sleep(time.Duration(2+rng.Intn(8)) * time.Millisecond)
	var cwg sync.WaitGroup
	var closeReturned int32
	for i := 0; i < cf.Closers; i++ {
		cwg.Add(1)
		go func(i int) {
			defer cwg.Done()
			target := p.client
			if cf.Both && i%2 == 1 {
				target = p.server
			}
			if cf.Backlog > 0 && (i == 0 || !cf.Both) {
				target = p.server // the session whose accept backlog is full is the one being closed
			}
			target.Close()
			target.Close()
			atomic.AddInt32(&closeReturned, 1)
		}(i)
	}
	cdone := make(chan struct{})
	go func() { cwg.Wait(); close(cdone) }()
	select {
	case <-cdone:
	case <-time.After(15 * time.Second):
		rep.Note += "Close did not return within 15 s: " + truncate(goroutineDump(), 6000)
	}
	rep.Closers = cf.Closers
	rep.CloseReturned = int(atomic.LoadInt32(&closeReturned))
	// the other end closes by itself (connection reset); wait for both
	waitUntil(15*time.Second, func() bool { fenceOnce(5 * time.Second); return p.client.IsClosed() && p.server.IsClosed() })
	rep.BothClosed = p.client.IsClosed() && p.server.IsClosed()
	rep.Teardown = waitTeardown(p.client, 15*time.Second) && waitTeardown(p.server, 15*time.Second)
	time.Sleep(2 * time.Millisecond)
	atomic.StoreUint32(&stopOpen, 1)
	done := make(chan struct{})
	go func() { wg.Wait(); close(done) }()
	select {
	case <-done:
	case <-time.After(15 * time.Second):
		rep.Note += "stuck workers: " + truncate(goroutineDump(), 6000)
	}
	rep.Workers = int(atomic.LoadInt32(&workers))
	rep.Returned = int(atomic.LoadInt32(&returned))
	if st, err := p.client.OpenStream(); err == nil && st != nil {
		rep.LaterOK = append(rep.LaterOK, "OpenStream succeeded on a closed session")
	}
	if v, _ := nilNil.Load().(bool); v {
		rep.LaterOK = append(rep.LaterOK, "OpenStream returned (nil, nil) while the session was closing")
	}
	if _, err := p.server.AcceptStream(); err == nil {
		// accepted-but-not-yet-returned streams may still be handed out; only a blocking success would be wrong
	}
	p.drainAccepted()
	fenceN(2)
	time.Sleep(10 * time.Millisecond)
	rep.CensusDiff = diffCensus(base, takeCensus(shmPrefix()))
	rep.RoundTrips = atomic.LoadInt64(&rt)
	rep.OpenAfter = atomic.LoadInt64(&openAttempts)
	childReply(rep)
}

// ---- orchestration

type c14Case struct {
	Idx          int    `json:"idx"`
	Kind         string `json:"kind"` // peer-fault | external-kill | close-storm | directed-retain | directed-stallflush
	SurvivorRole string `json:"survivor_role"`
	Memfd        bool   `json:"memfd"`
	Streams      int    `json:"streams"`
	Callbacks    bool   `json:"callbacks"`
	Action       string `json:"action"`
	Point        string `json:"point"`
	K            int64  `json:"k"`
	HsStep       int64  `json:"hs_step"`
	Closers      int    `json:"closers"`
	Both         bool   `json:"both_ends"`
	Openers      int    `json:"openers"`
	Backlog      int    `json:"accept_backlog,omitempty"`
	Seed         int64  `json:"seed"`
}

type c14Outcome struct {
	viol    []string
	known   string // F2 classifier matched
	inconcl string
	reached bool // the fault point was actually reached (victim died / severed)
	rep     c14Report
	crep    c14CloseReport
}

// f2Classify: the survivor died. It is known finding F2 only if the faulting goroutine is inside a user-side stream or
// buffer operation (not on the event loop, not in Session.Close itself) and the session's teardown had begun.
func f2Classify(stderr, log string, directed string) (bool, string) {
	if !strings.Contains(log, "TEARDOWN-BEGIN") && !strings.Contains(log, "TOUCH-RETAINED") {
		return false, ""
	}
	i := strings.Index(stderr, "goroutine ")
	if i < 0 {
		return false, ""
	}
	first := stderr[i:]
	if j := strings.Index(first, "\n\n"); j > 0 {
		first = first[:j]
	}
	if strings.Contains(first, "epollDispatcher") || strings.Contains(first, "handleEvents") || strings.Contains(first, "(*Session).Close") {
		return false, ""
	}
	if strings.Contains(first, "fillDataToReadBuffer") || strings.Contains(first, "OnData") {
		// the library's own callback goroutine: the teardown waits for a running OnData, so a fault in there is not F2
		return false, ""
	}
	fatal := strings.Contains(stderr, "nil pointer dereference") || strings.Contains(stderr, "unexpected fault address") ||
		strings.Contains(stderr, "SIGSEGV") || strings.Contains(stderr, "SIGBUS") || strings.Contains(stderr, "out of range")
	if !fatal {
		return false, ""
	}
	for _, fn := range []string{"c14TouchRetained", "(*Stream).Flush", "(*linkedBuffer).", "(*Stream).Write", "(*Stream).Read", "(*bufferSlice).", "(*bufferManager).", "(*bufferList)."} {
		if strings.Contains(first, fn) {
			return true, fn
		}
	}
	return false, ""
}

func runC14Case(c *checkCtx, cs c14Case) (out c14Outcome) {
	violate := func(format string, a ...interface{}) { out.viol = append(out.viol, fmt.Sprintf(format, a...)) }
	if cs.Kind == "close-storm" {
		conf := c14CloseConf{Closers: cs.Closers, Streams: cs.Streams, Memfd: cs.Memfd, Seed: cs.Seed, Both: cs.Both, Openers: cs.Openers, Backlog: cs.Backlog}
		cj, _ := json.Marshal(conf)
		cp, err := c.spawnChild("c14close", nil, "C14_CONF="+string(cj))
		if err != nil {
			out.inconcl = err.Error()
			return
		}
		defer cp.cleanupFiles()
		var rep c14CloseReport
		_, ok := cp.recv(90*time.Second, &rep)
		ex := cp.wait(20 * time.Second)
		logData, _ := os.ReadFile(cp.logPath)
		if !ok {
			if ex.TimedOut {
				violate("close-storm child hung (no report within 90 s): %s", truncate(ex.Stderr, 3000))
				return
			}
			if isF2, fn := f2Classify(ex.Stderr, string(logData), ""); isF2 {
				out.known = "child died in " + fn + " while the session was being torn down: " + truncate(ex.Stderr, 600)
				out.reached = true
				return
			}
			violate("process died during concurrent Session.Close under traffic (exit=%v code=%d signal=%s): %s", ex.Exited, ex.Code, ex.Signal, truncate(ex.Stderr, 3000))
			return
		}
		out.crep = rep
		out.reached = true
		if strings.HasPrefix(rep.Note, "pair:") {
			out.inconcl = rep.Note
			return
		}
		if rep.CloseReturned != rep.Closers {
			violate("only %d of %d concurrent Session.Close calls returned: %s", rep.CloseReturned, rep.Closers, truncate(rep.Note, 2000))
		}
		if !rep.BothClosed {
			violate("after Close one of the sessions is still open")
		}
		if rep.Workers != rep.Returned {
			violate("%d of %d traffic goroutines never came back after Session.Close: %s", rep.Workers-rep.Returned, rep.Workers, truncate(rep.Note, 2500))
		}
		if len(rep.LaterOK) > 0 {
			violate("calls succeeded after the session was closed: %v", rep.LaterOK)
		}
		if rep.Teardown && len(rep.CensusDiff) > 0 {
			violate("after both ends were closed the process still holds: %v", rep.CensusDiff)
		}
		if !rep.Teardown {
			violate("teardown did not complete within 15 s after Close")
		}
		return
	}
	// two nodes
	n := atomic.AddUint64(&pairSeq, 1)
	sock := filepath.Join(sockDir(), fmt.Sprintf("c14_%d.sock", n))
	prefix := fmt.Sprintf("/dev/shm/verif_c14_%d_%dx", os.Getpid(), n) // ends with a delimiter: prefixes must not be prefixes of each other
	defer os.Remove(sock)
	defer func() {
		if m, _ := filepath.Glob(prefix + "*"); len(m) > 0 {
			for _, f := range m {
				os.Remove(f)
			}
		}
	}()
	victimRole := "client"
	if cs.SurvivorRole == "client" {
		victimRole = "server"
	}
	mk := func(role string, victim bool) c14Conf {
		cf := c14Conf{Role: role, Sock: sock, Prefix: prefix, Memfd: cs.Memfd, Streams: cs.Streams, Callbacks: cs.Callbacks, MsgSize: 128, Victim: victim,
			InitTOms: 1500}
		if victim && cs.Kind == "peer-fault" {
			cf.Action, cf.Point, cf.K, cf.HsStep = cs.Action, cs.Point, cs.K, cs.HsStep
		}
		if !victim && cs.Kind == "directed-retain" {
			cf.Directed = "retain"
		}
		if !victim && cs.Kind == "directed-stallflush" {
			cf.Directed = "stallflush"
		}
		return cf
	}
	spawn := func(cf c14Conf) (*childProc, error) {
		cj, _ := json.Marshal(cf)
		return c.spawnChild("c14node", nil, "C14_CONF="+string(cj))
	}
	var server, client *childProc
	var err error
	serverIsVictim := victimRole == "server"
	server, err = spawn(mk("server", serverIsVictim))
	if err != nil {
		out.inconcl = err.Error()
		return
	}
	defer server.cleanupFiles()
	var r c14Report
	if _, ok := server.recv(30*time.Second, &r); !ok || r.Phase != "listening" {
		server.kill()
		server.wait(5 * time.Second)
		out.inconcl = "server node did not start listening"
		return
	}
	client, err = spawn(mk("client", !serverIsVictim))
	if err != nil {
		server.kill()
		server.wait(5 * time.Second)
		out.inconcl = err.Error()
		return
	}
	defer client.cleanupFiles()
	victim, survivor := client, server
	if serverIsVictim {
		victim, survivor = server, client
	}
	// the survivor's first report: ready, or final (handshake failed because the victim died during the handshake)
	var srep c14Report
	_, sok := survivor.recv(40*time.Second, &srep)
	finish := func() {
		victim.kill()
		victim.wait(10 * time.Second)
		survivor.kill()
		survivor.wait(10 * time.Second)
	}
	survivorDied := func(what string) {
		ex := survivor.wait(20 * time.Second)
		logData, _ := os.ReadFile(survivor.logPath)
		victim.kill()
		victim.wait(10 * time.Second)
		if ex.TimedOut {
			violate("survivor hung (%s): %s", what, truncate(ex.Stderr, 3500))
			return
		}
		if isF2, fn := f2Classify(ex.Stderr, string(logData), ""); isF2 {
			out.known = "survivor died in " + fn + " while its session was being torn down: " + truncate(ex.Stderr, 600)
			out.reached = true
			return
		}
		violate("survivor process died (%s; exit=%v code=%d signal=%s): %s", what, ex.Exited, ex.Code, ex.Signal, truncate(ex.Stderr, 3500))
	}
	if !sok {
		survivorDied("before its first report")
		return
	}
	if srep.Phase == "final" {
		// the handshake failed on the survivor: legitimate only when the victim's fault hit during the handshake
		out.rep = srep
		vex := victim.wait(15 * time.Second)
		survivor.wait(15 * time.Second)
		if cs.Kind == "peer-fault" && cs.Point == "Handshake" {
			out.reached = !vex.Exited || vex.Code != 0 || cs.Action == "sever"
			left := srep.CensusDiff
			if cs.SurvivorRole == "server" {
				// share memory files are created by the client before the handshake; a client that died (or severed) before the server
				// learned their names leaves them behind, and the surviving server cannot know them: only its own descriptors and
				// mappings are judged
				left = nil
				for _, l := range srep.CensusDiff {
					if !strings.HasPrefix(l, "file ") {
						left = append(left, l)
					}
				}
			}
			if len(left) > 0 {
				violate("handshake failed (%s) and left behind: %v", srep.HandshakeErr, left)
			}
			if srep.HandshakeMs > 1500+3000 && srep.CanaryLateMs < 200 {
				violate("handshake with a dying peer took %d ms (InitializeTimeout 1500 ms)", srep.HandshakeMs)
			}
			return
		}
		out.inconcl = "survivor's handshake failed unexpectedly: " + srep.HandshakeErr
		return
	}
	// survivor is ready. Let traffic run; the victim's action fires by itself, or we kill it from outside.
	rng := rand.New(rand.NewSource(cs.Seed))
	var vex childExit
	switch cs.Kind {
	case "external-kill":
		time.Sleep(time.Duration(20+rng.Intn(150)) * time.Millisecond)
		if rng.Intn(2) == 0 {
			victim.cmd.Process.Signal(syscall.SIGSTOP)
			time.Sleep(time.Duration(5+rng.Intn(40)) * time.Millisecond)
		}
		victim.cmd.Process.Kill()
		vex = victim.wait(10 * time.Second)
		out.reached = true
	case "directed-retain", "directed-stallflush":
		time.Sleep(100 * time.Millisecond)
		victim.cmd.Process.Kill()
		vex = victim.wait(10 * time.Second)
		out.reached = true
	default:
		vex = victim.wait(20 * time.Second)
		if vex.TimedOut {
			// the point was not reached k times within the traffic window: nothing was injected
			out.inconcl = fmt.Sprintf("fault point %s not reached %d times", cs.Point, cs.K)
			finish()
			return
		}
		if cs.Action == "die" && vex.Signal == "" {
			// the victim exited by itself: its session ended first (e.g. sever made both ends close)
			out.reached = cs.Action == "sever"
		} else {
			out.reached = true
		}
		if cs.Action == "sever" {
			out.reached = true
		}
	}
	_ = vex
	survivor.send("DEAD")
	var frep c14Report
	_, fok := survivor.recv(60*time.Second, &frep)
	if !fok {
		survivorDied("after the victim's death")
		return
	}
	out.rep = frep
	sx := survivor.wait(15 * time.Second)
	if !sx.Exited || sx.Code != 0 {
		logData, _ := os.ReadFile(survivor.logPath)
		if isF2, fn := f2Classify(sx.Stderr, string(logData), ""); isF2 {
			out.known = "survivor died in " + fn + ": " + truncate(sx.Stderr, 600)
		} else {
			violate("survivor process died after reporting (exit=%v code=%d signal=%s): %s", sx.Exited, sx.Code, sx.Signal, truncate(sx.Stderr, 3000))
		}
	}
	if !frep.SessionClosed {
		if frep.CanaryLateMs < 200 {
			violate("surviving session not closed 15 s after the peer died")
		} else {
			out.inconcl = "session not closed in time, but the machine was overloaded"
		}
		return
	}
	if frep.Workers != frep.WorkersReturned {
		violate("%d of %d stream goroutines never came back after the peer died: %s", frep.Workers-frep.WorkersReturned, frep.Workers, truncate(frep.Note, 3000))
	}
	if len(frep.LaterCallsOK) > 0 {
		violate("stream calls succeeded after the session was closed and torn down: %v", frep.LaterCallsOK)
	}
	if frep.CbNone > 0 || frep.CbTwice > 0 {
		violate("close callbacks after peer death: %d of %d callback streams got none, %d got more than one", frep.CbNone, frep.CbStreams, frep.CbTwice)
	}
	if !frep.TeardownDone {
		violate("session teardown did not complete within 15 s")
	} else if len(frep.CensusDiff) > 0 {
		violate("after the session ended the survivor still holds: %v", frep.CensusDiff)
	}
	if strings.Contains(frep.Note, "echo mismatch") {
		violate("survivor: %s", frep.Note)
	}
	return
}

var c14FaultPoints = []struct {
	point string
	ks    []int64
	hs    []int64
	only  string // "" or the only victim role that passes this point in the traffic pattern used
}{
	{"Handshake", []int64{1}, []int64{1, 2, 3, 4, 5, 6, 7, 8, 9, 10, 11, 12, 13, 14, 15, 16, 17, 20, 21, 22, 23, 24}, ""},
	{"FlushStateChecked", []int64{1, 2, 7, 40}, nil, ""},
	{"FlushPut", []int64{1, 3, 25}, nil, ""},
	{"WakeMarked", []int64{1, 2, 9}, nil, ""},
	{"PollPopped", []int64{1, 2, 5, 60}, nil, ""},
	{"PollBeforeMNW", []int64{1, 4}, nil, ""},
	{"EventDispatch", []int64{1, 2, 6, 30}, nil, ""},
	{"FillAdded", []int64{1, 3, 17}, nil, ""},
	{"ReadMoreBeforeWait", []int64{1, 5}, nil, ""},
	{"WriteEventEnter", []int64{1, 3}, nil, ""},
	{"QPutStore2", []int64{1, 4}, nil, ""},
	{"PopCleared", []int64{1, 6}, nil, ""},
	{"StreamCloseCASed", []int64{1, 2}, nil, ""},
	{"StreamCloseBeforeNotify", []int64{1, 2}, nil, "client"},
	{"HalfClosed", []int64{1, 2}, nil, "server"},
	{"PushCASed", []int64{2, 9}, nil, ""},
}

// c14HsReachable: the handshake steps (vpHandshake numbers) each role passes for each mapping type.
func c14HsReachable(role string, memfd bool, step int64) bool {
	var steps []int64
	switch {
	case role == "client" && !memfd:
		steps = []int64{17}
	case role == "client" && memfd:
		steps = []int64{1, 2, 3, 15, 16, 23, 24}
	case role == "server" && !memfd:
		steps = []int64{4, 5, 6, 7}
	default:
		steps = []int64{4, 8, 20, 21, 9, 10, 11, 12, 13, 14, 22}
	}
	for _, s := range steps {
		if s == step {
			return true
		}
	}
	return false
}

func checkDeath(c *checkCtx) {
	c.level = "fault_enumeration"
	c.rule = "fault list = {victim dies | severs the connection} at the k-th hit of each hook point it passes (22 handshake steps, flush, wake-up, queue " +
		"element k, control event k, fill, read-wait, socket write, queue slot store, allocator pop) x survivor role x mapping type, plus external " +
		"SIGSTOP/SIGKILL, plus Session.Close storms (1/2/8 closers, one or both ends, OpenStream/GetMetrics racing), plus two directed known-finding " +
		"scenarios; the list is enumerated from a fixed table (thorough: every entry; quick: a PRNG(VERIF_SEED)-chosen subset plus all close storms); " +
		"a case is non-trivial when the fault point was really reached (victim died / connection severed / Close overlapped traffic); distinct = " +
		"distinct (kind, role, mapping, point, k)"
	c.assume("kernel-level faults (partial munmap, ENOSPC on tmpfs) are not injected")
	c.assume("known finding F2: a survivor that dies inside a user-side stream/buffer operation after its session's teardown began is attributed to F2 " +
		"(faulting frame + teardown log line both required); any other death is a violation")
	type job struct {
		cs c14Case
	}
	var cases []c14Case
	idx := 0
	add := func(cs c14Case) {
		cs.Idx = idx
		cs.Seed = caseRand(c.seed, 400000+idx).Int63()
		idx++
		cases = append(cases, cs)
	}
	for _, fp := range c14FaultPoints {
		for _, role := range []string{"server", "client"} {
			if (fp.only == "client" && role == "client") || (fp.only == "server" && role == "server") {
				continue // role is the survivor's: the victim (other role) does not pass this point
			}
			for _, memfd := range []bool{false, true} {
				for _, action := range []string{"die", "sever"} {
					if fp.point == "Handshake" {
						victimRole := "client"
						if role == "client" {
							victimRole = "server"
						}
						for _, st := range fp.hs {
							if !c14HsReachable(victimRole, memfd, st) {
								continue // the victim does not pass this step in this role / mapping type
							}
							add(c14Case{Kind: "peer-fault", SurvivorRole: role, Memfd: memfd, Streams: 4, Callbacks: true, Action: action, Point: fp.point, K: 1, HsStep: st})
						}
						continue
					}
					for _, k := range fp.ks {
						add(c14Case{Kind: "peer-fault", SurvivorRole: role, Memfd: memfd, Streams: 4 + int(k%5), Callbacks: (k+int64(len(cases)))%2 == 0, Action: action, Point: fp.point, K: k})
					}
				}
			}
		}
	}
	full := len(cases)
	if c.quick() {
		// quick: a seed-chosen subset of the enumerated list
		rng := caseRand(c.seed, 499999)
		rng.Shuffle(len(cases), func(i, j int) { cases[i], cases[j] = cases[j], cases[i] })
		cases = cases[:52]
	}
	if c.quick() {
		// always present in the quick subset: the peer goes away while the survivor's echoing callbacks are at work
		for i := 0; i < 8; i++ {
			add(c14Case{Kind: "peer-fault", SurvivorRole: "server", Memfd: i%2 == 1, Streams: 6 + i%3, Callbacks: true, Action: []string{"sever", "die"}[i%2],
				Point: "FillAdded", K: int64([]int{9, 17, 25, 33}[i%4])})
		}
	}
	for i := 0; i < c.pick(6, 60); i++ {
		add(c14Case{Kind: "external-kill", SurvivorRole: []string{"server", "client"}[i%2], Memfd: i%4 < 2, Streams: 4 + i%5, Callbacks: i%3 != 1})
	}
	for i := 0; i < c.pick(10, 120); i++ {
		add(c14Case{Kind: "close-storm", Closers: []int{1, 2, 8}[i%3], Streams: 1 + i%6, Memfd: i%2 == 0, Both: i%4 >= 2, Openers: i % 3})
	}
	for i := 0; i < c.pick(3, 12); i++ {
		// Close of a session whose accept backlog is full (event loop parked on it) or nearly full
		add(c14Case{Kind: "close-storm", Closers: []int{1, 2, 8}[i%3], Memfd: i%2 == 0, Both: i%4 >= 2, Backlog: []int{1032, 1100, 1000}[i%3]})
	}
	add(c14Case{Kind: "directed-retain", SurvivorRole: "client", Streams: 2})
	add(c14Case{Kind: "directed-stallflush", SurvivorRole: "client", Streams: 2})
	c.setExtra("fault_list_size", full)
	c.setExtra("exhaustive", c.thorough())
	jobs := make(chan c14Case)
	var wg sync.WaitGroup
	par := 8
	if c.jobs < par {
		par = c.jobs
	}
	for w := 0; w < par; w++ {
		wg.Add(1)
		go func() {
			defer wg.Done()
			for cs := range jobs {
				out := runC14Case(c, cs)
				if out.inconcl != "" && (strings.Contains(out.inconcl, "did not start") || strings.Contains(out.inconcl, "unexpectedly")) {
					out = runC14Case(c, cs) // one retry for environmental failures
				}
				c.eval(1)
				name := fmt.Sprintf("death-%d-%s-%s-%d", cs.Idx, cs.Kind, cs.Point, cs.K)
				c.count("cases."+cs.Kind, 1)
				if out.reached {
					c.nontrivial(fmt.Sprintf("%s/%s/%v/%s/%s/%d/%d/%d", cs.Kind, cs.SurvivorRole, cs.Memfd, cs.Action, cs.Point, cs.K, cs.HsStep, cs.Backlog))
					c.count("fault points reached", 1)
					if strings.Contains(out.crep.Note, "loop parked on the accept backlog") {
						c.count("Session.Close while the event loop was parked on a full accept backlog", 1)
					}
				}
				c.count("survivor round trips before the fault", out.rep.RoundTrips+out.crep.RoundTrips)
				c.count("callback streams checked", int64(out.rep.CbStreams))
				c.count("stream goroutines released by the session's end", int64(out.rep.WorkersReturned+out.crep.Returned))
				c.count("OpenStream attempts racing with Close", out.crep.OpenAfter)
				if out.rep.HandshakeErr != "" {
					c.count("handshakes that failed on the survivor", 1)
				}
				c.sample(map[string]interface{}{"case": cs, "survivor_report": out.rep}) // the first few cases are kept (checkCtx caps the list)
				if out.inconcl != "" {
					c.inconclusiveCase(name, out.inconcl)
				}
				if out.known != "" {
					if cs.Kind == "directed-retain" || cs.Kind == "directed-stallflush" || true {
						c.knownFindingHit("F2", name, map[string]interface{}{"case": cs, "what": out.known}, "%s", out.known)
					}
				}
				if (cs.Kind == "directed-retain" || cs.Kind == "directed-stallflush") && out.known == "" && len(out.viol) == 0 && out.inconcl == "" {
					c.count("directed F2 scenario did not reproduce", 1)
				}
				if len(out.viol) > 0 {
					c.violation(name, map[string]interface{}{"case": cs, "violations": out.viol, "survivor_report": out.rep, "close_report": out.crep}, "%s", out.viol[0])
				}
			}
		}()
	}
	only := os.Getenv("VERIF_C14_ONLY") // debugging aid: run a single case index
	for _, cs := range cases {
		if only != "" && fmt.Sprint(cs.Idx) != only {
			continue
		}
		if only != "" {
			fmt.Printf("case %+v\n", cs)
		}
		jobs <- cs
	}
	close(jobs)
	wg.Wait()
}
