package shmipc

// C07: multiplexed streams stay isolated and ordered; close never overtakes data.
//
// One session pair per execution, 8..256 streams running concurrently. Every stream follows a small script of
// chunks (client->server and server->client); byte i of (stream, direction) is keyedByte(key(stream, direction), i).
// Each stream end is driven by ONE goroutine (the library does not support Close concurrent with a read on the same
// stream). A hoarder takes and gives back share memory at random, some chunks are forced on the socket (Reserve of
// more than the largest slice), queues are tiny: individual messages switch between the queue and the socket.
// Readers read to the first error. Oracle:
//   - every byte equals f(stream, direction, position);
//   - a closed-stream error (ErrEndOfStream / ErrStreamClosed) at position p only if the peer had called Close and
//     p >= the number of bytes whose Flush had returned nil before that Close (table written before Close is called);
//   - nothing arrives after end-of-stream was reported (a third of the readers keep their end open until the pair
//     has quiesced and read again);
//   - a reader whose peer's Close returned nil and whose stream is still open after the pair has quiesced (queues
//     empty, no consumer working, no socket write in flight, fence passed) was never told about the end: violation.
// Wall-clock never decides: blocked reads use short read deadlines only to look at a give-up flag that the
// coordinator sets after the logical judgement above.

import (
	"encoding/json"
	"fmt"
	"math/rand"
	"os"
	"runtime"
	"runtime/debug"
	"sort"
	"sync"
	"sync/atomic"
	"time"
)

func init() {
	verifChecks["C07"] = checkMux
}

// ---------------------------------------------------------------------------------------------------------
// ABA-suspect detector (F1 contamination guard): private copy of the idea in m_alloc.go

type muxAba struct {
	lists    []*bufferList
	popSeq   []uint64
	lastPop  [][]uint64
	suspects uint64
}

var muxAbaCur atomic.Value // *muxAba

func muxAbaBegin(b *bufferList) uint64 {
	d, _ := muxAbaCur.Load().(*muxAba)
	if d == nil {
		return 0
	}
	for i, l := range d.lists {
		if l == b {
			return atomic.LoadUint64(&d.popSeq[i])
		}
	}
	return 0
}

func muxAbaWon(b *bufferList, slotOffset uint32, begin uint64) {
	d, _ := muxAbaCur.Load().(*muxAba)
	if d == nil {
		return
	}
	for i, l := range d.lists {
		if l == b {
			stride := *l.capPerBuffer + bufferHeaderSize
			idx := int(slotOffset / stride)
			if idx >= len(d.lastPop[i]) {
				return
			}
			seq := atomic.AddUint64(&d.popSeq[i], 1)
			last := atomic.SwapUint64(&d.lastPop[i][idx], seq)
			if last > begin {
				atomic.AddUint64(&d.suspects, 1)
			}
			return
		}
	}
}

func muxAbaInstall(bm *bufferManager) *muxAba {
	d := &muxAba{lists: bm.lists, popSeq: make([]uint64, len(bm.lists))}
	for _, l := range bm.lists {
		d.lastPop = append(d.lastPop, make([]uint64, int(*l.cap)))
	}
	muxAbaCur.Store(d)
	verifPopHook.Store(&verifPopHooks{begin: muxAbaBegin, won: muxAbaWon})
	return d
}

func muxAbaUninstall() {
	verifPopHook.Store((*verifPopHooks)(nil))
	muxAbaCur.Store((*muxAba)(nil))
}

// ---------------------------------------------------------------------------------------------------------
// cases

type muxCase struct {
	Idx      int    `json:"idx"`
	Seed     int64  `json:"seed"`
	Streams  int    `json:"streams"`
	QueueCap uint32 `json:"queue_cap"`
	Hoard    string `json:"hoard_pattern"`
	Profile  string `json:"profile"`
	Layout   int    `json:"layout"`
	MaxChunk int    `json:"max_chunk"`
	Memfd    bool   `json:"memfd"`
}

type muxLayout struct {
	bufCap uint32
	sizes  []uint32 // size, percent ...
}

// every class has >= 256 slots (keeps the known allocator finding F1 improbable)
var muxLayouts = []muxLayout{
	{1 << 20, []uint32{256, 50, 1024, 50}},
	{4 << 20, []uint32{64, 10, 512, 30, 4096, 60}},
	{2 << 20, []uint32{128, 100}},
	{4 << 20, []uint32{1024, 40, 8192, 60}},
}

type muxProfile struct {
	name  string
	build func(k *ctl)
}

var muxProfiles = []muxProfile{
	{"natural", func(k *ctl) {}},
	{"wake-marked", func(k *ctl) { k.set(vpWakeMarked, 500, 3*time.Millisecond, 90) }},
	{"fallback-before-send", func(k *ctl) { k.set(vpFallbackBeforeSend, 300, 2*time.Millisecond, 80) }},
	{"close-before-notify", func(k *ctl) { k.set(vpStreamCloseBeforeNotify, 300, 2*time.Millisecond, 80) }},
	{"poll-popped", func(k *ctl) { k.set(vpPollPopped, 250, 600*time.Microsecond, 80) }},
	{"poll-popped-long", func(k *ctl) { k.set(vpPollPopped, 60, 12*time.Millisecond, 90) }},
	{"mixed", func(k *ctl) {
		k.set(vpWakeMarked, 200, 2*time.Millisecond, 80)
		k.set(vpFallbackBeforeSend, 100, time.Millisecond, 70)
		k.set(vpStreamCloseBeforeNotify, 100, time.Millisecond, 70)
		k.set(vpPollPopped, 100, 400*time.Microsecond, 70)
		k.set(vpFlushPut, 100, 200*time.Microsecond, 50)
		k.set(vpSendLoopBeforeCAS, 100, 200*time.Microsecond, 50)
	}},
}

var muxHoardPatterns = []string{"none", "flicker", "slow", "partial", "mostly"}

var muxWindowPoints = []int{vpWakeMarked, vpWakeSlow, vpFlushPut, vpFallbackBeforeSend, vpStreamCloseBeforeNotify, vpSendLoopBeforeCAS, vpWriteEventEnter}
var muxLoopPoints = []int{vpPollPopped, vpPollBeforeMNW, vpEventDispatch, vpFillAdded, vpHalfClosed}

func genMuxCase(c *checkCtx, idx int) muxCase {
	rng := caseRand(c.seed, 7000000+idx)
	cs := muxCase{Idx: idx, Seed: rng.Int63()}
	cs.Streams = []int{8, 16, 32, 64, 64, 64, 128, 256}[rng.Intn(8)]
	cs.QueueCap = []uint32{2, 2, 8, 8, 64}[rng.Intn(5)]
	cs.Hoard = muxHoardPatterns[rng.Intn(len(muxHoardPatterns))]
	cs.Profile = muxProfiles[rng.Intn(len(muxProfiles))].name
	cs.Layout = rng.Intn(len(muxLayouts))
	cs.MaxChunk = []int{48, 700, 3000, 20000}[rng.Intn(4)]
	cs.Memfd = rng.Intn(2) == 0
	return cs
}

// ---------------------------------------------------------------------------------------------------------
// execution state

type muxStep struct {
	Dir   int  `json:"dir"` // 0: client->server, 1: server->client
	Size  int  `json:"size"`
	Force bool `json:"forced_socket,omitempty"`
}

type muxEnd struct {
	st        *Stream
	readPos   uint64 // bytes of the incoming direction verified so far (owned by the end's goroutine, read after done)
	eosAt     int64  // position at which the first closed-stream error was reported, -1: none
	eosErr    string
	eosEarly  bool // the peer had not even called Close when the error was reported
	started   uint32
	done      uint32
	waiting   uint32 // 1 while blocked in a read
	late      bool   // keeps its end open after end-of-stream for the "nothing arrives afterwards" check
	closedLoc bool
	gaveUp    bool
	note      string
}

type muxStream struct {
	Idx     int       `json:"stream_index"`
	ID      uint32    `json:"stream_id"`
	Script  []muxStep `json:"script"`
	EarlyBy int       `json:"early_close_by"` // -1 none, 0 client, 1 server
	EarlyAt int       `json:"early_close_at_step"`
	Late    [2]bool   `json:"late_close_check"`
	Delay   int       `json:"start_delay_us"`

	ends     [2]muxEnd
	flushed  [2]uint64 // bytes whose Flush returned nil, per writing side
	closing  [2]uint32 // set BEFORE the side calls Close
	closeRet [2]uint32 // 1: Close returned nil, 2: Close returned an error
	total    [2]int    // bytes the script makes each side write
}

type muxFinding struct {
	Kind    string      `json:"kind"`
	Stream  int         `json:"stream_index"`
	ID      uint32      `json:"stream_id"`
	Side    string      `json:"reader_side"`
	Msg     string      `json:"message"`
	Details interface{} `json:"details,omitempty"`
}

type muxExec struct {
	c       *checkCtx
	cs      muxCase
	p       *sessPair
	salt    uint64
	streams []*muxStream
	maxSl   int

	giveUp   uint32
	progress uint64
	wg       sync.WaitGroup

	mu       sync.Mutex
	findings []muxFinding
	incon    []string
	lateEnds []*muxStream

	shmWrites, fbWrites, flushRetries, flushFails uint64
	closes, bytesOK, eosChecks, readTimeouts      uint64
	otherReadErr                                  uint64
}

func muxSideName(side int) string {
	if side == 0 {
		return "client"
	}
	return "server"
}

func (x *muxExec) key(idx, dir int) uint64 {
	return x.salt ^ (uint64(idx)*2+uint64(dir)+1)*0x9E3779B97F4A7C15
}

func (x *muxExec) finding(kind string, s *muxStream, side int, details interface{}, format string, a ...interface{}) {
	x.mu.Lock()
	if len(x.findings) < 12 {
		x.findings = append(x.findings, muxFinding{Kind: kind, Stream: s.Idx, ID: s.ID, Side: muxSideName(side),
			Msg: fmt.Sprintf(format, a...), Details: details})
	}
	x.mu.Unlock()
}

func (x *muxExec) inconclusive(format string, a ...interface{}) {
	x.mu.Lock()
	if len(x.incon) < 8 {
		x.incon = append(x.incon, fmt.Sprintf(format, a...))
	}
	x.mu.Unlock()
}

func genMuxStream(rng *rand.Rand, idx int, maxChunk, maxSlice int, streams int) *muxStream {
	s := &muxStream{Idx: idx, EarlyBy: -1}
	n := 1 + rng.Intn(10)
	mode := rng.Intn(10)
	for k := 0; k < n; k++ {
		st := muxStep{}
		switch {
		case k == 0:
			st.Dir = 0
		case mode < 3:
			st.Dir = 0
		case mode < 6:
			st.Dir = 1
		default:
			st.Dir = rng.Intn(2)
		}
		switch rng.Intn(10) {
		case 0, 1, 2:
			st.Size = 1 + rng.Intn(32)
		case 3:
			// forced onto the socket whatever the allocator says: Reserve of more than the largest slice
			st.Force = true
			st.Size = maxSlice + 1 + rng.Intn(64)
		default:
			st.Size = 1 + rng.Intn(maxChunk)
		}
		s.Script = append(s.Script, st)
		s.total[st.Dir] += st.Size
	}
	if rng.Intn(100) < 15 {
		s.EarlyBy = rng.Intn(2)
		s.EarlyAt = rng.Intn(n)
		if s.EarlyBy == 1 && s.EarlyAt == 0 {
			s.EarlyAt = 1 // the server only knows the stream after the first chunk
		}
	}
	s.Late[0] = rng.Intn(3) == 0
	s.Late[1] = rng.Intn(3) == 0
	spread := 200 * streams // microseconds: later streams start while earlier ones are in flight
	if spread > 30000 {
		spread = 30000
	}
	s.Delay = rng.Intn(spread + 1)
	for i := range s.ends {
		s.ends[i].eosAt = -1
	}
	return s
}

// closeNow publishes "closing" (the flushed count is already published) and closes the end.
func (x *muxExec) closeNow(s *muxStream, side int) {
	en := &s.ends[side]
	if en.st == nil || en.closedLoc {
		return
	}
	en.closedLoc = true
	atomic.StoreUint32(&s.closing[side], 1)
	err := en.st.Close()
	atomic.AddUint64(&x.closes, 1)
	if err == nil {
		atomic.StoreUint32(&s.closeRet[side], 1)
	} else {
		atomic.StoreUint32(&s.closeRet[side], 2)
		en.note += " close:" + err.Error()
	}
}

// writeChunk writes and flushes one chunk; false: the flush failed for good (the end closes its stream then).
func (x *muxExec) writeChunk(s *muxStream, side int, rng *rand.Rand, step muxStep, scratch *[]byte) bool {
	en := &s.ends[side]
	st := en.st
	key := x.key(s.Idx, side)
	off := atomic.LoadUint64(&s.flushed[side])
	for attempt := 0; attempt < 40; attempt++ {
		w := st.BufferWriter()
		if step.Force || rng.Intn(5) == 0 {
			buf, err := w.Reserve(step.Size)
			if err != nil || len(buf) != step.Size {
				en.note += fmt.Sprintf(" reserve(%d):%v", step.Size, err)
				return false
			}
			fillKeyed(buf, key, off)
		} else {
			if cap(*scratch) < step.Size {
				*scratch = make([]byte, step.Size)
			}
			b := (*scratch)[:step.Size]
			fillKeyed(b, key, off)
			if rng.Intn(4) == 0 && step.Size > 1 {
				// two writes, one flush
				h := 1 + rng.Intn(step.Size-1)
				if _, err := w.WriteBytes(b[:h]); err != nil {
					en.note += " write:" + err.Error()
					return false
				}
				if _, err := w.WriteBytes(b[h:]); err != nil {
					en.note += " write:" + err.Error()
					return false
				}
			} else if _, err := w.WriteBytes(b); err != nil {
				en.note += " write:" + err.Error()
				return false
			}
		}
		viaShm := st.sendBuf.isFromShareMemory() && !st.inFallbackState
		err := st.Flush(false)
		if err == nil {
			atomic.StoreUint64(&s.flushed[side], off+uint64(step.Size))
			atomic.AddUint64(&x.bytesOK, uint64(step.Size))
			atomic.AddUint64(&x.progress, 1)
			if viaShm {
				atomic.AddUint64(&x.shmWrites, 1)
			} else {
				atomic.AddUint64(&x.fbWrites, 1)
			}
			return true
		}
		if err == ErrQueueFull {
			// nothing was enqueued (put failed 11 times): the same bytes may be offered again
			atomic.AddUint64(&x.flushRetries, 1)
			if atomic.LoadUint32(&x.giveUp) != 0 {
				return false
			}
			continue
		}
		atomic.AddUint64(&x.flushFails, 1)
		en.note += " flush:" + err.Error()
		return false
	}
	atomic.AddUint64(&x.flushFails, 1)
	en.note += " flush: queue full 40 times"
	return false
}

// readRun reads `target` bytes of the incoming direction (overAsk: may ask for more than what remains, the final run).
// It returns false when the end is finished (closed-stream error, give-up, mismatch).
func (x *muxExec) readRun(s *muxStream, side int, rng *rand.Rand, target int, overAsk bool, copyBuf *[]byte) bool {
	en := &s.ends[side]
	st := en.st
	key := x.key(s.Idx, 1-side)
	rd := st.BufferReader()
	remaining := target
	verify := func(b []byte, api string) bool {
		if i := checkKeyed(b, key, en.readPos); i >= 0 {
			x.mismatch(s, side, b, i, api)
			return false
		}
		en.readPos += uint64(len(b))
		atomic.AddUint64(&x.progress, 1)
		return true
	}
	for remaining > 0 || overAsk {
		want := 1 + rng.Intn(4096)
		if rng.Intn(4) == 0 {
			want = 1 + rng.Intn(64)
		}
		if overAsk && remaining == 0 {
			want = 1 + rng.Intn(8) // everything the script contains was read: only end-of-stream may come now
		} else if want > remaining && !(overAsk && rng.Intn(4) == 0) {
			want = remaining
		}
		_ = st.SetReadDeadline(time.Now().Add(250 * time.Millisecond))
		atomic.StoreUint32(&en.waiting, 1)
		var b []byte
		var err error
		api := "ReadBytes"
		if rng.Intn(5) == 0 {
			api = "Read"
			if cap(*copyBuf) < want {
				*copyBuf = make([]byte, want)
			}
			var n int
			n, err = st.Read((*copyBuf)[:want])
			b = (*copyBuf)[:n]
		} else {
			b, err = rd.ReadBytes(want)
		}
		atomic.StoreUint32(&en.waiting, 0)
		if err == ErrTimeout {
			atomic.AddUint64(&x.readTimeouts, 1)
			if atomic.LoadUint32(&x.giveUp) != 0 {
				en.gaveUp = true
				return false
			}
			continue
		}
		if err != nil {
			peerClosing := atomic.LoadUint32(&s.closing[1-side]) != 0
			// what is buffered was offered before the error: it counts
			if n := rd.Len(); n > 0 {
				lb, err2 := rd.ReadBytes(n)
				if err2 != nil || len(lb) != n {
					x.finding("leftover", s, side, nil, "Len()=%d after %v but ReadBytes(%d) returned %d bytes, err=%v", n, err, n, len(lb), err2)
					return false
				}
				if !verify(lb, "ReadBytes(leftover)") {
					return false
				}
			}
			rd.ReleasePreviousRead()
			if err != ErrEndOfStream && err != ErrStreamClosed {
				atomic.AddUint64(&x.otherReadErr, 1)
				en.note += " read:" + err.Error()
				x.inconclusive("stream %d(id %d) %s reader: unexpected read error %v at position %d", s.Idx, s.ID, muxSideName(side), err, en.readPos)
				return false
			}
			en.eosAt = int64(en.readPos)
			en.eosErr = err.Error()
			en.eosEarly = !peerClosing
			return false
		}
		if len(b) == 0 {
			x.finding("empty-read", s, side, nil, "%s(%d) returned no bytes and no error at position %d", api, want, en.readPos)
			return false
		}
		if !verify(b, api) {
			return false
		}
		if len(b) > remaining {
			remaining = 0
		} else {
			remaining -= len(b)
		}
		if rng.Intn(3) != 0 {
			rd.ReleasePreviousRead()
		}
		if overAsk && remaining == 0 && int(en.readPos) > s.total[1-side] {
			x.finding("excess", s, side, nil, "reader obtained %d bytes but the peer's script only ever writes %d", en.readPos, s.total[1-side])
			return false
		}
	}
	return true
}

// mismatch reports a wrong byte and tries to say where the bytes belong (diagnosis only).
func (x *muxExec) mismatch(s *muxStream, side int, b []byte, i int, api string) {
	en := &s.ends[side]
	pos := en.readPos + uint64(i)
	key := x.key(s.Idx, 1-side)
	got := b[i:]
	if len(got) > 16 {
		got = got[:16]
	}
	exp := make([]byte, len(got))
	fillKeyed(exp, key, pos)
	diag := "origin of the bytes not identified"
	if len(got) >= 6 {
		match := func(k uint64, total int) int {
			for q := 0; q+len(got) <= total; q++ {
				if keyedByte(k, uint64(q)) != got[0] {
					continue
				}
				if checkKeyed(got, k, uint64(q)) < 0 {
					return q
				}
			}
			return -1
		}
		if q := match(key, s.total[1-side]); q >= 0 {
			diag = fmt.Sprintf("the bytes are this stream's own bytes of position %d (delivered out of order)", q)
		} else {
		search:
			for _, o := range x.streams {
				for d := 0; d < 2; d++ {
					if o == s && d == 1-side {
						continue
					}
					if q := match(x.key(o.Idx, d), o.total[d]); q >= 0 {
						diag = fmt.Sprintf("the bytes belong to stream index %d (id %d) direction %d position %d", o.Idx, o.ID, d, q)
						break search
					}
				}
			}
		}
	}
	x.finding("mismatch", s, side, map[string]interface{}{"position": pos, "expected": fmt.Sprintf("%x", exp), "got": fmt.Sprintf("%x", got), "api": api,
		"peer_flushed_so_far": atomic.LoadUint64(&s.flushed[1-side])},
		"byte at position %d of direction %d differs from f(stream,direction,position): expected %x got %x; %s", pos, 1-side, exp, got, diag)
}

// runEnd drives one end of one stream through the script.
func (x *muxExec) runEnd(s *muxStream, side int) {
	en := &s.ends[side]
	atomic.StoreUint32(&en.started, 1)
	defer x.wg.Done()
	defer atomic.StoreUint32(&en.done, 1)
	defer func() {
		if r := recover(); r != nil {
			x.finding("panic", s, side, map[string]interface{}{"stack": string(debug.Stack())}, "panic in a stream operation: %v", r)
		}
	}()
	rng := rand.New(rand.NewSource(x.cs.Seed ^ int64(s.Idx)*7919 ^ int64(side+1)*104729))
	if side == 0 {
		if s.Delay > 0 {
			time.Sleep(time.Duration(s.Delay) * time.Microsecond)
		}
		st, err := x.p.client.OpenStream()
		if err != nil {
			x.inconclusive("OpenStream failed: %v", err)
			return
		}
		en.st = st
		s.ID = st.StreamID()
	} else {
		for en.st == nil {
			en.st = x.p.serverStream(s.ID, 250*time.Millisecond)
			if en.st == nil && (atomic.LoadUint32(&x.giveUp) != 0 || x.p.server.IsClosed()) {
				en.gaveUp = true
				en.note += " never accepted"
				return
			}
		}
	}
	var scratch, copyBuf []byte
	serverStarted := side == 1
	steps := s.Script
	k := 0
	for k < len(steps) {
		if steps[k].Dir == side {
			if s.EarlyBy == side && s.EarlyAt == k {
				x.closeNow(s, side)
				return
			}
			if !x.writeChunk(s, side, rng, steps[k], &scratch) {
				x.closeNow(s, side)
				return
			}
			if !serverStarted {
				serverStarted = true
				x.wg.Add(1)
				go x.runEnd(s, 1)
			}
			k++
			continue
		}
		// a run of chunks the peer writes without waiting for this end
		j := k
		target := 0
		early := false
		for j < len(steps) && steps[j].Dir != side {
			if s.EarlyBy == side && s.EarlyAt == j {
				early = true
				break
			}
			target += steps[j].Size
			j++
		}
		final := j == len(steps) && !early
		if !x.readRun(s, side, rng, target, final, &copyBuf) {
			x.finishReader(s, side)
			return
		}
		if early {
			x.closeNow(s, side)
			return
		}
		k = j
	}
	// the script is over and its last chunk was written by this end: close at once
	x.closeNow(s, side)
}

// finishReader: the reader saw an error (or gave up, or found a mismatch).
func (x *muxExec) finishReader(s *muxStream, side int) {
	en := &s.ends[side]
	if en.gaveUp {
		return // judged by the coordinator; the pair is closed afterwards
	}
	if en.eosAt >= 0 && s.Late[side] {
		en.late = true
		return // stays open; the coordinator reads again after the pair has quiesced
	}
	x.closeNow(s, side)
}

// ---------------------------------------------------------------------------------------------------------
// hoarder

func muxHoarder(bm *bufferManager, pattern string, seed int64, stop *uint32, done chan struct{}, cycles *uint64) {
	defer close(done)
	if pattern == "none" {
		return
	}
	rng := rand.New(rand.NewSource(seed))
	pause := func(us int) {
		if us <= 0 {
			return
		}
		if us < 200 {
			t0 := time.Now()
			for time.Since(t0) < time.Duration(us)*time.Microsecond {
				runtime.Gosched()
			}
			return
		}
		time.Sleep(time.Duration(us) * time.Microsecond)
	}
	for atomic.LoadUint32(stop) == 0 {
		var held [][]*bufferSlice
		switch pattern {
		case "flicker":
			for i := range bm.lists {
				held = append(held, hoard(bm, i, int(*bm.lists[i].cap)))
			}
			pause(rng.Intn(300))
		case "slow":
			for i := range bm.lists {
				held = append(held, hoard(bm, i, int(*bm.lists[i].cap)))
			}
			pause(2000 + rng.Intn(6000))
		case "partial":
			for i := range bm.lists {
				if rng.Intn(2) == 0 {
					n := int(*bm.lists[i].cap)
					if rng.Intn(2) == 0 {
						n -= 2 + rng.Intn(6) // leave a handful of slots: partial share memory + heap remainder
					}
					held = append(held, hoard(bm, i, n))
				}
			}
			pause(500 + rng.Intn(2500))
		case "mostly":
			for i := range bm.lists {
				held = append(held, hoard(bm, i, int(*bm.lists[i].cap)))
			}
			pause(3000 + rng.Intn(5000))
		}
		for _, h := range held {
			unhoard(bm, h)
		}
		atomic.AddUint64(cycles, 1)
		switch pattern {
		case "flicker":
			pause(rng.Intn(500))
		case "slow":
			pause(2000 + rng.Intn(6000))
		case "partial":
			pause(rng.Intn(1500))
		case "mostly":
			pause(50 + rng.Intn(200))
		}
	}
}

// ---------------------------------------------------------------------------------------------------------
// one execution

type muxResult struct {
	findings   []muxFinding
	incon      []string
	discarded  string
	sig        string
	cross      uint64
	fbStat     uint64
	qfull      uint64
	zombies    int
	suspects   uint64
	lateChecks int
	hits       map[string]uint64
	streams    []*muxStream
	x          *muxExec
}

func runMuxCase(c *checkCtx, cs muxCase) (res muxResult) {
	lay := muxLayouts[cs.Layout]
	p, err := newSessionPair(pairOpt{memfd: cs.Memfd, queueCap: cs.QueueCap, bufCap: lay.bufCap, sizes: smallSizes(lay.sizes...), initTO: 60 * time.Second})
	if err != nil {
		res.discarded = "session pair: " + err.Error()
		return
	}
	x := &muxExec{c: c, cs: cs, p: p, salt: uint64(cs.Seed) * 0x9E3779B97F4A7C15}
	res.x = x
	bm := p.client.bufferManager
	x.maxSl = int(bm.maxSliceSize)
	rng := rand.New(rand.NewSource(cs.Seed))
	for i := 0; i < cs.Streams; i++ {
		x.streams = append(x.streams, genMuxStream(rng, i, cs.MaxChunk, x.maxSl, cs.Streams))
	}
	res.streams = x.streams
	aba := muxAbaInstall(bm)
	k := newCtl(cs.Profile, cs.Seed)
	for _, pr := range muxProfiles {
		if pr.name == cs.Profile {
			pr.build(k)
		}
	}
	k.install()
	var hoardStop uint32
	var hoardCycles uint64
	hoardDone := make(chan struct{})
	go muxHoarder(bm, cs.Hoard, cs.Seed^0x5a5a, &hoardStop, hoardDone, &hoardCycles)

	for _, s := range x.streams {
		x.wg.Add(1)
		go x.runEnd(s, 0)
	}
	allDone := make(chan struct{})
	go func() { x.wg.Wait(); close(allDone) }()

	// ---- coordinator: wait for the ends; judge blocked readers only on logical grounds
	lastProgress := atomic.LoadUint64(&x.progress)
	lastChange := time.Now()
	started := time.Now()
	finished := false
	for !finished {
		select {
		case <-allDone:
			finished = true
			continue
		case <-time.After(50 * time.Millisecond):
		}
		if pr := atomic.LoadUint64(&x.progress); pr != lastProgress {
			lastProgress, lastChange = pr, time.Now()
			continue
		}
		if p.client.IsClosed() || p.server.IsClosed() {
			atomic.StoreUint32(&x.giveUp, 1)
			res.discarded = "session died during the run"
			break
		}
		if time.Since(lastChange) < 4*time.Second {
			continue
		}
		// nothing moved for a while: has the pair logically settled?
		settled := p.quiesce(10*time.Second) && atomic.LoadUint64(&x.progress) == lastProgress
		if settled {
			// once more after a pause: an event in the hands of the send goroutine is invisible to quiesce for an instant
			time.Sleep(300 * time.Millisecond)
			settled = p.quiesce(10*time.Second) && atomic.LoadUint64(&x.progress) == lastProgress
		}
		if !settled {
			if time.Since(started) > 240*time.Second {
				atomic.StoreUint32(&x.giveUp, 1)
				res.discarded = "watchdog: the execution neither finished nor settled within 240 s"
				break
			}
			lastChange = time.Now()
			continue
		}
		// settled with ends still running: every message and close notification that was sent has been handled
		x.judgeBlocked()
		atomic.StoreUint32(&x.giveUp, 1)
		break
	}
	if !finished {
		select {
		case <-allDone:
		case <-time.After(60 * time.Second):
			// ends that do not even react to the give-up flag: cannot continue in this process
			uninstallCtl()
			muxAbaUninstall()
			c.inconclusiveCase(fmt.Sprintf("mux-%d", cs.Idx), "watchdog: stream ends did not stop after give-up; aborting the run\n"+truncate(goroutineDump(), 4000))
			c.abortRun()
		}
	}
	atomic.StoreUint32(&hoardStop, 1)
	<-hoardDone
	res.sig = k.signature()
	res.cross, _ = k.crossTransitions(muxWindowPoints, muxLoopPoints)
	res.hits = k.hitMap([]int{vpWakeMarked, vpWakeSlow, vpFallbackBeforeSend, vpStreamCloseBeforeNotify, vpPollPopped, vpFlushPut})
	uninstallCtl()

	alive := !p.client.IsClosed() && !p.server.IsClosed()
	if alive && res.discarded == "" {
		// zombies: data that arrived for a stream the server had already closed re-creates it; the application closes them
		for round := 0; round < 20; round++ {
			if !p.quiesce(20 * time.Second) {
				res.discarded = "pair did not quiesce after the workload"
				break
			}
			z := p.drainAccepted()
			if len(z) == 0 {
				break
			}
			res.zombies += len(z)
			for _, st := range z {
				st.Close()
			}
		}
	}
	if alive && res.discarded == "" {
		// nothing may arrive after end-of-stream was reported
		for _, s := range x.streams {
			for side := 0; side < 2; side++ {
				en := &s.ends[side]
				if !en.late || en.st == nil {
					continue
				}
				res.lateChecks++
				rd := en.st.BufferReader()
				_ = en.st.SetReadDeadline(time.Now().Add(5 * time.Second))
				b, err := rd.ReadBytes(1)
				if err == nil || rd.Len() > 0 {
					n := rd.Len() + len(b)
					x.finding("after-eos", s, side, map[string]interface{}{"eos_at": en.eosAt, "eos_error": en.eosErr, "bytes_after": n},
						"%d byte(s) arrived after %s had been reported at position %d", n, en.eosErr, en.eosAt)
				} else if err != ErrEndOfStream && err != ErrStreamClosed {
					x.inconclusive("late read on stream %d returned %v", s.Idx, err)
				}
				en.closedLoc = true
				en.st.Close()
			}
		}
		// end-of-stream positions against the table (final values: every flush of a side precedes its Close)
		for _, s := range x.streams {
			for side := 0; side < 2; side++ {
				en := &s.ends[side]
				if en.eosAt < 0 {
					continue
				}
				atomic.AddUint64(&x.eosChecks, 1)
				f := atomic.LoadUint64(&s.flushed[1-side])
				det := map[string]interface{}{"eos_at": en.eosAt, "error": en.eosErr, "peer_flushed_before_close": f,
					"peer_called_close_before_eos": !en.eosEarly, "script": s.Script, "early_close_by": s.EarlyBy, "early_close_at": s.EarlyAt}
				if en.eosEarly {
					x.finding("eos-without-close", s, side, det, "%s reported at position %d although the peer had not called Close yet (peer flushed %d so far)",
						en.eosErr, en.eosAt, f)
				} else if uint64(en.eosAt) < f {
					x.finding("eos-overtook-data", s, side, det, "%s reported at position %d but the peer had flushed %d bytes successfully before Close",
						en.eosErr, en.eosAt, f)
				}
			}
		}
	}
	if !alive && res.discarded == "" {
		res.discarded = "session died during the run"
	}
	res.fbStat = atomic.LoadUint64(&p.client.stats.fallbackWriteCount) + atomic.LoadUint64(&p.server.stats.fallbackWriteCount)
	res.qfull = atomic.LoadUint64(&p.client.stats.queueFullErrorCount) + atomic.LoadUint64(&p.server.stats.queueFullErrorCount)
	res.suspects = atomic.LoadUint64(&aba.suspects)
	muxAbaUninstall()
	p.close()
	x.mu.Lock()
	res.findings = x.findings
	res.incon = x.incon
	x.mu.Unlock()
	return
}

// judgeBlocked is called when the pair has quiesced and nothing has moved, with stream ends still running.
func (x *muxExec) judgeBlocked() {
	for _, s := range x.streams {
		for side := 0; side < 2; side++ {
			en := &s.ends[side]
			if atomic.LoadUint32(&en.started) == 0 || atomic.LoadUint32(&en.done) != 0 {
				continue
			}
			st := en.st
			peerClosed := atomic.LoadUint32(&s.closeRet[1-side]) == 1
			if st == nil {
				if side == 1 {
					x.inconclusive("stream %d (id %d): first chunk flushed but the server never accepted the stream (peer closed=%v)", s.Idx, s.ID, peerClosed)
				}
				continue
			}
			if atomic.LoadUint32(&en.waiting) == 0 {
				x.inconclusive("stream %d (id %d) %s end blocked outside a read", s.Idx, s.ID, muxSideName(side))
				continue
			}
			state := st.getStreamState()
			if peerClosed && state == uint32(streamOpened) {
				st.pendingData.Lock()
				pend := len(st.pendingData.unread)
				st.pendingData.Unlock()
				x.finding("eos-never-reported", s, side, map[string]interface{}{"script": s.Script, "peer_flushed_before_close": atomic.LoadUint64(&s.flushed[1-side]),
					"pending_messages": pend, "early_close_by": s.EarlyBy, "early_close_at": s.EarlyAt},
					"the peer's Close returned nil and the pair has quiesced (queues empty, no consumer working, no socket write in flight, fence passed) "+
						"but the reader's stream is still open: end-of-stream was never reported (peer flushed %d bytes before Close)",
					atomic.LoadUint64(&s.flushed[1-side]))
			} else if !peerClosed {
				x.inconclusive("stream %d (id %d) %s reader blocked while its peer has not closed (peer done=%v)", s.Idx, s.ID, muxSideName(side),
					atomic.LoadUint32(&s.ends[1-side].done) != 0)
			}
		}
	}
}

// ---------------------------------------------------------------------------------------------------------

func checkMux(c *checkCtx) {
	c.rule = "executions = (8..256 concurrent streams on one in-process session pair, queue capacity 2/8/64, allocator layout with >=256 slots per class, " +
		"hoard pattern none/flicker/slow/partial/mostly, perturbation profile targeting wakeUpPeer-after-mark / writeFallback-before-send / close-before-notify / " +
		"handlePolling-between-elements, memfd or file mapping) from PRNG(VERIF_SEED, index); every stream follows a PRNG script of chunks in both directions " +
		"(some forced onto the socket by Reserve > largest slice), closes immediately after its last flush, 15 % close early at a random step; " +
		"non-trivial = the execution contained >=1 successful flush through share memory AND >=1 through the socket fallback; " +
		"distinct = distinct (streams, queue capacity, hoard pattern, profile, hook-transition signature)"
	c.assume("each stream end is used by one goroutine at a time (the library does not support Close concurrent with reads/flushes of the same end)")
	c.assume("both sessions live in one process and share one event loop and one bufferManager object; the child-process peer variant is not part of this module")
	c.assume("an execution in which a session died or an allocator ABA suspect (known finding F1) coincided with a failure is discarded as inconclusive")
	n := c.pick(200, 4000)
	var replay *muxCase
	if c.tier == "replay" {
		// ./run.sh C07 replay <file>: the recorded case is run 20 times (schedules are not reproducible bit for bit)
		var doc struct {
			Witness struct {
				Case muxCase `json:"case"`
			} `json:"witness"`
		}
		data, err := os.ReadFile(os.Getenv("VERIF_REPLAY"))
		if err != nil || json.Unmarshal(data, &doc) != nil || doc.Witness.Case.Streams == 0 {
			c.noObservation("replay file unreadable: " + os.Getenv("VERIF_REPLAY"))
			return
		}
		replay = &doc.Witness.Case
		n = 20
	}
	failed := 0
	for i := 0; i < n; i++ {
		if failed >= 5 {
			// the verdict is settled; blocked-reader executions cost seconds each
			c.setExtra("stopped_early", fmt.Sprintf("after %d violating executions (%d of %d executions run)", failed, i, n))
			break
		}
		cs := genMuxCase(c, i)
		if replay != nil {
			cs = *replay
		}
		res := runMuxCase(c, cs)
		name := fmt.Sprintf("mux-%d", cs.Idx)
		if res.x == nil {
			c.inconclusiveCase(name, res.discarded)
			continue
		}
		x := res.x
		c.eval(1)
		c.count("streams", int64(cs.Streams))
		c.count("flushes through share memory", int64(x.shmWrites))
		c.count("flushes through the socket fallback", int64(x.fbWrites))
		c.count("fallback writes (session stats)", int64(res.fbStat))
		c.count("queue-full events (session stats)", int64(res.qfull))
		c.count("flush retried after ErrQueueFull", int64(x.flushRetries))
		c.count("flush failed for good", int64(x.flushFails))
		c.count("closes", int64(x.closes))
		c.count("bytes flushed", int64(x.bytesOK))
		c.count("end-of-stream positions checked", int64(x.eosChecks))
		c.count("late re-reads after end-of-stream", int64(res.lateChecks))
		c.count("zombie streams closed", int64(res.zombies))
		c.count("read deadline wake-ups", int64(x.readTimeouts))
		c.count("hook transitions writer-window<->event-loop", int64(res.cross))
		c.count("ABA suspects", int64(res.suspects))
		for kname, v := range res.hits {
			c.count("hook hits "+kname, int64(v))
		}
		if res.discarded != "" {
			c.inconclusiveCase(name, fmt.Sprintf("%s (case %+v)", res.discarded, cs))
			continue
		}
		for _, m := range res.incon {
			c.inconclusiveCase(name, m)
		}
		if len(res.findings) > 0 && res.suspects > 0 {
			// F1 (allocator ABA) can hand one buffer to two owners: any byte-level failure of this execution may stem from it
			if c.isKnown("F1") {
				c.knownFindingHit("F1", name, map[string]interface{}{"case": cs, "findings": res.findings, "aba_suspects": res.suspects},
					"%d ABA suspects coincide with: %s", res.suspects, res.findings[0].Msg)
			} else {
				c.inconclusiveCase(name, fmt.Sprintf("failure coincides with %d allocator ABA suspects (known finding F1): %s", res.suspects, res.findings[0].Msg))
			}
			continue
		}
		if x.shmWrites > 0 && x.fbWrites > 0 {
			c.nontrivial(fmt.Sprintf("%d/%d/%s/%s/%s", cs.Streams, cs.QueueCap, cs.Hoard, cs.Profile, res.sig))
		}
		if i < 4 {
			c.sample(map[string]interface{}{"case": cs, "shm_flushes": x.shmWrites, "socket_flushes": x.fbWrites, "queue_full": res.qfull,
				"closes": x.closes, "bytes": x.bytesOK, "zombies": res.zombies, "signature": res.sig, "first_script": res.streams[0].Script})
		}
		if len(res.findings) > 0 {
			failed++
			sort.SliceStable(res.findings, func(a, b int) bool { return muxRank(res.findings[a].Kind) < muxRank(res.findings[b].Kind) })
			f := res.findings[0]
			var scr interface{}
			if f.Stream < len(res.streams) {
				scr = res.streams[f.Stream]
			}
			c.violation(name, map[string]interface{}{"case": cs, "findings": res.findings, "stream": scr,
				"counts": map[string]interface{}{"shm_flushes": x.shmWrites, "socket_flushes": x.fbWrites, "queue_full": res.qfull, "hook_hits": res.hits}},
				"stream index %d (id %d), %s reader: [%s] %s", f.Stream, f.ID, f.Side, f.Kind, f.Msg)
		}
	}
	// directed: a deep backlog in the queue (consumer held), then the stream's tail switches to the socket and the stream closes
	if replay == nil {
		nb := c.pick(6, 80)
		for i := 0; i < nb && failed < 5; i++ {
			viol, inconcl, st := runMuxDeepBacklog(c, i)
			name := fmt.Sprintf("deep-backlog-%d", i)
			c.eval(1)
			if inconcl != "" {
				c.inconclusiveCase(name, inconcl)
				continue
			}
			c.count("deep-backlog executions (consumer held, tail of the stream on the socket)", 1)
			c.count("deep-backlog: elements queued while the consumer was held", st.backlog)
			c.count("end-of-stream positions checked", st.eos)
			c.nontrivial(fmt.Sprintf("deep-backlog/%s/%d", st.variant, st.backlog/1000))
			if len(viol) > 0 {
				failed++
				c.violation(name, map[string]interface{}{"index": i, "variant": st.variant, "backlog": st.backlog, "violations": viol}, "%s", viol[0])
			}
		}
	}
	if c.counter("flushes through the socket fallback") == 0 || c.counter("flushes through share memory") == 0 {
		c.noObservation("no execution mixed both transports")
	}
	if c.counter("end-of-stream positions checked") == 0 {
		c.noObservation("no end-of-stream position was ever checked")
	}
}

func muxRank(kind string) int {
	switch kind {
	case "mismatch":
		return 0
	case "eos-overtook-data", "eos-without-close":
		return 1
	case "eos-never-reported", "after-eos":
		return 2
	}
	return 3
}

// ---------------------------------------------------------------------------------------------------------
// deep backlog: while the consumer's event loop is held, one stream queues thousands of messages through share memory; then share
// memory is exhausted, the next message of the same stream travels through the socket and (variant) the stream is closed, the
// close notification following on the socket. The control connection then carries [polling][data][close] while the queue holds
// the whole backlog: the reader must still see every byte in order and the end only after the last byte.

type muxBacklogStats struct {
	variant string
	backlog int64
	eos     int64
}

func runMuxDeepBacklog(c *checkCtx, idx int) (viol []string, inconcl string, st muxBacklogStats) {
	rng := caseRand(c.seed, 270000+idx)
	n := []int{300, 900, 1500, 2500, 3500, 5000}[rng.Intn(6)] + rng.Intn(300)
	st.variant = []string{"socket-tail-then-close", "socket-tail"}[rng.Intn(2)]
	memfd := rng.Intn(2) == 0
	const msz = 16
	p, err := newSessionPair(pairOpt{memfd: memfd, queueCap: 8192, bufCap: 4 << 20, sizes: smallSizes(64, 70, 4096, 30)})
	if err != nil {
		return nil, "pair: " + err.Error(), st
	}
	key := uint64(0xB00C0000) + uint64(idx)
	violate := func(format string, a ...interface{}) {
		if len(viol) < 4 {
			viol = append(viol, fmt.Sprintf(format, a...))
		}
	}
	cl, err := p.client.OpenStream()
	if err != nil {
		p.close()
		return nil, "open: " + err.Error(), st
	}
	var flushed uint64 // bytes whose Flush returned nil
	write := func() error {
		buf := make([]byte, msz)
		fillKeyed(buf, key, flushed)
		if _, err := cl.BufferWriter().WriteBytes(buf); err != nil {
			return err
		}
		if err := cl.Flush(false); err != nil {
			return err
		}
		flushed += msz
		return nil
	}
	if err := write(); err != nil {
		p.close()
		return nil, "first flush: " + err.Error(), st
	}
	sv := p.serverStream(cl.StreamID(), 5*time.Second)
	if sv == nil {
		p.close()
		return nil, "server stream did not appear", st
	}
	total := uint64(n+2) * msz
	type rdResult struct {
		pos      uint64
		err      error
		mismatch int64
	}
	rdDone := make(chan rdResult, 1)
	var rdPos uint64
	go func() {
		r := rdResult{mismatch: -1}
		for {
			if st.variant == "socket-tail" && r.pos >= total {
				break
			}
			sv.SetReadDeadline(time.Now().Add(40 * time.Second))
			b, err := sv.BufferReader().ReadBytes(msz)
			if err != nil {
				r.err = err
				break
			}
			if i := checkKeyed(b, key, r.pos); i >= 0 && r.mismatch < 0 {
				r.mismatch = int64(r.pos) + int64(i)
			}
			r.pos += msz
			atomic.StoreUint64(&rdPos, r.pos)
			sv.ReleaseReadAndReuse()
		}
		rdDone <- r
	}()
	finish := func() {
		// the reader leaves by itself (end of stream, target reached or read deadline); the pair is closed only afterwards (F2)
		select {
		case <-rdDone:
		case <-time.After(60 * time.Second):
		}
		p.close()
	}
	srvQ := p.server.queueManager.recvQueue
	if !waitUntil(5*time.Second, func() bool {
		return atomic.LoadUint64(&rdPos) == msz && fenceOnce(5*time.Second) && srvQ.size() == 0 && !srvQ.consumerIsWorking()
	}) {
		cl.Close()
		finish()
		return nil, "consumer did not go idle after the first message", st
	}
	hold := make(chan struct{})
	held := make(chan struct{})
	loopRun(func() { close(held); <-hold })
	select {
	case <-held:
	case <-time.After(10 * time.Second):
		close(hold)
		cl.Close()
		finish()
		return nil, "event loop could not be parked", st
	}
	released := false
	release := func() {
		if !released {
			released = true
			close(hold)
		}
	}
	var werr error
	for i := 0; i < n && werr == nil; i++ {
		werr = write()
	}
	st.backlog = srvQ.size()
	var hoarded [][]*bufferSlice
	bm := p.client.bufferManager
	fbBefore := atomic.LoadUint64(&p.client.stats.fallbackWriteCount)
	if werr == nil {
		for i := range bm.lists {
			hoarded = append(hoarded, hoard(bm, i, 1<<30))
		}
		werr = write() // share memory exhausted: this message travels through the socket
	}
	fb := atomic.LoadUint64(&p.client.stats.fallbackWriteCount) - fbBefore
	closedAt := flushed
	if werr == nil && st.variant == "socket-tail-then-close" {
		cl.Close()
	}
	for _, h := range hoarded {
		unhoard(bm, h)
	}
	release()
	if werr != nil {
		cl.Close()
		finish()
		return nil, "write during the held phase failed: " + werr.Error(), st
	}
	if fb == 0 {
		cl.Close()
		finish()
		return nil, "the tail message did not travel through the socket", st
	}
	var r rdResult
	select {
	case r = <-rdDone:
		rdDone <- r
	case <-time.After(50 * time.Second):
		cl.Close()
		finish()
		return nil, "reader did not finish within 50 s", st
	}
	if st.variant == "socket-tail" {
		cl.Close()
	}
	sessDead := p.client.IsClosed() || p.server.IsClosed()
	finish()
	if sessDead {
		return nil, "a session of the pair died during the execution", st
	}
	if r.mismatch >= 0 {
		violate("[mismatch] deep backlog of %d queue elements followed by a message on the socket: the reader got a wrong byte at position %d of %d (message %d): bytes of "+
			"the stream were delivered out of order", st.backlog, r.mismatch, closedAt, r.mismatch/msz)
	}
	if st.variant == "socket-tail-then-close" {
		st.eos = 1
		switch {
		case r.err == nil:
		case isClosedStreamErr(r.err) || r.err == ErrEndOfStream:
			if r.pos < closedAt {
				violate("[eos-overtook-data] end of stream (%v) reported at position %d but the peer had flushed %d bytes successfully before Close (backlog %d elements)",
					r.err, r.pos, closedAt, st.backlog)
			}
		case r.err == ErrTimeout:
			if len(viol) == 0 {
				return nil, fmt.Sprintf("reader timed out at position %d of %d", r.pos, closedAt), st
			}
		default:
			if len(viol) == 0 {
				return nil, fmt.Sprintf("reader failed with %v at position %d of %d", r.err, r.pos, closedAt), st
			}
		}
	} else if r.err != nil && len(viol) == 0 {
		return nil, fmt.Sprintf("reader failed with %v at position %d of %d", r.err, r.pos, total), st
	}
	return viol, "", st
}
