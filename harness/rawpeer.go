package shmipc

// rawpeer.go — a scripted raw peer for the control connection (shared by C12 m_handshake.go and C13 m_fuzz.go).
//
// The raw peer speaks the wire protocol with the package's own encode helpers (header.encode,
// fallbackDataEvent.encode, a generateShmMetadata-like builder, sendFd / blockRead…), owns *real* shared
// memory (it creates it in the client role and maps it in the server role, with private mappings that never
// go through the process-global bufferManager table), and can play every handshake role message by message,
// so that a scenario can stop, close or deviate at any step. After a completed handshake it can carry stream
// data through shared memory (allocate a slice, enqueue an element, send the polling event) and through the
// socket (fallback data events), which makes polling events meaningful for the session under test.
//
// All identifiers are prefixed raw….

import (
	"encoding/binary"
	"errors"
	"fmt"
	"net"
	"os"
	"sync"
	"sync/atomic"
	"time"

	"golang.org/x/sys/unix"
)

var errRawTimeout = errors.New("rawpeer: read watchdog time-out")

// rawRecv is one event header the raw peer received (kept as evidence of what the library end sent).
type rawRecv struct {
	Type    uint8  `json:"type"`
	Version uint8  `json:"version"`
	Length  uint32 `json:"length"`
	Magic   uint16 `json:"magic"`
}

type rawPeer struct {
	file *os.File
	fd   int

	memfd      bool
	frag       int   // >0: every message is written in pieces of this many bytes with a short pause in between (a stream transport may deliver that way)
	version    uint8 // version stamped on the events this peer sends
	announce   uint8 // client role: version announced in the first message (0: the usual one, 3 resp. 2 for c2f)
	queuePath  string
	bufferPath string
	qm         *queueManager
	bm         *bufferManager
	bmFd       int // memfd of the buffer (memfd type), -1 otherwise
	ownFiles   []string
	gotFds     []int // descriptors received from the peer (server role, memfd)

	mu      sync.Mutex
	recvd   []rawRecv
	closed  uint32
	wmu     sync.Mutex
	readers sync.WaitGroup // background readers of fd (startDiscard); close waits for them before the number can be reused
}

// rawFromConn takes over a dup of the connection's descriptor (blocking mode); the net.Conn is closed.
func rawFromConn(conn net.Conn) (*rawPeer, error) {
	f, err := getConnDupFd(conn)
	if err != nil {
		return nil, err
	}
	conn.Close()
	r := &rawPeer{file: f, fd: int(f.Fd()), version: maxSupportProtoVersion, bmFd: -1}
	return r, nil
}

// rawSocketInode returns the inode of the socket behind a net.Conn ("socket:[ino]" in /proc/<pid>/fd).
func rawSocketInode(conn net.Conn) uint64 {
	f, err := getConnDupFd(conn)
	if err != nil {
		return 0
	}
	defer f.Close()
	var st unix.Stat_t
	// no f.Fd(): that would switch the shared file description to blocking mode behind the owner's back
	rc, err := f.SyscallConn()
	if err != nil {
		return 0
	}
	_ = rc.Control(func(fd uintptr) { _ = unix.Fstat(int(fd), &st) })
	return st.Ino
}

func (r *rawPeer) isClosed() bool { return atomic.LoadUint32(&r.closed) == 1 }

// close closes the connection (idempotent). Shared memory is released separately (releaseShm).
func (r *rawPeer) close() {
	if atomic.CompareAndSwapUint32(&r.closed, 0, 1) {
		_ = unix.Shutdown(r.fd, unix.SHUT_RDWR) // wakes a reader of our own that is blocked in poll/read
		r.readers.Wait()                        // nobody may still use the descriptor number once it is closed (reuse!)
		r.file.Close()
	}
}

// closeAbrupt closes without shutdown (unread data in the receive queue makes the peer see a reset on unix sockets).
func (r *rawPeer) closeAbrupt() {
	if atomic.CompareAndSwapUint32(&r.closed, 0, 1) {
		r.file.Close()
	}
}

// startDiscard: a background reader drops whatever the peer writes on the socket (polling events, close events), so
// that the peer's writers never block on a full socket buffer. The raw peer still never *sends* by itself.
func (r *rawPeer) startDiscard() {
	r.readers.Add(1)
	go func() {
		defer r.readers.Done()
		buf := make([]byte, 4096)
		for {
			if r.isClosed() {
				return
			}
			pfd := []unix.PollFd{{Fd: int32(r.fd), Events: unix.POLLIN}}
			n, err := unix.Poll(pfd, 200)
			if err == unix.EINTR || (err == nil && n == 0) {
				continue
			}
			if err != nil || r.isClosed() {
				return
			}
			m, err := unix.Read(r.fd, buf)
			if err == unix.EINTR || err == unix.EAGAIN {
				continue
			}
			if err != nil || m == 0 {
				return
			}
		}
	}()
}

// ---------------------------------------------------------------------------------------------
// shared memory owned by the raw peer

// createShm creates queue and buffer memory the way a client does (file or memfd), with private mappings.
func (r *rawPeer) createShm(prefix string, memfd bool, queueCap uint32, bufCap uint32, sizes []*SizePercentPair) error {
	r.memfd = memfd
	r.queuePath = prefix + "_queue"
	r.bufferPath = prefix + bufferPathSuffix
	pairs := make([]*SizePercentPair, len(sizes))
	for i, p := range sizes {
		cp := *p
		pairs[i] = &cp
	}
	if memfd {
		qm, err := createQueueManagerWithMemFd(r.queuePath, queueCap)
		if err != nil {
			return err
		}
		r.qm = qm
		fd, err := MemfdCreate(r.bufferPath, 0)
		if err != nil {
			return err
		}
		if err := unix.Ftruncate(fd, int64(bufCap)); err != nil {
			return err
		}
		mem, err := unix.Mmap(fd, 0, int(bufCap), unix.PROT_READ|unix.PROT_WRITE, unix.MAP_SHARED)
		if err != nil {
			return err
		}
		bm, err := createBufferManager(pairs, r.bufferPath, mem, 0)
		if err != nil {
			return err
		}
		bm.memFd = fd
		bm.mmapMapType = MemMapTypeMemFd
		r.bm = bm
		r.bmFd = fd
		return nil
	}
	qm, err := createQueueManager(r.queuePath, queueCap)
	if err != nil {
		return err
	}
	r.qm = qm
	r.ownFiles = append(r.ownFiles, r.queuePath)
	f, err := os.OpenFile(r.bufferPath, os.O_CREATE|os.O_RDWR|os.O_EXCL, os.ModePerm)
	if err != nil {
		return err
	}
	defer f.Close()
	r.ownFiles = append(r.ownFiles, r.bufferPath)
	if err := f.Truncate(int64(bufCap)); err != nil {
		return err
	}
	mem, err := unix.Mmap(int(f.Fd()), 0, int(bufCap), unix.PROT_READ|unix.PROT_WRITE, unix.MAP_SHARED)
	if err != nil {
		return err
	}
	bm, err := createBufferManager(pairs, r.bufferPath, mem, 0)
	if err != nil {
		return err
	}
	r.bm = bm
	return nil
}

// mapShmFiles maps the memory a (file mapping) client announced; private mappings.
func (r *rawPeer) mapShmFiles(queuePath, bufferPath string) error {
	r.queuePath, r.bufferPath = queuePath, bufferPath
	qm, err := mappingQueueManager(queuePath)
	if err != nil {
		return err
	}
	r.qm = qm
	f, err := os.OpenFile(bufferPath, os.O_RDWR, os.ModePerm)
	if err != nil {
		return err
	}
	defer f.Close()
	fi, err := f.Stat()
	if err != nil {
		return err
	}
	mem, err := unix.Mmap(int(f.Fd()), 0, int(fi.Size()), unix.PROT_READ|unix.PROT_WRITE, unix.MAP_SHARED)
	if err != nil {
		return err
	}
	bm, err := mappingBufferManager(bufferPath, mem, 0)
	if err != nil {
		_ = unix.Munmap(mem)
		return err
	}
	r.bm = bm
	return nil
}

// mapShmFds maps the memory behind received memfds (order on the wire: buffer fd, queue fd).
func (r *rawPeer) mapShmFds(queuePath, bufferPath string, bufferFd, queueFd int) error {
	r.memfd = true
	r.queuePath, r.bufferPath = queuePath, bufferPath
	qm, err := mappingQueueManagerMemfd(queuePath, queueFd)
	if err != nil {
		return err
	}
	r.qm = qm
	var st unix.Stat_t
	if err := unix.Fstat(bufferFd, &st); err != nil {
		return err
	}
	mem, err := unix.Mmap(bufferFd, 0, int(st.Size), unix.PROT_READ|unix.PROT_WRITE, unix.MAP_SHARED)
	if err != nil {
		return err
	}
	bm, err := mappingBufferManager(bufferPath, mem, 0)
	if err != nil {
		_ = unix.Munmap(mem)
		return err
	}
	bm.memFd = bufferFd
	bm.mmapMapType = MemMapTypeMemFd
	r.bm = bm
	r.bmFd = bufferFd
	return nil
}

// ownMappings / ownMemfds: what the raw peer itself holds at the moment (the census subtracts these).
func (r *rawPeer) ownMappings() int {
	n := 0
	if r.qm != nil {
		n++
	}
	if r.bm != nil {
		n++
	}
	return n
}

func (r *rawPeer) ownMemfds() int {
	n := 0
	if r.qm != nil && r.qm.mmapMapType == MemMapTypeMemFd {
		n++
	}
	if r.bmFd >= 0 {
		n++
	}
	for _, fd := range r.gotFds {
		if fd >= 0 && (r.qm == nil || fd != r.qm.memFd) && fd != r.bmFd {
			n++
		}
	}
	return n
}

// releaseShm unmaps the raw peer's mappings, closes its memfds and removes the files it created.
func (r *rawPeer) releaseShm() {
	if r.qm != nil {
		_ = unix.Munmap(r.qm.mem)
		if r.qm.mmapMapType == MemMapTypeMemFd {
			_ = unix.Close(r.qm.memFd)
		}
		for i, fd := range r.gotFds {
			if fd == r.qm.memFd {
				r.gotFds[i] = -1
			}
		}
		r.qm = nil
	}
	if r.bm != nil {
		_ = unix.Munmap(r.bm.mem)
		if r.bmFd >= 0 {
			_ = unix.Close(r.bmFd)
			for i, fd := range r.gotFds {
				if fd == r.bmFd {
					r.gotFds[i] = -1
				}
			}
			r.bmFd = -1
		}
		r.bm = nil
	}
	for i, fd := range r.gotFds {
		if fd >= 0 {
			_ = unix.Close(fd)
			r.gotFds[i] = -1
		}
	}
	for _, f := range r.ownFiles {
		_ = os.Remove(f)
	}
	r.ownFiles = nil
}

// ---------------------------------------------------------------------------------------------
// byte builders (pure functions; the generators of C13 use them without a socket)

func rawHeader(length uint32, version uint8, typ eventType) []byte {
	h := header(make([]byte, headerSize))
	h.encode(length, version, typ)
	return h
}

// rawEvent: header-only event of the given type.
func rawEvent(version uint8, typ eventType) []byte { return rawHeader(headerSize, version, typ) }

// rawMetadata is generateShmMetadata without a session: header | len(queuePath) | queuePath | len(bufferPath) | bufferPath.
func rawMetadata(typ eventType, version uint8, queuePath, bufferPath string) []byte {
	data := make([]byte, headerSize+2+len(queuePath)+2+len(bufferPath))
	off := headerSize
	binary.BigEndian.PutUint16(data[off:off+2], uint16(len(queuePath)))
	off += 2
	off += copy(data[off:], queuePath)
	binary.BigEndian.PutUint16(data[off:off+2], uint16(len(bufferPath)))
	off += 2
	copy(data[off:], bufferPath)
	header(data).encode(uint32(len(data)), version, typ)
	return data
}

func rawEvPolling(version uint8) []byte { return rawEvent(version, typePolling) }

func rawEvStreamClose(version uint8, id uint32) []byte {
	b := make([]byte, headerSize+4)
	header(b).encode(headerSize+4, version, typeStreamClose)
	binary.BigEndian.PutUint32(b[headerSize:], id)
	return b
}

func rawEvFallback(version uint8, id uint32, status uint32, payload []byte) []byte {
	var ev fallbackDataEvent
	ev.encode(len(ev)+len(payload), version, id, status)
	return append(append([]byte{}, ev[:]...), payload...)
}

func rawEvHotRestart(version uint8, typ eventType, epoch uint64) []byte {
	b := make([]byte, headerSize+epochIDLen)
	header(b).encode(uint32(len(b)), version, typ)
	binary.BigEndian.PutUint64(b[headerSize:], epoch)
	return b
}

// ---------------------------------------------------------------------------------------------
// socket I/O of the raw peer

func (r *rawPeer) send(data []byte) error {
	if r.isClosed() {
		return errors.New("rawpeer: closed")
	}
	r.wmu.Lock()
	defer r.wmu.Unlock()
	if r.frag > 0 {
		for off := 0; off < len(data); {
			end := off + r.frag
			if end > len(data) {
				end = len(data)
			}
			n, err := unix.Write(r.fd, data[off:end])
			if err != nil {
				return err
			}
			off += n
			time.Sleep(200 * time.Microsecond)
		}
		return nil
	}
	return blockWriteFull(r.fd, data)
}

// sendFds passes descriptors with the package's sendFd (one SCM_RIGHTS message without data, as the client does).
func (r *rawPeer) sendFds(fds ...int) error {
	if r.isClosed() {
		return errors.New("rawpeer: closed")
	}
	r.wmu.Lock()
	defer r.wmu.Unlock()
	return sendFd(r.fd, unix.UnixRights(fds...))
}

func (r *rawPeer) waitReadable(timeout time.Duration) error {
	deadline := time.Now().Add(timeout)
	for {
		if r.isClosed() {
			return errors.New("rawpeer: closed")
		}
		left := time.Until(deadline)
		if left <= 0 {
			return errRawTimeout
		}
		ms := int(left / time.Millisecond)
		if ms > 200 {
			ms = 200
		}
		if ms < 1 {
			ms = 1
		}
		pfd := []unix.PollFd{{Fd: int32(r.fd), Events: unix.POLLIN}}
		n, err := unix.Poll(pfd, ms)
		if err == unix.EINTR {
			continue
		}
		if err != nil {
			return err
		}
		if n > 0 {
			return nil
		}
	}
}

// readFull reads exactly len(buf) bytes; the time-out is a watchdog (errRawTimeout).
func (r *rawPeer) readFull(buf []byte, timeout time.Duration) error {
	got := 0
	for got < len(buf) {
		if err := r.waitReadable(timeout); err != nil {
			return err
		}
		n, err := unix.Read(r.fd, buf[got:])
		if err == unix.EINTR || err == unix.EAGAIN {
			continue
		}
		if err != nil {
			return err
		}
		if n == 0 {
			return fmt.Errorf("rawpeer: EOF after %d of %d bytes", got, len(buf))
		}
		got += n
	}
	return nil
}

// recvHeader reads one 8 byte header without judging it (it is recorded).
func (r *rawPeer) recvHeader(timeout time.Duration) (header, error) {
	buf := make([]byte, headerSize)
	if err := r.readFull(buf, timeout); err != nil {
		return nil, err
	}
	h := header(buf)
	r.mu.Lock()
	r.recvd = append(r.recvd, rawRecv{Type: uint8(h.MsgType()), Version: h.Version(), Length: h.Length(), Magic: h.Magic()})
	r.mu.Unlock()
	return h, nil
}

// expectHeader reads a header and checks magic and type.
func (r *rawPeer) expectHeader(typ eventType, timeout time.Duration) (header, error) {
	h, err := r.recvHeader(timeout)
	if err != nil {
		return nil, err
	}
	if h.Magic() != magicNumber {
		return h, fmt.Errorf("rawpeer: bad magic %#x", h.Magic())
	}
	if h.MsgType() != typ {
		return h, fmt.Errorf("rawpeer: expected %s, got %s", typ.String(), h.MsgType().String())
	}
	return h, nil
}

// recvMetadata reads the body that follows a metadata header and decodes both paths.
func (r *rawPeer) recvMetadata(h header, timeout time.Duration) (queuePath, bufferPath string, err error) {
	if h.Length() < headerSize || h.Length() > 1<<16 {
		return "", "", fmt.Errorf("rawpeer: metadata length %d", h.Length())
	}
	body := make([]byte, h.Length()-headerSize)
	if err = r.readFull(body, timeout); err != nil {
		return
	}
	if len(body) < 2 {
		return "", "", errors.New("rawpeer: metadata too short")
	}
	ql := int(binary.BigEndian.Uint16(body))
	if len(body) < 2+ql+2 {
		return "", "", errors.New("rawpeer: metadata too short")
	}
	queuePath = string(body[2 : 2+ql])
	bl := int(binary.BigEndian.Uint16(body[2+ql:]))
	if len(body) < 2+ql+2+bl {
		return "", "", errors.New("rawpeer: metadata too short")
	}
	bufferPath = string(body[2+ql+2 : 2+ql+2+bl])
	return
}

// recvFds receives the SCM_RIGHTS message of the memfd exchange.
func (r *rawPeer) recvFds(timeout time.Duration) ([]int, error) {
	if err := r.waitReadable(timeout); err != nil {
		return nil, err
	}
	oob := make([]byte, unix.CmsgSpace(memfdCount*memfdDataLen))
	oobn, err := blockReadOutOfBoundForFd(r.fd, oob)
	if err != nil {
		return nil, err
	}
	if oobn == 0 {
		return nil, errors.New("rawpeer: no control message (EOF?)")
	}
	msgs, err := unix.ParseSocketControlMessage(oob[:oobn])
	if err != nil || len(msgs) == 0 {
		return nil, fmt.Errorf("rawpeer: control message: %v", err)
	}
	fds, err := unix.ParseUnixRights(&msgs[0])
	if err != nil {
		return nil, err
	}
	r.gotFds = append(r.gotFds, fds...)
	return fds, nil
}

func (r *rawPeer) received() []rawRecv {
	r.mu.Lock()
	defer r.mu.Unlock()
	return append([]rawRecv(nil), r.recvd...)
}

func (r *rawPeer) sawType(t eventType) bool {
	for _, x := range r.received() {
		if eventType(x.Type) == t {
			return true
		}
	}
	return false
}

// ---------------------------------------------------------------------------------------------
// handshake scripts. A script is the list of protocol steps of one role in one exchange; a scenario runs it
// up to a step and then deviates, or runs it completely. Steps are either "send" or "recv" from the raw
// peer's point of view.

type rawStep struct {
	Name    string
	Send    bool
	HasBody bool                                     // the message has a body after the header (can be cut in the middle)
	bytes   func(r *rawPeer) []byte                  // send steps that are plain bytes
	run     func(r *rawPeer, to time.Duration) error // everything else
}

// Exchanges (raw peer's role and generation):
//
//	c3m  client, protocol 3, memfd:  >Exchange <Exchange >MetaMemfd <AckReadyRecvFD >Fds <AckShareMemory
//	c3f  client, protocol 3, files:  >Exchange <Exchange >MetaFile <AckShareMemory
//	c2f  client, protocol 2, files:  >MetaFile(v2)
//	s3m  server for a memfd client:  <Exchange >Exchange <MetaMemfd >AckReadyRecvFD <Fds(map) >AckShareMemory
//	s2f  server for a v2 client:     <MetaFile(map)
//	s2dg server that answers the version exchange with version 2 (downgrade): <Exchange >Exchange(v2) <MetaFile(v2)
func rawScript(kind string) []rawStep {
	sendBytes := func(name string, body bool, f func(r *rawPeer) []byte) rawStep {
		return rawStep{Name: name, Send: true, HasBody: body, bytes: f}
	}
	recvType := func(name string, typ eventType) rawStep {
		return rawStep{Name: name, run: func(r *rawPeer, to time.Duration) error {
			_, err := r.expectHeader(typ, to)
			return err
		}}
	}
	switch kind {
	case "c3m":
		return []rawStep{
			sendBytes(">Exchange", false, func(r *rawPeer) []byte {
				return rawEvent(r.announced(maxSupportProtoVersion), typeExchangeProtoVersion)
			}),
			{Name: "<Exchange", run: rawRecvExchangeReply},
			sendBytes(">MetaMemfd", true, func(r *rawPeer) []byte {
				return rawMetadata(typeShareMemoryByMemfd, r.version, r.queuePath, r.bufferPath)
			}),
			recvType("<AckReadyRecvFD", typeAckReadyRecvFD),
			{Name: ">Fds", Send: true, run: func(r *rawPeer, to time.Duration) error {
				return r.sendFds(r.bmFd, r.qm.memFd)
			}},
			recvType("<AckShareMemory", typeAckShareMemory),
		}
	case "c3f":
		return []rawStep{
			sendBytes(">Exchange", false, func(r *rawPeer) []byte {
				return rawEvent(r.announced(maxSupportProtoVersion), typeExchangeProtoVersion)
			}),
			{Name: "<Exchange", run: rawRecvExchangeReply},
			sendBytes(">MetaFile", true, func(r *rawPeer) []byte {
				return rawMetadata(typeShareMemoryByFilePath, r.version, r.queuePath, r.bufferPath)
			}),
			recvType("<AckShareMemory", typeAckShareMemory),
		}
	case "c2f":
		return []rawStep{
			sendBytes(">MetaFile", true, func(r *rawPeer) []byte {
				return rawMetadata(typeShareMemoryByFilePath, r.announced(2), r.queuePath, r.bufferPath)
			}),
		}
	case "s3m":
		var qp, bp string
		return []rawStep{
			recvType("<Exchange", typeExchangeProtoVersion),
			sendBytes(">Exchange", false, func(r *rawPeer) []byte { return rawEvent(maxSupportProtoVersion, typeExchangeProtoVersion) }),
			{Name: "<MetaMemfd", run: func(r *rawPeer, to time.Duration) error {
				h, err := r.expectHeader(typeShareMemoryByMemfd, to)
				if err != nil {
					return err
				}
				qp, bp, err = r.recvMetadata(h, to)
				return err
			}},
			sendBytes(">AckReadyRecvFD", false, func(r *rawPeer) []byte { return rawEvent(r.version, typeAckReadyRecvFD) }),
			{Name: "<Fds", run: func(r *rawPeer, to time.Duration) error {
				fds, err := r.recvFds(to)
				if err != nil {
					return err
				}
				if len(fds) < memfdCount {
					return fmt.Errorf("rawpeer: %d descriptors received", len(fds))
				}
				return r.mapShmFds(qp, bp, fds[0], fds[1])
			}},
			sendBytes(">AckShareMemory", false, func(r *rawPeer) []byte { return rawEvent(r.version, typeAckShareMemory) }),
		}
	case "s2f":
		return []rawStep{
			{Name: "<MetaFile", run: func(r *rawPeer, to time.Duration) error {
				h, err := r.expectHeader(typeShareMemoryByFilePath, to)
				if err != nil {
					return err
				}
				r.version = h.Version()
				qp, bp, err := r.recvMetadata(h, to)
				if err != nil {
					return err
				}
				return r.mapShmFiles(qp, bp)
			}},
		}
	case "s2dg":
		return []rawStep{
			recvType("<Exchange", typeExchangeProtoVersion),
			sendBytes(">Exchange(v2)", false, func(r *rawPeer) []byte { return rawEvent(2, typeExchangeProtoVersion) }),
			{Name: "<Meta", run: func(r *rawPeer, to time.Duration) error {
				h, err := r.recvHeader(to)
				if err != nil {
					return err
				}
				if h.Length() > headerSize && h.Length() < 1<<16 {
					body := make([]byte, h.Length()-headerSize)
					return r.readFull(body, to)
				}
				return nil
			}},
		}
	}
	panic("rawScript: unknown kind " + kind)
}

// announced: the version a client script puts into its first message.
func (r *rawPeer) announced(def uint8) uint8 {
	if r.announce != 0 {
		return r.announce
	}
	return def
}

// rawRecvExchangeReply: a client reads the server's version and settles on min(own, server's) for everything it sends
// afterwards, as a client that really supports `announce` would.
func rawRecvExchangeReply(r *rawPeer, to time.Duration) error {
	h, err := r.expectHeader(typeExchangeProtoVersion, to)
	if err != nil {
		return err
	}
	if v := uint8(minInt(int(r.announced(maxSupportProtoVersion)), int(h.Version()))); v != 0 {
		r.version = v
	}
	return nil
}

// doStep executes one step completely.
func (r *rawPeer) doStep(st rawStep, to time.Duration) error {
	if st.bytes != nil {
		return r.send(st.bytes(r))
	}
	return st.run(r, to)
}

// runScript executes steps [from, to) of a script; returns the index of the first step that failed (or `to`).
func (r *rawPeer) runScript(steps []rawStep, from, to int, timeout time.Duration, delay func()) (int, error) {
	for i := from; i < to && i < len(steps); i++ {
		if delay != nil {
			delay()
		}
		if err := r.doStep(steps[i], timeout); err != nil {
			return i, fmt.Errorf("step %d %s: %w", i, steps[i].Name, err)
		}
	}
	return to, nil
}

// rawWrongType returns a well-formed header-only event whose type differs from what the step would send and
// from what the receiver could accept at that point of the exchange.
func rawWrongType(stepName string, version uint8) []byte {
	var t eventType
	switch stepName {
	case ">Exchange", ">Exchange(v2)":
		t = typeAckShareMemory
	case ">MetaMemfd", ">MetaFile":
		t = typeAckReadyRecvFD
	case ">AckReadyRecvFD":
		t = typeAckShareMemory
	case ">AckShareMemory":
		t = typeAckReadyRecvFD
	case ">Fds":
		t = typePolling // bytes instead of a control message
	default:
		t = typeHotRestartAck
	}
	return rawEvent(version, t)
}

// ---------------------------------------------------------------------------------------------
// complete handshakes (used by C13 and by the success cases of C12)

// rawClientHandshake plays a whole client exchange ("c3m", "c3f", "c2f"). The shared memory must exist (createShm).
func (r *rawPeer) rawClientHandshake(kind string, timeout time.Duration) error {
	steps := rawScript(kind)
	if kind == "c2f" {
		r.version = 2
	} else {
		r.version = maxSupportProtoVersion
	}
	_, err := r.runScript(steps, 0, len(steps), timeout, nil)
	return err
}

// rawServerHandshake answers whatever client connects (v2 files, v3 memfd) and maps its memory.
func (r *rawPeer) rawServerHandshake(timeout time.Duration) error {
	h, err := r.recvHeader(timeout)
	if err != nil {
		return err
	}
	if h.Magic() != magicNumber {
		return fmt.Errorf("rawpeer: bad magic %#x", h.Magic())
	}
	switch h.MsgType() {
	case typeShareMemoryByFilePath:
		r.version = h.Version()
		qp, bp, err := r.recvMetadata(h, timeout)
		if err != nil {
			return err
		}
		return r.mapShmFiles(qp, bp)
	case typeExchangeProtoVersion:
		r.version = uint8(minInt(int(h.Version()), int(maxSupportProtoVersion)))
		steps := rawScript("s3m")
		_, err := r.runScript(steps, 1, len(steps), timeout, nil)
		return err
	}
	return fmt.Errorf("rawpeer: unexpected first event %s", h.MsgType().String())
}

// ---------------------------------------------------------------------------------------------
// stream data through shared memory (after a completed handshake)

// shmPut writes payload into one freshly allocated slice and enqueues it for the peer (no wake-up).
// The payload must fit one slice. Returns the slice offset.
func (r *rawPeer) shmPut(streamID uint32, payload []byte, state streamState) (uint32, error) {
	var off uint32
	if state != streamClosed || len(payload) > 0 {
		sl, err := r.bm.allocShmBuffer(uint32(len(payload)))
		if err != nil {
			return 0, err
		}
		sl.append(payload...)
		sl.update()
		off = sl.offsetInShm
		putBackBufferSlice(sl)
	}
	err := r.qm.sendQueue.put(queueElement{seqID: streamID, offsetInShmBuf: off, status: uint32(state)})
	return off, err
}

// wake marks the peer's consumer working and reports whether a polling event has to be sent.
func (r *rawPeer) wakeNeeded() bool { return r.qm.sendQueue.markWorking() }

// shmPop drains the raw peer's receive queue the way handlePolling does; returns (streamID, state, data) triples.
type rawShmMsg struct {
	ID    uint32
	State uint32
	Data  []byte
}

func (r *rawPeer) shmPopAll() (out []rawShmMsg, err error) {
	for {
		for {
			ele, e := r.qm.recvQueue.pop()
			if e != nil {
				break
			}
			m := rawShmMsg{ID: ele.seqID, State: ele.status & 0xff}
			if streamState(m.State) == streamOpened {
				off := ele.offsetInShmBuf
				for {
					sl, e := r.bm.readBufferSlice(off)
					if e != nil {
						return out, e
					}
					m.Data = append(m.Data, sl.data[sl.readIndex:sl.writeIndex]...)
					has, next := sl.hasNext(), sl.nextBufferOffset()
					r.bm.recycleBuffer(sl)
					if !has {
						break
					}
					off = next
				}
			}
			out = append(out, m)
		}
		if r.qm.recvQueue.markNotWorking() {
			return out, nil
		}
	}
}

// drainOwnSendQueue takes back elements the peer never consumed (so that buffers are returned before teardown).
func (r *rawPeer) drainOwnSendQueue() {
	if r.qm == nil || r.bm == nil {
		return
	}
	for {
		ele, e := r.qm.sendQueue.pop()
		if e != nil {
			return
		}
		if streamState(ele.status&0xff) == streamOpened {
			if sl, e := r.bm.readBufferSlice(ele.offsetInShmBuf); e == nil {
				r.bm.recycleBuffers(sl)
			}
		}
	}
}

// awaitStream reads what the library end sends (polling events -> drain the queue, fallback data events, stream close
// events) until `want` bytes of streamID have arrived and, if wantClose, its close has been seen. The time-out is a watchdog.
func (r *rawPeer) awaitStream(streamID uint32, want int, wantClose bool, timeout time.Duration) (data []byte, viaSocket int, closed bool, err error) {
	deadline := time.Now().Add(timeout)
	for len(data) < want || (wantClose && !closed) {
		left := time.Until(deadline)
		if left <= 0 {
			return data, viaSocket, closed, errRawTimeout
		}
		var h header
		if h, err = r.recvHeader(left); err != nil {
			return
		}
		switch h.MsgType() {
		case typePolling:
			var msgs []rawShmMsg
			if msgs, err = r.shmPopAll(); err != nil {
				return
			}
			for _, m := range msgs {
				if m.ID != streamID {
					continue
				}
				if streamState(m.State) == streamClosed {
					closed = true
				} else {
					data = append(data, m.Data...)
				}
			}
		case typeFallbackData:
			if h.Length() < headerSize+8 || h.Length() > 1<<24 {
				return data, viaSocket, closed, fmt.Errorf("rawpeer: fallback event length %d", h.Length())
			}
			body := make([]byte, h.Length()-headerSize)
			if err = r.readFull(body, left); err != nil {
				return
			}
			if binary.BigEndian.Uint32(body[:4]) == streamID {
				viaSocket++
				data = append(data, body[8:]...)
			}
		case typeStreamClose:
			body := make([]byte, 4)
			if err = r.readFull(body, left); err != nil {
				return
			}
			if binary.BigEndian.Uint32(body) == streamID {
				closed = true
			}
		default:
			return data, viaSocket, closed, fmt.Errorf("rawpeer: unexpected event %s", h.MsgType().String())
		}
	}
	return
}

// rawRoundTrip sends payload on streamID through shared memory to a library *server* that echoes, and returns the
// echoed bytes, also taken from shared memory. viaSocket counts fallback data events seen instead.
func (r *rawPeer) rawRoundTrip(streamID uint32, payload []byte, timeout time.Duration) (echo []byte, viaSocket int, err error) {
	if _, err = r.shmPut(streamID, payload, streamOpened); err != nil {
		return
	}
	if r.wakeNeeded() {
		if err = r.send(rawEvPolling(r.version)); err != nil {
			return
		}
	}
	deadline := time.Now().Add(timeout)
	for len(echo) < len(payload) {
		left := time.Until(deadline)
		if left <= 0 {
			return echo, viaSocket, errRawTimeout
		}
		var h header
		if h, err = r.recvHeader(left); err != nil {
			return
		}
		switch h.MsgType() {
		case typePolling:
			var msgs []rawShmMsg
			if msgs, err = r.shmPopAll(); err != nil {
				return
			}
			for _, m := range msgs {
				if m.ID == streamID {
					echo = append(echo, m.Data...)
				}
			}
		case typeFallbackData:
			viaSocket++
			body := make([]byte, h.Length()-headerSize)
			if err = r.readFull(body, left); err != nil {
				return
			}
			if len(body) >= 8 {
				echo = append(echo, body[8:]...)
			}
		case typeStreamClose:
			body := make([]byte, 4)
			if err = r.readFull(body, left); err != nil {
				return
			}
		default:
			return echo, viaSocket, fmt.Errorf("rawpeer: unexpected event %s", h.MsgType().String())
		}
	}
	return
}
