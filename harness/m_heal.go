package shmipc

// C17: the session manager heals lost sessions and only those.
// Listener(s) + SessionManager in one process, rebuild interval 60..200 ms, callers polling GetStream throughout.
// Losses: a server-side session closed, all of them, the server gone and back after a delay; hot restart interplay;
// SessionManager.Close. Oracles: healed within rebuild interval + slack once the server is reachable; calls in between
// fail rather than hang; the servers accepted exactly initial + lost sessions (no double rebuild); after Close no watcher
// goroutine is left and no new connection reaches the listener.

import (
	"fmt"
	"math/rand"
	"os"
	"path/filepath"
	"sync"
	"sync/atomic"
	"time"
)

func init() {
	verifChecks["C17"] = checkHeal
}

type healCase struct {
	Idx      int    `json:"idx"`
	Scenario string `json:"scenario"` // one-lost | all-lost | repeated | server-restart | hot-restart-then-old-closes | manager-close | f3-directed | loss-then-hot-restart | close-during-rebuild
	Pools    int    `json:"pools"`
	Memfd    bool   `json:"memfd"`
	Interval int    `json:"rebuild_interval_ms"`
	Callers  int    `json:"callers"`
	Seed     int64  `json:"seed"`
}

type healResult struct {
	viol      []string
	inconcl   string
	known     string
	calls     int64
	callsOK   int64
	callsErr  int64
	maxCallMs int64
	losses    int
	healMs    []int64
	accepted  int64
	rebuilds  int64
}

func healAllPoolsWork(sm *SessionManager, pools int, nextID *uint64) bool {
	for i := 0; i < pools*sessionRoundRobinThreshold; i++ {
		if _, err := hrRoundTrip(sm, atomic.AddUint64(nextID, 1)); err != nil {
			return false
		}
	}
	return true
}

func runHealCase(c *checkCtx, cs healCase, can *canary) (res healResult) {
	rng := rand.New(rand.NewSource(cs.Seed))
	violate := func(format string, a ...interface{}) {
		if len(res.viol) < 6 {
			res.viol = append(res.viol, fmt.Sprintf(format, a...))
		}
	}
	path := filepath.Join(sockDir(), fmt.Sprintf("heal%d.sock", atomic.AddUint64(&pairSeq, 1)))
	srv, err := startPoolServerAt(path, 1, true)
	if err != nil {
		res.inconcl = "listener: " + err.Error()
		return
	}
	defer os.Remove(path)
	servers := []*poolServer{srv}
	defer func() {
		for _, s := range servers {
			s.ln.Close()
		}
	}()
	acceptedTotal := func() int64 {
		var n int64
		for _, s := range servers {
			n += atomic.LoadInt64(&s.sessionsSeen)
		}
		return n
	}
	smc := DefaultSessionManagerConfig()
	conf, _ := newTestConfig(pairOpt{memfd: cs.Memfd, sizes: smallSizes(256, 30, 4096, 70), bufCap: 2 << 20, initTO: 3 * time.Second})
	smc.Config = conf
	smc.Network = "unix"
	smc.Address = path
	smc.SessionNum = cs.Pools
	smc.MaxStreamNum = 16
	interval := time.Duration(cs.Interval) * time.Millisecond
	smc.Config.rebuildInterval = interval
	watchersBefore := goroutineCount("(*SessionManager).background.func1")
	sm, err := NewSessionManager(smc)
	if err != nil {
		res.inconcl = "session manager: " + err.Error()
		return
	}
	smClosed := false
	defer func() {
		if !smClosed {
			// bounded: a manager whose watchers never leave (e.g. stuck in hot-restart state) must not wedge the check
			done := make(chan struct{})
			go func() { sm.Close(); close(done) }()
			select {
			case <-done:
			case <-time.After(20 * time.Second):
				if can.healthy(300*time.Millisecond) && len(res.viol) < 6 {
					sm.RLock()
					st := sm.state
					sm.RUnlock()
					res.viol = append(res.viol, fmt.Sprintf("SessionManager.Close did not return within 20 s at the end of scenario %s (manager state %d)", cs.Scenario, st))
				}
			}
		}
		fenceN(2)
	}()
	var nextID uint64
	// Known finding F2: stream use that overlaps a session teardown is process-fatal; losses are therefore injected while no
	// caller is inside a stream operation (see C15), and callers observe the loss at their next call.
	var world sync.RWMutex
	stop := make(chan struct{})
	var cwg sync.WaitGroup
	for g := 0; g < cs.Callers; g++ {
		cwg.Add(1)
		go func() {
			defer cwg.Done()
			for {
				select {
				case <-stop:
					return
				default:
				}
				world.RLock()
				t0 := time.Now()
				_, err := hrRoundTrip(sm, atomic.AddUint64(&nextID, 1))
				d := time.Since(t0).Milliseconds()
				world.RUnlock()
				atomic.AddInt64(&res.calls, 1)
				if err == nil {
					atomic.AddInt64(&res.callsOK, 1)
				} else {
					atomic.AddInt64(&res.callsErr, 1)
					time.Sleep(time.Duration(200+rand.Intn(500)) * time.Microsecond)
				}
				for {
					old := atomic.LoadInt64(&res.maxCallMs)
					if d <= old || atomic.CompareAndSwapInt64(&res.maxCallMs, old, d) {
						break
					}
				}
			}
		}()
	}
	stopCallers := func() { close(stop); cwg.Wait() }
	waitSessions := func(s *poolServer, n int) bool {
		return waitUntil(10*time.Second, func() bool { return len(s.sessionList()) == n })
	}
	// firstOf: one registered session of a server (a session is registered a moment after its handshake; under load the list
	// may still be empty when a scenario gets here). nil: none showed up in 10 s.
	firstOf := func(s *poolServer) []*Session {
		var l []*Session
		waitUntil(10*time.Second, func() bool { l = s.sessionList(); return len(l) > 0 })
		if len(l) == 0 {
			if res.inconcl == "" {
				res.inconcl = "no session registered at the server when the scenario wanted to lose one"
			}
			return nil
		}
		return l[:1]
	}
	if !waitSessions(srv, cs.Pools) {
		stopCallers()
		res.inconcl = "server did not register all sessions"
		return
	}
	// lose: close the given server-side sessions while no caller is inside a stream operation; returns when both ends are down
	lose := func(victims []*Session) {
		world.Lock()
		defer world.Unlock()
		var peers []*Session
		sm.RLock()
		for _, v := range victims {
			name := v.sessionName()
			for _, p := range sm.pools {
				if s := p.Session(); s != nil && s.sessionName() == name {
					peers = append(peers, s)
				}
			}
		}
		sm.RUnlock()
		for _, v := range victims {
			v.Close()
			res.losses++
		}
		for _, v := range victims {
			waitTeardown(v, 10*time.Second)
		}
		for _, p := range peers {
			waitUntil(10*time.Second, func() bool { fenceOnce(5 * time.Second); return p.IsClosed() })
			waitTeardown(p, 10*time.Second)
		}
	}
	healBound := interval + 3*time.Second
	expectHeal := func(what string) bool {
		can.reset()
		t0 := time.Now()
		ok := waitUntil(healBound, func() bool {
			world.RLock()
			defer world.RUnlock()
			return healAllPoolsWork(sm, cs.Pools, &nextID)
		})
		res.healMs = append(res.healMs, time.Since(t0).Milliseconds())
		if !ok {
			if can.healthy(200 * time.Millisecond) {
				violate("%s: GetStream still fails %v after the loss although the server is reachable (rebuild interval %v)", what, healBound, interval)
			} else {
				res.inconcl = "not healed in time, machine overloaded"
			}
		}
		return ok
	}
	expectAccepted := func(want int64, what string) {
		// give a possible extra (double) rebuild time to show up
		time.Sleep(2*interval + 50*time.Millisecond)
		if got := acceptedTotal(); got != want {
			violate("%s: the server(s) accepted %d sessions in total, expected %d (initial %d + %d lost)", what, got, want, cs.Pools, want-int64(cs.Pools))
		}
	}
	time.Sleep(time.Duration(5+rng.Intn(20)) * time.Millisecond)
	switch cs.Scenario {
	case "one-lost":
		lose(firstOf(srv))
		if expectHeal("one session lost") {
			expectAccepted(int64(cs.Pools)+1, "one session lost")
		}
	case "all-lost":
		lose(srv.sessionList())
		if expectHeal("all sessions lost") {
			expectAccepted(int64(2*cs.Pools), "all sessions lost")
		}
	case "repeated":
		want := int64(cs.Pools)
		for r := 0; r < 3 && len(res.viol) == 0 && res.inconcl == ""; r++ {
			ss := srv.sessionList()
			if len(ss) == 0 {
				break
			}
			lose(ss[:1])
			want++
			if !expectHeal(fmt.Sprintf("loss #%d", r+1)) {
				break
			}
			waitSessions(srv, cs.Pools)
		}
		if len(res.viol) == 0 && res.inconcl == "" {
			expectAccepted(want, "repeated losses")
		}
	case "server-restart":
		// the server disappears (listener closed, every session with it) and comes back after a delay
		func() {
			world.Lock()
			defer world.Unlock()
			sm.RLock()
			var peers []*Session
			for _, p := range sm.pools {
				peers = append(peers, p.Session())
			}
			sm.RUnlock()
			srv.ln.Close()
			os.Remove(path)
			res.losses += cs.Pools
			for _, p := range peers {
				waitUntil(10*time.Second, func() bool { fenceOnce(5 * time.Second); return p.IsClosed() })
				waitTeardown(p, 10*time.Second)
			}
		}()
		// unreachable for a while: calls must fail, not hang (judged through maxCallMs below)
		time.Sleep(time.Duration(1+rng.Intn(3)) * interval)
		srv2, err := startPoolServerAt(path, 2, true)
		if err != nil {
			res.inconcl = "second listener: " + err.Error()
			break
		}
		servers = append(servers, srv2)
		if expectHeal("server restarted") {
			expectAccepted(int64(2*cs.Pools), "server restarted")
		}
	case "hot-restart-then-old-closes", "f3-directed":
		nw, err := startPoolServerAt(path, 2, true)
		if err != nil {
			res.inconcl = "new listener: " + err.Error()
			break
		}
		servers = append(servers, nw)
		if err := srv.ln.HotRestart(77); err != nil {
			res.inconcl = "HotRestart: " + err.Error()
			break
		}
		done := waitUntil(8*time.Second, func() bool {
			sm.RLock()
			defer sm.RUnlock()
			if sm.state == hotRestartState || !srv.ln.IsHotRestartDone() {
				return false
			}
			for _, p := range sm.pools {
				if p.Session().epochID != 77 {
					return false
				}
			}
			return true
		})
		if !done {
			res.inconcl = "hot restart did not complete (C16's subject)"
			break
		}
		if cs.Scenario == "hot-restart-then-old-closes" {
			// the old server lets go: the replaced sessions close; they must NOT be rebuilt a second time
			func() {
				world.Lock()
				defer world.Unlock()
				srv.ln.Close()
				sm.RLock()
				var olds []*Session
				for _, p := range sm.reservePools {
					olds = append(olds, p.Session())
				}
				sm.RUnlock()
				for _, o := range olds {
					waitUntil(10*time.Second, func() bool { fenceOnce(5 * time.Second); return o.IsClosed() })
					waitTeardown(o, 10*time.Second)
				}
			}()
			time.Sleep(3*interval + 100*time.Millisecond)
			waitUntil(5*time.Second, func() bool { return len(nw.sessionList()) >= cs.Pools })
			time.Sleep(2 * time.Millisecond)
			if n := len(nw.sessionList()); n != cs.Pools {
				violate("after hot restart and the old server's exit the new listener holds %d sessions, expected %d (sessions replaced by the hot restart were rebuilt again)", n, cs.Pools)
			}
			if got := atomic.LoadInt64(&nw.sessionsSeen); got != int64(cs.Pools) {
				violate("the new listener accepted %d sessions, expected %d", got, cs.Pools)
			}
			world.RLock()
			ok := healAllPoolsWork(sm, cs.Pools, &nextID)
			world.RUnlock()
			if !ok {
				violate("GetStream fails after hot restart + old server exit")
			}
			// and a loss of a new-epoch session now heals like any other
			if len(res.viol) == 0 {
				lose(firstOf(nw))
				expectHeal("new-epoch session lost after the old server exited")
			}
		} else {
			// F3 directed: lose a new-epoch session while the session it replaced is still open
			lose(firstOf(nw))
			can.reset()
			healed := waitUntil(healBound, func() bool {
				world.RLock()
				defer world.RUnlock()
				return healAllPoolsWork(sm, cs.Pools, &nextID)
			})
			if !healed && can.healthy(200*time.Millisecond) {
				res.known = fmt.Sprintf("a session installed by hot restart was lost while the session it replaced was still open: not rebuilt within %v (rebuild interval %v)", healBound, interval)
				// it must heal once the replaced session closes
				func() {
					world.Lock()
					defer world.Unlock()
					srv.ln.Close()
					time.Sleep(20 * time.Millisecond)
					fenceN(3)
				}()
				if !waitUntil(healBound+2*time.Second, func() bool {
					world.RLock()
					defer world.RUnlock()
					return healAllPoolsWork(sm, cs.Pools, &nextID)
				}) && can.healthy(200*time.Millisecond) {
					violate("lost new-epoch session is not rebuilt even after the replaced session closed")
				}
			}
		}
	case "loss-then-hot-restart":
		// a session is lost and, before its rebuild timer fires, the server hot-restarts: the dead session cannot take part in the
		// hot restart, so its slot is not replaced; it must still be rebuilt (against the new server) like any other lost session
		lose(firstOf(srv))
		nw, err := startPoolServerAt(path, 2, true)
		if err != nil {
			res.inconcl = "new listener: " + err.Error()
			break
		}
		servers = append(servers, nw)
		if err := srv.ln.HotRestart(78); err != nil {
			res.inconcl = "HotRestart: " + err.Error()
			break
		}
		sawHot := waitUntil(3*time.Second, func() bool { sm.RLock(); defer sm.RUnlock(); return sm.epoch == 78 })
		if !sawHot {
			res.inconcl = "the hot restart event did not reach the manager"
			break
		}
		// an incomplete hot restart (one slot cannot answer) ends by its own timeout (2 s); then the old server exits
		if !waitUntil(8*time.Second, func() bool { sm.RLock(); defer sm.RUnlock(); return sm.state != hotRestartState }) {
			res.inconcl = "manager still in hot restart state after 8 s"
			break
		}
		func() {
			world.Lock()
			defer world.Unlock()
			srv.ln.Close()
			time.Sleep(20 * time.Millisecond)
			fenceN(3)
		}()
		expectHeal("session lost just before a hot restart, old server gone")
	case "close-during-rebuild":
		// SessionManager.Close while a watcher is inside a rebuild attempt: when Close has returned, no pool may hold a live
		// session, nothing may stay connected to the server and GetStream must fail
		stopCallers()
		stop = make(chan struct{})
		atRebuild := make(chan struct{}, 1)
		release := make(chan struct{})
		healParkers.Store(sm, func() {
			select {
			case atRebuild <- struct{}{}:
			default:
			}
			select {
			case <-release:
			case <-time.After(10 * time.Second):
			}
		})
		defer healParkers.Delete(sm)
		lose(firstOf(srv))
		select {
		case <-atRebuild:
		case <-time.After(interval + 8*time.Second):
			res.inconcl = "no rebuild attempt observed"
			close(release)
			return
		}
		closed := make(chan struct{})
		go func() { sm.Close(); close(closed) }()
		smClosed = true
		time.Sleep(30 * time.Millisecond) // Close is now waiting for the watcher (which is parked just before its dial)
		close(release)
		can.reset()
		select {
		case <-closed:
		case <-time.After(15 * time.Second):
			if can.healthy(200 * time.Millisecond) {
				violate("SessionManager.Close did not return within 15 s while a rebuild was in flight")
			} else {
				res.inconcl = "Close slow, machine overloaded"
			}
			return
		}
		fenceN(3)
		for i, p := range sm.pools {
			if s := p.Session(); s != nil && !s.IsClosed() {
				violate("after SessionManager.Close returned, pool %d holds a live session (%s): a rebuild that was in flight during Close survived it", i, s.sessionName())
			}
		}
		if st, err := sm.GetStream(); err == nil {
			violate("GetStream succeeded on a closed SessionManager (stream %d)", st.StreamID())
		}
		if !waitUntil(5*time.Second, func() bool { fenceOnce(5 * time.Second); return len(srv.sessionList()) == 0 }) && can.healthy(200*time.Millisecond) {
			violate("%d server-side session(s) still connected 5 s after SessionManager.Close returned", len(srv.sessionList()))
		}
		res.accepted = acceptedTotal()
		return
	case "manager-close":
		stopCallers()
		stop = make(chan struct{})
		sm.Close()
		smClosed = true
		fenceN(3)
		before := acceptedTotal()
		// whatever happens to the (already closed) sessions now, nothing may be rebuilt
		time.Sleep(3*interval + 100*time.Millisecond)
		if n := goroutineCount("(*SessionManager).background.func1"); n > watchersBefore {
			violate("%d watcher goroutine(s) still alive after SessionManager.Close", n-watchersBefore)
		}
		if after := acceptedTotal(); after != before {
			violate("a new connection reached the listener after SessionManager.Close (%d -> %d accepted sessions)", before, after)
		}
		res.accepted = acceptedTotal()
		return
	}
	stopCallers()
	res.accepted = acceptedTotal()
	// "calls made in between fail with an error rather than hang": no call took longer than the progress bound
	if res.maxCallMs > 12000 && can.healthy(200*time.Millisecond) {
		violate("a GetStream/round-trip call took %d ms", res.maxCallMs)
	}
	return
}

var healExclusive sync.RWMutex

// healParkers: SessionManager -> function run by that manager's watcher just before a rebuild dials (hook vpSMRebuildBefore)
var healParkers sync.Map

func checkHeal(c *checkCtx) {
	c.rule = "scenario list (one session lost, all lost, three losses in a row, server gone and back after 1..3 intervals, hot restart followed by the old " +
		"server's exit and then a loss, SessionManager.Close, directed F3, a loss followed by a hot restart inside the rebuild interval, SessionManager.Close while a rebuild is in flight) x 1..3 pools x file/memfd x rebuild interval 60..200 ms, callers polling " +
		"GetStream throughout; non-trivial = at least one loss was injected and callers observed failing calls in between (or, for manager-close, the " +
		"goroutine/accept census was taken); distinct = distinct (scenario, pools, mapping, interval, bucketed heal time)"
	c.assume("bounded-progress bound for healing: rebuild interval + 3 s with a healthy canary")
	c.assume("losses are injected while no caller is inside a stream operation (known finding F2 is C14's subject); callers observe the loss at their next call")
	can := startCanary()
	defer can.close()
	scen := []string{"one-lost", "all-lost", "repeated", "server-restart", "hot-restart-then-old-closes", "manager-close", "f3-directed",
		"loss-then-hot-restart", "close-during-rebuild"}
	k := newCtl("heal", c.seed)
	k.on(vpSMRebuildBefore, func(obj interface{}, n int64) {
		if f, ok := healParkers.Load(obj); ok {
			f.(func())()
		}
	})
	k.install()
	defer uninstallCtl()
	n := c.pick(18, 360)
	var mu sync.Mutex
	var wg sync.WaitGroup
	sem := make(chan struct{}, 3)
	for i := 0; i < n; i++ {
		rng := caseRand(c.seed, 700000+i)
		cs := healCase{Idx: i, Scenario: scen[i%len(scen)], Pools: 1 + rng.Intn(3), Memfd: rng.Intn(2) == 0,
			Interval: []int{60, 100, 200}[rng.Intn(3)], Callers: 2 + rng.Intn(5), Seed: rng.Int63()}
		if cs.Scenario == "loss-then-hot-restart" {
			// the hot restart must begin inside the rebuild interval of the lost session, and one slot must be left to carry it
			cs.Interval = 600
			if cs.Pools < 2 {
				cs.Pools = 2
			}
		}
		wg.Add(1)
		sem <- struct{}{}
		go func(cs healCase) {
			defer wg.Done()
			defer func() { <-sem }()
			// the goroutine census of "manager-close" is process-wide: that scenario runs alone
			if cs.Scenario == "manager-close" {
				healExclusive.Lock()
				defer healExclusive.Unlock()
			} else {
				healExclusive.RLock()
				defer healExclusive.RUnlock()
			}
			res := runHealCase(c, cs, can)
			if res.inconcl != "" {
				res = runHealCase(c, cs, can)
			}
			mu.Lock()
			defer mu.Unlock()
			c.eval(1)
			name := fmt.Sprintf("heal-%d-%s", cs.Idx, cs.Scenario)
			c.count("GetStream/round-trip calls", res.calls)
			c.count("calls that succeeded", res.callsOK)
			c.count("calls that failed with an error (during a loss)", res.callsErr)
			c.count("sessions lost (injected)", int64(res.losses))
			c.count("sessions accepted by the servers", res.accepted)
			c.count("scenario."+cs.Scenario, 1)
			if res.inconcl != "" {
				c.inconclusiveCase(name, res.inconcl)
				return
			}
			hb := int64(-1)
			if len(res.healMs) > 0 {
				hb = res.healMs[0] / 100
			}
			if res.losses > 0 || cs.Scenario == "manager-close" {
				c.nontrivial(fmt.Sprintf("%s/%d/%v/%d/%d", cs.Scenario, cs.Pools, cs.Memfd, cs.Interval, hb))
			}
			if cs.Idx < 7 {
				c.sample(map[string]interface{}{"case": cs, "heal_ms": res.healMs, "calls_ok": res.callsOK, "calls_failed": res.callsErr, "max_call_ms": res.maxCallMs})
			}
			if res.known != "" {
				c.knownFindingHit("F3", name, map[string]interface{}{"case": cs, "what": res.known}, "%s", res.known)
			}
			if len(res.viol) > 0 {
				c.violation(name, map[string]interface{}{"case": cs, "violations": res.viol, "heal_ms": res.healMs}, "%s", res.viol[0])
			}
		}(cs)
	}
	wg.Wait()
}
