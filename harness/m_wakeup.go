package shmipc

// C05: an enqueued element is never stranded without a wake-up.
// Real session pairs; bursts of small echo round trips from many producer goroutines so that both consumers
// (server for requests, client for replies) repeatedly go idle while producers arrive. After every burst the
// quiescence predicate of the property is evaluated: producers have returned, every polling event sent has been
// received and handled (the library's own counters + a fence on the event loop), and then a non-empty receive
// queue with an idle consumer is a stranded element.

import (
	"bufio"
	"fmt"
	"math/rand"
	"net"
	"os"
	"path/filepath"
	"strings"
	"sync"
	"sync/atomic"
	"time"
)

func init() {
	verifChecks["C05"] = checkWakeup
}

type wkCase struct {
	Idx      int    `json:"idx"`
	QueueCap uint32 `json:"queue_cap"`
	Streams  int    `json:"streams"`
	Workers  int    `json:"producers"`
	Bursts   int    `json:"bursts"`
	BurstLen int    `json:"messages_per_burst"`
	MsgSize  int    `json:"message_size"`
	Memfd    bool   `json:"memfd"`
	Profile  string `json:"profile"`
	Seed     int64  `json:"seed"`
	XProc    bool   `json:"server_in_child_process"`
}

var wkProfiles = []allocProfile{
	{"natural", nil},
	{"mnw-stored0", func(k *ctl) { k.set(vpMNWStored0, 500, 60*time.Microsecond, 80) }},
	{"mnw-before-store1", func(k *ctl) { k.set(vpMNWBeforeStore1, 800, 60*time.Microsecond, 80) }},
	{"poll-before-mnw", func(k *ctl) { k.set(vpPollBeforeMNW, 500, 60*time.Microsecond, 80) }},
	{"flush-put", func(k *ctl) { k.set(vpFlushPut, 300, 80*time.Microsecond, 80) }},
	{"wake-marked", func(k *ctl) { k.set(vpWakeMarked, 500, 80*time.Microsecond, 80) }},
	{"mixed", func(k *ctl) {
		k.set(vpMNWStored0, 200, 30*time.Microsecond, 50)
		k.set(vpFlushPut, 200, 30*time.Microsecond, 50)
		k.set(vpWakeMarked, 200, 30*time.Microsecond, 50)
		k.set(vpPollBeforeMNW, 200, 30*time.Microsecond, 50)
		k.set(vpQPutBeforeTail, 100, 10*time.Microsecond, 50)
	}},
}

type wkResult struct {
	viol        []string
	points      int // quiescent points evaluated
	skipped     int // bursts where the "all notifications delivered" precondition could not be established
	pollSent    uint64
	roundTrips  int64
	flushErrors int64
	sig         string
	cross       uint64
	idleArrive  uint64
	fallbacks   uint64
	inconcl     string
	backlog     int
}

// wkFlushRetry writes msg and flushes it; a Flush that gives up with ErrQueueFull (tiny queues: 10 retries of 10 ms) has
// dropped the bytes, so they are written again — an echo protocol must not lose a message because the queue was busy.
func wkFlushRetry(st *Stream, msg []byte, errs *int64) bool {
	for try := 0; try < 200; try++ {
		st.BufferWriter().WriteBytes(msg)
		err := st.Flush(false)
		if err == nil {
			return true
		}
		atomic.AddInt64(errs, 1)
		if err != ErrQueueFull {
			return false
		}
	}
	return false
}

func wkStranded(s *Session) (bool, int64) {
	// the fence lambda ran on the event loop, so the consumer is not inside handlePolling; with no producer running and
	// no notification in flight nothing will ever pop what is still queued, whatever the working flag says
	// (flag 0: nobody was told; flag 1: producers will not even try to wake the consumer).
	n := s.queueManager.recvQueue.size()
	return n > 0, n
}

func runWakeupCase(c *checkCtx, cs wkCase) (res wkResult) {
	p, err := newSessionPair(pairOpt{memfd: cs.Memfd, queueCap: cs.QueueCap, sizes: smallSizes(64, 50, 1024, 50)})
	if err != nil {
		res.inconcl = "pair: " + err.Error()
		return
	}
	defer p.close()
	var k *ctl
	for _, pr := range wkProfiles {
		if pr.name == cs.Profile && pr.build != nil {
			k = newCtl(pr.name, cs.Seed)
			pr.build(k)
			k.install()
			defer uninstallCtl()
		}
	}
	rng := rand.New(rand.NewSource(cs.Seed))
	violate := func(format string, a ...interface{}) {
		if len(res.viol) < 5 {
			res.viol = append(res.viol, fmt.Sprintf(format, a...))
		}
	}
	var abort uint32
	var abortInfo atomic.Value
	// judge evaluates the property's quiescence predicate; returns false when its precondition cannot be established
	judge := func(where string) bool {
		ok := waitUntil(10*time.Second, func() bool {
			if !fenceOnce(10 * time.Second) {
				return false
			}
			cs1 := atomic.LoadUint64(&p.client.stats.sendPollingEventCount)
			sr := atomic.LoadUint64(&p.server.stats.recvPollingEventCount)
			ss := atomic.LoadUint64(&p.server.stats.sendPollingEventCount)
			cr := atomic.LoadUint64(&p.client.stats.recvPollingEventCount)
			return cs1 == sr && ss == cr && len(p.client.sendCh) == 0 && len(p.server.sendCh) == 0 &&
				atomic.LoadUint32(&p.client.writing) == 0 && atomic.LoadUint32(&p.server.writing) == 0
		})
		fb := atomic.LoadUint64(&p.client.stats.fallbackWriteCount) + atomic.LoadUint64(&p.server.stats.fallbackWriteCount)
		if !ok || fb != 0 || !fence() || p.client.IsClosed() || p.server.IsClosed() {
			// the precondition of the property ("every notification has been delivered and handled") was not established
			res.skipped++
			res.fallbacks = fb
			if p.client.IsClosed() || p.server.IsClosed() {
				res.inconcl = "session closed during the run"
			}
			return false
		}
		res.points++
		for _, s := range []*Session{p.server, p.client} {
			if stranded, n := wkStranded(s); stranded {
				// double-check after another fence: still there => stranded for good
				fence()
				if again, n2 := wkStranded(s); again {
					role := "server"
					if s.isClient {
						role = "client"
					}
					violate("stranded: at %s all producers had returned, polling events sent==received (client->server %d, server->client %d) and handled, "+
						"but the %s's receive queue still holds %d (then %d) element(s) (workingFlag=%v)", where, atomic.LoadUint64(&p.client.stats.sendPollingEventCount),
						atomic.LoadUint64(&p.server.stats.sendPollingEventCount), role, n, n2, s.queueManager.recvQueue.consumerIsWorking())
				}
			}
		}
		return true
	}
	type ends struct{ cl, sv *Stream }
	streams := make([]ends, cs.Streams)
	var echoWg sync.WaitGroup
	stopEcho := make(chan struct{})
	for i := range streams {
		cl, err := p.client.OpenStream()
		if err != nil {
			res.inconcl = "open: " + err.Error()
			return
		}
		// first message makes the server create the stream
		if !wkFlushRetry(cl, make([]byte, cs.MsgSize), &res.flushErrors) {
			res.inconcl = "first flush failed"
			return
		}
		sv := p.serverStream(cl.StreamID(), 5*time.Second)
		if sv == nil {
			// the request never reached the server's stream table: is it stranded in the queue?
			if judge("setup (first message of a stream)"); len(res.viol) == 0 {
				res.inconcl = "server stream did not appear"
			}
			return
		}
		streams[i] = ends{cl, sv}
		echoWg.Add(1)
		go func(sv *Stream) { // server: echo every message
			defer echoWg.Done()
			for {
				buf, err := sv.BufferReader().ReadBytes(cs.MsgSize)
				if err != nil {
					return
				}
				msg := append([]byte(nil), buf...)
				sv.BufferReader().ReleasePreviousRead()
				if !wkFlushRetry(sv, msg, &res.flushErrors) {
					return
				}
			}
		}(sv)
	}
	// drain the first echo of every stream
	for _, e := range streams {
		e.cl.SetReadDeadline(time.Now().Add(5 * time.Second))
		if _, err := e.cl.BufferReader().ReadBytes(cs.MsgSize); err != nil {
			if judge("setup (first echo)"); len(res.viol) == 0 {
				res.inconcl = "first echo: " + err.Error()
			}
			return
		}
		e.cl.BufferReader().ReleasePreviousRead()
	}
	perWorker := (cs.Streams + cs.Workers - 1) / cs.Workers
	for b := 0; b < cs.Bursts && len(res.viol) == 0; b++ {
		var wg sync.WaitGroup
		seeds := make([]int64, cs.Workers)
		for i := range seeds {
			seeds[i] = rng.Int63()
		}
		for w := 0; w < cs.Workers; w++ {
			lo, hi := w*perWorker, (w+1)*perWorker
			if hi > cs.Streams {
				hi = cs.Streams
			}
			if lo >= hi {
				continue
			}
			wg.Add(1)
			go func(w, lo, hi int) {
				defer wg.Done()
				wr := rand.New(rand.NewSource(seeds[w]))
				msg := make([]byte, cs.MsgSize)
				for m := 0; m < cs.BurstLen && atomic.LoadUint32(&abort) == 0; m++ {
					e := streams[lo+wr.Intn(hi-lo)]
					if !wkFlushRetry(e.cl, msg, &res.flushErrors) {
						continue
					}
					t0 := time.Now()
					e.cl.SetReadDeadline(t0.Add(5 * time.Second))
					if _, err := e.cl.BufferReader().ReadBytes(cs.MsgSize); err != nil {
						// the echo did not come back: stop the burst and let the quiescence predicate decide why
						atomic.AddInt64(&res.flushErrors, 1)
						if atomic.CompareAndSwapUint32(&abort, 0, 1) {
							abortInfo.Store(fmt.Sprintf("ReadBytes on stream %d returned %v after %v", e.cl.StreamID(), err, time.Since(t0)))
						}
						break
					}
					e.cl.BufferReader().ReleasePreviousRead()
					atomic.AddInt64(&res.roundTrips, 1)
					// pauses around the consumer's drain-and-go-idle duration
					switch wr.Intn(6) {
					case 0:
						time.Sleep(time.Duration(wr.Intn(30)) * time.Microsecond)
					case 1:
						spinFor(wr.Intn(3000))
					}
				}
			}(w, lo, hi)
		}
		wg.Wait()
		// producers have stopped (or gave up on a round trip that did not complete): judge
		if !judge(fmt.Sprintf("burst %d", b)) && res.inconcl != "" {
			break
		}
		if atomic.LoadUint32(&abort) != 0 {
			if len(res.viol) == 0 {
				diag := ""
				for i, e := range streams {
					e.cl.pendingData.Lock()
					cp := len(e.cl.pendingData.unread)
					e.cl.pendingData.Unlock()
					e.sv.pendingData.Lock()
					sp := len(e.sv.pendingData.unread)
					e.sv.pendingData.Unlock()
					if cp != 0 || sp != 0 || e.cl.recvBuf.Len() != 0 || e.sv.recvBuf.Len() != 0 || !e.cl.IsOpen() || !e.sv.IsOpen() {
						diag += fmt.Sprintf("[stream %d id=%d client: pending=%d buffered=%d open=%v notify=%d | server: pending=%d buffered=%d open=%v notify=%d] ",
							i, e.cl.StreamID(), cp, e.cl.recvBuf.Len(), e.cl.IsOpen(), len(e.cl.recvNotifyCh), sp, e.sv.recvBuf.Len(), e.sv.IsOpen(), len(e.sv.recvNotifyCh))
					}
				}
				ai, _ := abortInfo.Load().(string)
				res.inconcl = "an echo round trip did not complete although nothing is stranded: " + ai + " " + diag
			}
			break
		}
	}
	// backlog phase: the consumer's event loop is held while the producers enqueue thousands of elements (one wake-up, the
	// rest find the consumer "working"); once released the consumer has to drain all of them in one go and must not go
	// idle before the queue is empty
	if cs.QueueCap >= 8192 && len(res.viol) == 0 && res.inconcl == "" && atomic.LoadUint32(&abort) == 0 {
		const backlog = 6000
		release := make(chan struct{})
		parked := make(chan struct{})
		loopRun(func() { close(parked); <-release })
		select {
		case <-parked:
			per := make([]int, len(streams))
			var wg sync.WaitGroup
			for i := range streams {
				per[i] = backlog / len(streams)
				wg.Add(1)
				go func(i int) {
					defer wg.Done()
					msg := make([]byte, cs.MsgSize)
					for m := 0; m < per[i]; m++ {
						if !wkFlushRetry(streams[i].cl, msg, &res.flushErrors) {
							return
						}
					}
				}(i)
			}
			wg.Wait()
			res.backlog = int(streams[0].cl.session.queueManager.sendQueue.size())
			close(release)
			// read every echo back
			for i := range streams {
				wg.Add(1)
				go func(i int) {
					defer wg.Done()
					for m := 0; m < per[i]; m++ {
						streams[i].cl.SetReadDeadline(time.Now().Add(8 * time.Second))
						if _, err := streams[i].cl.BufferReader().ReadBytes(cs.MsgSize); err != nil {
							atomic.StoreUint32(&abort, 1)
							return
						}
						streams[i].cl.BufferReader().ReleasePreviousRead()
						atomic.AddInt64(&res.roundTrips, 1)
					}
				}(i)
			}
			wg.Wait()
			judge(fmt.Sprintf("the drain of a backlog of %d elements", res.backlog))
			if atomic.LoadUint32(&abort) != 0 && len(res.viol) == 0 {
				res.inconcl = "echoes of the backlog phase did not all come back although nothing is stranded"
			}
		case <-time.After(10 * time.Second):
			close(release)
			res.inconcl = "event loop could not be parked for the backlog phase"
		}
	}
	res.pollSent = atomic.LoadUint64(&p.client.stats.sendPollingEventCount) + atomic.LoadUint64(&p.server.stats.sendPollingEventCount)
	if k != nil {
		res.sig = k.signature()
		res.cross, _ = k.crossTransitions(mnwPoints, append(append([]int{}, wakePoints...), qPutPoints...))
		res.idleArrive = k.hitCount(vpMNWBeforeStore1)
	}
	for _, e := range streams {
		e.cl.Close()
		e.sv.Close()
	}
	close(stopEcho)
	echoWg.Wait()
	return
}

func genWakeupCase(c *checkCtx, idx int) wkCase {
	rng := caseRand(c.seed, 200000+idx)
	cs := wkCase{Idx: idx}
	cs.QueueCap = []uint32{2, 4, 8, 64, 8192}[rng.Intn(5)]
	if idx%8 == 0 {
		cs.QueueCap = 8192 // guarantees backlog phases (they need the default-sized queue) in every tier
	}
	cs.Workers = []int{1, 2, 4, 8, 16}[rng.Intn(5)]
	cs.Streams = cs.Workers * (1 + rng.Intn(4))
	cs.Bursts = c.pick(120, 400)
	cs.BurstLen = 1 + rng.Intn(6)
	cs.MsgSize = 16
	cs.Memfd = rng.Intn(2) == 0
	cs.Profile = wkProfiles[rng.Intn(len(wkProfiles))].name
	cs.Seed = rng.Int63()
	return cs
}

func checkWakeup(c *checkCtx) {
	c.rule = "cases = (queue capacity 2..8192, 1..16 producer goroutines on 1..64 echo streams, burst length, file/memfd mapping, perturbation profile) " +
		"from PRNG(VERIF_SEED, index); after every burst the property's quiescence predicate is evaluated on both directions; an execution is " +
		"non-trivial when the consumer was observed going idle while a producer arrived (hook MNWBeforeStore1 hit, i.e. markNotWorking found a new " +
		"element after clearing the flag) or a producer/consumer hook transition was recorded; distinct = distinct (queue cap, producers, profile, " +
		"hook-transition signature)"
	c.assume("'every notification has been delivered and handled' is established with the library's own polling counters (sent == received on both " +
		"directions), empty send channels and a double fence on the event loop; bursts in which it cannot be established are skipped, not judged")
	c.assume("no socket fallback during the judged bursts (a fallback write carries an extra polling event that the counters do not pair up)")
	n := c.pick(40, 1200)
	var points, skipped int
	for i := 0; i < n; i++ {
		cs := genWakeupCase(c, i)
		if only := os.Getenv("VERIF_C05_ONLY"); only != "" && only != fmt.Sprint(i) {
			continue
		}
		cs.XProc = i%4 == 3
		var res wkResult
		if cs.XProc {
			cs.Bursts = cs.Bursts / 3 // a STATE query per burst costs a process round trip
			res = runWakeupCaseXProc(c, cs)
			c.count("executions with the server in a child process", 1)
		} else {
			res = runWakeupCase(c, cs)
		}
		c.eval(1)
		points += res.points
		skipped += res.skipped
		c.count("quiescent points judged", int64(res.points))
		c.count("bursts skipped (precondition not established)", int64(res.skipped))
		c.count("polling events sent", int64(res.pollSent))
		c.count("echo round trips", res.roundTrips)
		if res.backlog > 0 {
			c.count("backlog phases (consumer held, then one drain)", 1)
			c.count("elements queued while the consumer was held", int64(res.backlog))
		}
		c.count("flush/read errors", res.flushErrors)
		c.count("hook transitions idle<->arrive", int64(res.cross))
		c.count("markNotWorking found new element after clearing the flag", int64(res.idleArrive))
		if res.inconcl != "" {
			c.inconclusiveCase(fmt.Sprintf("wakeup-%d", cs.Idx), res.inconcl)
		}
		if res.cross > 0 || res.idleArrive > 0 || (cs.Profile == "natural" && res.points > 0) {
			c.nontrivial(fmt.Sprintf("%d/%d/%s/%v/%s", cs.QueueCap, cs.Workers, cs.Profile, cs.XProc, res.sig))
		}
		if i < 3 {
			c.sample(cs)
		}
		if len(res.viol) > 0 {
			c.violation(fmt.Sprintf("wakeup-%d", cs.Idx), map[string]interface{}{"case": cs, "violations": res.viol}, "%s", res.viol[0])
		}
	}
	// directed: wake-up taking the slow path (send channel) while the control connection is congested
	nc := c.pick(4, 60)
	for i := 0; i < nc; i++ {
		if os.Getenv("VERIF_C05_ONLY") != "" {
			break
		}
		res := runWakeupCongested(c, i)
		c.eval(1)
		points += res.points
		c.count("quiescent points judged", int64(res.points))
		c.count("congested-control-connection executions (wake-up queued behind a full send channel for longer than the write timeout)", int64(res.backlog))
		if res.inconcl != "" {
			c.inconclusiveCase(fmt.Sprintf("congested-%d", i), res.inconcl)
		}
		if res.backlog > 0 {
			c.nontrivial(fmt.Sprintf("congested/%s", res.sig))
		}
		if len(res.viol) > 0 {
			c.violation(fmt.Sprintf("congested-%d", i), map[string]interface{}{"index": i, "violations": res.viol}, "%s", res.viol[0])
		}
	}
	if points == 0 {
		c.noObservation("no quiescent point could be judged")
	}
}

// runWakeupCongested: the producer's wake-up has to take the slow path (another writer owns the control connection) while the
// send channel is full, for longer than ConnectionWriteTimeout; then the connection recovers. The harness plays the other
// writers: it owns the session's `writing` flag, as a writer stuck in a slow socket write does, and fills the send channel with
// empty control messages (the send loop writes nothing for them). Whatever Flush returned, at the next quiescent point —
// producer returned, send channel drained, nobody writing, event loop fenced twice — a non-empty receive queue has no
// notification in flight any more and is stranded.
func runWakeupCongested(c *checkCtx, idx int) (res wkResult) {
	rng := caseRand(c.seed, 260000+idx)
	wt := time.Duration(120+rng.Intn(120)) * time.Millisecond
	memfd := rng.Intn(2) == 0
	res.sig = fmt.Sprintf("%v/%d", memfd, wt.Milliseconds()/40)
	p, err := newSessionPair(pairOpt{memfd: memfd, sizes: smallSizes(64, 50, 1024, 50), clientCfg: func(cf *Config) { cf.ConnectionWriteTimeout = wt }})
	if err != nil {
		res.inconcl = "pair: " + err.Error()
		return
	}
	defer p.close()
	violate := func(format string, a ...interface{}) {
		if len(res.viol) < 5 {
			res.viol = append(res.viol, fmt.Sprintf(format, a...))
		}
	}
	slow := make(chan struct{}, 4)
	k := newCtl("congested", rng.Int63())
	k.on(vpWakeSlow, func(obj interface{}, n int64) {
		if obj == interface{}(p.client) {
			select {
			case slow <- struct{}{}:
			default:
			}
		}
	})
	k.install()
	defer uninstallCtl()
	cl, err := p.client.OpenStream()
	if err != nil {
		res.inconcl = "open: " + err.Error()
		return
	}
	var ferrs int64
	if !wkFlushRetry(cl, make([]byte, 16), &ferrs) {
		res.inconcl = "first flush failed"
		return
	}
	if sv := p.serverStream(cl.StreamID(), 5*time.Second); sv == nil {
		res.inconcl = "server stream did not appear"
		return
	}
	srvQ := p.server.queueManager.recvQueue
	if !waitUntil(5*time.Second, func() bool { return fenceOnce(5*time.Second) && srvQ.size() == 0 && !srvQ.consumerIsWorking() }) {
		res.inconcl = "consumer did not go idle"
		return
	}
	// another writer owns the control connection ...
	if !waitUntil(2*time.Second, func() bool { return atomic.CompareAndSwapUint32(&p.client.writing, 0, 1) }) {
		res.inconcl = "could not take the writing flag"
		return
	}
	released := false
	release := func() {
		if !released {
			released = true
			atomic.StoreUint32(&p.client.writing, 0)
			asyncNotify(p.client.notifyContinueWriteCh)
		}
	}
	defer release()
	// ... and the send channel is full of queued control messages
	full := 0
	for t0 := time.Now(); full < 3 && time.Since(t0) < 3*time.Second; {
	fill:
		for {
			select {
			case p.client.sendCh <- sendReady{}:
			default:
				break fill
			}
		}
		time.Sleep(2 * time.Millisecond)
		if len(p.client.sendCh) == cap(p.client.sendCh) {
			full++
		} else {
			full = 0
		}
	}
	if full < 3 {
		res.inconcl = "send channel could not be filled"
		return
	}
	done := make(chan error, 1)
	go func() {
		cl.BufferWriter().WriteBytes(make([]byte, 16))
		done <- cl.Flush(false)
	}()
	select {
	case <-slow:
	case err := <-done:
		res.inconcl = fmt.Sprintf("the producer did not take the slow path (Flush returned %v)", err)
		return
	case <-time.After(3 * time.Second):
		res.inconcl = "the producer did not reach the slow path"
		return
	}
	// congestion lasts longer than the write timeout, then the connection recovers
	time.Sleep(3 * wt)
	release()
	var ferr error
	select {
	case ferr = <-done:
	case <-time.After(15 * time.Second):
		res.inconcl = "Flush did not return within 15 s after the connection recovered"
		return
	}
	res.backlog = 1
	quiet := waitUntil(10*time.Second, func() bool {
		if len(p.client.sendCh) != 0 || atomic.LoadUint32(&p.client.writing) != 0 {
			return false
		}
		time.Sleep(5 * time.Millisecond) // the send loop may hold one message between taking it and claiming the connection
		return len(p.client.sendCh) == 0 && atomic.LoadUint32(&p.client.writing) == 0 && fenceOnce(10*time.Second)
	})
	if !quiet || !fence() || p.client.IsClosed() || p.server.IsClosed() {
		res.inconcl = "quiescence after the congestion could not be established"
		return
	}
	res.points++
	if n := srvQ.size(); n > 0 {
		time.Sleep(20 * time.Millisecond)
		fence()
		if n2 := srvQ.size(); n2 > 0 {
			violate("stranded after a congested control connection: the producer's Flush returned (%v), the send channel is drained, nobody is writing and the "+
				"event loop was fenced, but the server's receive queue still holds %d (then %d) element(s) (workingFlag=%v, polling sent=%d received=%d, write timeout %v)",
				ferr, n, n2, srvQ.consumerIsWorking(), atomic.LoadUint64(&p.client.stats.sendPollingEventCount),
				atomic.LoadUint64(&p.server.stats.recvPollingEventCount), wt)
		}
	}
	return
}

// ---------------------------------------------------------------------------------------------
// two-process variant: the server session (consumer of requests, producer of echoes) lives in a child process, as in a
// real deployment; the quiescence predicate combines the parent's view with the child's answer to a STATE query
// (taken after a fence on the child's own event loop).

type wkPeerState struct {
	RecvPolling uint64 `json:"recv_polling"`
	SendPolling uint64 `json:"send_polling"`
	RecvQueue   int64  `json:"recv_queue"`
	Working     bool   `json:"working"`
	SendCh      int    `json:"send_ch"`
	Writing     uint32 `json:"writing"`
	Fallback    uint64 `json:"fallback"`
	Closed      bool   `json:"closed"`
	MNWRecheck  uint64 `json:"mnw_recheck_hits"`
}

func init() {
	verifChildRoles["c05peer"] = wkPeerChild
}

func wkPeerChild(args []string) {
	sock, profile, msgSize := args[0], args[1], 16
	var seed int64
	fmt.Sscan(args[2], &seed)
	fenceInit()
	var k *ctl
	for _, pr := range wkProfiles {
		if pr.name == profile && pr.build != nil {
			k = newCtl(pr.name, seed)
			pr.build(k)
			k.install()
		}
	}
	ln, err := net.Listen("unix", sock)
	if err != nil {
		childReply(map[string]string{"error": err.Error()})
		return
	}
	childReply(map[string]string{"phase": "listening"})
	ln.(*net.UnixListener).SetDeadline(time.Now().Add(30 * time.Second))
	conn, err := ln.Accept()
	ln.Close()
	if err != nil {
		childReply(map[string]string{"error": err.Error()})
		return
	}
	conf, _ := newTestConfig(pairOpt{})
	s, err := newSession(conf, conn, false)
	if err != nil {
		childReply(map[string]string{"error": err.Error()})
		return
	}
	childReply(map[string]string{"phase": "ready"})
	go func() {
		for {
			st, err := s.AcceptStream()
			if err != nil {
				return
			}
			go func(sv *Stream) {
				for {
					buf, err := sv.BufferReader().ReadBytes(msgSize)
					if err != nil {
						return
					}
					msg := append([]byte(nil), buf...)
					sv.BufferReader().ReleasePreviousRead()
					var n int64
					if !wkFlushRetry(sv, msg, &n) {
						return
					}
				}
			}(st)
		}
	}()
	in := bufio.NewReader(os.Stdin)
	for {
		line, err := in.ReadString('\n')
		if err != nil {
			return
		}
		switch strings.TrimSpace(line) {
		case "STATE":
			fence()
			st := wkPeerState{Closed: s.IsClosed()}
			if !st.Closed && s.queueManager != nil {
				st.RecvPolling = atomic.LoadUint64(&s.stats.recvPollingEventCount)
				st.SendPolling = atomic.LoadUint64(&s.stats.sendPollingEventCount)
				st.RecvQueue = s.queueManager.recvQueue.size()
				st.Working = s.queueManager.recvQueue.consumerIsWorking()
				st.SendCh = len(s.sendCh)
				st.Writing = atomic.LoadUint32(&s.writing)
				st.Fallback = atomic.LoadUint64(&s.stats.fallbackWriteCount)
			}
			if k != nil {
				st.MNWRecheck = k.hitCount(vpMNWBeforeStore1)
			}
			childReply(st)
		case "QUIT":
			s.Close()
			waitTeardown(s, 10*time.Second)
			return
		}
	}
}

func runWakeupCaseXProc(c *checkCtx, cs wkCase) (res wkResult) {
	sock := filepath.Join(sockDir(), fmt.Sprintf("c05_%d.sock", atomic.AddUint64(&pairSeq, 1)))
	defer os.Remove(sock)
	cp, err := c.spawnChild("c05peer", []string{sock, cs.Profile, fmt.Sprint(cs.Seed)})
	if err != nil {
		res.inconcl = err.Error()
		return
	}
	defer func() {
		cp.send2("QUIT")
		cp.wait(15 * time.Second)
		cp.cleanupFiles()
	}()
	var hello map[string]string
	if _, ok := cp.recv(30*time.Second, &hello); !ok || hello["phase"] != "listening" {
		res.inconcl = "peer process did not start listening"
		return
	}
	conn, err := net.Dial("unix", sock)
	if err != nil {
		res.inconcl = err.Error()
		return
	}
	conf, _ := newTestConfig(pairOpt{memfd: cs.Memfd, queueCap: cs.QueueCap, sizes: smallSizes(64, 50, 1024, 50)})
	client, err := newSession(conf, conn, true)
	if err != nil {
		res.inconcl = "client session: " + err.Error()
		return
	}
	defer func() { client.Close(); waitTeardown(client, 10*time.Second) }()
	if _, ok := cp.recv(30*time.Second, &hello); !ok || hello["phase"] != "ready" {
		res.inconcl = "peer session not ready"
		return
	}
	var k *ctl
	for _, pr := range wkProfiles {
		if pr.name == cs.Profile && pr.build != nil {
			k = newCtl(pr.name, cs.Seed)
			pr.build(k)
			k.install()
			defer uninstallCtl()
		}
	}
	violate := func(format string, a ...interface{}) {
		if len(res.viol) < 5 {
			res.viol = append(res.viol, fmt.Sprintf(format, a...))
		}
	}
	peerState := func() (wkPeerState, bool) {
		var st wkPeerState
		if cp.send2("STATE") != nil {
			return st, false
		}
		_, ok := cp.recv(20*time.Second, &st)
		return st, ok
	}
	var lastPeer wkPeerState
	judge := func(where string) bool {
		ok := waitUntil(10*time.Second, func() bool {
			if !fenceOnce(10 * time.Second) {
				return false
			}
			st, ok := peerState()
			if !ok || st.Closed {
				return false
			}
			lastPeer = st
			cs1 := atomic.LoadUint64(&client.stats.sendPollingEventCount)
			cr := atomic.LoadUint64(&client.stats.recvPollingEventCount)
			return cs1 == st.RecvPolling && st.SendPolling == cr && len(client.sendCh) == 0 && st.SendCh == 0 &&
				atomic.LoadUint32(&client.writing) == 0 && st.Writing == 0
		})
		fb := atomic.LoadUint64(&client.stats.fallbackWriteCount) + lastPeer.Fallback
		if !ok || fb != 0 || !fence() || client.IsClosed() {
			res.skipped++
			return false
		}
		// the child's figures were taken after a fence on its loop; ask once more so that both views are post-fence
		st, ok2 := peerState()
		if !ok2 || st.Closed {
			res.skipped++
			return false
		}
		res.points++
		res.idleArrive = st.MNWRecheck
		if st.RecvQueue > 0 {
			violate("stranded (two processes): at %s all producers had returned, polling events sent==received in both directions and handled, "+
				"but the server process's receive queue still holds %d element(s) (workingFlag=%v)", where, st.RecvQueue, st.Working)
		}
		if n := client.queueManager.recvQueue.size(); n > 0 {
			fence()
			if n2 := client.queueManager.recvQueue.size(); n2 > 0 {
				violate("stranded (two processes): at %s the client's receive queue still holds %d (then %d) element(s)", where, n, n2)
			}
		}
		return true
	}
	rng := rand.New(rand.NewSource(cs.Seed))
	streams := make([]*Stream, cs.Streams)
	for i := range streams {
		st, err := client.OpenStream()
		if err != nil {
			res.inconcl = err.Error()
			return
		}
		streams[i] = st
	}
	var abort uint32
	perWorker := (cs.Streams + cs.Workers - 1) / cs.Workers
	for b := 0; b < cs.Bursts && len(res.viol) == 0; b++ {
		var wg sync.WaitGroup
		seeds := make([]int64, cs.Workers)
		for i := range seeds {
			seeds[i] = rng.Int63()
		}
		for w := 0; w < cs.Workers; w++ {
			lo, hi := w*perWorker, (w+1)*perWorker
			if hi > cs.Streams {
				hi = cs.Streams
			}
			if lo >= hi {
				continue
			}
			wg.Add(1)
			go func(w, lo, hi int) {
				defer wg.Done()
				wr := rand.New(rand.NewSource(seeds[w]))
				msg := make([]byte, cs.MsgSize)
				for m := 0; m < cs.BurstLen && atomic.LoadUint32(&abort) == 0; m++ {
					st := streams[lo+wr.Intn(hi-lo)]
					if !wkFlushRetry(st, msg, &res.flushErrors) {
						continue
					}
					st.SetReadDeadline(time.Now().Add(5 * time.Second))
					if _, err := st.BufferReader().ReadBytes(cs.MsgSize); err != nil {
						atomic.AddInt64(&res.flushErrors, 1)
						atomic.StoreUint32(&abort, 1)
						break
					}
					st.BufferReader().ReleasePreviousRead()
					atomic.AddInt64(&res.roundTrips, 1)
					switch wr.Intn(6) {
					case 0:
						time.Sleep(time.Duration(wr.Intn(30)) * time.Microsecond)
					case 1:
						spinFor(wr.Intn(3000))
					}
				}
			}(w, lo, hi)
		}
		wg.Wait()
		judge(fmt.Sprintf("burst %d", b))
		if atomic.LoadUint32(&abort) != 0 {
			if len(res.viol) == 0 {
				res.inconcl = "an echo round trip did not complete within 5 s although nothing is stranded"
			}
			break
		}
	}
	res.pollSent = atomic.LoadUint64(&client.stats.sendPollingEventCount) + lastPeer.SendPolling
	if k != nil {
		res.sig = k.signature()
		res.cross, _ = k.crossTransitions(mnwPoints, append(append([]int{}, wakePoints...), qPutPoints...))
		res.idleArrive += k.hitCount(vpMNWBeforeStore1)
	}
	for _, st := range streams {
		st.Close()
	}
	return
}
