package shmipc

// C05: an enqueued element is never stranded without a wake-up.
// Real session pairs; bursts of small echo round trips from many producer goroutines so that both consumers
// (server for requests, client for replies) repeatedly go idle while producers arrive. After every burst the
// quiescence predicate of the property is evaluated: producers have returned, every polling event sent has been
// received and handled (the library's own counters + a fence on the event loop), and then a non-empty receive
// queue with an idle consumer is a stranded element.

import (
	"fmt"
	"math/rand"
	"sync"
	"sync/atomic"
	"time"
)

func init() {
	verifChecks["C05"] = checkWakeup
}

type wkCase struct {
	Idx      int    `json:"idx"`
	QueueCap uint32 `json:"queue_cap"`
	Streams  int    `json:"streams"`
	Workers  int    `json:"producers"`
	Bursts   int    `json:"bursts"`
	BurstLen int    `json:"messages_per_burst"`
	MsgSize  int    `json:"message_size"`
	Memfd    bool   `json:"memfd"`
	Profile  string `json:"profile"`
	Seed     int64  `json:"seed"`
}

var wkProfiles = []allocProfile{
	{"natural", nil},
	{"mnw-stored0", func(k *ctl) { k.set(vpMNWStored0, 500, 60*time.Microsecond, 80) }},
	{"mnw-before-store1", func(k *ctl) { k.set(vpMNWBeforeStore1, 800, 60*time.Microsecond, 80) }},
	{"poll-before-mnw", func(k *ctl) { k.set(vpPollBeforeMNW, 500, 60*time.Microsecond, 80) }},
	{"flush-put", func(k *ctl) { k.set(vpFlushPut, 300, 80*time.Microsecond, 80) }},
	{"wake-marked", func(k *ctl) { k.set(vpWakeMarked, 500, 80*time.Microsecond, 80) }},
	{"mixed", func(k *ctl) {
		k.set(vpMNWStored0, 200, 30*time.Microsecond, 50)
		k.set(vpFlushPut, 200, 30*time.Microsecond, 50)
		k.set(vpWakeMarked, 200, 30*time.Microsecond, 50)
		k.set(vpPollBeforeMNW, 200, 30*time.Microsecond, 50)
		k.set(vpQPutBeforeTail, 100, 10*time.Microsecond, 50)
	}},
}

type wkResult struct {
	viol        []string
	points      int // quiescent points evaluated
	skipped     int // bursts where the "all notifications delivered" precondition could not be established
	pollSent    uint64
	roundTrips  int64
	flushErrors int64
	sig         string
	cross       uint64
	idleArrive  uint64
	fallbacks   uint64
	inconcl     string
}

func wkStranded(s *Session) (bool, int64) {
	// the fence lambda ran on the event loop, so the consumer is not inside handlePolling; with no producer running and
	// no notification in flight nothing will ever pop what is still queued, whatever the working flag says
	// (flag 0: nobody was told; flag 1: producers will not even try to wake the consumer).
	n := s.queueManager.recvQueue.size()
	return n > 0, n
}

func runWakeupCase(c *checkCtx, cs wkCase) (res wkResult) {
	p, err := newSessionPair(pairOpt{memfd: cs.Memfd, queueCap: cs.QueueCap, sizes: smallSizes(64, 50, 1024, 50)})
	if err != nil {
		res.inconcl = "pair: " + err.Error()
		return
	}
	defer p.close()
	var k *ctl
	for _, pr := range wkProfiles {
		if pr.name == cs.Profile && pr.build != nil {
			k = newCtl(pr.name, cs.Seed)
			pr.build(k)
			k.install()
			defer uninstallCtl()
		}
	}
	rng := rand.New(rand.NewSource(cs.Seed))
	violate := func(format string, a ...interface{}) {
		if len(res.viol) < 5 {
			res.viol = append(res.viol, fmt.Sprintf(format, a...))
		}
	}
	var abort uint32
	// judge evaluates the property's quiescence predicate; returns false when its precondition cannot be established
	judge := func(where string) bool {
		ok := waitUntil(10*time.Second, func() bool {
			if !fenceOnce(10 * time.Second) {
				return false
			}
			cs1 := atomic.LoadUint64(&p.client.stats.sendPollingEventCount)
			sr := atomic.LoadUint64(&p.server.stats.recvPollingEventCount)
			ss := atomic.LoadUint64(&p.server.stats.sendPollingEventCount)
			cr := atomic.LoadUint64(&p.client.stats.recvPollingEventCount)
			return cs1 == sr && ss == cr && len(p.client.sendCh) == 0 && len(p.server.sendCh) == 0 &&
				atomic.LoadUint32(&p.client.writing) == 0 && atomic.LoadUint32(&p.server.writing) == 0
		})
		fb := atomic.LoadUint64(&p.client.stats.fallbackWriteCount) + atomic.LoadUint64(&p.server.stats.fallbackWriteCount)
		if !ok || fb != 0 || !fence() || p.client.IsClosed() || p.server.IsClosed() {
			// the precondition of the property ("every notification has been delivered and handled") was not established
			res.skipped++
			res.fallbacks = fb
			if p.client.IsClosed() || p.server.IsClosed() {
				res.inconcl = "session closed during the run"
			}
			return false
		}
		res.points++
		for _, s := range []*Session{p.server, p.client} {
			if stranded, n := wkStranded(s); stranded {
				// double-check after another fence: still there => stranded for good
				fence()
				if again, n2 := wkStranded(s); again {
					role := "server"
					if s.isClient {
						role = "client"
					}
					violate("stranded: at %s all producers had returned, polling events sent==received (client->server %d, server->client %d) and handled, "+
						"but the %s's receive queue still holds %d (then %d) element(s) (workingFlag=%v)", where, atomic.LoadUint64(&p.client.stats.sendPollingEventCount),
						atomic.LoadUint64(&p.server.stats.sendPollingEventCount), role, n, n2, s.queueManager.recvQueue.consumerIsWorking())
				}
			}
		}
		return true
	}
	type ends struct{ cl, sv *Stream }
	streams := make([]ends, cs.Streams)
	var echoWg sync.WaitGroup
	stopEcho := make(chan struct{})
	for i := range streams {
		cl, err := p.client.OpenStream()
		if err != nil {
			res.inconcl = "open: " + err.Error()
			return
		}
		// first message makes the server create the stream
		cl.BufferWriter().WriteBytes(make([]byte, cs.MsgSize))
		if err := cl.Flush(false); err != nil {
			res.inconcl = "first flush: " + err.Error()
			return
		}
		sv := p.serverStream(cl.StreamID(), 5*time.Second)
		if sv == nil {
			// the request never reached the server's stream table: is it stranded in the queue?
			if judge("setup (first message of a stream)"); len(res.viol) == 0 {
				res.inconcl = "server stream did not appear"
			}
			return
		}
		streams[i] = ends{cl, sv}
		echoWg.Add(1)
		go func(sv *Stream) { // server: echo every message
			defer echoWg.Done()
			for {
				buf, err := sv.BufferReader().ReadBytes(cs.MsgSize)
				if err != nil {
					return
				}
				sv.BufferWriter().WriteBytes(buf)
				sv.BufferReader().ReleasePreviousRead()
				if err := sv.Flush(false); err != nil {
					atomic.AddInt64(&res.flushErrors, 1)
				}
			}
		}(sv)
	}
	// drain the first echo of every stream
	for _, e := range streams {
		e.cl.SetReadDeadline(time.Now().Add(5 * time.Second))
		if _, err := e.cl.BufferReader().ReadBytes(cs.MsgSize); err != nil {
			if judge("setup (first echo)"); len(res.viol) == 0 {
				res.inconcl = "first echo: " + err.Error()
			}
			return
		}
		e.cl.BufferReader().ReleasePreviousRead()
	}
	perWorker := (cs.Streams + cs.Workers - 1) / cs.Workers
	for b := 0; b < cs.Bursts && len(res.viol) == 0; b++ {
		var wg sync.WaitGroup
		seeds := make([]int64, cs.Workers)
		for i := range seeds {
			seeds[i] = rng.Int63()
		}
		for w := 0; w < cs.Workers; w++ {
			lo, hi := w*perWorker, (w+1)*perWorker
			if hi > cs.Streams {
				hi = cs.Streams
			}
			if lo >= hi {
				continue
			}
			wg.Add(1)
			go func(w, lo, hi int) {
				defer wg.Done()
				wr := rand.New(rand.NewSource(seeds[w]))
				msg := make([]byte, cs.MsgSize)
				for m := 0; m < cs.BurstLen && atomic.LoadUint32(&abort) == 0; m++ {
					e := streams[lo+wr.Intn(hi-lo)]
					e.cl.BufferWriter().WriteBytes(msg)
					if err := e.cl.Flush(false); err != nil {
						atomic.AddInt64(&res.flushErrors, 1)
						continue
					}
					e.cl.SetReadDeadline(time.Now().Add(5 * time.Second))
					if _, err := e.cl.BufferReader().ReadBytes(cs.MsgSize); err != nil {
						// the echo did not come back: stop the burst and let the quiescence predicate decide why
						atomic.AddInt64(&res.flushErrors, 1)
						atomic.StoreUint32(&abort, 1)
						break
					}
					e.cl.BufferReader().ReleasePreviousRead()
					atomic.AddInt64(&res.roundTrips, 1)
					// pauses around the consumer's drain-and-go-idle duration
					switch wr.Intn(6) {
					case 0:
						time.Sleep(time.Duration(wr.Intn(30)) * time.Microsecond)
					case 1:
						spinFor(wr.Intn(3000))
					}
				}
			}(w, lo, hi)
		}
		wg.Wait()
		// producers have stopped (or gave up on a round trip that did not complete): judge
		if !judge(fmt.Sprintf("burst %d", b)) && res.inconcl != "" {
			break
		}
		if atomic.LoadUint32(&abort) != 0 {
			if len(res.viol) == 0 {
				res.inconcl = "an echo round trip did not complete within 5 s although nothing is stranded"
			}
			break
		}
	}
	res.pollSent = atomic.LoadUint64(&p.client.stats.sendPollingEventCount) + atomic.LoadUint64(&p.server.stats.sendPollingEventCount)
	if k != nil {
		res.sig = k.signature()
		res.cross, _ = k.crossTransitions(mnwPoints, append(append([]int{}, wakePoints...), qPutPoints...))
		res.idleArrive = k.hitCount(vpMNWBeforeStore1)
	}
	for _, e := range streams {
		e.cl.Close()
		e.sv.Close()
	}
	close(stopEcho)
	echoWg.Wait()
	return
}

func genWakeupCase(c *checkCtx, idx int) wkCase {
	rng := caseRand(c.seed, 200000+idx)
	cs := wkCase{Idx: idx}
	cs.QueueCap = []uint32{2, 4, 8, 64, 8192}[rng.Intn(5)]
	cs.Workers = []int{1, 2, 4, 8, 16}[rng.Intn(5)]
	cs.Streams = cs.Workers * (1 + rng.Intn(4))
	cs.Bursts = c.pick(120, 400)
	cs.BurstLen = 1 + rng.Intn(6)
	cs.MsgSize = 16
	cs.Memfd = rng.Intn(2) == 0
	cs.Profile = wkProfiles[rng.Intn(len(wkProfiles))].name
	cs.Seed = rng.Int63()
	return cs
}

func checkWakeup(c *checkCtx) {
	c.rule = "cases = (queue capacity 2..8192, 1..16 producer goroutines on 1..64 echo streams, burst length, file/memfd mapping, perturbation profile) " +
		"from PRNG(VERIF_SEED, index); after every burst the property's quiescence predicate is evaluated on both directions; an execution is " +
		"non-trivial when the consumer was observed going idle while a producer arrived (hook MNWBeforeStore1 hit, i.e. markNotWorking found a new " +
		"element after clearing the flag) or a producer/consumer hook transition was recorded; distinct = distinct (queue cap, producers, profile, " +
		"hook-transition signature)"
	c.assume("'every notification has been delivered and handled' is established with the library's own polling counters (sent == received on both " +
		"directions), empty send channels and a double fence on the event loop; bursts in which it cannot be established are skipped, not judged")
	c.assume("no socket fallback during the judged bursts (a fallback write carries an extra polling event that the counters do not pair up)")
	n := c.pick(40, 1200)
	var points, skipped int
	for i := 0; i < n; i++ {
		cs := genWakeupCase(c, i)
		res := runWakeupCase(c, cs)
		c.eval(1)
		points += res.points
		skipped += res.skipped
		c.count("quiescent points judged", int64(res.points))
		c.count("bursts skipped (precondition not established)", int64(res.skipped))
		c.count("polling events sent", int64(res.pollSent))
		c.count("echo round trips", res.roundTrips)
		c.count("flush/read errors", res.flushErrors)
		c.count("hook transitions idle<->arrive", int64(res.cross))
		c.count("markNotWorking found new element after clearing the flag", int64(res.idleArrive))
		if res.inconcl != "" {
			c.inconclusiveCase(fmt.Sprintf("wakeup-%d", cs.Idx), res.inconcl)
		}
		if res.cross > 0 || res.idleArrive > 0 || (cs.Profile == "natural" && res.points > 0) {
			c.nontrivial(fmt.Sprintf("%d/%d/%s/%s", cs.QueueCap, cs.Workers, cs.Profile, res.sig))
		}
		if i < 3 {
			c.sample(cs)
		}
		if len(res.viol) > 0 {
			c.violation(fmt.Sprintf("wakeup-%d", cs.Idx), map[string]interface{}{"case": cs, "violations": res.viol}, "%s", res.viol[0])
		}
	}
	if points == 0 {
		c.noObservation("no quiescent point could be judged")
	}
}
