package shmipc

import (
	"bufio"
	"bytes"
	"encoding/json"
	"fmt"
	"io"
	"math/rand"
	"net"
	"os"
	"os/exec"
	"path/filepath"
	"runtime"
	"runtime/pprof"
	"sort"
	"strings"
	"sync"
	"sync/atomic"
	"syscall"
	"time"
)

// ---------------------------------------------------------------------------------------------
// PRNG: every case derives its generator from (VERIF_SEED, case index) only.

func caseRand(seed int64, idx int) *rand.Rand {
	x := uint64(seed)*0x9E3779B97F4A7C15 + uint64(idx)*0xBF58476D1CE4E5B9 + 0x94D049BB133111EB
	x ^= x >> 31
	x *= 0xD6E8FEB86659FD93
	x ^= x >> 32
	return rand.New(rand.NewSource(int64(x & 0x7fffffffffffffff)))
}

// ---------------------------------------------------------------------------------------------
// keyed byte model: byte i of the stream with key k is keyedByte(k, i)

func keyedByte(key uint64, i uint64) byte {
	x := (i+1)*0x9E3779B97F4A7C15 ^ (key+1)*0xC2B2AE3D27D4EB4F
	x ^= x >> 29
	x *= 0xBF58476D1CE4E5B9
	x ^= x >> 32
	return byte(x)
}

func fillKeyed(buf []byte, key uint64, off uint64) {
	for i := range buf {
		buf[i] = keyedByte(key, off+uint64(i))
	}
}

// checkKeyed returns the index of the first mismatching byte or -1.
func checkKeyed(buf []byte, key uint64, off uint64) int {
	for i := range buf {
		if buf[i] != keyedByte(key, off+uint64(i)) {
			return i
		}
	}
	return -1
}

// ---------------------------------------------------------------------------------------------
// fence: wait until the (process-wide) event loop has handled everything it had received before.

type pokeCallback struct{}

func (pokeCallback) onEventData(buf []byte, conn eventConn) error {
	conn.commitRead(len(buf))
	return nil
}
func (pokeCallback) onRemoteClose() {}
func (pokeCallback) onLocalClose()  {}

var (
	pokeOnce sync.Once
	pokeFd   int = -1
	pokeErr  error
	pokeMu   sync.Mutex
)

func fenceInit() {
	pokeOnce.Do(func() {
		ensureDefaultDispatcherInit()
		fds, err := syscall.Socketpair(syscall.AF_UNIX, syscall.SOCK_STREAM, 0)
		if err != nil {
			pokeErr = err
			return
		}
		f := os.NewFile(uintptr(fds[0]), "verif-poke")
		conn := defaultDispatcher.newConnection(f)
		if err := conn.setCallback(pokeCallback{}); err != nil {
			pokeErr = err
			return
		}
		pokeFd = fds[1]
	})
}

func fenceOnce(timeout time.Duration) bool {
	fenceInit()
	if pokeErr != nil {
		panic("fence: " + pokeErr.Error())
	}
	ch := make(chan struct{})
	defaultDispatcher.post(func() { close(ch) })
	pokeMu.Lock()
	_, _ = syscall.Write(pokeFd, []byte{1})
	pokeMu.Unlock()
	select {
	case <-ch:
		return true
	case <-time.After(timeout):
		return false
	}
}

// loopRun posts f to the event loop and pokes the loop so that it runs soon (f runs ON the loop goroutine).
func loopRun(f func()) {
	fenceInit()
	defaultDispatcher.post(f)
	pokeMu.Lock()
	_, _ = syscall.Write(pokeFd, []byte{1})
	pokeMu.Unlock()
}

// fence: two rounds (a lambda posted while the loop is between epoll_wait and runLambda may run before the
// loop looks at the sockets again; after the second round everything that had arrived on any event
// connection before the call has been handled). Returns false on watchdog time-out.
func fence() bool {
	return fenceOnce(20*time.Second) && fenceOnce(20*time.Second)
}

var fenceCount uint64

func fenceN(n int) bool {
	for i := 0; i < n; i++ {
		atomic.AddUint64(&fenceCount, 1)
		if !fence() {
			return false
		}
	}
	return true
}

// ---------------------------------------------------------------------------------------------
// census of process resources

type census struct {
	Fds   map[string]string // fd -> link target
	Maps  []string          // mappings of shm files / memfds:  "inode path"
	Files []string          // /dev/shm entries with the given prefix
}

func takeCensus(shmPrefix string) census {
	runtime.GC()
	runtime.GC()
	c := census{Fds: map[string]string{}}
	if ents, err := os.ReadDir("/proc/self/fd"); err == nil {
		for _, e := range ents {
			t, err := os.Readlink("/proc/self/fd/" + e.Name())
			if err != nil {
				continue
			}
			c.Fds[e.Name()] = t
		}
	}
	if data, err := os.ReadFile("/proc/self/maps"); err == nil {
		for _, line := range strings.Split(string(data), "\n") {
			f := strings.Fields(line)
			if len(f) < 6 {
				continue
			}
			path := strings.Join(f[5:], " ")
			if strings.HasPrefix(path, "/dev/shm/") || strings.HasPrefix(path, "/memfd:") {
				c.Maps = append(c.Maps, f[4]+" "+path)
			}
		}
	}
	if shmPrefix != "" {
		if m, err := filepath.Glob(shmPrefix + "*"); err == nil {
			c.Files = m
		}
	}
	sort.Strings(c.Maps)
	sort.Strings(c.Files)
	return c
}

// fdKinds summarises descriptors by kind (socket, memfd, anon_inode, file) ignoring numbers.
func (c census) fdKinds() map[string]int {
	m := map[string]int{}
	for _, t := range c.Fds {
		switch {
		case strings.HasPrefix(t, "socket:"):
			m["socket"]++
		case strings.HasPrefix(t, "/memfd:"):
			m["memfd"]++
		case strings.HasPrefix(t, "anon_inode:"):
			m["anon:"+strings.TrimPrefix(t, "anon_inode:")]++
		case strings.HasPrefix(t, "pipe:"):
			m["pipe"]++
		case strings.HasPrefix(t, "/dev/shm/"):
			m["shmfile"]++
		default:
			m["other"]++
		}
	}
	return m
}

// diffCensus lists what `after` has in excess of `before` (by kind for fds, by entry for maps/files).
func diffCensus(before, after census) []string {
	var out []string
	bk, ak := before.fdKinds(), after.fdKinds()
	for k, n := range ak {
		if k == "other" || k == "pipe" {
			continue
		}
		if n > bk[k] {
			out = append(out, fmt.Sprintf("fd kind %s: %d -> %d", k, bk[k], n))
		}
	}
	bm := map[string]int{}
	for _, m := range before.Maps {
		bm[m]++
	}
	for _, m := range after.Maps {
		if bm[m] > 0 {
			bm[m]--
			continue
		}
		out = append(out, "mapping "+m)
	}
	bf := map[string]bool{}
	for _, f := range before.Files {
		bf[f] = true
	}
	for _, f := range after.Files {
		if !bf[f] {
			out = append(out, "file "+f)
		}
	}
	sort.Strings(out)
	return out
}

func goroutineCount(substr string) int {
	var buf bytes.Buffer
	_ = pprof.Lookup("goroutine").WriteTo(&buf, 2)
	n := 0
	for _, g := range strings.Split(buf.String(), "\n\n") {
		if strings.Contains(g, substr) {
			n++
		}
	}
	return n
}

func goroutineDump() string {
	var buf bytes.Buffer
	_ = pprof.Lookup("goroutine").WriteTo(&buf, 2)
	return buf.String()
}

// ---------------------------------------------------------------------------------------------
// session pairs (client + server of the library in this process)

var pairSeq uint64

type pairOpt struct {
	memfd     bool
	tcp       bool
	queueCap  uint32
	bufCap    uint32
	sizes     []*SizePercentPair
	initTO    time.Duration
	serverCfg func(*Config)
	clientCfg func(*Config)
	noAccept  bool // do not start the acceptor goroutine
}

type sessPair struct {
	client, server *Session
	prefix         string
	sockPath       string

	mu       sync.Mutex
	cond     *sync.Cond
	accepted map[uint32]*Stream
	order    []uint32
	accDone  chan struct{}
}

func shmPrefix() string {
	return fmt.Sprintf("/dev/shm/verif_%d_", os.Getpid())
}

func newTestConfig(o pairOpt) (*Config, string) {
	n := atomic.AddUint64(&pairSeq, 1)
	prefix := fmt.Sprintf("%s%d", shmPrefix(), n)
	conf := DefaultConfig()
	conf.ShareMemoryPathPrefix = prefix
	conf.QueuePath = prefix + "_queue"
	conf.LogOutput = io.Discard
	conf.ConnectionWriteTimeout = 20 * time.Second
	if o.memfd {
		conf.MemMapType = MemMapTypeMemFd
	}
	if o.queueCap != 0 {
		conf.QueueCap = o.queueCap
	}
	conf.ShareMemoryBufferCap = 4 << 20
	if o.bufCap != 0 {
		conf.ShareMemoryBufferCap = o.bufCap
	}
	if o.sizes != nil {
		conf.BufferSliceSizes = o.sizes
	}
	conf.InitializeTimeout = 10 * time.Second // a loaded machine must not fail handshakes the scenario does not mean to fail
	if o.initTO != 0 {
		conf.InitializeTimeout = o.initTO
	}
	return conf, prefix
}

func sockDir() string {
	d := filepath.Join(os.TempDir(), fmt.Sprintf("verif_sock_%d", os.Getpid()))
	_ = os.MkdirAll(d, 0o755)
	return d
}

// connPair returns two connected net.Conn (unix by path, or tcp on loopback).
func connPair(tcp bool) (cli, srv net.Conn, path string, err error) {
	network, addr := "unix", filepath.Join(sockDir(), fmt.Sprintf("p%d.sock", atomic.AddUint64(&pairSeq, 1)))
	if tcp {
		network, addr = "tcp", "127.0.0.1:0"
	}
	ln, err := net.Listen(network, addr)
	if err != nil {
		return nil, nil, "", err
	}
	defer ln.Close()
	type res struct {
		c   net.Conn
		err error
	}
	ch := make(chan res, 1)
	go func() {
		c, err := ln.Accept()
		ch <- res{c, err}
	}()
	cli, err = net.Dial(network, ln.Addr().String())
	if err != nil {
		return nil, nil, "", err
	}
	r := <-ch
	if r.err != nil {
		cli.Close()
		return nil, nil, "", r.err
	}
	if !tcp {
		path = addr
	}
	return cli, r.c, path, nil
}

func newSessionPair(o pairOpt) (*sessPair, error) {
	conf, prefix := newTestConfig(o)
	cliConn, srvConn, path, err := connPair(o.tcp)
	if err != nil {
		return nil, err
	}
	p := &sessPair{prefix: prefix, sockPath: path, accepted: map[uint32]*Stream{}, accDone: make(chan struct{})}
	p.cond = sync.NewCond(&p.mu)
	var srvErr error
	done := make(chan struct{})
	go func() {
		sc := *conf
		if o.serverCfg != nil {
			o.serverCfg(&sc)
		}
		p.server, srvErr = newSession(&sc, srvConn, false)
		close(done)
	}()
	cc := *conf
	if o.clientCfg != nil {
		o.clientCfg(&cc)
	}
	var cliErr error
	p.client, cliErr = newSession(&cc, cliConn, true)
	<-done
	if path != "" {
		_ = os.Remove(path)
	}
	if cliErr != nil || srvErr != nil {
		if p.client != nil {
			p.client.Close()
		}
		if p.server != nil {
			p.server.Close()
		}
		return nil, fmt.Errorf("pair: client err=%v server err=%v", cliErr, srvErr)
	}
	if !o.noAccept {
		go p.acceptLoop()
	} else {
		close(p.accDone)
	}
	return p, nil
}

func (p *sessPair) acceptLoop() {
	defer close(p.accDone)
	for {
		st, err := p.server.AcceptStream()
		if err != nil {
			p.mu.Lock()
			p.cond.Broadcast()
			p.mu.Unlock()
			return
		}
		p.mu.Lock()
		p.accepted[st.StreamID()] = st
		p.order = append(p.order, st.StreamID())
		p.cond.Broadcast()
		p.mu.Unlock()
	}
}

// serverStream waits for the server-side stream with the given id (streams are matched by id, never by order).
func (p *sessPair) serverStream(id uint32, timeout time.Duration) *Stream {
	deadline := time.Now().Add(timeout)
	timer := time.AfterFunc(timeout, func() {
		p.mu.Lock()
		p.cond.Broadcast()
		p.mu.Unlock()
	})
	defer timer.Stop()
	p.mu.Lock()
	defer p.mu.Unlock()
	for {
		if s, ok := p.accepted[id]; ok {
			delete(p.accepted, id)
			return s
		}
		if time.Now().After(deadline) || p.server.IsClosed() {
			return nil
		}
		p.cond.Wait()
	}
}

// drainAccepted returns (and forgets) all accepted streams nobody asked for ("zombies": data that arrived for a
// stream the server had already closed re-creates it; the application is expected to close those).
func (p *sessPair) drainAccepted() []*Stream {
	p.mu.Lock()
	defer p.mu.Unlock()
	var out []*Stream
	for id, s := range p.accepted {
		out = append(out, s)
		delete(p.accepted, id)
	}
	return out
}

// close closes both sessions and waits until both teardown lambdas have run.
func (p *sessPair) close() {
	p.client.Close()
	p.server.Close()
	waitTeardown(p.client, 10*time.Second)
	waitTeardown(p.server, 10*time.Second)
}

// waitTeardown waits until the session's teardown lambda has finished (queueManager is nil afterwards).
func waitTeardown(s *Session, timeout time.Duration) bool {
	deadline := time.Now().Add(timeout)
	for {
		fenceOnce(5 * time.Second)
		// TryLock: a teardown that is stuck on the event loop holds this lock for ever; the wait must stay bounded
		if s.shutdownLock.TryLock() {
			done := s.queueManager == nil
			s.shutdownLock.Unlock()
			if done {
				return true
			}
		}
		if time.Now().After(deadline) {
			return false
		}
		time.Sleep(200 * time.Microsecond)
	}
}

// quiesce waits until neither direction has queued elements, a working consumer or socket writes in flight.
// It is a harness convenience (logical quiescence), not an oracle: a false return means "did not settle".
func (p *sessPair) quiesce(timeout time.Duration) bool {
	deadline := time.Now().Add(timeout)
	stable := 0
	for {
		if !fence() {
			return false
		}
		if p.client.IsClosed() || p.server.IsClosed() {
			return false
		}
		idle := true
		for _, s := range []*Session{p.client, p.server} {
			qm := s.queueManager
			if qm == nil {
				return false
			}
			if qm.recvQueue.size() != 0 || qm.recvQueue.consumerIsWorking() ||
				len(s.sendCh) != 0 || atomic.LoadUint32(&s.writing) != 0 {
				idle = false
			}
		}
		if idle {
			stable++
			if stable >= 2 {
				return true
			}
		} else {
			stable = 0
		}
		if time.Now().After(deadline) {
			return false
		}
		if !idle {
			time.Sleep(100 * time.Microsecond)
		}
	}
}

// shmInUse returns the session's in-use share memory in bytes and per class (cap - size).
func shmInUse(s *Session) (total uint64, perClass []int) {
	bm := s.bufferManager
	if bm == nil {
		return 0, nil
	}
	for _, l := range bm.lists {
		used := int(atomic.LoadUint32(l.cap)) - int(atomic.LoadInt32(l.size))
		perClass = append(perClass, used)
		if used > 0 {
			total += uint64(used) * uint64(*l.capPerBuffer)
		}
	}
	return
}

// hoard takes up to n buffers of class idx directly from the allocator (what a busy peer would do).
func hoard(bm *bufferManager, idx int, n int) []*bufferSlice {
	var out []*bufferSlice
	for i := 0; i < n; i++ {
		b, err := bm.lists[idx].pop()
		if err != nil {
			break
		}
		out = append(out, b)
	}
	return out
}

func unhoard(bm *bufferManager, bufs []*bufferSlice) {
	for _, b := range bufs {
		bm.recycleBuffer(b)
	}
}

// smallSizes: classes of a few hundred small slots inside the minimum 1 MiB mapping.
func smallSizes(pairs ...uint32) []*SizePercentPair {
	// pairs: size, percent, size, percent ...
	var out []*SizePercentPair
	for i := 0; i+1 < len(pairs); i += 2 {
		out = append(out, &SizePercentPair{Size: pairs[i], Percent: pairs[i+1]})
	}
	return out
}

// ---------------------------------------------------------------------------------------------
// child processes: the same test binary, role in VERIF_CHILD, line-oriented JSON on stdin/stdout,
// stderr (goroutine dumps, panics) to a file.

type childProc struct {
	cmd     *exec.Cmd
	name    string
	stdin   io.WriteCloser
	out     *bufio.Reader
	errPath string
	logPath string
	waitCh  chan struct{}
	waitErr error
	mu      sync.Mutex
}

var childSeq uint64

func (c *checkCtx) spawnChild(role string, args []string, extraEnv ...string) (*childProc, error) {
	return c.spawnChildFilesEnv(role, args, nil, extraEnv...)
}

// spawnChildFiles passes extra open files to the child (fd 3, 4, ...); the parent's copies are closed.
func (c *checkCtx) spawnChildFiles(role string, args []string, files []*os.File) (*childProc, error) {
	return c.spawnChildFilesEnv(role, args, files)
}

func (c *checkCtx) spawnChildFilesEnv(role string, args []string, files []*os.File, extraEnv ...string) (*childProc, error) {
	n := atomic.AddUint64(&childSeq, 1)
	name := fmt.Sprintf("%s-%s-%d-%d", c.prop, role, os.Getpid(), n)
	dir := filepath.Join(c.work, "child")
	_ = os.MkdirAll(dir, 0o755)
	cp := &childProc{name: name, errPath: filepath.Join(dir, name+".err"), logPath: filepath.Join(dir, name+".log"),
		waitCh: make(chan struct{})}
	cmd := exec.Command(os.Args[0], append([]string{"-test.run", "^$"}, args...)...)
	cmd.Env = append(os.Environ(), "VERIF_CHILD="+role, "VERIF_CHILD_LOG="+cp.logPath, "GOTRACEBACK=all")
	cmd.Env = append(cmd.Env, extraEnv...)
	ef, err := os.Create(cp.errPath)
	if err != nil {
		return nil, err
	}
	cmd.Stderr = ef
	cmd.ExtraFiles = files
	defer func() {
		for _, f := range files {
			f.Close()
		}
	}()
	stdin, err := cmd.StdinPipe()
	if err != nil {
		return nil, err
	}
	stdout, err := cmd.StdoutPipe()
	if err != nil {
		return nil, err
	}
	cp.stdin = stdin
	cp.out = bufio.NewReaderSize(stdout, 1<<20)
	cp.cmd = cmd
	if err := cmd.Start(); err != nil {
		ef.Close()
		return nil, err
	}
	ef.Close()
	return cp, nil
}

// send writes one JSON line to the child.
func (cp *childProc) send(v interface{}) error {
	data, _ := json.Marshal(v)
	cp.mu.Lock()
	defer cp.mu.Unlock()
	_, err := cp.stdin.Write(append(data, '\n'))
	return err
}

// send2 writes one raw command line to the child.
func (cp *childProc) send2(cmd string) error {
	cp.mu.Lock()
	defer cp.mu.Unlock()
	_, err := cp.stdin.Write([]byte(cmd + "\n"))
	return err
}

// recv reads one line from the child with a watchdog time-out; ok=false on EOF/time-out.
func (cp *childProc) recv(timeout time.Duration, v interface{}) (string, bool) {
	type res struct {
		line string
		err  error
	}
	ch := make(chan res, 1)
	go func() {
		line, err := cp.out.ReadString('\n')
		ch <- res{line, err}
	}()
	select {
	case r := <-ch:
		if r.err != nil && r.line == "" {
			return "", false
		}
		line := strings.TrimSpace(r.line)
		if v != nil {
			if err := json.Unmarshal([]byte(line), v); err != nil {
				return line, false
			}
		}
		return line, true
	case <-time.After(timeout):
		return "", false
	}
}

// wait waits for the child to exit (killing it with SIGQUIT then SIGKILL at the time-out) and reports how it ended.
type childExit struct {
	Exited   bool
	Code     int
	Signal   string
	TimedOut bool
	Stderr   string
}

func (cp *childProc) wait(timeout time.Duration) childExit {
	done := make(chan error, 1)
	go func() { done <- cp.cmd.Wait() }()
	var ex childExit
	var err error
	select {
	case err = <-done:
	case <-time.After(timeout):
		ex.TimedOut = true
		_ = cp.cmd.Process.Signal(syscall.SIGQUIT)
		select {
		case err = <-done:
		case <-time.After(5 * time.Second):
			_ = cp.cmd.Process.Kill()
			err = <-done
		}
	}
	if st, ok := cp.cmd.ProcessState.Sys().(syscall.WaitStatus); ok {
		if st.Signaled() {
			ex.Signal = st.Signal().String()
		} else {
			ex.Exited = true
			ex.Code = st.ExitStatus()
		}
	}
	_ = err
	if data, e := os.ReadFile(cp.errPath); e == nil {
		if len(data) > 16000 {
			data = append(data[:8000], data[len(data)-8000:]...)
		}
		ex.Stderr = string(data)
	}
	return ex
}

func (cp *childProc) kill() {
	if cp.cmd != nil && cp.cmd.Process != nil {
		_ = cp.cmd.Process.Kill()
	}
}

func (cp *childProc) cleanupFiles() {
	_ = os.Remove(cp.errPath)
	_ = os.Remove(cp.logPath)
}

// ---- child side

var childLogFile *os.File

func runChildRole(role string) {
	fn, ok := verifChildRoles[role]
	if !ok {
		fmt.Fprintf(os.Stderr, "unknown child role %s\n", role)
		os.Exit(3)
	}
	if p := os.Getenv("VERIF_CHILD_LOG"); p != "" {
		childLogFile, _ = os.OpenFile(p, os.O_CREATE|os.O_WRONLY|os.O_APPEND, 0o644)
	}
	// args after "-test.run ^$"
	var args []string
	for i, a := range os.Args {
		if a == "^$" {
			args = os.Args[i+1:]
			break
		}
	}
	fn(args)
	os.Exit(0)
}

// childLog appends a line to the child's case log *before* the case runs (survives a crash of the child).
func childLog(format string, a ...interface{}) {
	if childLogFile != nil {
		fmt.Fprintf(childLogFile, format+"\n", a...)
	}
}

func childReply(v interface{}) {
	data, _ := json.Marshal(v)
	os.Stdout.Write(append(data, '\n'))
}

func childReadLine(r *bufio.Reader, v interface{}) bool {
	line, err := r.ReadString('\n')
	if err != nil && line == "" {
		return false
	}
	return json.Unmarshal([]byte(strings.TrimSpace(line)), v) == nil
}

// ---------------------------------------------------------------------------------------------
// canary: measures scheduler lateness so that a wall-clock bound missed on an overloaded machine is
// reported as inconclusive, not as a violation.

type canary struct {
	stop    chan struct{}
	maxLate int64 // ns
}

func startCanary() *canary {
	c := &canary{stop: make(chan struct{})}
	go func() {
		const step = 2 * time.Millisecond
		for {
			t0 := time.Now()
			select {
			case <-c.stop:
				return
			case <-time.After(step):
			}
			late := int64(time.Since(t0) - step)
			for {
				old := atomic.LoadInt64(&c.maxLate)
				if late <= old || atomic.CompareAndSwapInt64(&c.maxLate, old, late) {
					break
				}
			}
		}
	}()
	return c
}

func (c *canary) healthy(limit time.Duration) bool {
	return time.Duration(atomic.LoadInt64(&c.maxLate)) < limit
}
func (c *canary) reset() { atomic.StoreInt64(&c.maxLate, 0) }
func (c *canary) close() { close(c.stop) }

// waitUntil polls cond (with fences in between) up to the time-out.
func waitUntil(timeout time.Duration, cond func() bool) bool {
	deadline := time.Now().Add(timeout)
	for i := 0; ; i++ {
		if cond() {
			return true
		}
		if time.Now().After(deadline) {
			return false
		}
		if i < 20 {
			runtime.Gosched()
		} else {
			time.Sleep(200 * time.Microsecond)
		}
	}
}

func isClosedStreamErr(err error) bool {
	return err == ErrStreamClosed || err == ErrEndOfStream || err == ErrSessionShutdown ||
		(err != nil && (strings.Contains(err.Error(), "closed") || strings.Contains(err.Error(), "shutdown") ||
			strings.Contains(err.Error(), "reset by peer") || strings.Contains(err.Error(), "broken pipe") ||
			strings.Contains(err.Error(), "end of stream")))
}
