package shmipc

import "fmt"

func init() {
	verifChecks["SMOKE"] = func(c *checkCtx) {
		p, err := newSessionPair(pairOpt{memfd: true, sizes: smallSizes(64, 10, 4096, 90)})
		if err != nil {
			panic(err)
		}
		st, _ := p.client.OpenStream()
		st.BufferWriter().WriteString("hello")
		fmt.Println("flush:", st.Flush(false))
		ss := p.serverStream(st.StreamID(), 2e9)
		b, err := ss.BufferReader().ReadBytes(5)
		fmt.Println(string(b), err, fence(), p.quiesce(1e9))
		st.Close()
		ss.Close()
		fmt.Println(p.quiesce(1e9))
		fmt.Println(shmInUse(p.client))
		p.close()
		c.eval(1)
		c.nontrivial("a")
		c.nontrivial("b")
		c.sample("x")
	}
}
