package shmipc

// C15: the stream pool only hands out clean live streams and never leaks one.
// SessionManager + Listener in one process, concurrent callers looping GetStream -> request(id) -> reply -> PutBack/Close,
// with chaos actors (server-side closes, fallback through exhaustion, session kills). Phases alternate chaos (only the
// race-free safety rules are judged: exclusivity, id echo) and quiesced (state rules + accounting).

import (
	"encoding/binary"
	"fmt"
	"math/rand"
	"os"
	"path/filepath"
	"strings"
	"sync"
	"sync/atomic"
	"time"

	"github.com/anishathalye/porcupine"
)

func init() {
	verifChecks["C15"] = checkPool
}

const (
	poolHdr          = 16 // id 8 | payload length 4 | flags 4
	poolFlagClose    = 1  // server closes the stream right after replying
	poolFlagCloseLag = 2  // server closes the stream a little later
	poolFlagTwoFlush = 4  // server flushes header and payload separately and reports when the second flush is done
)

// ---- server side: echo handler per stream

type poolServer struct {
	ln           *Listener
	path         string
	tag          uint32 // echoed in the flags field of every reply: tells which listener served the request
	streams      int64
	replies      int64
	closedBy     int64
	closing      int64    // server-side closes announced by a reply but not yet performed
	flushed2     sync.Map // request id -> true once the second flush of a two-flush reply returned
	seen         sync.Map // *Session -> true: every session the listener ever held (sampled)
	sessionsSeen int64
	stopSampler  chan struct{}
	wg           sync.WaitGroup
	stop         uint32
}

func (ps *poolServer) OnNewStream(s *Stream) {
	atomic.AddInt64(&ps.streams, 1)
	ps.wg.Add(1)
	go ps.serve(s)
}
func (ps *poolServer) OnShutdown(reason string) {}

func (ps *poolServer) serve(s *Stream) {
	defer ps.wg.Done()
	closing := false
	defer func() {
		s.Close()
		if closing {
			atomic.AddInt64(&ps.closing, -1)
		}
	}()
	r := s.BufferReader()
	for {
		s.SetReadDeadline(time.Now().Add(30 * time.Second))
		hdr, err := r.ReadBytes(poolHdr)
		if err != nil {
			return
		}
		id := binary.BigEndian.Uint64(hdr[0:8])
		n := int(binary.BigEndian.Uint32(hdr[8:12]))
		flags := binary.BigEndian.Uint32(hdr[12:16])
		var payload []byte
		if n > 0 {
			p, err := r.ReadBytes(n)
			if err != nil {
				return
			}
			payload = append(payload, p...)
		}
		r.ReleasePreviousRead()
		out := make([]byte, poolHdr+n)
		binary.BigEndian.PutUint64(out[0:8], id)
		binary.BigEndian.PutUint32(out[8:12], uint32(n))
		binary.BigEndian.PutUint32(out[12:16], ps.tag)
		copy(out[poolHdr:], payload)
		if flags&(poolFlagClose|poolFlagCloseLag) != 0 && !closing {
			closing = true
			atomic.AddInt64(&ps.closing, 1)
		}
		if flags&poolFlagTwoFlush != 0 && n > 0 {
			if _, err := s.BufferWriter().WriteBytes(out[:poolHdr]); err != nil {
				return
			}
			if err := s.Flush(false); err != nil {
				return
			}
			out = out[poolHdr:]
		}
		if _, err := s.BufferWriter().WriteBytes(out); err != nil {
			return
		}
		if err := s.Flush(false); err != nil {
			return
		}
		if flags&poolFlagTwoFlush != 0 {
			ps.flushed2.Store(id, true)
		}
		atomic.AddInt64(&ps.replies, 1)
		if flags&poolFlagClose != 0 {
			atomic.AddInt64(&ps.closedBy, 1)
			return
		}
		if flags&poolFlagCloseLag != 0 {
			atomic.AddInt64(&ps.closedBy, 1)
			time.Sleep(time.Duration(50+id%400) * time.Microsecond)
			return
		}
	}
}

func startPoolServer() (*poolServer, error) {
	return startPoolServerAt(filepath.Join(sockDir(), fmt.Sprintf("pool%d.sock", atomic.AddUint64(&pairSeq, 1))), 0, true)
}

// startPoolServerAt listens on path (replacing a previous listener's socket file, as a restarted server does).
func startPoolServerAt(path string, tag uint32, run bool) (*poolServer, error) {
	ps := &poolServer{path: path, tag: tag}
	cfg := NewDefaultListenerConfig(ps.path, "unix")
	cfg.LogOutput = nil
	ln, err := NewListener(ps, cfg)
	if err != nil {
		return nil, err
	}
	ps.ln = ln
	ps.stopSampler = make(chan struct{})
	go func() { // samples the listener's session table: counts every session it ever held
		for {
			for _, s := range ps.sessionList() {
				if _, old := ps.seen.LoadOrStore(s, true); !old {
					atomic.AddInt64(&ps.sessionsSeen, 1)
				}
			}
			ps.ln.mu.Lock()
			closed := ps.ln.isClose
			ps.ln.mu.Unlock()
			if closed {
				return
			}
			time.Sleep(500 * time.Microsecond)
		}
	}()
	ln.SetUnlinkOnClose(false)
	if run {
		go ln.Run()
	}
	return ps, nil
}

func (ps *poolServer) sessionList() []*Session {
	ps.ln.sessions.sessionMu.Lock()
	defer ps.ln.sessions.sessionMu.Unlock()
	var out []*Session
	for s := range ps.ln.sessions.data {
		out = append(out, s)
	}
	return out
}

// ---- one execution

type poolCase struct {
	Idx      int    `json:"idx"`
	Sessions int    `json:"sessions"`
	PoolCap  int    `json:"pool_capacity"`
	Callers  int    `json:"callers"`
	Phases   int    `json:"phases"`
	OpsPhase int    `json:"ops_per_caller_per_phase"`
	Memfd    bool   `json:"memfd"`
	Chaos    string `json:"chaos"` // none | server-close | fallback | kill-session | all
	Seed     int64  `json:"seed"`
}

type poolResult struct {
	viol            []string
	inconcl         string
	roundTrips      int64
	reused          int64
	opened          int64
	putBacks        int64
	closes          int64
	errors          int64
	partReads       int64
	pendingPutBacks int64
	unflushed       int64
	fallbacks       uint64
	kills           int
	quiescedGets    int64
	accountings     int
	discards        int64
	deadProbes      int64
}

func runPoolCase(c *checkCtx, cs poolCase) (res poolResult) {
	ps, err := startPoolServer()
	if err != nil {
		res.inconcl = "listener: " + err.Error()
		return
	}
	defer func() {
		ps.ln.Close()
		os.Remove(ps.path)
	}()
	smc := DefaultSessionManagerConfig()
	conf, _ := newTestConfig(pairOpt{memfd: cs.Memfd, sizes: smallSizes(256, 30, 4096, 70), bufCap: 2 << 20})
	smc.Config = conf
	smc.Network = "unix"
	smc.Address = ps.path
	smc.SessionNum = cs.Sessions
	smc.MaxStreamNum = cs.PoolCap
	smc.Config.rebuildInterval = 30 * time.Millisecond
	sm, err := NewSessionManager(smc)
	if err != nil {
		res.inconcl = "session manager: " + err.Error()
		return
	}
	if cs.Idx%3 == 1 {
		// a pool late in its life (the pool object and its counters survive session rebuilds): see poolRingHistory
		for _, p := range sm.pools {
			p.Lock()
			if p.head == p.tail {
				p.head, p.tail = 1<<32-3, 1<<32-3
			}
			p.Unlock()
		}
	}
	defer func() {
		sm.Close()
		fenceN(2)
	}()
	// probe state for "a stream of an already dead session must not be handed out": the teardown of a chosen client session
	// is parked (hook) right after its shutdown flag was raised, and GetStream is called in that window
	var probeTarget atomic.Value // *Session
	probeParked := make(chan struct{}, 1)
	probeRelease := make(chan struct{}, 1)
	{
		k := newCtl("c15", cs.Seed)
		if cs.Chaos == "server-close" || cs.Chaos == "all" {
			// widen the window between Stream.close's state load and its CAS: the peer's close may land there (X15)
			k.set(vpStreamCloseLoaded, 80, 40*time.Microsecond, 80)
		}
		k.on(vpSessTeardownBegin, func(obj interface{}, n int64) {
			if ts, _ := obj.(*Session); ts != nil {
				if want, _ := probeTarget.Load().(*Session); want == ts {
					select {
					case probeParked <- struct{}{}:
					default:
					}
					select {
					case <-probeRelease:
					case <-time.After(time.Duration(envInt("VERIF_C15_PARK_MS", 15)) * time.Millisecond): // shorter than the rebuild interval: the teardown must have run before the pool is rebuilt
					}
				}
			}
		})
		k.install()
		defer uninstallCtl()
	}
	var violMu sync.Mutex
	var timeoutMu sync.Mutex
	var nViol int32
	violate := func(format string, a ...interface{}) {
		atomic.AddInt32(&nViol, 1)
		violMu.Lock()
		if len(res.viol) < 6 {
			res.viol = append(res.viol, fmt.Sprintf(format, a...))
		}
		violMu.Unlock()
	}
	var owners sync.Map // *Stream -> *int32
	ownerOf := func(s *Stream) *int32 {
		v, _ := owners.LoadOrStore(s, new(int32))
		return v.(*int32)
	}
	var chaosOn uint32
	var nextID uint64
	// Known finding F2 (teardown does not wait for users of the session's streams and memory) makes any stream or
	// buffer operation that overlaps a session teardown process-fatal. That is C14's subject; here session kills are
	// serialised against stream use: callers and the hoarder hold the read side around their operations, the killer
	// holds the write side until the lost client session has finished its teardown. GetStream on a pool whose session is
	// gone, discarding of dead pooled streams and the rebuild are still exercised (between iterations).
	var world sync.RWMutex
	var seenStreams sync.Map
	// one caller iteration; returns false when the caller should stop
	iteration := func(me int32, rng *rand.Rand, quiesced bool) {
		world.RLock()
		defer world.RUnlock()
		s, err := sm.GetStream()
		if err != nil {
			atomic.AddInt64(&res.errors, 1)
			if quiesced {
				violate("GetStream failed in a quiesced phase: %v", err)
			}
			world.RUnlock()
			time.Sleep(200 * time.Microsecond)
			world.RLock()
			return
		}
		if !atomic.CompareAndSwapInt32(ownerOf(s), 0, me) {
			violate("stream %p (id %d) handed to caller %d while caller %d holds it", s, s.StreamID(), me, atomic.LoadInt32(ownerOf(s)))
			return
		}
		if _, old := seenStreams.LoadOrStore(s, true); old {
			atomic.AddInt64(&res.reused, 1)
		} else {
			atomic.AddInt64(&res.opened, 1)
		}
		release := func() bool {
			if !atomic.CompareAndSwapInt32(ownerOf(s), me, 0) {
				violate("ownership tag of stream %p changed while caller %d held it", s, me)
				return false
			}
			return true
		}
		if quiesced {
			atomic.AddInt64(&res.quiescedGets, 1)
			s.pendingData.Lock()
			pend := len(s.pendingData.unread)
			s.pendingData.Unlock()
			if !s.IsOpen() || s.Session().IsClosed() || s.recvBuf.Len() != 0 || pend != 0 || s.sendBuf.Len() != 0 {
				violate("stream obtained in a quiesced phase is not clean/live: open=%v sessionClosed=%v buffered=%d pending=%d unflushed=%d",
					s.IsOpen(), s.Session().IsClosed(), s.recvBuf.Len(), pend, s.sendBuf.Len())
			}
		}
		id := atomic.AddUint64(&nextID, 1)
		n := []int{0, 1, 40, 300, 5000}[rng.Intn(5)]
		flags := uint32(0)
		if atomic.LoadUint32(&chaosOn) == 1 && rng.Intn(4) == 0 {
			flags = poolFlagTwoFlush
		} else if atomic.LoadUint32(&chaosOn) == 1 && (cs.Chaos == "server-close" || cs.Chaos == "all") {
			switch rng.Intn(6) {
			case 0:
				flags = poolFlagClose
			case 1:
				flags = poolFlagCloseLag
			}
		}
		req := make([]byte, poolHdr+n)
		binary.BigEndian.PutUint64(req[0:8], id)
		binary.BigEndian.PutUint32(req[8:12], uint32(n))
		binary.BigEndian.PutUint32(req[12:16], flags)
		fillKeyed(req[poolHdr:], id, 0)
		failWhy := ""
		fail := func() {
			atomic.AddInt64(&res.errors, 1)
			if quiesced && strings.Contains(failWhy, "i/o deadline reached") {
				// a reply that does not come within 10 s on a live, open stream is a progress matter (C05/C11), not one of this
				// property's statements about what the pool hands out; it is recorded, not judged here
				timeoutMu.Lock()
				res.inconcl = "a round trip in a quiesced phase timed out after 10 s on an open stream of a live session (" + failWhy + ")"
				timeoutMu.Unlock()
			} else if quiesced {
				violate("round trip on a stream obtained in a quiesced phase failed at %s (stream %d open=%v state=%d sessionClosed=%v fallbackState=%v)",
					failWhy, s.StreamID(), s.IsOpen(), s.getStreamState(), s.Session().IsClosed(), s.inFallbackState)
			}
			if release() {
				s.Close()
				atomic.AddInt64(&res.closes, 1)
			}
		}
		if _, err := s.BufferWriter().WriteBytes(req); err != nil {
			failWhy = "WriteBytes: " + err.Error()
			fail()
			return
		}
		if err := s.Flush(false); err != nil {
			failWhy = "Flush: " + err.Error()
			fail()
			return
		}
		s.SetReadDeadline(time.Now().Add(10 * time.Second))
		hdr, err := s.BufferReader().ReadBytes(poolHdr)
		if err != nil {
			failWhy = "ReadBytes(header): " + err.Error()
			fail()
			return
		}
		gotID := binary.BigEndian.Uint64(hdr[0:8])
		gotN := int(binary.BigEndian.Uint32(hdr[8:12]))
		if gotID != id || gotN != n {
			diag := fmt.Sprintf("header bytes % x; recvBuf.len=%d slices=%d fallbackState=%v state=%d", hdr, s.recvBuf.Len(), s.recvBuf.sliceList.size(), s.inFallbackState, s.getStreamState())
			if f := s.recvBuf.sliceList.front(); f != nil {
				diag += fmt.Sprintf(" front{fromShm=%v off=%d cap=%d r=%d w=%d}", f.isFromShm, f.offsetInShm, f.cap, f.readIndex, f.writeIndex)
			}
			violate("caller %d sent request id %d (%d bytes) on stream %d but the first bytes it read are a reply to id %d (%d bytes): bytes from an earlier use [%s]",
				me, id, n, s.StreamID(), gotID, gotN, diag)
			release()
			s.Close()
			return
		}
		atomic.AddInt64(&res.roundTrips, 1)
		mode := rng.Intn(10)
		if quiesced {
			mode = rng.Intn(7) // no dirty put-backs in quiesced phases (keeps accounting exact and simple)
		}
		switch {
		case mode < 6: // read everything, give back
			if n > 0 {
				body, err := s.BufferReader().ReadBytes(n)
				if err != nil {
					fail()
					return
				}
				if bad := checkKeyed(body, id, 0); bad >= 0 {
					violate("reply payload differs from the request at byte %d (stream %d)", bad, s.StreamID())
				}
			}
			s.BufferReader().ReleasePreviousRead()
			if release() {
				sm.PutBack(s)
				atomic.AddInt64(&res.putBacks, 1)
			}
		case mode == 6: // read everything, close
			if n > 0 {
				if _, err := s.BufferReader().ReadBytes(n); err != nil {
					fail()
					return
				}
			}
			s.BufferReader().ReleasePreviousRead()
			if release() {
				s.Close()
				atomic.AddInt64(&res.closes, 1)
			}
		case mode == 7 || mode == 8: // read only part of the reply and give back (the pool must close it)
			atomic.AddInt64(&res.partReads, 1)
			if flags&poolFlagTwoFlush != 0 {
				// the payload travels in a second message: wait until it has certainly arrived (flush returned + fence), so that
				// it sits in the stream's pending data (never looked at by this caller) when the stream is given back
				// "arrived" = it sits in this stream's pending data. (The server's Flush having returned plus a fence is not
				// enough: its wake-up may still be queued in the session's send channel, and a reply that is still in flight when
				// a stream is given back is outside the oracle.)
				arrived := func() bool {
					s.pendingData.Lock()
					defer s.pendingData.Unlock()
					return len(s.pendingData.unread) > 0 || s.recvBuf.Len() >= n // (a read of the header may already have moved it in)
				}
				if !waitUntil(10*time.Second, func() bool { _, ok := ps.flushed2.Load(id); return ok && arrived() }) {
					failWhy = "second message of a two-flush reply did not arrive"
					fail()
					return
				}
				ps.flushed2.Delete(id)
				atomic.AddInt64(&res.pendingPutBacks, 1)
			}
			if release() {
				sm.PutBack(s)
				atomic.AddInt64(&res.putBacks, 1)
			}
		default: // write without flushing and give back (X10: must not be inherited by the next user)
			if n > 0 {
				if _, err := s.BufferReader().ReadBytes(n); err != nil {
					fail()
					return
				}
			}
			s.BufferReader().ReleasePreviousRead()
			s.BufferWriter().WriteBytes([]byte("stale-unflushed-bytes"))
			atomic.AddInt64(&res.unflushed, 1)
			if release() {
				sm.PutBack(s)
				atomic.AddInt64(&res.putBacks, 1)
			}
		}
	}
	runPhase := func(phase int, quiesced bool) {
		var wg sync.WaitGroup
		stopChaos := make(chan struct{})
		var cwg sync.WaitGroup
		if !quiesced {
			atomic.StoreUint32(&chaosOn, 1)
		}
		if !quiesced && cs.Chaos != "none" {
			if cs.Chaos == "fallback" || cs.Chaos == "all" {
				cwg.Add(1)
				go func() { // hoarder: exhausts the client side's share memory now and then
					defer cwg.Done()
					rng := rand.New(rand.NewSource(cs.Seed + int64(phase)*31))
					for {
						select {
						case <-stopChaos:
							return
						case <-time.After(time.Duration(200+rng.Intn(800)) * time.Microsecond):
						}
						func() {
							world.RLock()
							defer world.RUnlock()
							sm.RLock()
							pool := sm.pools[rng.Intn(len(sm.pools))]
							sm.RUnlock()
							sess := pool.Session()
							if sess == nil || sess.IsClosed() {
								return
							}
							bm := sess.bufferManager
							var held []*bufferSlice
							for i := range bm.lists {
								held = append(held, hoard(bm, i, 1<<20)...)
							}
							time.Sleep(time.Duration(100+rng.Intn(400)) * time.Microsecond)
							unhoard(bm, held)
						}()
					}
				}()
			}
			if cs.Chaos == "kill-session" || cs.Chaos == "all" {
				cwg.Add(1)
				go func() {
					defer cwg.Done()
					rng := rand.New(rand.NewSource(cs.Seed + int64(phase)*77))
					for {
						select {
						case <-stopChaos:
							return
						case <-time.After(time.Duration(3+rng.Intn(10)) * time.Millisecond):
						}
						func() {
							world.Lock()
							defer world.Unlock()
							ss := ps.sessionList()
							if len(ss) == 0 {
								return
							}
							victim := ss[rng.Intn(len(ss))]
							name := victim.sessionName()
							var peer *Session
							sm.RLock()
							for _, p := range sm.pools {
								if cs := p.Session(); cs != nil && cs.sessionName() == name {
									peer = cs
								}
							}
							sm.RUnlock()
							if peer != nil && rng.Intn(2) == 0 {
								// make sure the doomed session has idle streams in its pool, then park its teardown and ask for streams
								var warm []*Stream
								for i := 0; i < 8*len(sm.pools)*sessionRoundRobinThreshold && len(warm) < 3; i++ {
									if st, err := sm.GetStream(); err == nil {
										if st.Session() == peer {
											warm = append(warm, st)
										} else {
											sm.PutBack(st)
										}
									}
								}
								for _, st := range warm {
									sm.PutBack(st)
								}
								probeTarget.Store(peer)
								victim.Close()
								res.kills++
								select {
								case <-probeParked:
									// the session's shutdown flag is raised, its teardown has not run yet
									atomic.AddInt64(&res.deadProbes, 1)
									for i := 0; i < 2*len(sm.pools)*sessionRoundRobinThreshold; i++ {
										st, err := sm.GetStream()
										if err != nil {
											continue
										}
										if st.Session() == peer {
											violate("GetStream handed out stream %d of a session that had already been closed (shutdown flag raised before the call)", st.StreamID())
											break
										}
										sm.PutBack(st)
									}
								case <-time.After(5 * time.Second):
								}
								probeTarget.Store((*Session)(nil))
								select {
								case probeRelease <- struct{}{}:
								default:
								}
							} else {
								victim.Close()
								res.kills++
							}
							waitTeardown(victim, 10*time.Second)
							if peer != nil {
								waitUntil(10*time.Second, func() bool { fenceOnce(5 * time.Second); return peer.IsClosed() })
								waitTeardown(peer, 10*time.Second)
							}
						}()
					}
				}()
			}
		}
		for w := 0; w < cs.Callers; w++ {
			wg.Add(1)
			go func(w int) {
				defer wg.Done()
				rng := rand.New(rand.NewSource(cs.Seed + int64(phase)*1000 + int64(w)))
				for i := 0; i < cs.OpsPhase && atomic.LoadInt32(&nViol) == 0; i++ {
					iteration(int32(w+1), rng, quiesced)
				}
			}(w)
		}
		wg.Wait()
		close(stopChaos)
		cwg.Wait()
		atomic.StoreUint32(&chaosOn, 0)
	}
	// settle: every session of the manager is alive again, nothing in flight
	settle := func() bool {
		return waitUntil(15*time.Second, func() bool {
			if atomic.LoadInt64(&ps.closing) != 0 || !fence() || atomic.LoadInt64(&ps.closing) != 0 {
				return false
			}
			sm.RLock()
			defer sm.RUnlock()
			for _, p := range sm.pools {
				s := p.Session()
				if s == nil || s.IsClosed() || !s.IsHealthy() {
					return false
				}
				qm := s.queueManager
				if qm == nil || qm.recvQueue.size() != 0 || qm.sendQueue.size() != 0 || qm.recvQueue.consumerIsWorking() || qm.sendQueue.consumerIsWorking() {
					return false
				}
			}
			return true
		})
	}
	accounting := func(where string) {
		if !settle() {
			res.inconcl = "manager did not settle before accounting (" + where + ")"
			return
		}
		// give late close events a chance, then count
		fenceN(2)
		ok := waitUntil(5*time.Second, func() bool {
			fence()
			sm.RLock()
			defer sm.RUnlock()
			for _, p := range sm.pools {
				p.Lock()
				pooled := int(p.tail - p.head)
				p.Unlock()
				if p.Session().GetActiveStreamCount() != pooled {
					return false
				}
			}
			return true
		})
		res.accountings++
		if !ok {
			sm.RLock()
			var detail []string
			for i, p := range sm.pools {
				p.Lock()
				pooled := int(p.tail - p.head)
				p.Unlock()
				detail = append(detail, fmt.Sprintf("pool %d: active streams %d, pooled %d", i, p.Session().GetActiveStreamCount(), pooled))
			}
			sm.RUnlock()
			violate("leak (%s): callers hold nothing, yet the sessions' active stream counts differ from what the pools keep: %v", where, detail)
		}
	}
	for ph := 0; ph < cs.Phases && atomic.LoadInt32(&nViol) == 0 && res.inconcl == ""; ph++ {
		runPhase(ph, false) // chaos phase: only exclusivity + id echo are judged
		if atomic.LoadInt32(&nViol) != 0 {
			break
		}
		if !settle() {
			res.inconcl = "manager did not settle after a chaos phase"
			break
		}
		runPhase(ph, true) // quiesced phase: state rules
		accounting(fmt.Sprintf("after phase %d", ph))
	}
	sm.RLock()
	for _, p := range sm.pools {
		if s := p.Session(); s != nil {
			res.fallbacks += atomic.LoadUint64(&s.stats.fallbackWriteCount) + atomic.LoadUint64(&s.stats.fallbackReadCount)
		}
	}
	sm.RUnlock()
	return
}

func genPoolCase(c *checkCtx, idx int) poolCase {
	rng := caseRand(c.seed, 300000+idx)
	cs := poolCase{Idx: idx}
	cs.Sessions = 1 + rng.Intn(3)
	cs.PoolCap = []int{0, 1, 4, 4096, 3, 5, 7, 6}[rng.Intn(8)]
	cs.Callers = []int{2, 4, 8, 16, 32}[rng.Intn(5)]
	cs.Phases = 3
	cs.OpsPhase = c.pick(60, 150)
	cs.Memfd = rng.Intn(2) == 0
	cs.Chaos = []string{"none", "server-close", "server-close", "fallback", "kill-session", "all"}[rng.Intn(6)]
	cs.Seed = rng.Int63()
	return cs
}

// ---- bare ring: streamPool.push/pop against a bounded FIFO (porcupine), tiny histories

func poolRingHistory(c *checkCtx, idx int) (verdict string, info string, nops int) {
	rng := caseRand(c.seed, 310000+idx)
	capN := 1 + rng.Intn(3)
	workers := 2 + rng.Intn(3)
	p := newStreamPool(uint32(capN))
	if idx%2 == 1 {
		// the ring's counters only ever grow: an empty ring with head == tail == X is the state after X put-backs; start some
		// histories late in the pool's life, around the points where a narrower index type would wrap
		capN = []int{1, 2, 3, 5, 6, 7}[rng.Intn(6)]
		p = newStreamPool(uint32(capN))
		base := []uint64{1<<32 - 1, 1<<32 - 2, 1<<32 - uint64(capN), 1<<31 - 1, 1<<16 - 1, 1<<33 - 3}[rng.Intn(6)]
		p.head, p.tail = base, base
	}
	var clock int64
	var mu sync.Mutex
	var ops []porcupine.Operation
	ids := map[*Stream]uint64{}
	var idMu sync.Mutex
	var wg sync.WaitGroup
	for w := 0; w < workers; w++ {
		wg.Add(1)
		seed := rng.Int63()
		go func(w int) {
			defer wg.Done()
			r := rand.New(rand.NewSource(seed))
			for i := 0; i < 12; i++ {
				if r.Intn(2) == 0 {
					s := &Stream{}
					idMu.Lock()
					id := uint64(w+1)<<32 | uint64(i+1)
					ids[s] = id
					idMu.Unlock()
					t0 := atomic.AddInt64(&clock, 1)
					err := p.push(s)
					t1 := atomic.AddInt64(&clock, 1)
					mu.Lock()
					ops = append(ops, porcupine.Operation{ClientId: w, Input: qIn{put: true, id: id}, Call: t0, Output: qOut{ok: err == nil}, Return: t1})
					mu.Unlock()
				} else {
					t0 := atomic.AddInt64(&clock, 1)
					s := p.pop()
					t1 := atomic.AddInt64(&clock, 1)
					var id uint64
					if s != nil {
						idMu.Lock()
						id = ids[s]
						idMu.Unlock()
					}
					mu.Lock()
					ops = append(ops, porcupine.Operation{ClientId: w, Input: qIn{}, Call: t0, Output: qOut{ok: s != nil, id: id}, Return: t1})
					mu.Unlock()
				}
			}
		}(w)
	}
	wg.Wait()
	v, inf := porcupineOps(ops, capN)
	return v, inf, len(ops)
}

func porcupineOps(ops []porcupine.Operation, capacity int) (string, string) {
	key := func(id uint64) string { return fmt.Sprintf("%016x", id) }
	model := porcupine.Model{
		Init: func() interface{} { return "" },
		Step: func(state, input, output interface{}) (bool, interface{}) {
			st := state.(string)
			in := input.(qIn)
			out := output.(qOut)
			if in.put {
				if out.ok {
					if len(st)/16 >= capacity {
						return false, st
					}
					return true, st + key(in.id)
				}
				return len(st)/16 == capacity, st
			}
			if !out.ok {
				return len(st) == 0, st
			}
			if len(st) == 0 || st[:16] != key(out.id) {
				return false, st
			}
			return true, st[16:]
		},
		Equal: func(a, b interface{}) bool { return a.(string) == b.(string) },
	}
	r, _ := porcupine.CheckOperationsVerbose(model, ops, 4*time.Second)
	switch r {
	case porcupine.Ok:
		return "ok", ""
	case porcupine.Illegal:
		return "illegal", fmt.Sprintf("%d operations", len(ops))
	}
	return "unknown", "checker time-out"
}

func checkPool(c *checkCtx) {
	c.rule = "cases = (1..3 sessions, pool capacity 0/1/3/4/5/6/7/4096 (a third of the pools start with their ring counters just below 2^32), 2..32 callers, chaos kind none/server-close/fallback/kill-session/all, file/memfd) from " +
		"PRNG(VERIF_SEED, index); each execution alternates chaos phases (exclusivity + id echo judged) and quiesced phases (clean/live stream, " +
		"accounting active == pooled + held); non-trivial = the execution reused pooled streams AND hit at least one hostile event (server-side close, " +
		"part-read or unflushed put-back, fallback, session kill); distinct = distinct (sessions, pool cap, callers, chaos, bucketed event counts); " +
		"plus porcupine on tiny streamPool.push/pop histories against a bounded FIFO"
	c.assume("replies are single-flush, so 'part of the reply read' implies the whole reply had arrived; in-flight replies to a stream that was put back " +
		"without reading are outside the oracle (no implementation of this wire protocol can tell them apart)")
	if isRacePass() {
		for i := 0; i < 200; i++ {
			poolRingHistory(c, i)
		}
		c.eval(200)
		c.nontrivial("a")
		c.nontrivial("b")
		c.sample("race pass: 200 ring histories")
		return
	}
	armGenericABADetector()
	defer verifPopHook.Store((*verifPopHooks)(nil))
	n := c.pick(36, 1500)
	for i := 0; i < n; i++ {
		cs := genPoolCase(c, i)
		if only := os.Getenv("VERIF_C15_ONLY"); only != "" && only != fmt.Sprint(i) {
			continue
		}
		suspectsBefore := abaSuspectCount()
		res := runPoolCase(c, cs)
		c.eval(1)
		c.count("round trips", res.roundTrips)
		c.count("streams reused from the pool", res.reused)
		c.count("streams opened", res.opened)
		c.count("put-backs", res.putBacks)
		c.count("put-backs with part of the reply unread", res.partReads)
		c.count("put-backs with unflushed bytes", res.unflushed)
		c.count("put-backs with an arrived but never looked-at message (pending data)", res.pendingPutBacks)
		c.count("caller-side closes", res.closes)
		c.count("round trips that failed (chaos)", res.errors)
		c.count("fallback reads+writes", int64(res.fallbacks))
		c.count("sessions killed by the server", int64(res.kills))
		c.count("GetStream probes inside the window 'session closed, teardown not yet run'", res.deadProbes)
		c.count("streams obtained in quiesced phases (state rules judged)", res.quiescedGets)
		c.count("accounting points", int64(res.accountings))
		hostile := res.partReads + res.unflushed + int64(res.fallbacks) + int64(res.kills)
		if cs.Chaos == "server-close" || cs.Chaos == "all" {
			hostile++
		}
		if res.reused > 0 && hostile > 0 {
			b := func(x int64) int {
				switch {
				case x == 0:
					return 0
				case x < 10:
					return 1
				case x < 100:
					return 2
				}
				return 3
			}
			c.nontrivial(fmt.Sprintf("%d/%d/%d/%s/%d%d%d%d", cs.Sessions, cs.PoolCap, cs.Callers, cs.Chaos, b(res.partReads), b(res.unflushed), b(int64(res.fallbacks)), b(int64(res.kills))))
		}
		if i < 3 {
			c.sample(cs)
		}
		if res.inconcl != "" {
			c.inconclusiveCase(fmt.Sprintf("pool-%d", cs.Idx), res.inconcl)
		}
		if len(res.viol) > 0 {
			if d := abaSuspectCount() - suspectsBefore; d > 0 {
				c.inconclusiveCase(fmt.Sprintf("pool-%d", cs.Idx), fmt.Sprintf("failure in an execution with %d allocator ABA suspect(s) (known finding F1 can corrupt any buffer): %s", d, res.viol[0]))
			} else {
				c.violation(fmt.Sprintf("pool-%d", cs.Idx), map[string]interface{}{"case": cs, "violations": res.viol}, "%s", res.viol[0])
			}
		}
	}
	// bare ring histories
	verd := map[string]int{}
	for i := 0; i < c.pick(300, 10000); i++ {
		v, info, nops := poolRingHistory(c, i)
		verd[v]++
		c.eval(1)
		c.count("ring operations (porcupine)", int64(nops))
		if v == "illegal" {
			c.violation(fmt.Sprintf("ring-%d", i), map[string]interface{}{"idx": i, "info": info}, "streamPool push/pop history is not linearizable w.r.t. a bounded FIFO: %s", info)
		}
	}
	c.setExtra("ring_porcupine_verdicts", verd)
	c.setExtra("allocator_aba_suspects_seen", abaSuspectCount())
	reports, ran, info := c.runRacePass(5 * time.Minute)
	if ran {
		c.count("race pass: reports", int64(len(reports)))
		for _, r := range reports {
			if stackHas(r.Stack1, "(*streamPool).push", "(*streamPool).pop") && stackHas(r.Stack2, "(*streamPool).push", "(*streamPool).pop") {
				c.violation("pool-race", map[string]interface{}{"report": r.Raw},
					"race detector: unordered accesses inside streamPool.push/pop (two callers can obtain the same stream)")
				break
			}
		}
		c.setExtra("race_pairs", racePairs(reports))
	} else {
		c.setExtra("race_pass", "not run: "+info)
	}
}
