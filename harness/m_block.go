package shmipc

// C11: no stream or session call blocks forever — decided as bounded progress.
// Restatement (a finite run cannot decide "forever"): after the releasing event has happened (harness-observed:
// the writer's Flush returned, Close returned, the deadline instant passed), the blocked call returns before the
// event loop has completed 3 further fences and 5 s have passed, with a healthy canary (scheduler lateness < 100 ms;
// otherwise the case is inconclusive). Deadline-bounded calls must not return ErrTimeout before the deadline.
// Scenario table = blocking call x releasing event x timing of the event relative to the waiter entering its wait
// (before the call, inside the window between the length test and the select — widened with the ReadMoreBeforeWait
// hook —, after the waiter parked).

import (
	"fmt"
	"net"
	"os"
	"sync"
	"sync/atomic"
	"time"
)

func init() {
	verifChecks["C11"] = checkBlock
}

type blkCase struct {
	Idx    int    `json:"idx"`
	Call   string `json:"call"`   // ReadBytes | Peek | Discard | ReadByte | Read | ReadString | OnDataRead | Flush | AcceptStream | Handshake
	Event  string `json:"event"`  // data | data-two-parts | deadline | local-close | peer-close | session-close | peer-session-close | queue-drained | stream-closed
	Timing string `json:"timing"` // before | window | parked
	Memfd  bool   `json:"memfd"`
	Rep    int    `json:"rep"`
}

type blkResult struct {
	viol       string
	inconcl    string
	returnedIn time.Duration
	err        string
	windowHit  bool
}

const blkBound = 5 * time.Second

// blkCb: callback-mode reader whose OnData asks for more than it was offered (a blocking read inside the callback goroutine)
type blkCb struct {
	want    int
	entered chan struct{}
	done    chan struct{}
	once    sync.Once
	n       int
	err     error
	retAt   time.Time
}

func (b *blkCb) OnData(r BufferReader) {
	first := false
	b.once.Do(func() { first = true })
	if !first {
		return
	}
	close(b.entered)
	var got []byte
	got, b.err = r.ReadBytes(b.want)
	b.n = len(got)
	b.retAt = time.Now()
	close(b.done)
}
func (b *blkCb) OnLocalClose()  {}
func (b *blkCb) OnRemoteClose() {}

// blkWait waits for the waiter after the releasing event happened.
func blkWait(done chan struct{}, can *canary) (ok bool, healthy bool, took time.Duration) {
	t0 := time.Now()
	can.reset()
	fenceN(3)
	select {
	case <-done:
		return true, true, time.Since(t0)
	case <-time.After(blkBound):
	}
	return false, can.healthy(100 * time.Millisecond), time.Since(t0)
}

func runBlockCase(c *checkCtx, cs blkCase, can *canary) (res blkResult) {
	if cs.Call == "Handshake" {
		return runBlockHandshake(cs, can)
	}
	opt := pairOpt{memfd: cs.Memfd, sizes: smallSizes(256, 30, 4096, 70), bufCap: 2 << 20}
	if cs.Call == "Flush" {
		opt.queueCap = 2
	}
	p, err := newSessionPair(opt)
	if err != nil {
		res.inconcl = "pair: " + err.Error()
		return
	}
	defer p.close()
	const want = 96
	// the stream under test: waiter on the client, peer on the server
	cl, err := p.client.OpenStream()
	if err != nil {
		res.inconcl = err.Error()
		return
	}
	cl.BufferWriter().WriteBytes([]byte("hello"))
	if err := cl.Flush(false); err != nil {
		res.inconcl = err.Error()
		return
	}
	sv := p.serverStream(cl.StreamID(), 10*time.Second)
	if sv == nil {
		res.inconcl = "server stream missing"
		return
	}
	if _, err := sv.BufferReader().ReadBytes(5); err != nil {
		res.inconcl = err.Error()
		return
	}
	sv.BufferReader().ReleasePreviousRead()
	if !p.quiesce(10 * time.Second) {
		res.inconcl = "pair did not quiesce"
		return
	}

	var deadline time.Time
	var callErr error
	var callN int
	done := make(chan struct{})
	inWindow := make(chan struct{}, 1)
	releaseWindow := make(chan struct{})
	var windowArmed int32
	if cs.Timing == "window" {
		k := newCtl("c11", int64(cs.Idx))
		k.on(vpReadMoreBeforeWait, func(obj interface{}, n int64) {
			if st, _ := obj.(*Stream); st == cl && atomic.CompareAndSwapInt32(&windowArmed, 0, 1) {
				// the waiter has tested the length and is about to subscribe: let the event happen right now
				inWindow <- struct{}{}
				select {
				case <-releaseWindow:
				case <-time.After(2 * time.Second):
				}
			}
		})
		k.install()
		defer uninstallCtl()
	}
	// the releasing event
	fire := func() (happened time.Time, ferr string) {
		switch cs.Event {
		case "data":
			buf := make([]byte, want)
			fillKeyed(buf, 7, 0)
			sv.BufferWriter().WriteBytes(buf)
			if err := sv.Flush(false); err != nil {
				return time.Now(), "server flush: " + err.Error()
			}
		case "data-two-parts":
			buf := make([]byte, want)
			fillKeyed(buf, 7, 0)
			sv.BufferWriter().WriteBytes(buf[:want/3])
			if err := sv.Flush(false); err != nil {
				return time.Now(), "server flush: " + err.Error()
			}
			time.Sleep(300 * time.Microsecond)
			sv.BufferWriter().WriteBytes(buf[want/3:])
			if err := sv.Flush(false); err != nil {
				return time.Now(), "server flush: " + err.Error()
			}
		case "deadline":
			// nothing to do: the deadline itself is the event
			if d := time.Until(deadline); d > 0 {
				time.Sleep(d)
			}
			return deadline, ""
		case "local-close", "stream-closed":
			cl.Close()
		case "peer-close":
			sv.Close()
		case "session-close":
			if cs.Call == "AcceptStream" {
				p.server.Close() // the waiter sits on the server session
			} else {
				p.client.Close()
			}
		case "peer-session-close":
			if cs.Call == "AcceptStream" {
				p.client.Close()
			} else {
				p.server.Close()
			}
		case "queue-drained":
			// let the consumer run again: clear the working flag we set and wake it
			atomic.StoreUint32(p.client.queueManager.sendQueue.workingFlag, 0)
			_ = p.client.wakeUpPeer()
		}
		return time.Now(), ""
	}
	needAtLeast := want
	switch cs.Call {
	case "ReadByte", "Read":
		needAtLeast = 1
	}
	if cs.Event == "deadline" {
		deadline = time.Now().Add(60 * time.Millisecond)
		cl.SetReadDeadline(deadline)
		cl.SetWriteDeadline(deadline)
	}
	if cs.Call == "Flush" {
		// fill the client's send queue with elements for an unknown stream and pretend the consumer is already working,
		// so that nobody wakes it: the queue stays full until the event
		q := p.client.queueManager.sendQueue
		q.markWorking()
		for q.put(queueElement{seqID: 0x7ffffff1, status: uint32(streamClosed)}) == nil {
		}
	}
	var retAt time.Time
	var cbRef interface{}
	call := func() {
		defer close(done)
		defer func() { retAt = time.Now() }()
		r := cl.BufferReader()
		switch cs.Call {
		case "ReadBytes":
			var b []byte
			b, callErr = r.ReadBytes(want)
			callN = len(b)
		case "Peek":
			var b []byte
			b, callErr = r.Peek(want)
			callN = len(b)
		case "Discard":
			callN, callErr = r.Discard(want)
		case "ReadByte":
			_, callErr = r.ReadByte()
			callN = 1
		case "ReadString":
			var s string
			s, callErr = r.ReadString(want)
			callN = len(s)
		case "Read":
			buf := make([]byte, want)
			callN, callErr = cl.Read(buf)
		case "Flush":
			cl.BufferWriter().WriteBytes(make([]byte, 32))
			callErr = cl.Flush(false)
		case "AcceptStream":
			_, callErr = p.server.AcceptStream()
		}
	}
	if cs.Call == "OnDataRead" {
		// callback mode: 10 bytes arrive, OnData is entered and asks for 10+want bytes: it blocks inside the callback goroutine
		cb := &blkCb{want: 10 + want, entered: make(chan struct{}), done: make(chan struct{})}
		if err := cl.SetCallbacks(cb); err != nil {
			res.inconcl = "SetCallbacks: " + err.Error()
			return
		}
		sv.BufferWriter().WriteBytes(make([]byte, 10))
		if err := sv.Flush(false); err != nil {
			res.inconcl = "server flush: " + err.Error()
			return
		}
		select {
		case <-cb.entered:
		case <-time.After(5 * time.Second):
			res.inconcl = "OnData was not entered"
			return
		}
		done = cb.done
		call = func() {}
		cbRef = cb
		needAtLeast = 10 + want
	}
	var happened time.Time
	var ferr string
	switch cs.Timing {
	case "before":
		happened, ferr = fire()
		if cs.Event == "data" || cs.Event == "data-two-parts" {
			p.quiesce(10 * time.Second)
		}
		go call()
	case "window":
		go call()
		select {
		case <-inWindow:
			res.windowHit = true
			happened, ferr = fire()
			if cs.Event == "data" || cs.Event == "data-two-parts" || cs.Event == "peer-close" {
				fenceN(1) // the event loop has delivered it while the waiter sits between its test and its select
			}
			close(releaseWindow)
		case <-done:
			// the call returned without entering the wait (not a reader call, or data already there)
			happened, ferr = fire()
		case <-time.After(3 * time.Second):
			happened, ferr = fire()
			close(releaseWindow)
		}
	default: // parked
		go call()
		time.Sleep(time.Duration(1+cs.Rep%3) * time.Millisecond)
		happened, ferr = fire()
	}
	if ferr != "" {
		res.inconcl = ferr
		// make sure the waiter is released before leaving
		cl.Close()
		<-done
		return
	}
	ok, healthy, took := blkWait(done, can)
	res.returnedIn = time.Since(happened)
	_ = took
	if !ok {
		dump := goroutineDump()
		// release whatever is stuck so that the pair can be closed
		cl.Close()
		p.client.Close()
		select {
		case <-done:
		case <-time.After(5 * time.Second):
		}
		if healthy {
			res.viol = fmt.Sprintf("%s still blocked %v after the releasing event '%s' (timing %s) had happened and 3 fences passed: %s",
				cs.Call, blkBound, cs.Event, cs.Timing, truncate(blkWaiterStack(dump), 1500))
		} else {
			res.inconcl = "call did not return within the bound, but the machine was overloaded (canary)"
		}
		return
	}
	if cb, _ := cbRef.(*blkCb); cb != nil {
		callErr, callN, retAt = cb.err, cb.n, cb.retAt
	}
	if callErr != nil {
		res.err = callErr.Error()
	}
	// result rules (only what the statement says)
	switch cs.Event {
	case "data", "data-two-parts":
		if callErr != nil {
			res.viol = fmt.Sprintf("%s returned error %v although enough data (%d bytes) arrived", cs.Call, callErr, want)
		} else if callN < needAtLeast {
			res.viol = fmt.Sprintf("%s returned %d bytes, fewer than it waits for (%d)", cs.Call, callN, needAtLeast)
		}
	case "deadline":
		if callErr == nil {
			res.viol = fmt.Sprintf("%s returned nil at its deadline although no data / no queue room arrived", cs.Call)
		} else if callErr == ErrTimeout && retAt.Before(deadline) {
			res.viol = fmt.Sprintf("%s returned ErrTimeout %v before its deadline", cs.Call, deadline.Sub(retAt))
		} else if cs.Call == "Flush" && callErr != ErrTimeout && callErr != ErrQueueFull {
			res.viol = fmt.Sprintf("Flush on a full queue with a write deadline returned %v", callErr)
		} else if cs.Call != "Flush" && callErr != ErrTimeout {
			res.viol = fmt.Sprintf("%s at its deadline returned %v, not a timeout error", cs.Call, callErr)
		}
	case "local-close", "peer-close", "session-close", "peer-session-close", "stream-closed":
		if callErr == nil && cs.Call != "AcceptStream" {
			res.viol = fmt.Sprintf("%s returned nil after '%s' although no data arrived", cs.Call, cs.Event)
		}
		if cs.Call == "AcceptStream" && callErr == nil {
			res.viol = "AcceptStream returned a stream after the session was closed although none was pending"
		}
	case "queue-drained":
		// Flush may succeed (room appeared) or give up with ErrQueueFull after its retries: both are bounded returns
	}
	return
}

func blkWaiterStack(dump string) string {
	for _, g := range splitGoroutines(dump) {
		if containsAny(g, "runBlockCase.func", "blkHandshake") && containsAny(g, "shmipc-go.(*Stream)", "shmipc-go.(*linkedBuffer)", "shmipc-go.(*Session)", "shmipc-go.newSession") {
			return g
		}
	}
	return dump
}

func splitGoroutines(dump string) []string {
	var out []string
	cur := ""
	for _, line := range splitLines(dump) {
		if line == "" {
			if cur != "" {
				out = append(out, cur)
			}
			cur = ""
			continue
		}
		cur += line + "\n"
	}
	if cur != "" {
		out = append(out, cur)
	}
	return out
}

func splitLines(s string) []string {
	var out []string
	start := 0
	for i := 0; i < len(s); i++ {
		if s[i] == '\n' {
			out = append(out, s[start:i])
			start = i + 1
		}
	}
	if start < len(s) {
		out = append(out, s[start:])
	}
	return out
}

func containsAny(s string, subs ...string) bool {
	for _, x := range subs {
		if len(x) > 0 && len(s) >= len(x) {
			for i := 0; i+len(x) <= len(s); i++ {
				if s[i:i+len(x)] == x {
					return true
				}
			}
		}
	}
	return false
}

// handshake against a peer that never answers: must return within InitializeTimeout (+ bound)
func runBlockHandshake(cs blkCase, can *canary) (res blkResult) {
	cli, srv, path, err := connPair(false)
	if err != nil {
		res.inconcl = err.Error()
		return
	}
	defer func() {
		cli.Close()
		srv.Close()
		if path != "" {
			_ = os.Remove(path)
		}
	}()
	conf, _ := newTestConfig(pairOpt{memfd: cs.Memfd, initTO: 200 * time.Millisecond})
	var lib, silent net.Conn = cli, srv
	isClient := true
	if cs.Event == "server-silent-client" {
		lib, silent = srv, cli
		isClient = false
	}
	_ = silent
	done := make(chan struct{})
	var herr error
	var sess *Session
	t0 := time.Now()
	go func() {
		defer close(done)
		sess, herr = newSession(conf, lib, isClient)
	}()
	can.reset()
	select {
	case <-done:
	case <-time.After(200*time.Millisecond + blkBound):
		if can.healthy(100 * time.Millisecond) {
			res.viol = fmt.Sprintf("handshake (%s) against a silent peer did not return %v after its InitializeTimeout (200 ms): %s", cs.Event, blkBound,
				truncate(blkWaiterStack(goroutineDump()), 1500))
		} else {
			res.inconcl = "handshake did not return in time, machine overloaded"
		}
		silent.Close()
		<-done
		return
	}
	res.returnedIn = time.Since(t0)
	if herr == nil {
		// a protocol-v2 client (file mapping) needs no answer from the server: success is legitimate there
		if isClient && !cs.Memfd {
			sess.Close()
			waitTeardown(sess, 10*time.Second)
			return
		}
		res.viol = "handshake against a silent peer returned a session"
		sess.Close()
		return
	}
	res.err = herr.Error()
	if res.returnedIn < 150*time.Millisecond && containsAny(herr.Error(), "timeout") {
		res.viol = fmt.Sprintf("handshake reported its timeout after %v, before InitializeTimeout (200 ms)", res.returnedIn)
	}
	return
}

func checkBlock(c *checkCtx) {
	c.rule = "scenario table = blocking call (ReadBytes, Peek, Discard, ReadByte, ReadString, Read, a ReadBytes inside a data callback, Flush on a full queue, AcceptStream, handshake) x " +
		"releasing event (data, data in two parts, deadline, local close from another goroutine, peer closes the stream, local/peer session close, " +
		"silent handshake peer) x timing (event before the call / inside the test-then-subscribe window held open with the ReadMoreBeforeWait hook / " +
		"after the waiter parked) x mapping type, repeated with different park delays; a case is non-trivial when the call really had to wait for the " +
		"event (it was parked or caught in the window when the event fired); distinct = distinct (call, event, timing, mapping)"
	c.assume("bounded-progress restatement: the call must return within 3 event-loop fences + 5 s after the releasing event happened, judged only " +
		"when the scheduler-lateness canary stayed below 100 ms; peer process death as releasing event is exercised by C14")
	can := startCanary()
	defer can.close()
	var cases []blkCase
	readers := []string{"ReadBytes", "Peek", "Discard", "ReadByte", "ReadString", "Read"}
	events := []string{"data", "data-two-parts", "deadline", "local-close", "peer-close", "session-close", "peer-session-close"}
	reps := c.pick(3, 60)
	for rep := 0; rep < reps; rep++ {
		for _, call := range readers {
			for _, ev := range events {
				for _, tm := range []string{"before", "window", "parked"} {
					if ev == "deadline" && tm != "parked" {
						continue
					}
					if (ev == "session-close" || ev == "peer-session-close" || ev == "local-close") && tm == "before" {
						continue // a call on an already closed stream does not block: nothing to release
					}
					cases = append(cases, blkCase{Call: call, Event: ev, Timing: tm, Memfd: (len(cases)+rep)%2 == 0, Rep: rep})
				}
			}
		}
		for _, ev := range []string{"data", "data-two-parts", "deadline", "peer-close", "session-close", "peer-session-close"} {
			// a blocking read inside a data callback (callback mode)
			cases = append(cases, blkCase{Call: "OnDataRead", Event: ev, Timing: "parked", Memfd: rep%2 == 1, Rep: rep})
		}
		for _, ev := range []string{"deadline", "stream-closed", "queue-drained", "session-close", "none"} {
			cases = append(cases, blkCase{Call: "Flush", Event: ev, Timing: "parked", Memfd: rep%2 == 0, Rep: rep})
		}
		for _, ev := range []string{"session-close", "peer-session-close"} {
			cases = append(cases, blkCase{Call: "AcceptStream", Event: ev, Timing: "parked", Memfd: rep%2 == 1, Rep: rep})
		}
		for _, ev := range []string{"client-silent-server", "server-silent-client"} {
			for _, memfd := range []bool{false, true} {
				cases = append(cases, blkCase{Call: "Handshake", Event: ev, Timing: "parked", Memfd: memfd, Rep: rep})
			}
		}
	}
	windowHits := 0
	nViol := 0
	for i := range cases {
		cases[i].Idx = i
		cs := cases[i]
		res := runBlockCase(c, cs, can)
		c.eval(1)
		name := fmt.Sprintf("block-%d-%s-%s-%s", cs.Idx, cs.Call, cs.Event, cs.Timing)
		if res.windowHit {
			windowHits++
			c.count("events fired inside the test-then-subscribe window", 1)
		}
		if res.inconcl != "" {
			c.inconclusiveCase(name, res.inconcl)
			continue
		}
		c.count("calls released by "+cs.Event, 1)
		if cs.Timing != "before" || res.windowHit {
			c.nontrivial(fmt.Sprintf("%s/%s/%s/%v", cs.Call, cs.Event, cs.Timing, cs.Memfd))
		}
		if i%41 == 0 {
			c.sample(map[string]interface{}{"case": cs, "returned_after_event": res.returnedIn.String(), "error": res.err})
		}
		if res.viol != "" {
			c.violation(name, map[string]interface{}{"case": cs, "error": res.err, "returned_after": res.returnedIn.String()}, "%s", res.viol)
			nViol++
			if nViol >= 3 || !fenceOnce(5*time.Second) {
				// the verdict is settled; a call that never returns usually leaves the event loop wedged (the fence no longer
				// comes back), and every further case would only cost its bounds
				c.setExtra("stopped_early", fmt.Sprintf("after %d violating cases (%d of %d cases run)", nViol, i+1, len(cases)))
				return
			}
		}
	}
	// back-to-back deadline waits on one stream
	for r := 0; r < c.pick(2, 40); r++ {
		viol, races, inconcl := runDeadlineReuse(c, c.pick(1500, 3000), r%2 == 0, c.seed+int64(r))
		c.eval(1)
		c.count("deadline-reuse iterations with data arriving within 40 us of the deadline", int64(races))
		name := fmt.Sprintf("deadline-reuse-%d", r)
		if inconcl != "" {
			c.inconclusiveCase(name, inconcl)
		}
		if races > 0 {
			c.nontrivial(fmt.Sprintf("deadline-reuse/%v", r%2 == 0))
		}
		if viol != "" {
			c.violation(name, map[string]interface{}{"round": r}, "%s", viol)
		}
	}
	if windowHits == 0 {
		c.noObservation("the ReadMoreBeforeWait window was never hit")
	}
}

// ---------------------------------------------------------------------------------------------
// deadline reuse: "with a timeout error, never early" over back-to-back waits of one stream. Data is timed to arrive
// right at the deadline of wait #1 (so the deadline timer fires while the read returns), then wait #2 gets a deadline far
// in the future: it must not return ErrTimeout before that deadline (a tick left over from wait #1 would do that).
func runDeadlineReuse(c *checkCtx, iterations int, memfd bool, seed int64) (viol string, races int, inconcl string) {
	p, err := newSessionPair(pairOpt{memfd: memfd, sizes: smallSizes(256, 30, 4096, 70), bufCap: 2 << 20})
	if err != nil {
		return "", 0, "pair: " + err.Error()
	}
	defer p.close()
	cl, err := p.client.OpenStream()
	if err != nil {
		return "", 0, err.Error()
	}
	cl.BufferWriter().WriteByte(1)
	if err := cl.Flush(false); err != nil {
		return "", 0, err.Error()
	}
	sv := p.serverStream(cl.StreamID(), 10*time.Second)
	if sv == nil {
		return "", 0, "server stream missing"
	}
	rng := caseRand(seed, 9)
	send := func(after time.Duration) chan struct{} {
		done := make(chan struct{})
		go func() {
			defer close(done)
			if after > 0 {
				t := time.Now()
				for time.Since(t) < after {
					// spin: sleep granularity is too coarse for a rendezvous with a timer
				}
			}
			sv.BufferWriter().WriteByte(7)
			_ = sv.Flush(false)
		}()
		return done
	}
	stuck := ""
	readOne := func(deadline time.Duration) (error, time.Duration) {
		t0 := time.Now()
		type res struct {
			err  error
			took time.Duration
		}
		ch := make(chan res, 1)
		go func() {
			cl.SetReadDeadline(t0.Add(deadline))
			_, err := cl.BufferReader().ReadBytes(1)
			if err == nil {
				cl.BufferReader().ReleasePreviousRead()
			}
			ch <- res{err, time.Since(t0)}
		}()
		select {
		case r := <-ch:
			return r.err, r.took
		case <-time.After(deadline + blkBound + 5*time.Second):
			// a deadline-bounded read that is still blocked long after its deadline (data or not): bounded progress is violated
			stuck = fmt.Sprintf("a read with a deadline of %v is still blocked %v after it was called: %s", deadline, time.Since(t0),
				truncate(blkWaiterStack(goroutineDump()), 1200))
			cl.Close()
			p.client.Close()
			select {
			case <-ch:
			case <-time.After(5 * time.Second):
			}
			return fmt.Errorf("stuck"), time.Since(t0)
		}
	}
	for i := 0; i < iterations; i++ {
		d1 := time.Duration(150+rng.Intn(400)) * time.Microsecond
		s1 := send(d1 - time.Duration(rng.Intn(60))*time.Microsecond + time.Duration(rng.Intn(60))*time.Microsecond)
		err1, took1 := readOne(d1)
		if stuck != "" {
			<-s1
			return stuck, races, ""
		}
		if err1 != nil && err1 != ErrTimeout {
			return "", races, "read failed: " + err1.Error()
		}
		if err1 == ErrTimeout && took1 < d1 {
			return fmt.Sprintf("ReadBytes returned ErrTimeout after %v, before its deadline of %v", took1, d1), races, ""
		}
		if took1 > d1-40*time.Microsecond && took1 < d1+40*time.Microsecond {
			races++ // data and deadline within 40 us of each other
		}
		<-s1
		// wait #2 (and #3 if wait #1 timed out and its byte is still to come): deadline far away, data soon
		pendingBytes := 0
		if err1 == ErrTimeout {
			pendingBytes = 1
		}
		s2 := send(time.Duration(100+rng.Intn(300)) * time.Microsecond)
		for n := 0; n < 1+pendingBytes; n++ {
			const far = 3 * time.Second
			err2, took2 := readOne(far)
			if stuck != "" {
				<-s2
				return stuck, races, ""
			}
			if err2 == ErrTimeout && took2 < far-200*time.Millisecond {
				<-s2
				return fmt.Sprintf("iteration %d: a read with a deadline %v away returned ErrTimeout after only %v (the previous wait of this stream ended within %v of its own deadline)",
					i, far, took2, (took1 - d1)), races, ""
			}
			if err2 != nil {
				<-s2
				return "", races, "second read failed: " + err2.Error()
			}
		}
		<-s2
	}
	return "", races, ""
}
