package shmipc

// C19: the net.Listener / net.Conn adapter (net_listener.go) behaves like a stream socket.
//
// One execution: Listen(unix path); 1..4 library client sessions (file or memfd mapping) x 1..32 streams; every
// client stream sends a keyed header + keyed messages and reads the echo; the accepted conns are served by one
// handler goroutine each (PRNG read-buffer sizes, echo with Write). Streams are closed by the client (A) or by the
// server (B); some streams finish only after the listener was closed ("late"), some are still in the backlog when
// the listener is closed ("phase 2", defect X12). The listener is closed at a PRNG point of the execution that is
// defined logically (k streams completed, all others surfaced / queued in the backlog).
// Oracles: exactly-once surfacing (keyed header and wrapped *Stream identity), io.Reader / io.Writer contracts on
// every call, keyed byte order, calls after Close fail, read deadlines (error at a past deadline, no time-out before a
// future deadline on the monotonic clock, usable again afterwards), Accept returns after Close (bound + canary),
// and: listener closed + Accept drained to its error + every returned conn closed  =>  every server session ends.
// The workload runs in child processes: a wait-group misuse panics on a library goroutine and kills the process.

import (
	"encoding/binary"
	"encoding/json"
	"fmt"
	"hash/fnv"
	"io"
	"math/rand"
	"net"
	"os"
	"path/filepath"
	"sort"
	"strconv"
	"strings"
	"sync"
	"sync/atomic"
	"time"
)

func init() {
	verifChecks["C19"] = checkNetListener
	verifChildRoles["nlWork"] = nlChildMain
}

// ---------------------------------------------------------------------------------------------
// collector (serialised to a report file after every case)

type nlViolRec struct {
	Case    string      `json:"case"`
	Msg     string      `json:"msg"`
	Witness interface{} `json:"witness"`
}

type nlReport struct {
	Evals    int64            `json:"evals"`
	Counters map[string]int64 `json:"counters"`
	Distinct []string         `json:"distinct"`
	Samples  []interface{}    `json:"samples"`
	Viol     []nlViolRec      `json:"viol"`
	Inconcl  [][2]string      `json:"inconcl"`
	Finished bool             `json:"finished"`
	Next     int              `json:"next"` // first case index that was not run
	Current  int              `json:"current"`
	Timings  []string         `json:"timings,omitempty"`
}

type nlCol struct {
	mu       sync.Mutex
	r        nlReport
	distinct map[string]struct{}
	path     string
}

func newNlCol(path string) *nlCol {
	return &nlCol{path: path, distinct: map[string]struct{}{}, r: nlReport{Counters: map[string]int64{}}}
}

func (k *nlCol) count(name string, n int64) {
	k.mu.Lock()
	k.r.Counters[name] += n
	k.mu.Unlock()
}

func (k *nlCol) nontrivial(key string) {
	k.mu.Lock()
	k.distinct[key] = struct{}{}
	k.mu.Unlock()
}

func (k *nlCol) sample(s interface{}) {
	k.mu.Lock()
	if len(k.r.Samples) < 5 {
		k.r.Samples = append(k.r.Samples, s)
	}
	k.mu.Unlock()
}

func (k *nlCol) violation(cs string, witness interface{}, format string, a ...interface{}) {
	k.mu.Lock()
	if len(k.r.Viol) < 30 {
		k.r.Viol = append(k.r.Viol, nlViolRec{Case: cs, Msg: fmt.Sprintf(format, a...), Witness: witness})
	}
	k.r.Counters["violations seen by worker"]++
	k.mu.Unlock()
}

func (k *nlCol) inconclusive(cs, reason string) {
	k.mu.Lock()
	if len(k.r.Inconcl) < 50 {
		k.r.Inconcl = append(k.r.Inconcl, [2]string{cs, reason})
	}
	k.mu.Unlock()
}

func (k *nlCol) flush(current, next int, finished bool) {
	k.mu.Lock()
	defer k.mu.Unlock()
	k.r.Current, k.r.Next, k.r.Finished = current, next, finished
	k.r.Distinct = k.r.Distinct[:0]
	for d := range k.distinct {
		k.r.Distinct = append(k.r.Distinct, d)
	}
	sort.Strings(k.r.Distinct)
	if k.path == "" {
		return
	}
	data, err := json.Marshal(&k.r)
	if err != nil {
		return
	}
	tmp := k.path + ".tmp"
	if os.WriteFile(tmp, data, 0o644) == nil {
		_ = os.Rename(tmp, k.path)
	}
}

func nlLoadReport(path string) (*nlReport, bool) {
	data, err := os.ReadFile(path)
	if err != nil {
		return nil, false
	}
	var r nlReport
	if json.Unmarshal(data, &r) != nil {
		return nil, false
	}
	return &r, true
}

// ---------------------------------------------------------------------------------------------
// cases

type nlStreamPlan struct {
	Mode      string `json:"mode"` // A: the client closes first, B: the server closes first
	Msgs      []int  `json:"msgs"`
	Total     int    `json:"total"`
	Phase     int    `json:"phase"`      // 1: surfaces before the listener is closed, 2: still in the backlog then
	Late      bool   `json:"late"`       // phase 1: finishes only after the listener was closed
	GateAfter int    `json:"gate_after"` // late: waits for the listener close after this message
	PauseAt   int    `json:"pause_at"`   // deadline tests on the server conn after this message (-1: none)
	HdrSplit  bool   `json:"hdr_split"`
}

type nlCase struct {
	Idx        int              `json:"idx"`
	Seed       int64            `json:"seed"`
	Clients    int              `json:"clients"`
	MemFd      []bool           `json:"memfd"`
	Streams    [][]nlStreamPlan `json:"streams"`
	CloseAfter int              `json:"close_after_completed"`
	NPhase1    int              `json:"phase1_streams"`
	NPhase2    int              `json:"phase2_streams"`
	NLate      int              `json:"late_streams"`
	// CloseRace: the listener is closed as soon as the backlog streams' first messages are completely written by their
	// clients, whether or not they have reached the server / the backlog yet (data in flight at the listener close)
	CloseRace bool `json:"close_race"`
}

func nlGenCase(seed int64, idx int) nlCase {
	rng := caseRand(seed, 1900000+idx)
	cs := nlCase{Idx: idx, Seed: rng.Int63()}
	cs.Clients = []int{1, 1, 2, 2, 3, 4}[rng.Intn(6)]
	shape := rng.Intn(5) // 0: close at the very end; 1: mid; 2,3: backlog not empty; 4: everything late
	budgetStreams := []int{1, 2, 4, 8, 16, 32}
	for c := 0; c < cs.Clients; c++ {
		cs.MemFd = append(cs.MemFd, rng.Intn(3) == 0)
		n := budgetStreams[rng.Intn(len(budgetStreams))]
		if cs.Clients >= 3 && n > 16 {
			n = 16
		}
		var plans []nlStreamPlan
		for s := 0; s < n; s++ {
			p := nlStreamPlan{Mode: "A", Phase: 1, PauseAt: -1, GateAfter: -1}
			if rng.Intn(2) == 0 {
				p.Mode = "B"
			}
			nm := 1 + rng.Intn(5)
			for m := 0; m < nm; m++ {
				var sz int
				switch r := rng.Intn(100); {
				case r < 15:
					sz = 1
				case r < 40:
					sz = 2 + rng.Intn(100)
				case r < 70:
					sz = 100 + rng.Intn(5000)
				case r < 93:
					sz = 5000 + rng.Intn(65000)
				default:
					sz = 70000 + rng.Intn(230000)
				}
				if n >= 16 && sz > 40000 {
					sz = 40000 // keep the shared memory far from exhaustion (see F1)
				}
				p.Msgs = append(p.Msgs, sz)
				p.Total += sz
			}
			p.HdrSplit = rng.Intn(3) == 0
			if rng.Intn(4) == 0 {
				p.PauseAt = rng.Intn(nm)
			}
			switch shape {
			case 1:
				if rng.Intn(3) == 0 {
					p.Late = true
				}
			case 2, 3:
				if rng.Intn(3) == 0 {
					p.Phase = 2
				} else if rng.Intn(4) == 0 {
					p.Late = true
				}
			case 4:
				p.Late = true
			}
			if p.Late {
				p.GateAfter = rng.Intn(nm)
			}
			if p.Late || p.Phase == 2 {
				p.Mode = "A" // a conn that outlives the listener is never closed by the server first (see nlStream.bDecision)
			}
			plans = append(plans, p)
		}
		cs.Streams = append(cs.Streams, plans)
	}
	if shape == 2 || shape == 3 {
		// make sure that something is in the backlog and something surfaced before
		cs.Streams[0][0].Phase, cs.Streams[0][0].Late = 1, false
		last := cs.Streams[cs.Clients-1]
		if len(last) > 1 || cs.Clients > 1 {
			last[len(last)-1].Phase, last[len(last)-1].Late, last[len(last)-1].GateAfter, last[len(last)-1].Mode = 2, false, -1, "A"
		}
	}
	nonLate := 0
	for _, pl := range cs.Streams {
		for _, p := range pl {
			switch {
			case p.Phase == 2:
				cs.NPhase2++
			case p.Late:
				cs.NPhase1++
				cs.NLate++
			default:
				cs.NPhase1++
				nonLate++
			}
		}
	}
	switch shape {
	case 0:
		cs.CloseAfter = nonLate
	default:
		cs.CloseAfter = rng.Intn(nonLate + 1)
	}
	cs.CloseRace = cs.NPhase2 > 0 && rng.Intn(2) == 0
	return cs
}

// ---------------------------------------------------------------------------------------------
// one execution

const nlHdrLen = 20

type nlStream struct {
	ci, si   int
	plan     nlStreamPlan
	key      uint64
	st       *Stream
	id       uint32
	sent     int32 // the first Write returned nil
	surfaced int32 // times this stream's header came out of Accept
	accepted int32 // set at Accept time through the wrapped *Stream (bookkeeping, not the oracle)
	dlDone   chan struct{}
	done     int32
	// mode B hand-shake between the two harness goroutines of a stream (in-process side channel): the server conn is only
	// closed first while the listener is open and stays open until the client has finished reading; otherwise the last conn
	// close would end the session underneath a client that still reads its echo from share memory (known finding F2, C14)
	bDecision    chan struct{}
	serverCloses int32
}

type nlRun struct {
	col  *nlCol
	cs   nlCase
	name string
	ln   net.Listener
	l    *listener
	can  *canary

	clients  []*Session
	servers  []*Session
	srvIndex map[*Session]int
	streams  [][]*nlStream

	lnMu       sync.RWMutex
	lnClosed   bool
	lnClosedCh chan struct{}
	p1Surfaced chan struct{}
	resumeAcc  chan struct{}
	acceptDone chan struct{}

	mu           sync.Mutex
	viol         []string
	aborted      []string
	wrapped      map[*Stream]int
	nAccepted    int
	afterClose   int // conns handed out by Accept after the listener was closed
	p1SurfacedN  int
	nonLateDone  int32
	closeOrder   []string
	backlogAt    int
	openAtClose  int
	handlers     sync.WaitGroup
	clientsWg    sync.WaitGroup
	bytesEchoed  int64
	reads        int64
	writes       int64
	dlFuture     int64
	dlPast       int64
	dlWithData   int64
	postClose    int64
	lateErr      int64
	acceptErr    error
	stranded     int64
	watchdogFire int32
	handlerSeq   int64
	failed       int32
	bInFlight    int32 // streams whose server conn was closed first and whose client has not finished yet
}

func (r *nlRun) violate(format string, a ...interface{}) {
	atomic.StoreInt32(&r.failed, 1) // the verdict of this execution is decided: the script is wound up without further waiting
	r.mu.Lock()
	if len(r.viol) < 10 {
		r.viol = append(r.viol, fmt.Sprintf(format, a...))
	}
	r.mu.Unlock()
}

func (r *nlRun) abort(format string, a ...interface{}) {
	r.mu.Lock()
	if len(r.aborted) < 10 {
		r.aborted = append(r.aborted, fmt.Sprintf(format, a...))
	}
	r.mu.Unlock()
}

func (r *nlRun) closedNow() bool {
	r.lnMu.RLock()
	defer r.lnMu.RUnlock()
	return r.lnClosed
}

// contract-checking wrappers ------------------------------------------------------------------

func (r *nlRun) read(who string, c io.Reader, p []byte) (int, error) {
	n, err := c.Read(p)
	atomic.AddInt64(&r.reads, 1)
	if len(p) > 0 && n == 0 && err == nil {
		r.violate("%s: Read(p) with len(p)=%d returned (0, nil)", who, len(p))
	}
	if n < 0 || n > len(p) {
		r.violate("%s: Read(p) with len(p)=%d returned n=%d", who, len(p), n)
		if n > len(p) {
			n = len(p)
		}
		if n < 0 {
			n = 0
		}
	}
	return n, err
}

func (r *nlRun) write(who string, c io.Writer, p []byte) error {
	n, err := c.Write(p)
	atomic.AddInt64(&r.writes, 1)
	if err == nil && n != len(p) {
		r.violate("%s: Write(p) with len(p)=%d returned (%d, nil)", who, len(p), n)
	}
	if n < 0 || n > len(p) {
		r.violate("%s: Write(p) with len(p)=%d returned n=%d", who, len(p), n)
	}
	return err
}

// postCloseChecks: Read and Write after Close must fail. Only while the listener is open: its reference keeps the
// server session (and with it the client session) alive, so the calls cannot run into a torn-down session (F2).
func (r *nlRun) postCloseChecks(who string, c io.ReadWriter) {
	r.lnMu.RLock()
	defer r.lnMu.RUnlock()
	if r.lnClosed {
		return
	}
	atomic.AddInt64(&r.postClose, 1)
	buf := make([]byte, 8)
	if n, err := c.Read(buf); err == nil {
		r.violate("%s: Read after Close succeeded (n=%d)", who, n)
	}
	if n, err := c.Write([]byte{1, 2, 3}); err == nil {
		r.violate("%s: Write after Close succeeded (n=%d)", who, n)
	}
}

func nlReadSize(rng *rand.Rand) int {
	switch r := rng.Intn(100); {
	case r < 8:
		return 1
	case r < 20:
		return 2 + rng.Intn(30)
	case r < 45:
		return 32 + rng.Intn(2000)
	case r < 80:
		return 2000 + rng.Intn(30000)
	default:
		return 32000 + rng.Intn(300000)
	}
}

func nlIsTimeout(err error) bool {
	return err == ErrTimeout || (err != nil && strings.Contains(err.Error(), "timeout"))
}

func nlWait(ch <-chan struct{}, d time.Duration) bool {
	select {
	case <-ch:
		return true
	case <-time.After(d):
		return false
	}
}

// client side of one stream -------------------------------------------------------------------

func (r *nlRun) clientStream(s *nlStream) {
	defer r.clientsWg.Done()
	defer func() {
		if e := recover(); e != nil {
			r.violate("panic in client stream %d/%d: %v", s.ci, s.si, e)
		}
	}()
	who := fmt.Sprintf("client stream %d/%d", s.ci, s.si)
	rng := rand.New(rand.NewSource(r.cs.Seed ^ int64(s.ci*1000+s.si+1)*7919))
	defer func() {
		atomic.StoreInt32(&s.done, 1)
		if s.plan.Phase == 1 && !s.plan.Late {
			atomic.AddInt32(&r.nonLateDone, 1)
		}
	}()
	defer func() {
		// whatever happened: once the server's decision is known, this client no longer reads
		go func() {
			<-s.bDecision
			if atomic.LoadInt32(&s.serverCloses) == 1 {
				atomic.AddInt32(&r.bInFlight, -1)
			}
		}()
	}()
	if s.plan.Phase == 2 {
		if !nlWait(r.p1Surfaced, 90*time.Second) {
			r.abort("%s: phase 1 never surfaced completely", who)
			return
		}
	}
	st, err := r.clients[s.ci].OpenStream()
	if err != nil {
		r.abort("%s: OpenStream: %v", who, err)
		return
	}
	r.mu.Lock()
	s.st, s.id = st, st.StreamID()
	r.mu.Unlock()
	closeStream := func() {
		r.mu.Lock()
		r.closeOrder = append(r.closeOrder, fmt.Sprintf("c%d.%d", s.ci, s.si))
		r.mu.Unlock()
		if !r.clients[s.ci].IsClosed() { // a session that ended closes its streams itself (and unmaps: F2)
			_ = st.Close()
		}
	}
	hdr := make([]byte, nlHdrLen)
	copy(hdr, "VNL1")
	binary.BigEndian.PutUint16(hdr[4:], uint16(s.ci))
	binary.BigEndian.PutUint16(hdr[6:], uint16(s.si))
	binary.BigEndian.PutUint32(hdr[8:], uint32(s.plan.Total))
	pauseOff := uint32(0xffffffff)
	if s.plan.PauseAt >= 0 {
		o := 0
		for i := 0; i <= s.plan.PauseAt; i++ {
			o += s.plan.Msgs[i]
		}
		pauseOff = uint32(o)
	}
	binary.BigEndian.PutUint32(hdr[12:], pauseOff)
	hdr[16] = s.plan.Mode[0]
	rbuf := make([]byte, 332000)
	off, echoed := 0, 0
	for mi, m := range s.plan.Msgs {
		if atomic.LoadInt32(&r.failed) == 1 {
			closeStream() // the execution is already judged; stay away from sessions that may be ending
			return
		}
		msg := make([]byte, m)
		fillKeyed(msg, s.key, uint64(off))
		if mi == 0 {
			if s.plan.HdrSplit {
				err = r.write(who, st, hdr)
				if err == nil {
					err = r.write(who, st, msg)
				}
			} else {
				err = r.write(who, st, append(append([]byte{}, hdr...), msg...))
			}
		} else {
			err = r.write(who, st, msg)
		}
		if err != nil {
			if r.closedNow() {
				atomic.AddInt64(&r.lateErr, 1)
			} else {
				r.abort("%s: Write of message %d failed before the listener was closed: %v", who, mi, err)
			}
			closeStream()
			return
		}
		off += m
		if mi == 0 {
			atomic.StoreInt32(&s.sent, 1)
		}
		if s.plan.Phase == 2 && mi == 0 {
			// stays in the backlog until the listener is closed; afterwards it may or may not have been handed out
			if !nlWait(r.lnClosedCh, 120*time.Second) || !nlWait(r.acceptDone, 60*time.Second) {
				r.abort("%s: listener close / accept loop end not reached", who)
				closeStream()
				return
			}
			if atomic.LoadInt32(&s.accepted) == 0 {
				atomic.AddInt64(&r.stranded, 1)
				closeStream()
				return
			}
		}
		for echoed < off {
			want := off - echoed
			sz := nlReadSize(rng)
			if sz > len(rbuf) {
				sz = len(rbuf)
			}
			_ = want
			n, err := r.read(who, st, rbuf[:sz])
			if n > 0 {
				if echoed+n > off {
					r.violate("%s: echo delivers %d bytes beyond the %d bytes sent so far", who, echoed+n-off, off)
					closeStream()
					return
				}
				if i := checkKeyed(rbuf[:n], s.key, uint64(echoed)); i >= 0 {
					r.violate("%s: echo byte at offset %d is %#02x, expected %#02x (bytes out of order)", who, echoed+i, rbuf[i], keyedByte(s.key, uint64(echoed+i)))
					closeStream()
					return
				}
				echoed += n
			}
			if err != nil {
				if r.closedNow() {
					atomic.AddInt64(&r.lateErr, 1)
				} else {
					r.violate("%s: Read failed with %v after %d of %d echoed bytes although the server conn had not been closed and the listener was open", who, err, echoed, off)
				}
				closeStream()
				return
			}
		}
		if mi == s.plan.PauseAt {
			if !nlWait(s.dlDone, 120*time.Second) {
				r.abort("%s: the server's deadline tests did not finish", who)
				closeStream()
				return
			}
		}
		if s.plan.Late && mi == s.plan.GateAfter {
			if !nlWait(r.lnClosedCh, 120*time.Second) {
				r.abort("%s: listener close not reached", who)
				closeStream()
				return
			}
		}
	}
	if s.plan.Mode == "B" {
		if !nlWait(s.bDecision, 120*time.Second) {
			r.abort("%s: the server handler did not reach its close decision", who)
			closeStream()
			return
		}
		if atomic.LoadInt32(&s.serverCloses) == 1 {
			// the server closes after its last echo: the next Read must report the end of the stream, not data
			n, err := r.read(who, st, rbuf[:1+rng.Intn(100)])
			if err == nil {
				r.violate("%s: Read returned %d bytes after the complete echo (the server sent nothing more)", who, n)
			}
		}
	}
	closeStream()
	r.postCloseChecks(who, st)
}

// server side of one accepted conn -------------------------------------------------------------

func (r *nlRun) handle(conn net.Conn, afterClose bool) {
	defer r.handlers.Done()
	closed := false
	closeConn := func(tag string) {
		if !closed {
			closed = true
			r.mu.Lock()
			r.closeOrder = append(r.closeOrder, tag)
			r.mu.Unlock()
		}
		_ = conn.Close()
	}
	defer closeConn("s?")
	defer func() {
		if e := recover(); e != nil {
			r.violate("panic in a conn handler: %v", e)
		}
	}()
	rng := rand.New(rand.NewSource(r.cs.Seed ^ atomic.AddInt64(&r.handlerSeq, 1)*104729))
	buf := make([]byte, 332000)
	hdr := make([]byte, 0, nlHdrLen)
	for len(hdr) < nlHdrLen {
		k := 1 + rng.Intn(nlHdrLen-len(hdr))
		n, err := r.read("accepted conn (header)", conn, buf[:k])
		hdr = append(hdr, buf[:n]...)
		if err != nil {
			if r.closedNow() {
				atomic.AddInt64(&r.lateErr, 1)
			} else {
				r.violate("an accepted conn failed with %v after %d header bytes: it was not opened by a client stream that sent data (or surfaced a second time)", err, len(hdr))
			}
			return
		}
	}
	if string(hdr[:4]) != "VNL1" {
		r.violate("an accepted conn starts with % x: not the beginning of any client stream (a stream surfaced twice or in the middle)", hdr[:8])
		return
	}
	ci, si := int(binary.BigEndian.Uint16(hdr[4:])), int(binary.BigEndian.Uint16(hdr[6:]))
	if ci >= len(r.streams) || si >= len(r.streams[ci]) {
		r.violate("an accepted conn carries the header of an unknown stream %d/%d", ci, si)
		return
	}
	s := r.streams[ci][si]
	who := fmt.Sprintf("server conn of stream %d/%d", ci, si)
	if n := atomic.AddInt32(&s.surfaced, 1); n > 1 {
		r.violate("stream %d/%d surfaced %d times from Accept", ci, si, n)
		return
	}
	if s.plan.Phase == 1 {
		r.mu.Lock()
		r.p1SurfacedN++
		if r.p1SurfacedN == r.cs.NPhase1 {
			close(r.p1Surfaced)
		}
		r.mu.Unlock()
	}
	total := int(binary.BigEndian.Uint32(hdr[8:]))
	pauseOff := binary.BigEndian.Uint32(hdr[12:])
	mode := string(hdr[16:17])
	if total != s.plan.Total || mode != s.plan.Mode {
		r.violate("%s: header fields differ from what the client sent", who)
		return
	}
	tag := fmt.Sprintf("s%d.%d", ci, si)
	decided := false
	defer func() {
		if !decided {
			close(s.bDecision) // serverCloses stays 0
		}
	}()
	got := 0
	for got < total {
		sz := nlReadSize(rng)
		n, err := r.read(who, conn, buf[:sz])
		if n > 0 {
			if got+n > total {
				r.violate("%s: %d bytes beyond the %d the client wrote", who, got+n-total, total)
				return
			}
			if i := checkKeyed(buf[:n], s.key, uint64(got)); i >= 0 {
				r.violate("%s: byte at offset %d is %#02x, the client wrote %#02x (bytes out of order)", who, got+i, buf[i], keyedByte(s.key, uint64(got+i)))
				return
			}
			got += n
			if werr := r.write(who, conn, buf[:n]); werr != nil {
				if r.closedNow() {
					atomic.AddInt64(&r.lateErr, 1)
				} else {
					r.abort("%s: echo Write failed before the listener was closed: %v", who, werr)
				}
				return
			}
			atomic.AddInt64(&r.bytesEchoed, int64(n))
		}
		if err != nil {
			if r.closedNow() {
				atomic.AddInt64(&r.lateErr, 1)
			} else {
				r.violate("%s: Read failed with %v after %d of %d bytes although the client had not closed the stream and the listener was open", who, err, got, total)
			}
			return
		}
		if uint32(got) == pauseOff {
			if !r.deadlineTests(who, conn, s, rng, buf) {
				return
			}
		}
	}
	if mode == "B" {
		r.lnMu.RLock()
		if !r.lnClosed && !afterClose && !s.plan.Late && s.plan.Phase == 1 {
			atomic.AddInt32(&r.bInFlight, 1)
			atomic.StoreInt32(&s.serverCloses, 1)
		}
		r.lnMu.RUnlock()
		decided = true
		close(s.bDecision)
	}
	if mode == "A" || atomic.LoadInt32(&s.serverCloses) == 0 {
		// the client closes after it has read the whole echo: the next Read must report the end, not data
		n, err := r.read(who, conn, buf[:1+rng.Intn(100)])
		if err == nil {
			r.violate("%s: Read returned %d bytes after everything the client wrote had been read", who, n)
			return
		}
	}
	closeConn(tag)
	if !afterClose {
		r.postCloseChecks(who, conn)
	}
}

// deadlineTests runs while the client is parked (it waits for dlDone) and everything it wrote has been read.
func (r *nlRun) deadlineTests(who string, conn net.Conn, s *nlStream, rng *rand.Rand, buf []byte) bool {
	defer close(s.dlDone)
	// future deadline, nothing will arrive: the Read must fail, and not before the deadline (monotonic clock)
	d := time.Now().Add(time.Duration(3+rng.Intn(40)) * time.Millisecond)
	_ = conn.SetReadDeadline(d)
	n, err := r.read(who, conn, buf[:1+rng.Intn(1000)])
	t1 := time.Now()
	atomic.AddInt64(&r.dlFuture, 1)
	switch {
	case err == nil:
		r.violate("%s: Read with a deadline returned %d bytes although the client sent nothing", who, n)
		return false
	case !nlIsTimeout(err):
		if r.closedNow() {
			atomic.AddInt64(&r.lateErr, 1)
		} else {
			r.abort("%s: Read with a future deadline failed with %v (not a time-out)", who, err)
		}
		return false
	case t1.Before(d):
		r.violate("%s: Read timed out %v before its deadline", who, d.Sub(t1))
		return false
	}
	// past deadline: must fail
	_ = conn.SetReadDeadline(time.Now().Add(-time.Duration(1+rng.Intn(5000)) * time.Millisecond))
	n, err = r.read(who, conn, buf[:1+rng.Intn(1000)])
	atomic.AddInt64(&r.dlPast, 1)
	if err == nil {
		r.violate("%s: Read with a deadline in the past returned (%d, nil) although no data was pending", who, n)
		return false
	}
	// the deadline is moved (far future or none): the conn is usable again, and a far deadline must not fire
	if rng.Intn(2) == 0 {
		_ = conn.SetReadDeadline(time.Time{})
	} else {
		far := time.Now().Add(10 * time.Minute)
		if rng.Intn(2) == 0 {
			_ = conn.SetDeadline(far)
		} else {
			_ = conn.SetReadDeadline(far)
		}
		atomic.AddInt64(&r.dlWithData, 1)
	}
	return true
}

// accept loop and listener close -----------------------------------------------------------------

func (r *nlRun) acceptLoop() {
	defer close(r.acceptDone)
	resumed := false
	for {
		r.mu.Lock()
		n := r.nAccepted
		r.mu.Unlock()
		if !resumed && r.cs.NPhase2 > 0 && n >= r.cs.NPhase1 {
			<-r.resumeAcc // the remaining streams have to pile up in the backlog
			resumed = true
		}
		conn, err := r.ln.Accept()
		if err != nil {
			r.mu.Lock()
			r.acceptErr = err
			r.mu.Unlock()
			return
		}
		after := r.closedNow()
		r.mu.Lock()
		r.nAccepted++
		if after {
			r.afterClose++
		}
		if sw, ok := conn.(*streamWrapper); ok {
			r.wrapped[sw.stream]++
			if r.wrapped[sw.stream] > 1 {
				atomic.StoreInt32(&r.failed, 1)
				r.viol = append(r.viol, fmt.Sprintf("Accept returned two conns wrapping the same stream (id %d)", sw.stream.id))
			}
			if ci, ok := r.srvIndex[sw.stream.session]; ok {
				for _, s := range r.streams[ci] {
					if s.id == sw.stream.id && s.st != nil {
						atomic.StoreInt32(&s.accepted, 1)
					}
				}
			}
		}
		r.mu.Unlock()
		r.handlers.Add(1)
		go r.handle(conn, after)
	}
}

func (r *nlRun) closer() {
	cond := func() bool {
		r.mu.Lock()
		p1 := r.p1SurfacedN
		r.mu.Unlock()
		if p1 < r.cs.NPhase1 || int(atomic.LoadInt32(&r.nonLateDone)) < r.cs.CloseAfter {
			return false
		}
		if r.cs.NPhase2 == 0 {
			return true
		}
		if r.cs.CloseRace {
			return r.p2Written() // listener close with stream data possibly still in flight
		}
		return len(r.l.backlog) >= r.cs.NPhase2 && r.p2Delivered()
	}
	if !waitUntil(120*time.Second, func() bool {
		return cond() || atomic.LoadInt32(&r.watchdogFire) == 1 || atomic.LoadInt32(&r.failed) == 1
	}) || (!cond() && atomic.LoadInt32(&r.failed) == 0) {
		r.mu.Lock()
		p1 := r.p1SurfacedN
		r.mu.Unlock()
		// a phase-1 stream whose first Write returned nil and that never came out of Accept is the "zero times" refutation
		missing := []string{}
		for _, ss := range r.streams {
			for _, s := range ss {
				if s.plan.Phase == 1 && atomic.LoadInt32(&s.sent) == 1 && atomic.LoadInt32(&s.surfaced) == 0 {
					missing = append(missing, fmt.Sprintf("%d/%d", s.ci, s.si))
				}
			}
		}
		if len(missing) > 0 && len(r.abortedList()) == 0 && r.can.healthy(time.Second) && fence() {
			r.violate("streams %v sent data (Write returned nil) but never surfaced from Accept within 120 s (event loop idle, scheduler healthy)", missing)
		} else {
			r.abort("close condition not reached: %d of %d phase-1 streams surfaced, %d of %d completed, backlog %d of %d", p1, r.cs.NPhase1,
				atomic.LoadInt32(&r.nonLateDone), r.cs.CloseAfter, len(r.l.backlog), r.cs.NPhase2)
		}
	}
	for {
		r.lnMu.Lock()
		if atomic.LoadInt32(&r.bInFlight) == 0 || atomic.LoadInt32(&r.watchdogFire) == 1 || atomic.LoadInt32(&r.failed) == 1 {
			break
		}
		r.lnMu.Unlock()
		if !waitUntil(120*time.Second, func() bool {
			return atomic.LoadInt32(&r.bInFlight) == 0 || atomic.LoadInt32(&r.watchdogFire) == 1 || atomic.LoadInt32(&r.failed) == 1
		}) {
			r.abort("streams closed by the server did not finish on the client side")
			atomic.StoreInt32(&r.watchdogFire, 1)
		}
	}
	r.mu.Lock()
	r.backlogAt = len(r.l.backlog)
	open := 0
	for _, ss := range r.streams {
		for _, s := range ss {
			if atomic.LoadInt32(&s.surfaced) > 0 && atomic.LoadInt32(&s.done) == 0 {
				open++
			}
		}
	}
	r.openAtClose = open
	r.closeOrder = append(r.closeOrder, "L")
	r.mu.Unlock()
	func() {
		defer func() {
			if e := recover(); e != nil {
				r.violate("listener.Close panicked: %v", e)
			}
		}()
		_ = r.ln.Close()
	}()
	r.lnClosed = true
	r.lnMu.Unlock()
	close(r.lnClosedCh)
	close(r.resumeAcc)
	// Accept must come back with its error
	r.can.reset()
	if !nlWait(r.acceptDone, 10*time.Second) {
		if r.can.healthy(time.Second) {
			r.violate("Accept still blocks 10 s after listener.Close (scheduler lateness below 1 s)")
		} else {
			r.abort("Accept did not return within 10 s of listener.Close, but the machine is overloaded")
		}
		atomic.StoreInt32(&r.watchdogFire, 1)
	}
}

// p2Delivered (cases without CloseRace): every backlog stream's first message has been written completely by its client AND
// has reached the server side stream (one pending element per Write; nobody reads from a conn that sits in the backlog), so
// that the backlog length at the listener close is exactly the number of backlog streams.
// p2Written: every backlog stream's client has returned from the Write(s) of its first message (a client that is still
// inside Write when the last conn of its session is closed would be caught by the session teardown: known finding F2).
func (r *nlRun) p2Written() bool {
	for _, ss := range r.streams {
		for _, s := range ss {
			if s.plan.Phase == 2 && atomic.LoadInt32(&s.sent) != 1 {
				return false
			}
		}
	}
	return true
}

func (r *nlRun) p2Delivered() bool {
	for _, ss := range r.streams {
		for _, s := range ss {
			if s.plan.Phase != 2 {
				continue
			}
			if atomic.LoadInt32(&s.sent) != 1 {
				return false
			}
			r.mu.Lock()
			id := s.id
			r.mu.Unlock()
			srv := r.servers[s.ci]
			srv.streamLock.RLock()
			st := srv.streams[id]
			srv.streamLock.RUnlock()
			if st == nil {
				return false
			}
			st.pendingData.Lock()
			n := len(st.pendingData.unread)
			st.pendingData.Unlock()
			want := 1
			if s.plan.HdrSplit {
				want = 2
			}
			if n < want {
				return false
			}
		}
	}
	return true
}

func (r *nlRun) abortedList() []string {
	r.mu.Lock()
	defer r.mu.Unlock()
	return append([]string{}, r.aborted...)
}

// nlRunCase returns false when goroutines are left behind (the worker process must be replaced).
var nlPhaseTimes string

func nlRunCase(col *nlCol, cs nlCase, can *canary) (clean bool) {
	name := fmt.Sprintf("nl-%d", cs.Idx)
	tStart := time.Now()
	var tSetup, tScript, tEnded time.Duration
	defer func() {
		nlPhaseTimes = fmt.Sprintf("setup=%.2f script=%.2f ended=%.2f total=%.2f", tSetup.Seconds(), tScript.Seconds(), tEnded.Seconds(), time.Since(tStart).Seconds())
	}()
	r := &nlRun{col: col, cs: cs, name: name, can: can, srvIndex: map[*Session]int{}, wrapped: map[*Stream]int{},
		lnClosedCh: make(chan struct{}), p1Surfaced: make(chan struct{}), resumeAcc: make(chan struct{}), acceptDone: make(chan struct{})}
	path := filepath.Join(sockDir(), fmt.Sprintf("nl-%d-%d.sock", os.Getpid(), cs.Idx))
	_ = os.Remove(path)
	ln, err := Listen(path)
	if err != nil {
		col.inconclusive(name, "Listen: "+err.Error())
		return true
	}
	defer os.Remove(path)
	r.ln = ln
	r.l = ln.(*listener)
	// ---- client sessions; the server side of each must have registered with the listener
	var prefixes []string
	fail := ""
	for c := 0; c < cs.Clients && fail == ""; c++ {
		// the listener creates the server side with the library's DefaultConfig: its 1 s handshake time-out starts when the raw
		// connection is accepted, i.e. before this client has even created its share memory. On a loaded machine that can
		// expire; such an attempt is repeated (the failed client session is closed), it is not an observation about C19.
		registered := false
		for attempt := 0; attempt < 4 && !registered && fail == ""; attempt++ {
			conn, err := net.Dial("unix", path)
			if err != nil {
				fail = "dial: " + err.Error()
				break
			}
			conf, prefix := newTestConfig(pairOpt{memfd: cs.MemFd[c], bufCap: 16 << 20, initTO: 5 * time.Second,
				sizes: smallSizes(8192-uint32(bufferHeaderSize), 30, 32*1024-uint32(bufferHeaderSize), 70)})
			prefixes = append(prefixes, prefix)
			sess, err := newSession(conf, conn, true)
			if err != nil {
				col.count("client connects repeated (server handshake timed out)", 1)
				continue
			}
			var found *Session
			ok := waitUntil(3*time.Second, func() bool {
				r.l.mu.Lock()
				defer r.l.mu.Unlock()
				for s := range r.l.sessions {
					if _, known := r.srvIndex[s]; !known {
						found = s
						return true
					}
				}
				return false
			})
			if !ok {
				col.count("client connects repeated (server handshake timed out)", 1)
				sess.Close()
				waitTeardown(sess, 10*time.Second)
				continue
			}
			registered = true
			r.clients = append(r.clients, sess)
			r.srvIndex[found] = c
			r.servers = append(r.servers, found)
		}
		if !registered && fail == "" {
			fail = "the server side of a client session did not register with the listener in 4 attempts (1 s handshake time-out of the library's DefaultConfig under load)"
		}
	}
	teardown := func() {
		for _, s := range r.clients {
			s.Close()
		}
		for _, s := range r.clients {
			waitTeardown(s, 10*time.Second)
		}
		for _, s := range r.servers {
			s.Close()
			waitTeardown(s, 10*time.Second)
		}
	}
	if fail != "" {
		_ = ln.Close()
		teardown()
		col.inconclusive(name, fail)
		return true
	}
	if cs.NPhase1 == 0 {
		close(r.p1Surfaced)
	}
	for c, plans := range cs.Streams {
		var ss []*nlStream
		for si, p := range plans {
			ss = append(ss, &nlStream{ci: c, si: si, plan: p, key: uint64(cs.Seed)<<16 ^ uint64(c)<<8 ^ uint64(si), dlDone: make(chan struct{}), bDecision: make(chan struct{})})
		}
		r.streams = append(r.streams, ss)
	}
	tSetup = time.Since(tStart)
	go r.acceptLoop()
	for _, ss := range r.streams {
		for _, s := range ss {
			r.clientsWg.Add(1)
			go r.clientStream(s)
		}
	}
	closerDone := make(chan struct{})
	go func() { defer close(closerDone); r.closer() }()

	// ---- wait for the script to end
	allDone := make(chan struct{})
	go func() {
		<-closerDone
		r.clientsWg.Wait()
		<-r.acceptDone
		r.handlers.Wait()
		close(allDone)
	}()
	stuck := false
	select {
	case <-allDone:
	case <-closerDone:
		// the listener is closed; if a bound was already missed there, do not wait long for the rest
		limit := 300 * time.Second
		if atomic.LoadInt32(&r.watchdogFire) == 1 {
			limit = 5 * time.Second
		} else if atomic.LoadInt32(&r.failed) == 1 {
			limit = 20 * time.Second // an oracle already failed: the script is off its rails, do not wait for it
		}
		select {
		case <-allDone:
		case <-time.After(limit):
			stuck = true
			atomic.StoreInt32(&r.watchdogFire, 1)
		}
	case <-time.After(300 * time.Second):
		stuck = true
		atomic.StoreInt32(&r.watchdogFire, 1)
	}
	if stuck {
		dump := truncate(goroutineDump(), 12000)
		r.mu.Lock()
		viol := append([]string{}, r.viol...)
		r.mu.Unlock()
		if len(viol) > 0 {
			col.violation(name, map[string]interface{}{"case": cs, "violations": viol, "goroutines": dump}, "%s", viol[0])
		} else {
			col.inconclusive(name, "watchdog: the script did not end; "+strings.Join(r.abortedList(), "; ")+"\n"+dump)
		}
		return false
	}
	tScript = time.Since(tStart)
	// ---- the listener is closed, Accept returned its error, every conn ever returned is closed:
	//      every server session must end (they end when their wait group drains; nothing else is pending)
	r.mu.Lock()
	accErr := r.acceptErr
	r.mu.Unlock()
	aborted := r.abortedList()
	if accErr != nil && len(aborted) == 0 && atomic.LoadInt32(&r.failed) == 0 {
		can.reset()
		ended := func() bool {
			for _, s := range r.servers {
				if !s.IsClosed() {
					return false
				}
			}
			return true
		}
		if !waitUntil(10*time.Second, ended) {
			var open []int
			for i, s := range r.servers {
				if !s.IsClosed() {
					open = append(open, i)
				}
			}
			if can.healthy(time.Second) {
				r.violate("server sessions %v are still open 10 s after the listener was closed, Accept had returned its error and all %d conns it ever returned were closed; %d conns are left in the listener's backlog (backlog at Close: %d)",
					open, r.nAccepted, len(r.l.backlog), r.backlogAt)
			} else {
				r.abort("server sessions %v did not end within 10 s, but the machine is overloaded", open)
			}
		} else {
			col.count("server sessions ended after the last conn was closed", int64(len(r.servers)))
			// the client sides see the connection go away
			if waitUntil(10*time.Second, func() bool {
				fenceOnce(5 * time.Second)
				for _, s := range r.clients {
					if !s.IsClosed() {
						return false
					}
				}
				return true
			}) {
				col.count("client sessions that observed the server session's end", int64(len(r.clients)))
			}
		}
	}
	// exactly once: phase-1 streams surfaced once (the closer waited for them), phase-2 streams at most once
	for _, ss := range r.streams {
		for _, s := range ss {
			n := atomic.LoadInt32(&s.surfaced)
			if n > 1 {
				r.violate("stream %d/%d surfaced %d times from Accept", s.ci, s.si, n)
			}
		}
	}
	tEnded = time.Since(tStart)
	teardown()
	r.mu.Lock()
	viol := append([]string{}, r.viol...)
	order := append([]string{}, r.closeOrder...)
	r.mu.Unlock()
	aborted = r.abortedList()
	col.count("conns accepted", int64(r.nAccepted))
	col.count("conns handed out by Accept after the listener was closed", int64(r.afterClose))
	col.count("bytes echoed", atomic.LoadInt64(&r.bytesEchoed))
	col.count("Read calls checked", atomic.LoadInt64(&r.reads))
	col.count("Write calls checked", atomic.LoadInt64(&r.writes))
	col.count("deadline: reads that had to time out at a future deadline", atomic.LoadInt64(&r.dlFuture))
	col.count("deadline: reads with a deadline in the past", atomic.LoadInt64(&r.dlPast))
	col.count("deadline: conns used again under a far deadline", atomic.LoadInt64(&r.dlWithData))
	col.count("Read+Write pairs after Close", atomic.LoadInt64(&r.postClose))
	col.count("errors after the listener was closed (tolerated)", atomic.LoadInt64(&r.lateErr))
	col.count("backlog conns released by listener.Close", atomic.LoadInt64(&r.stranded))
	if r.backlogAt > 0 {
		col.count("listener closes with a non-empty backlog", 1)
	}
	if r.openAtClose > 0 {
		col.count("listener closes with accepted conns still open", 1)
	}
	col.count("client sessions", int64(len(r.clients)))
	witness := map[string]interface{}{"case": cs, "close_order": order, "backlog_at_close": r.backlogAt, "conns_open_at_close": r.openAtClose,
		"accepted": r.nAccepted, "handed_out_after_close": r.afterClose}
	switch {
	case len(viol) > 0:
		witness["violations"] = viol
		col.violation(name, witness, "%s", viol[0])
	case len(aborted) > 0:
		col.inconclusive(name, strings.Join(aborted, "; "))
	}
	col.mu.Lock()
	col.r.Evals++
	col.mu.Unlock()
	if r.backlogAt > 0 || r.openAtClose > 0 {
		// realised close order: who closed (client / server side) relative to the listener, bucketed
		h := fnv.New64a()
		before, afterL := 0, 0
		seenL := false
		for _, o := range order {
			if o == "L" {
				seenL = true
				continue
			}
			if seenL {
				afterL++
			} else {
				before++
			}
		}
		modes := map[string]int{}
		for _, ss := range r.streams {
			for _, s := range ss {
				modes[fmt.Sprintf("%s%d%v", s.plan.Mode, s.plan.Phase, s.plan.Late)]++
			}
		}
		fmt.Fprintf(h, "%v", modes)
		col.nontrivial(fmt.Sprintf("cl=%d/str=%d/p2=%d/late=%d/closeAfter=%d/backlog=%d/open=%d/after=%d/before=%d:%d/m%08x", cs.Clients, cs.NPhase1+cs.NPhase2, cs.NPhase2, cs.NLate,
			cs.CloseAfter, r.backlogAt, r.openAtClose, r.afterClose, nlBucket(before), nlBucket(afterL), h.Sum64()&0xffffffff))
	}
	if cs.Idx < 3 {
		col.sample(witness)
	}
	return true
}

func nlBucket(n int) int {
	switch {
	case n == 0:
		return 0
	case n < 4:
		return n
	case n < 16:
		return 8
	case n < 64:
		return 32
	}
	return 100
}

// ---------------------------------------------------------------------------------------------
// worker / child role / parent

func nlCaseCount(tier string) int { // general executions
	if tier == "thorough" {
		return 5000
	}
	return 100
}

func nlDirectedCount(tier string) int { // directed rounds (streams arriving around / after the listener close)
	if tier == "thorough" {
		return 10000
	}
	return 200
}

func nlWorker(tier string, seed int64, from int, reportPath string) {
	col := newNlCol(reportPath)
	ensureDefaultDispatcherInit()
	fenceInit()
	can := startCanary()
	defer can.close()
	nGeneral := nlCaseCount(tier)
	nDirected := nlDirectedCount(tier)
	total := nGeneral + nDirected + nlExtraCount(tier)
	only := -1
	if v := os.Getenv("VERIF_NL_ONLY"); v != "" { // debugging aid only
		only, _ = strconv.Atoi(v)
	}
	for i := from; i < total; i++ {
		if only >= 0 && i != only {
			continue
		}
		cs := nlGenCase(seed, i)
		col.flush(i, i, false)
		childLog("case %d", i)
		t0 := time.Now()
		clean := true
		func() {
			defer func() {
				if r := recover(); r != nil {
					col.violation(fmt.Sprintf("nl-%d", i), map[string]interface{}{"case": cs, "panic": fmt.Sprint(r)}, "panic: %v", r)
				}
			}()
			if i >= nGeneral+nDirected {
				clean = nlRunExtra(col, seed, i-nGeneral-nDirected, can)
			} else if i >= nGeneral {
				clean = nlRunDirected(col, nlGenDirCase(seed, i-nGeneral), can)
			} else {
				clean = nlRunCase(col, cs, can)
			}
		}()
		if os.Getenv("VERIF_NL_DEBUG") != "" {
			col.mu.Lock()
			col.r.Timings = append(col.r.Timings, fmt.Sprintf("nl-%d %.2fs clients=%d p1=%d p2=%d late=%d closeAfter=%d %s", i, time.Since(t0).Seconds(), cs.Clients, cs.NPhase1, cs.NPhase2, cs.NLate, cs.CloseAfter, nlPhaseTimes))
			col.mu.Unlock()
		}
		if !clean {
			col.flush(i, i+1, false)
			return // stuck goroutines: the parent starts a fresh worker at the next case
		}
		col.mu.Lock()
		nv := len(col.r.Viol)
		col.mu.Unlock()
		if nv >= 5 {
			col.count("runs cut short after 5 violating cases", 1)
			col.flush(total, total, true) // the verdict is decided; the remaining cases would only cost their bounds
			return
		}
	}
	col.flush(total, total, true)
	_ = os.RemoveAll(sockDir())
}

// ---------------------------------------------------------------------------------------------
// directed scenario: streams that reach the listener's per-session goroutine around / after listener.Close
// (defects X12b: conn queued after Close's drain stays in the backlog for ever; X12c: wg.Add racing with the returning
// Wait panics). Variants: 0 = the late streams are opened after Close returned; 1 = they race with Close;
// 2 = they race with the close of the last accepted conn after the listener was closed; 3 = the per-session goroutine is
// parked (hook vpNLBeforeBacklogSend) between wrapping the late stream and queueing it until listener.Close has returned.

type nlDirCase struct {
	Round   int   `json:"round"`
	Variant int   `json:"variant"`
	Clients int   `json:"clients"`
	Held    int   `json:"held_conns_per_client"`
	Late    int   `json:"late_streams_per_client"`
	Seed    int64 `json:"seed"`
}

func nlGenDirCase(seed int64, k int) nlDirCase {
	rng := caseRand(seed, 1950000+k)
	return nlDirCase{Round: k, Variant: k % 4, Clients: 1 + rng.Intn(3), Held: 1 + rng.Intn(2), Late: 1 + rng.Intn(8), Seed: rng.Int63()}
}

func nlRunDirected(col *nlCol, cs nlDirCase, can *canary) (clean bool) {
	name := fmt.Sprintf("nl-late-%d", cs.Round)
	rng := rand.New(rand.NewSource(cs.Seed))
	path := filepath.Join(sockDir(), fmt.Sprintf("nld-%d-%d.sock", os.Getpid(), cs.Round))
	_ = os.Remove(path)
	ln, err := Listen(path)
	if err != nil {
		col.inconclusive(name, "Listen: "+err.Error())
		return true
	}
	defer os.Remove(path)
	l := ln.(*listener)
	var clients, servers []*Session
	known := map[*Session]bool{}
	cleanup := func() {
		for _, c := range clients {
			c.Close()
		}
		for _, c := range clients {
			waitTeardown(c, 10*time.Second)
		}
		for _, sv := range servers {
			sv.Close()
			waitTeardown(sv, 10*time.Second)
		}
	}
	for c := 0; c < cs.Clients; c++ {
		ok := false
		for attempt := 0; attempt < 4 && !ok; attempt++ {
			conn, err := net.Dial("unix", path)
			if err != nil {
				break
			}
			conf, _ := newTestConfig(pairOpt{bufCap: 2 << 20, initTO: 5 * time.Second})
			cli, err := newSession(conf, conn, true)
			if err != nil {
				continue
			}
			var srv *Session
			if !waitUntil(3*time.Second, func() bool {
				l.mu.Lock()
				defer l.mu.Unlock()
				for sv := range l.sessions {
					if !known[sv] {
						srv = sv
						return true
					}
				}
				return false
			}) {
				cli.Close()
				waitTeardown(cli, 10*time.Second)
				col.count("client connects repeated (server handshake timed out)", 1)
				continue
			}
			known[srv] = true
			clients, servers = append(clients, cli), append(servers, srv)
			ok = true
		}
		if !ok {
			_ = ln.Close()
			cleanup()
			col.inconclusive(name, "a client session could not be established (server handshake time-out under load)")
			return true
		}
	}
	var viol []string
	violate := func(format string, a ...interface{}) { viol = append(viol, fmt.Sprintf(format, a...)) }
	// held conns: accepted and kept open, they keep the sessions alive across the listener close
	var heldStreams []*Stream
	for _, cli := range clients {
		for h := 0; h < cs.Held; h++ {
			st, err := cli.OpenStream()
			if err != nil {
				continue
			}
			if _, err := st.Write([]byte("held")); err == nil {
				heldStreams = append(heldStreams, st)
			}
		}
	}
	var held []net.Conn
	accCh := make(chan net.Conn, 64)
	go func() {
		for i := 0; i < len(heldStreams); i++ {
			c, err := ln.Accept()
			if err != nil {
				break
			}
			accCh <- c
		}
		close(accCh)
	}()
	deadline := time.After(30 * time.Second)
collect:
	for {
		select {
		case c, ok := <-accCh:
			if !ok {
				break collect
			}
			held = append(held, c)
		case <-deadline:
			_ = ln.Close()
			col.inconclusive(name, "watchdog: the held conns did not surface")
			return false
		}
	}
	if len(held) != len(heldStreams) {
		_ = ln.Close()
		for _, c := range held {
			c.Close()
		}
		cleanup()
		col.inconclusive(name, "held conns incomplete")
		return true
	}
	// late streams
	var lateMu sync.Mutex
	var late []*Stream
	var lateSent int64
	sendLate := func(cli *Session, n int, pace bool, r *rand.Rand) {
		for i := 0; i < n; i++ {
			if cli.IsClosed() { // stay away from a session that is being torn down (F2)
				return
			}
			st, err := cli.OpenStream()
			if err != nil || st == nil {
				return
			}
			lateMu.Lock()
			late = append(late, st)
			lateMu.Unlock()
			if _, err := st.Write([]byte("late")); err == nil {
				atomic.AddInt64(&lateSent, 1)
			}
			if pace && r.Intn(2) == 0 {
				spinFor(r.Intn(3000))
			}
		}
	}
	closeListener := func() {
		defer func() {
			if e := recover(); e != nil {
				violate("listener.Close panicked: %v", e)
			}
		}()
		_ = ln.Close()
	}
	var wg sync.WaitGroup
	heldClosed := false
	switch cs.Variant {
	case 0:
		closeListener()
		for _, cli := range clients {
			sendLate(cli, cs.Late, false, rng)
		}
	case 1:
		for i, cli := range clients {
			wg.Add(1)
			go func(cli *Session, sd int64) {
				defer wg.Done()
				sendLate(cli, cs.Late, true, rand.New(rand.NewSource(sd)))
			}(cli, cs.Seed+int64(i))
		}
		spinFor(rng.Intn(20000))
		closeListener()
		wg.Wait()
	case 3:
		// hook vpNLBeforeBacklogSend (after l.mu.Unlock, before the select that queues the conn): the per-session goroutine that
		// carries the first late stream is parked there until listener.Close has returned, i.e. until Close's drain has run
		var state int32 // 0 idle, 1 armed, 2 parked
		parked, release := make(chan struct{}), make(chan struct{})
		k := newCtl("nl-park", cs.Seed)
		k.on(vpNLBeforeBacklogSend, func(obj interface{}, n int64) {
			if ll, ok := obj.(*listener); ok && ll == l && atomic.CompareAndSwapInt32(&state, 1, 2) {
				close(parked)
				select {
				case <-release:
				case <-time.After(60 * time.Second): // never leave a library goroutine parked for good
				}
			}
		})
		k.install()
		atomic.StoreInt32(&state, 1)
		sendLate(clients[0], 1, false, rng)
		if nlWait(parked, 20*time.Second) {
			col.count("directed: rounds with the per-session goroutine parked across listener.Close", 1)
		} else {
			col.inconclusive(name, "the per-session goroutine did not reach the backlog-send hook")
		}
		for _, cli := range clients[1:] {
			sendLate(cli, rng.Intn(3), false, rng) // other sessions pass the hook: queued before Close, drained by Close
		}
		closeListener()
		close(release)
		uninstallCtl()
	default:
		closeListener()
		for i, cli := range clients {
			wg.Add(1)
			go func(cli *Session, sd int64) {
				defer wg.Done()
				sendLate(cli, cs.Late, true, rand.New(rand.NewSource(sd)))
			}(cli, cs.Seed+int64(i))
		}
		spinFor(rng.Intn(5000))
		for _, c := range held {
			_ = c.Close()
		}
		heldClosed = true
		wg.Wait()
	}
	// the application: Accept until its error, close everything it was given, close the held conns
	after := 0
	accDone := make(chan struct{})
	go func() {
		defer close(accDone)
		for {
			c, err := ln.Accept()
			if err != nil {
				return
			}
			after++
			_ = c.Close()
		}
	}()
	can.reset()
	if !nlWait(accDone, 10*time.Second) {
		if can.healthy(time.Second) {
			violate("Accept still blocks 10 s after listener.Close")
		} else {
			col.inconclusive(name, "Accept did not return within 10 s (machine overloaded)")
		}
		col.violationOrNothing(name, cs, viol)
		return false
	}
	if !heldClosed {
		for _, c := range held {
			_ = c.Close()
		}
	}
	can.reset()
	ended := func() bool {
		for _, sv := range servers {
			if !sv.IsClosed() {
				return false
			}
		}
		return true
	}
	if !waitUntil(10*time.Second, ended) {
		var open []int
		for i, sv := range servers {
			if !sv.IsClosed() {
				open = append(open, i)
			}
		}
		if can.healthy(time.Second) {
			violate("server sessions %v are still open 10 s after the listener was closed, Accept had returned its error and every conn it ever returned was closed; %d conns sit in the listener's backlog (streams that arrived around/after Close)",
				open, len(l.backlog))
		} else {
			col.inconclusive(name, "sessions did not end within 10 s (machine overloaded)")
		}
	} else {
		col.count("directed: sessions ended after late streams", int64(len(servers)))
	}
	// wind up: the sessions are gone (or leaked); streams of ended sessions are closed by the teardown itself
	lateMu.Lock()
	for _, st := range late {
		if !st.session.IsClosed() {
			_ = st.Close()
		}
	}
	lateMu.Unlock()
	cleanup()
	col.count("directed: rounds", 1)
	col.count("directed: late streams written", atomic.LoadInt64(&lateSent))
	col.count("directed: conns handed out by Accept after Close", int64(after))
	col.violationOrNothing(name, cs, viol)
	col.mu.Lock()
	col.r.Evals++
	col.mu.Unlock()
	if atomic.LoadInt64(&lateSent) > 0 {
		col.nontrivial(fmt.Sprintf("late/v%d/cl=%d/held=%d/late=%d/after=%d", cs.Variant, cs.Clients, cs.Held, nlBucket(int(atomic.LoadInt64(&lateSent))), nlBucket(after)))
	}
	return true
}

func (k *nlCol) violationOrNothing(name string, cs interface{}, viol []string) {
	if len(viol) > 0 {
		k.violation(name, map[string]interface{}{"case": cs, "violations": viol}, "%s", viol[0])
	}
}

func nlChildMain(args []string) {
	tier, seed, from := "quick", int64(1), 0
	if len(args) > 0 {
		tier = args[0]
	}
	if len(args) > 1 {
		seed, _ = strconv.ParseInt(args[1], 10, 64)
	}
	if len(args) > 2 {
		from, _ = strconv.Atoi(args[2])
	}
	nlWorker(tier, seed, from, os.Getenv("VERIF_NL_REPORT"))
	childReply(map[string]interface{}{"done": true})
}

func checkNetListener(c *checkCtx) {
	c.rule = "one execution = Listen on a unix path, 1..4 client sessions (file / memfd mapping) x 1..32 streams from PRNG(VERIF_SEED, index): keyed header + 1..5 keyed messages of " +
		"1 B..300 KB per stream, echoed by one handler per accepted conn with PRNG read-buffer sizes; per stream: closed by the client or by the server, finishing before or after " +
		"the listener close, or still queued in the backlog at the listener close; read-deadline tests on a quarter of the conns; the listener is closed when a PRNG number of " +
		"streams has completed and all others have surfaced / are queued (or, in half of the backlog cases, merely written: stream data in flight at the listener close). " +
		"Directed rounds: 1..3 sessions with accepted conns held open, 1..8 streams per session opened after the listener close / racing with it / racing with the close of " +
		"the last conn / with the per-session goroutine parked by a hook between wrapping and queueing a late conn until Close returned; then Accept-until-error, close everything, sessions must end and nothing may panic. Non-trivial = at the listener close at least one accepted conn was still open or the backlog was not " +
		"empty (measured). Distinct = distinct (clients, streams, backlog streams, late streams, close point, backlog length and open conns at Close, conns handed out after Close, " +
		"bucketed numbers of conn closes before / after the listener close, stream mode multiset); for directed rounds: at least one late stream was written, distinct (variant, sessions, " +
		"held conns, late streams bucket, conns handed out after Close)."
	c.assume("server sessions are created by the listener with the library's DefaultConfig (1 s handshake time-out); a client whose server side did not register is an inconclusive case")
	c.assume("'as on a socket' is read behaviourally: an error at a past deadline when no data is pending, no time-out before a future deadline, usable after the deadline is moved; " +
		"the error need not implement net.Error; SetDeadline/Close after Close and write deadlines are not judged")
	c.assume("conns are closed by the goroutine that uses them; Close concurrent with a blocked Read of the same conn is not exercised")
	c.assume("Accept after listener.Close may still hand out backlog entries; Read/Write after Close are only called while the listener's reference keeps the session alive (F2)")
	nGeneral := nlCaseCount(c.tier)
	total := nGeneral + nlDirectedCount(c.tier) + nlExtraCount(c.tier)
	from := 0
	respawns := 0
	for from < total && respawns < 8 {
		rp := filepath.Join(c.work, fmt.Sprintf("nl-%d-%d.json", os.Getpid(), from))
		_ = os.Remove(rp)
		cp, err := c.spawnChild("nlWork", []string{c.tier, strconv.FormatInt(c.seed, 10), strconv.Itoa(from)}, "VERIF_NL_REPORT="+rp)
		if err != nil {
			c.inconclusiveCase("spawn", err.Error())
			return
		}
		limit := time.Duration(c.pick(20, 900)) * time.Minute
		finished := false
		for {
			line, ok := cp.recv(limit, nil)
			if !ok {
				break
			}
			if strings.Contains(line, `"done"`) {
				finished = true
				break
			}
			if os.Getenv("VERIF_NL_DEBUG") != "" {
				fmt.Println("CHILD:", truncate(line, 300))
			}
		}
		ex := cp.wait(20 * time.Second)
		rep, ok := nlLoadReport(rp)
		if os.Getenv("VERIF_NL_DEBUG") == "" {
			_ = os.Remove(rp)
		}
		if ok {
			c.eval(rep.Evals)
			for k, v := range rep.Counters {
				c.count(k, v)
			}
			for _, d := range rep.Distinct {
				c.nontrivial(d)
			}
			for _, s := range rep.Samples {
				c.sample(s)
			}
			for _, v := range rep.Viol {
				c.violation(v.Case, v.Witness, "%s", v.Msg)
			}
			for _, ic := range rep.Inconcl {
				c.inconclusiveCase(ic[0], ic[1])
			}
			if os.Getenv("VERIF_NL_DEBUG") != "" {
				for _, t := range rep.Timings {
					fmt.Println("TIMING", t)
				}
			}
		}
		if ok && rep.Finished && finished {
			cp.cleanupFiles()
			break
		}
		respawns++
		cur := from
		if ok {
			cur = rep.Current
		}
		switch {
		case ok && rep.Next > rep.Current:
			// the worker gave up after a watchdog (already reported); continue behind that case
			from = rep.Next
		case ex.TimedOut && !finished:
			c.inconclusiveCase(fmt.Sprintf("nl-%d", cur), "watchdog: worker process did not finish")
			from = cur + 1
		case cur >= nGeneral && strings.Contains(ex.Stderr, "unexpected fault address") && !strings.Contains(ex.Stderr, "panic: sync:"):
			// a directed round lets client calls race with the end of their session on purpose; a fault inside such a call is the
			// known teardown defect F2 (C14: share memory is unmapped under its users), not an observation about the listener
			c.inconclusiveCase(fmt.Sprintf("nl-late-%d", cur-nGeneral), "worker died of a memory fault in a client call racing with session teardown (known finding F2, not judged here): "+truncate(nlPanicLine(ex.Stderr), 200))
			from = cur + 1
		case ex.Signal != "" || (ex.Exited && ex.Code != 0):
			var cs interface{} = nlGenCase(c.seed, cur)
			cname := fmt.Sprintf("nl-%d", cur)
			if cur >= nGeneral {
				cs, cname = nlGenDirCase(c.seed, cur-nGeneral), fmt.Sprintf("nl-late-%d", cur-nGeneral)
			}
			c.violation(cname+"-process-died", map[string]interface{}{"case": cs, "exit": ex.Code, "signal": ex.Signal, "stderr": truncate(ex.Stderr, 10000)},
				"the worker process died during case %s (exit %d signal %q): a panic/fault on a library goroutine: %s", cname, ex.Code, ex.Signal, truncate(nlPanicLine(ex.Stderr), 500))
			from = cur + 1
		default:
			c.inconclusiveCase(fmt.Sprintf("nl-%d", cur), "worker ended without a complete report")
			from = cur + 1
		}
		cp.cleanupFiles()
	}
	if c.counter("listener closes with a non-empty backlog") == 0 || c.counter("deadline: reads that had to time out at a future deadline") == 0 ||
		c.counter("server sessions ended after the last conn was closed") == 0 {
		c.noObservation("backlog-at-close / deadline / session-end observations missing")
	}
	if c.counter("directed: rounds with the per-session goroutine parked across listener.Close") == 0 {
		c.noObservation("hook NLBeforeBacklogSend never parked a per-session goroutine across listener.Close")
	}
}

func nlPanicLine(stderr string) string {
	for _, l := range strings.Split(stderr, "\n") {
		if strings.HasPrefix(l, "panic:") || strings.HasPrefix(l, "fatal error:") {
			return l
		}
	}
	return tailString(stderr, 300)
}

// ---------------------------------------------------------------------------------------------
// further directed scenarios
//
//	even k: one accepted conn is closed by several goroutines at the same time (a watchdog and the handler's deferred Close)
//	        while another conn of the same session stays open: the session must stay alive as long as that conn is open and
//	        must end once the listener and the last conn are closed;
//	odd k:  the listener is closed while a client's session handshake is in flight: the client must not be left with a
//	        live session nobody serves.
func nlExtraCount(tier string) int {
	if tier == "thorough" {
		return 400
	}
	return 12
}

func nlRunExtra(col *nlCol, seed int64, k int, can *canary) (clean bool) {
	name := fmt.Sprintf("nl-extra-%d", k)
	rng := caseRand(seed, 1990000+k)
	path := filepath.Join(sockDir(), fmt.Sprintf("nlx-%d-%d.sock", os.Getpid(), k))
	_ = os.Remove(path)
	ln, err := Listen(path)
	if err != nil {
		col.inconclusive(name, "Listen: "+err.Error())
		return true
	}
	defer os.Remove(path)
	l := ln.(*listener)
	if k%2 == 1 {
		conn, err := net.Dial("unix", path)
		if err != nil {
			ln.Close()
			col.inconclusive(name, "dial: "+err.Error())
			return true
		}
		// the listener has accepted the raw connection and waits for the client's first handshake message
		time.Sleep(time.Duration(5+rng.Intn(60)) * time.Millisecond)
		ln.Close()
		conf, _ := newTestConfig(pairOpt{bufCap: 2 << 20, initTO: 5 * time.Second, memfd: k%4 == 1})
		can.reset()
		cli, err := newSession(conf, conn, true)
		col.count("extra: listener closed while a handshake was in flight", 1)
		col.nontrivial(fmt.Sprintf("extra/close-during-handshake/%v", err == nil))
		if err != nil {
			return true // refused on the client as well: fine
		}
		ended := waitUntil(5*time.Second, func() bool { fenceOnce(5 * time.Second); return cli.IsClosed() })
		if !ended && can.healthy(300*time.Millisecond) {
			st, oerr := cli.OpenStream()
			detail := fmt.Sprintf("OpenStream err=%v", oerr)
			if oerr == nil {
				_, werr := st.Write([]byte("x"))
				detail += fmt.Sprintf(", write err=%v", werr)
			}
			l.mu.Lock()
			nsess := len(l.sessions)
			l.mu.Unlock()
			col.violation(name, map[string]interface{}{"k": k}, "the listener was closed while a client's handshake was in flight; the handshake then succeeded on the client, and 5 s later "+
				"its session is still alive although nothing serves it (sessions registered with the closed listener: %d; %s)", nsess, detail)
		}
		cli.Close()
		waitTeardown(cli, 10*time.Second)
		l.mu.Lock()
		var left []*Session
		for sv := range l.sessions {
			left = append(left, sv)
		}
		l.mu.Unlock()
		for _, sv := range left {
			sv.Close()
			waitTeardown(sv, 10*time.Second)
		}
		return true
	}
	// even k: concurrent Close of one conn (and, first, a Read without deadline that a local Close has to release)
	conn, err := net.Dial("unix", path)
	if err != nil {
		ln.Close()
		col.inconclusive(name, "dial: "+err.Error())
		return true
	}
	conf, _ := newTestConfig(pairOpt{bufCap: 2 << 20, initTO: 5 * time.Second})
	cli, err := newSession(conf, conn, true)
	if err != nil {
		ln.Close()
		col.inconclusive(name, "client session: "+err.Error())
		return true
	}
	var srv *Session
	if !waitUntil(5*time.Second, func() bool {
		l.mu.Lock()
		defer l.mu.Unlock()
		for sv := range l.sessions {
			srv = sv
		}
		return srv != nil
	}) {
		cli.Close()
		ln.Close()
		col.inconclusive(name, "server session did not register")
		return true
	}
	open1 := func() (net.Conn, bool) {
		st, err := cli.OpenStream()
		if err != nil {
			return nil, false
		}
		if _, err := st.Write([]byte("hi")); err != nil {
			return nil, false
		}
		ch := make(chan net.Conn, 1)
		go func() {
			c, err := ln.Accept()
			if err != nil {
				ch <- nil
				return
			}
			ch <- c
		}()
		select {
		case c := <-ch:
			return c, c != nil
		case <-time.After(10 * time.Second):
			return nil, false
		}
	}
	keep, ok := open1()
	if !ok {
		cli.Close()
		ln.Close()
		col.inconclusive(name, "first conn did not surface on Accept")
		return true
	}
	iters := 200
	closers := 2 + rng.Intn(3)
	var viol string
	// "Close works as on a socket": a Read blocked on a conn (no deadline) returns when the same conn is closed locally
	for _, side := range []string{"accepted", "dialing"} {
		c, ok := open1()
		if !ok {
			break
		}
		var rc io.ReadCloser = c
		var heldPeer net.Conn
		if side == "dialing" {
			st, err := cli.OpenStream()
			if err != nil {
				c.Close()
				break
			}
			st.Write([]byte("x"))
			c2, ok2 := func() (net.Conn, bool) {
				ch := make(chan net.Conn, 1)
				go func() { a, _ := ln.Accept(); ch <- a }()
				select {
				case a := <-ch:
					return a, a != nil
				case <-time.After(10 * time.Second):
					return nil, false
				}
			}()
			c.Close()
			if !ok2 {
				break
			}
			heldPeer = c2
			rc = st
		} else {
			buf := make([]byte, 8)
			c.Read(buf) // the two bytes written by open1
		}
		rdone := make(chan error, 1)
		go func() {
			buf := make([]byte, 64)
			if side == "dialing" {
				// nothing was ever sent towards the dialing end
			}
			_, err := rc.Read(buf)
			rdone <- err
		}()
		time.Sleep(time.Duration(1+rng.Intn(5)) * time.Millisecond)
		can.reset()
		rc.Close()
		select {
		case err := <-rdone:
			if err == nil {
				viol = fmt.Sprintf("%s conn: a Read blocked without data returned nil after the conn was closed locally", side)
			}
		case <-time.After(5 * time.Second):
			if can.healthy(300 * time.Millisecond) {
				viol = fmt.Sprintf("%s conn: a Read without deadline is still blocked 5 s after the same conn was closed locally (peer and session alive)", side)
			}
		}
		col.count("extra: blocked Read released by a local Close", 1)
		if heldPeer != nil {
			heldPeer.Close()
		}
		if viol != "" {
			break
		}
	}
	for i := 0; i < iters && viol == ""; i++ {
		c, ok := open1()
		if !ok {
			if srv.IsClosed() {
				viol = fmt.Sprintf("after %d rounds of closing one conn from %d goroutines at once the session ended although another accepted conn of it is still open and the listener is not closed", i, closers)
			}
			break
		}
		var start, done sync.WaitGroup
		start.Add(1)
		for g := 0; g < closers; g++ {
			done.Add(1)
			go func() {
				defer done.Done()
				start.Wait()
				_ = c.Close()
			}()
		}
		start.Done()
		done.Wait()
		col.count("extra: conns closed by several goroutines at once", 1)
	}
	if viol == "" && srv.IsClosed() {
		viol = fmt.Sprintf("after closing conns from %d goroutines at once the session ended although another accepted conn of it is still open and the listener is not closed", closers)
	}
	col.nontrivial(fmt.Sprintf("extra/concurrent-conn-close/%d", closers))
	// now the listener and the last conn are closed: the session must end
	ln.Close()
	keep.Close()
	can.reset()
	if viol == "" && !waitUntil(5*time.Second, func() bool { fenceOnce(5 * time.Second); return srv.IsClosed() }) && can.healthy(300*time.Millisecond) {
		viol = "listener closed and every accepted conn closed, but the session did not end within 5 s"
	}
	cli.Close()
	waitTeardown(cli, 10*time.Second)
	srv.Close()
	waitTeardown(srv, 10*time.Second)
	if viol != "" {
		col.violation(name, map[string]interface{}{"k": k, "closers": closers}, "%s", viol)
	}
	return true
}
