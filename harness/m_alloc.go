package shmipc

// C01 (a buffer never has two owners) and C02 (the allocator neither loses nor duplicates buffers).
// Primitive-level workloads on the real bufferList.pop/push, allocShmBuffer(s), recycleBuffer(s), with an
// ownership table, geometry + signature checks, a stop-the-world free-list walker and the ABA-suspect detector.

import (
	"fmt"
	"math/rand"
	"os"
	"runtime"
	"strings"
	"sync"
	"sync/atomic"
	"syscall"
	"time"
	"unsafe"
)

func init() {
	verifChecks["C01"] = func(c *checkCtx) { checkAlloc(c) }
	verifChecks["C02"] = func(c *checkCtx) { checkAlloc(c) }
	verifChildRoles["allocworker"] = allocChildWorker
	verifChildRoles["allocrestart"] = allocRestartChild
}

// ---- monitor tables (plain slices over a byte region, so they can live in a MAP_SHARED mapping)

type allocTables struct {
	owner      []int32  // per slot (all lists concatenated): 0 free, else holder id
	lastPopSeq []uint64 // per slot: pop sequence number of the last successful pop
	popSeq     []uint64 // per list
	suspects   *uint64
	stop       *uint32
	opsDone    *uint64
}

func allocTablesSize(slots, lists int) int { return slots*4 + 4 + slots*8 + lists*8 + 8 + 8 + 8 }

func newAllocTables(mem []byte, slots, lists int) *allocTables {
	off := 0
	// align to 8
	take := func(n int) unsafe.Pointer {
		for off%8 != 0 {
			off++
		}
		p := unsafe.Pointer(&mem[off])
		off += n
		return p
	}
	t := &allocTables{}
	t.lastPopSeq = unsafe.Slice((*uint64)(take(slots*8)), slots)
	t.popSeq = unsafe.Slice((*uint64)(take(lists*8)), lists)
	t.suspects = (*uint64)(take(8))
	t.opsDone = (*uint64)(take(8))
	t.owner = unsafe.Slice((*int32)(take(slots*4)), slots)
	t.stop = (*uint32)(take(4))
	return t
}

// ---- one execution

type allocCase struct {
	Idx      int      `json:"idx"`
	Regime   string   `json:"regime"` // R1 mixed | R2 one-popper | R3 phased
	Backend  string   `json:"backend"`
	Slots    []uint32 `json:"slots"` // per class
	Sizes    []uint32 `json:"sizes"`
	Workers  int      `json:"workers"`
	Ops      int      `json:"ops_per_worker"`
	MaxHold  int      `json:"max_hold"`
	Profile  string   `json:"profile"`
	Procs    int      `json:"processes"`
	Exact    bool     `json:"exact_fit_mapping"`
	SeedUsed int64    `json:"seed"`
}

type allocExec struct {
	cs           allocCase
	bm           *bufferManager
	mem          []byte
	tab          *allocTables
	slotBase     []int // first slot index of each list in the tables
	world        sync.RWMutex
	viol         []string
	violMu       sync.Mutex
	nViol        int32
	ops          [8]uint64 // by kind
	overlaps     uint64    // ops during which at least one foreign op started
	opClock      uint64
	walks        int
	failedAllocs uint64
}

const (
	opPop = iota
	opAllocOne
	opAllocMany
	opPush
	opRecycleChain
	opFailedAlloc
)

// exact: the mapping ends exactly where the last slot ends (a legal, if unusual, size); otherwise 64 bytes of slack follow
func allocLayoutSize(slots, sizes []uint32, exact bool) int {
	n := bufferManagerHeaderSize
	for i := range slots {
		n += int(countBufferListMemSize(slots[i], sizes[i]))
	}
	if exact {
		return n
	}
	return n + 64
}

// buildAllocManager lays the lists out exactly as createBufferManager does, but with exact slot counts.
func buildAllocManager(mem []byte, slots, sizes []uint32) (*bufferManager, error) {
	*(*uint16)(unsafe.Pointer(&mem[0])) = uint16(len(slots))
	off := uint32(bufferManagerHeaderSize)
	bm := &bufferManager{mem: mem, path: "verif", refCount: 1}
	for i := range slots {
		l, err := createFreeBufferList(slots[i], sizes[i], mem, off)
		if err != nil {
			return nil, err
		}
		bm.lists = append(bm.lists, l)
		off += countBufferListMemSize(slots[i], sizes[i])
	}
	*(*uint32)(unsafe.Pointer(&mem[bmCapOffset])) = off - bufferManagerHeaderSize
	bm.minSliceSize = sizes[0]
	bm.maxSliceSize = sizes[len(sizes)-1]
	return bm, nil
}

func (e *allocExec) slotIndex(s *bufferSlice) (list int, slot int, err string) {
	for li, l := range e.bm.lists {
		start := l.bufferRegionOffsetInShm
		end := start + uint32(len(l.bufferRegion))
		if s.offsetInShm >= start && s.offsetInShm < end {
			stride := *l.capPerBuffer + bufferHeaderSize
			rel := s.offsetInShm - start
			if rel%stride != 0 {
				return li, -1, fmt.Sprintf("offset %d not at a slot boundary of class %d (stride %d)", s.offsetInShm, li, stride)
			}
			idx := int(rel / stride)
			if idx >= int(*l.cap) {
				return li, -1, fmt.Sprintf("slot index %d beyond capacity %d", idx, *l.cap)
			}
			return li, e.slotBase[li] + idx, ""
		}
	}
	return -1, -1, fmt.Sprintf("offset %d outside every class region", s.offsetInShm)
}

func (e *allocExec) violate(format string, a ...interface{}) {
	atomic.AddInt32(&e.nViol, 1)
	atomic.StoreUint32(e.tab.stop, 1)
	e.violMu.Lock()
	if len(e.viol) < 8 {
		e.viol = append(e.viol, fmt.Sprintf(format, a...))
	}
	e.violMu.Unlock()
}

// geometry + ownership at receipt
func (e *allocExec) received(s *bufferSlice, holder int32, wantMin uint32) bool {
	li, slot, msg := e.slotIndex(s)
	if msg != "" {
		e.violate("C01 geometry: %s", msg)
		return false
	}
	l := e.bm.lists[li]
	if s.cap != *l.capPerBuffer || uint32(len(s.data)) != s.cap || uint32(cap(s.data)) < s.cap {
		e.violate("C01 geometry: slot %d cap=%d len(data)=%d advertised=%d", slot, s.cap, len(s.data), *l.capPerBuffer)
		return false
	}
	if s.cap < wantMin {
		e.violate("C01 geometry: asked for %d bytes, got a buffer of capacity %d", wantMin, s.cap)
		return false
	}
	want := unsafe.Pointer(&e.mem[s.offsetInShm+bufferHeaderSize])
	if unsafe.Pointer(&s.data[0]) != want || unsafe.Pointer(&s.bufferHeader[0]) != unsafe.Pointer(&e.mem[s.offsetInShm]) {
		e.violate("C01 geometry: slot %d data/header do not point into the slot", slot)
		return false
	}
	if !atomic.CompareAndSwapInt32(&e.tab.owner[slot], 0, holder) {
		e.violate("C01 double owner: slot %d (class %d, offset %d) handed to holder %d while held by %d",
			slot, li, s.offsetInShm, holder, atomic.LoadInt32(&e.tab.owner[slot]))
		return false
	}
	return true
}

type heldBuf struct {
	s     *bufferSlice
	slot  int
	stamp uint64
	size  uint32
	next  uint32 // expected next offset when linked, 0 when not
}

func (e *allocExec) stamp(h *heldBuf, holder int32, seq uint64) {
	h.stamp = uint64(holder)<<40 | seq
	s := h.s
	n := int(s.cap)
	for i := 0; i+8 <= n; i += 8 {
		*(*uint64)(unsafe.Pointer(&s.data[i])) = h.stamp + uint64(i)
	}
	for i := n &^ 7; i < n; i++ {
		s.data[i] = byte(h.stamp) + byte(i)
	}
	s.writeIndex = int(s.start) + n
	if n > 1 {
		s.writeIndex = int(s.start) + 1 + int(seq%uint64(n))
	}
	h.size = uint32(s.size())
	s.update()
}

// verify that nobody but the holder altered header or payload
func (e *allocExec) verify(h *heldBuf, holder int32) bool {
	s := h.s
	n := int(s.cap)
	for i := 0; i+8 <= n; i += 8 {
		if *(*uint64)(unsafe.Pointer(&s.data[i])) != h.stamp+uint64(i) {
			e.violate("C01 foreign write: payload of slot %d held by %d changed at byte %d", h.slot, holder, i)
			return false
		}
	}
	for i := n &^ 7; i < n; i++ {
		if s.data[i] != byte(h.stamp)+byte(i) {
			e.violate("C01 foreign write: payload of slot %d held by %d changed at byte %d", h.slot, holder, i)
			return false
		}
	}
	hd := s.bufferHeader
	capv := *(*uint32)(unsafe.Pointer(&hd[bufferCapOffset]))
	sizev := *(*uint32)(unsafe.Pointer(&hd[bufferSizeOffset]))
	if capv != s.cap || sizev != h.size || !hd.isInUsed() {
		e.violate("C01 foreign write: header of slot %d held by %d changed (cap %d/%d size %d/%d flag %#x)",
			h.slot, holder, capv, s.cap, sizev, h.size, hd[bufferFlagOffset])
		return false
	}
	if h.next != 0 && (!hd.hasNext() || hd.nextBufferOffset() != h.next) {
		e.violate("C01 foreign write: link of slot %d held by %d changed (next %d want %d, hasNext %v)",
			h.slot, holder, hd.nextBufferOffset(), h.next, hd.hasNext())
		return false
	}
	return true
}

func (e *allocExec) release(h *heldBuf, holder int32) bool {
	if !atomic.CompareAndSwapInt32(&e.tab.owner[h.slot], holder, 0) {
		e.violate("C01 double owner: slot %d owner changed from %d to %d while held", h.slot, holder,
			atomic.LoadInt32(&e.tab.owner[h.slot]))
		return false
	}
	return true
}

// walk checks the C02 invariants; must be called with the world stopped (no operation in progress).
func (e *allocExec) walk(final bool) {
	e.walks++
	base := 0
	for li, l := range e.bm.lists {
		capN := int(*l.cap)
		held := 0
		for i := 0; i < capN; i++ {
			if atomic.LoadInt32(&e.tab.owner[base+i]) != 0 {
				held++
			}
		}
		size := int(atomic.LoadInt32(l.size))
		if size != capN-held {
			e.violate("C02 count: class %d free count %d != capacity %d - held %d (final=%v)", li, size, capN, held, final)
		}
		if final && held != 0 {
			e.violate("C02 harness: %d slots still owned at the end", held)
		}
		stride := *l.capPerBuffer + bufferHeaderSize
		seen := make([]bool, capN)
		cur := atomic.LoadUint32(l.head)
		n := 0
		var last uint32
		for {
			if cur%stride != 0 || int(cur/stride) >= capN {
				e.violate("C02 chain: class %d free chain reaches offset %d which is no slot", li, cur)
				break
			}
			idx := int(cur / stride)
			if seen[idx] {
				e.violate("C02 chain: class %d free chain visits slot %d twice (cycle) after %d nodes", li, idx, n)
				break
			}
			seen[idx] = true
			if o := atomic.LoadInt32(&e.tab.owner[base+idx]); o != 0 {
				e.violate("C02 chain: class %d free chain contains slot %d which is held by %d", li, idx, o)
			}
			n++
			last = cur
			bh := bufferHeader(l.bufferRegion[cur : cur+bufferHeaderSize])
			if !bh.hasNext() {
				break
			}
			cur = bh.nextBufferOffset()
			if n > capN {
				e.violate("C02 chain: class %d free chain longer than capacity", li)
				break
			}
		}
		if n != capN-held {
			e.violate("C02 chain: class %d walk from head visits %d slots, expected %d (capacity %d, held %d, size %d)",
				li, n, capN-held, capN, held, size)
		}
		if last != atomic.LoadUint32(l.tail) {
			e.violate("C02 chain: class %d walk ends at offset %d but tail is %d", li, last, atomic.LoadUint32(l.tail))
		}
		if c := atomic.LoadInt32(l.counter); final && c != 0 && e.cs.Procs <= 1 {
			// counter is informational in the library (create/mapping disagree on its offset); not judged
			_ = c
		}
		base += capN
	}
}

func (e *allocExec) tick() uint64 { return atomic.AddUint64(&e.opClock, 1) }

// worker for regime R1 (and the per-process body of the multi-process variant)
func (e *allocExec) mixedWorker(holder int32, rng *rand.Rand, ops int, maxHold int) {
	defer func() {
		if r := recover(); r != nil {
			e.violate("panic in allocator operation: %v", r)
		}
	}()
	var held []*heldBuf
	seq := uint64(0)
	giveBackOne := func(i int) {
		h := held[i]
		held = append(held[:i], held[i+1:]...)
		if !e.verify(h, holder) || !e.release(h, holder) {
			return
		}
		e.bm.recycleBuffer(h.s)
	}
	for op := 0; op < ops && atomic.LoadUint32(e.tab.stop) == 0; op++ {
		func() {
			e.world.RLock()
			defer e.world.RUnlock()
			defer func() {
				if r := recover(); r != nil {
					e.violate("panic in allocator operation: %v", r)
				}
			}()
			t0 := e.tick()
			kind := opPop
			if len(held) < maxHold && (len(held) == 0 || rng.Intn(100) < 55) {
				// allocate
				switch r := rng.Intn(10); {
				case r < 5:
					li := rng.Intn(len(e.bm.lists))
					s, err := e.bm.lists[li].pop()
					if err == nil {
						if e.received(s, holder, 0) {
							seq++
							_, slot, _ := e.slotIndex(s)
							h := &heldBuf{s: s, slot: slot}
							e.stamp(h, holder, seq)
							held = append(held, h)
						}
					} else {
						kind = opFailedAlloc
					}
				case r < 8:
					kind = opAllocOne
					want := uint32(1 + rng.Intn(int(e.bm.maxSliceSize)))
					s, err := e.bm.allocShmBuffer(want)
					if err == nil {
						if e.received(s, holder, want) {
							seq++
							_, slot, _ := e.slotIndex(s)
							h := &heldBuf{s: s, slot: slot}
							e.stamp(h, holder, seq)
							held = append(held, h)
						}
					} else {
						kind = opFailedAlloc
					}
				default:
					kind = opAllocMany
					want := uint32(1 + rng.Intn(int(e.bm.maxSliceSize)*3))
					sl := newSliceList()
					got := e.bm.allocShmBuffers(sl, want)
					sum := int64(0)
					for s := sl.front(); s != nil; s = s.next() {
						sum += int64(s.cap)
					}
					if sum != got {
						e.violate("C02 allocShmBuffers reported %d bytes but returned slices of %d bytes", got, sum)
					}
					if got == 0 {
						kind = opFailedAlloc
					}
					for sl.size() > 0 {
						s := sl.popFront()
						s.nextSlice = nil
						if e.received(s, holder, 0) {
							seq++
							_, slot, _ := e.slotIndex(s)
							h := &heldBuf{s: s, slot: slot}
							e.stamp(h, holder, seq)
							held = append(held, h)
						}
					}
				}
			} else if len(held) >= 2 && rng.Intn(100) < 35 {
				// link k held buffers into a chain (headers carry hasNext while held) and recycle the chain
				kind = opRecycleChain
				k := 2 + rng.Intn(len(held)-1)
				chain := held[len(held)-k:]
				held = held[:len(held)-k]
				for i := 0; i+1 < len(chain); i++ {
					chain[i].s.nextSlice = chain[i+1].s
					chain[i].s.update()
					chain[i].next = chain[i+1].s.offsetInShm
				}
				ok := true
				for _, h := range chain {
					if !e.verify(h, holder) {
						ok = false
					}
				}
				for _, h := range chain {
					if !e.release(h, holder) {
						ok = false
					}
				}
				if ok {
					for _, h := range chain {
						h.s.nextSlice = nil
					}
					e.bm.recycleBuffers(chain[0].s)
				}
			} else if len(held) > 0 {
				kind = opPush
				giveBackOne(rng.Intn(len(held)))
			}
			t1 := e.tick()
			if t1-t0 > 1 {
				atomic.AddUint64(&e.overlaps, 1)
			}
			atomic.AddUint64(&e.ops[kind], 1)
		}()
		if op&63 == 0 {
			runtime.Gosched()
		}
	}
	// give everything back
	for len(held) > 0 {
		func() {
			e.world.RLock()
			defer e.world.RUnlock()
			defer func() {
				if r := recover(); r != nil {
					e.violate("panic in allocator operation: %v", r)
					held = held[:0]
				}
			}()
			giveBackOne(len(held) - 1)
		}()
	}
	atomic.AddUint64(e.tab.opsDone, uint64(ops))
}

func (e *allocExec) runR1(rng *rand.Rand) {
	var wg sync.WaitGroup
	done := make(chan struct{})
	for w := 0; w < e.cs.Workers; w++ {
		wg.Add(1)
		wr := rand.New(rand.NewSource(rng.Int63()))
		go func(id int32) {
			defer wg.Done()
			e.mixedWorker(id, wr, e.cs.Ops, e.cs.MaxHold)
		}(int32(w + 1))
	}
	// stop-the-world walker
	var wwg sync.WaitGroup
	wwg.Add(1)
	go func() {
		defer wwg.Done()
		for {
			select {
			case <-done:
				return
			case <-time.After(time.Duration(200+rng.Intn(800)) * time.Microsecond):
			}
			e.world.Lock()
			if atomic.LoadUint32(e.tab.stop) == 0 {
				e.walk(false)
			}
			e.world.Unlock()
		}
	}()
	wg.Wait()
	close(done)
	wwg.Wait()
}

// R2: one popper per list, buffers handed to N pushers through a channel (the library's own data-flow shape)
func (e *allocExec) runR2(rng *rand.Rand) {
	var wg sync.WaitGroup
	for li := range e.bm.lists {
		l := e.bm.lists[li]
		ch := make(chan *heldBuf, int(*l.cap))
		pushers := e.cs.Workers
		if pushers < 1 {
			pushers = 1
		}
		wg.Add(1)
		go func(li int) { // popper
			defer wg.Done()
			defer close(ch)
			defer func() {
				if r := recover(); r != nil {
					e.violate("panic in allocator operation: %v", r)
				}
			}()
			holder := int32(1000 + li)
			seq := uint64(0)
			for op := 0; op < e.cs.Ops*pushers && atomic.LoadUint32(e.tab.stop) == 0; op++ {
				var out *heldBuf
				func() {
					e.world.RLock()
					defer e.world.RUnlock()
					defer func() {
						if r := recover(); r != nil {
							e.violate("panic in allocator operation: %v", r)
						}
					}()
					t0 := e.tick()
					s, err := l.pop()
					if err != nil {
						atomic.AddUint64(&e.ops[opFailedAlloc], 1)
						return
					}
					if !e.received(s, holder, 0) {
						return
					}
					seq++
					_, slot, _ := e.slotIndex(s)
					h := &heldBuf{s: s, slot: slot}
					e.stamp(h, holder, seq)
					if !e.verify(h, holder) {
						return
					}
					// hand over: ownership moves to the pusher side (holder id 2000+li)
					atomic.StoreInt32(&e.tab.owner[slot], int32(2000+li))
					atomic.AddUint64(&e.ops[opPop], 1)
					if e.tick()-t0 > 1 {
						atomic.AddUint64(&e.overlaps, 1)
					}
					out = h
				}()
				if out != nil {
					ch <- out
				} else {
					runtime.Gosched()
				}
			}
		}(li)
		for p := 0; p < pushers; p++ {
			wg.Add(1)
			go func(li int) {
				defer wg.Done()
				holder := int32(2000 + li)
				for h := range ch {
					func() {
						e.world.RLock()
						defer e.world.RUnlock()
						defer func() {
							if r := recover(); r != nil {
								e.violate("panic in allocator operation: %v", r)
							}
						}()
						t0 := e.tick()
						if e.verify(h, holder) && e.release(h, holder) {
							e.bm.recycleBuffer(h.s)
						}
						atomic.AddUint64(&e.ops[opPush], 1)
						if e.tick()-t0 > 1 {
							atomic.AddUint64(&e.overlaps, 1)
						}
					}()
				}
			}(li)
		}
	}
	done := make(chan struct{})
	var wwg sync.WaitGroup
	wwg.Add(1)
	go func() {
		defer wwg.Done()
		for {
			select {
			case <-done:
				return
			case <-time.After(time.Duration(300+rng.Intn(700)) * time.Microsecond):
			}
			e.world.Lock()
			if atomic.LoadUint32(e.tab.stop) == 0 {
				e.walk(false)
			}
			e.world.Unlock()
		}
	}()
	wg.Wait()
	close(done)
	wwg.Wait()
}

// R3: phases of concurrent pops only, then concurrent pushes only
func (e *allocExec) runR3(rng *rand.Rand) {
	rounds := e.cs.Ops / 8
	if rounds < 2 {
		rounds = 2
	}
	W := e.cs.Workers
	held := make([][]*heldBuf, W)
	seeds := make([]int64, W)
	for i := range seeds {
		seeds[i] = rng.Int63()
	}
	for r := 0; r < rounds && atomic.LoadUint32(e.tab.stop) == 0; r++ {
		var wg sync.WaitGroup
		for w := 0; w < W; w++ {
			wg.Add(1)
			go func(w int) {
				defer wg.Done()
				defer func() {
					if rr := recover(); rr != nil {
						e.violate("panic in allocator operation: %v", rr)
					}
				}()
				wr := rand.New(rand.NewSource(seeds[w] + int64(r)))
				holder := int32(w + 1)
				for k := 0; k < e.cs.MaxHold; k++ {
					t0 := e.tick()
					var s *bufferSlice
					var err error
					if wr.Intn(2) == 0 {
						s, err = e.bm.lists[wr.Intn(len(e.bm.lists))].pop()
					} else {
						s, err = e.bm.allocShmBuffer(uint32(1 + wr.Intn(int(e.bm.maxSliceSize))))
					}
					if err != nil {
						atomic.AddUint64(&e.ops[opFailedAlloc], 1)
						continue
					}
					if e.received(s, holder, 0) {
						_, slot, _ := e.slotIndex(s)
						h := &heldBuf{s: s, slot: slot}
						e.stamp(h, holder, uint64(r*1000+k+1))
						held[w] = append(held[w], h)
					}
					atomic.AddUint64(&e.ops[opPop], 1)
					if e.tick()-t0 > 1 {
						atomic.AddUint64(&e.overlaps, 1)
					}
				}
			}(w)
		}
		wg.Wait()
		e.walk(false) // between the phases nothing runs: a stop-the-world point
		for w := 0; w < W; w++ {
			wg.Add(1)
			go func(w int) {
				defer wg.Done()
				defer func() {
					if rr := recover(); rr != nil {
						e.violate("panic in allocator operation: %v", rr)
					}
				}()
				holder := int32(w + 1)
				for _, h := range held[w] {
					t0 := e.tick()
					if e.verify(h, holder) && e.release(h, holder) {
						e.bm.recycleBuffer(h.s)
					}
					atomic.AddUint64(&e.ops[opPush], 1)
					if e.tick()-t0 > 1 {
						atomic.AddUint64(&e.overlaps, 1)
					}
				}
				held[w] = held[w][:0]
			}(w)
		}
		wg.Wait()
		e.walk(true)
	}
}

// R4: concurrent pops and pushes by everybody, but a slot popped in a phase is not pushed back before the next
// phase (barrier in between). No slot can leave *and re-enter* the list under a stalled popper, so the ABA of known
// finding F1 is impossible here while pop/push races (near-empty list, tail hand-over) are fully exercised:
// every violation in this regime is unattributable to F1.
func (e *allocExec) runR4(rng *rand.Rand) {
	W := e.cs.Workers
	phases := e.cs.Ops / 12
	if phases < 3 {
		phases = 3
	}
	toPush := make([][]*heldBuf, W)
	popped := make([][]*heldBuf, W)
	seeds := make([]int64, W)
	for i := range seeds {
		seeds[i] = rng.Int63()
	}
	pushSome := func(w int, holder int32, wr *rand.Rand, all bool) {
		for len(toPush[w]) > 0 {
			t0 := e.tick()
			k := 1
			if len(toPush[w]) >= 2 && wr.Intn(3) == 0 {
				k = 2 + wr.Intn(len(toPush[w])-1)
			}
			chain := toPush[w][len(toPush[w])-k:]
			toPush[w] = toPush[w][:len(toPush[w])-k]
			for i := 0; i+1 < len(chain); i++ {
				chain[i].s.nextSlice = chain[i+1].s
				chain[i].s.update()
				chain[i].next = chain[i+1].s.offsetInShm
			}
			ok := true
			for _, h := range chain {
				if !e.verify(h, holder) || !e.release(h, holder) {
					ok = false
				}
			}
			if ok {
				for _, h := range chain {
					h.s.nextSlice = nil
				}
				if k == 1 {
					e.bm.recycleBuffer(chain[0].s)
					atomic.AddUint64(&e.ops[opPush], 1)
				} else {
					e.bm.recycleBuffers(chain[0].s)
					atomic.AddUint64(&e.ops[opRecycleChain], 1)
				}
			}
			if e.tick()-t0 > 1 {
				atomic.AddUint64(&e.overlaps, 1)
			}
			if !all {
				return
			}
		}
	}
	for ph := 0; ph < phases && atomic.LoadUint32(e.tab.stop) == 0; ph++ {
		var wg sync.WaitGroup
		for w := 0; w < W; w++ {
			wg.Add(1)
			go func(w int) {
				defer wg.Done()
				defer func() {
					if rr := recover(); rr != nil {
						e.violate("panic in allocator operation: %v", rr)
					}
				}()
				wr := rand.New(rand.NewSource(seeds[w] + int64(ph)*7919))
				holder := int32(w + 1)
				steps := e.cs.MaxHold*2 + 2
				for st := 0; st < steps && atomic.LoadUint32(e.tab.stop) == 0; st++ {
					if len(toPush[w]) > 0 && wr.Intn(2) == 0 {
						pushSome(w, holder, wr, false)
						continue
					}
					if len(popped[w])+len(toPush[w]) >= e.cs.MaxHold*2 {
						continue
					}
					t0 := e.tick()
					var s *bufferSlice
					var err error
					if wr.Intn(2) == 0 {
						s, err = e.bm.lists[wr.Intn(len(e.bm.lists))].pop()
					} else {
						s, err = e.bm.allocShmBuffer(uint32(1 + wr.Intn(int(e.bm.maxSliceSize))))
					}
					if err != nil {
						atomic.AddUint64(&e.ops[opFailedAlloc], 1)
						continue
					}
					if e.received(s, holder, 0) {
						_, slot, _ := e.slotIndex(s)
						h := &heldBuf{s: s, slot: slot}
						e.stamp(h, holder, uint64(ph*1000+st+1))
						popped[w] = append(popped[w], h)
					}
					atomic.AddUint64(&e.ops[opPop], 1)
					if e.tick()-t0 > 1 {
						atomic.AddUint64(&e.overlaps, 1)
					}
				}
			}(w)
		}
		wg.Wait()
		e.walk(false) // barrier: nothing runs, a stop-the-world point
		for w := 0; w < W; w++ {
			toPush[w] = append(toPush[w], popped[w]...)
			popped[w] = popped[w][:0]
		}
	}
	// final phase: only pushes
	var wg sync.WaitGroup
	for w := 0; w < W; w++ {
		wg.Add(1)
		go func(w int) {
			defer wg.Done()
			defer func() {
				if rr := recover(); rr != nil {
					e.violate("panic in allocator operation: %v", rr)
				}
			}()
			pushSome(w, int32(w+1), rand.New(rand.NewSource(seeds[w])), true)
		}(w)
	}
	wg.Wait()
}

// ---- ABA suspect detector (installed as the repository's pop hooks)

var curAllocExec atomic.Value // *allocExec

func allocPopBegin(b *bufferList) uint64 {
	e, _ := curAllocExec.Load().(*allocExec)
	if e == nil {
		return 0
	}
	for li, l := range e.bm.lists {
		if l == b {
			return atomic.LoadUint64(&e.tab.popSeq[li])
		}
	}
	return 0
}

func allocPopWon(b *bufferList, slotOffset uint32, begin uint64) {
	e, _ := curAllocExec.Load().(*allocExec)
	if e == nil {
		return
	}
	for li, l := range e.bm.lists {
		if l == b {
			stride := *l.capPerBuffer + bufferHeaderSize
			idx := int(slotOffset / stride)
			if idx >= int(*l.cap) {
				return
			}
			seq := atomic.AddUint64(&e.tab.popSeq[li], 1)
			last := atomic.SwapUint64(&e.tab.lastPopSeq[e.slotBase[li]+idx], seq)
			if last > begin {
				// the slot this popper won was popped by somebody else after this popper loaded the head: ABA suspect
				atomic.AddUint64(e.tab.suspects, 1)
			}
			return
		}
	}
}

func installAllocDetector() {
	verifPopHook.Store(&verifPopHooks{begin: allocPopBegin, won: allocPopWon})
}

// ---- profiles

type allocProfile struct {
	name  string
	build func(k *ctl)
}

var allocProfiles = []allocProfile{
	{"natural", nil},
	{"light-gosched", func(k *ctl) {
		k.setAll(popPoints, 20, 0, 0)
		k.setAll(pushPoints, 20, 0, 0)
	}},
	{"pop-hasnext-sleep", func(k *ctl) { k.set(vpPopHasNext, 30, 20*time.Microsecond, 70) }},
	{"pop-reserved-sleep", func(k *ctl) { k.set(vpPopReserved, 30, 20*time.Microsecond, 70) }},
	{"pop-cleared-sleep", func(k *ctl) {
		k.set(vpPopCleared, 50, 10*time.Microsecond, 70)
		k.set(vpPopInUsed, 50, 10*time.Microsecond, 70)
	}},
	{"push-cased-sleep", func(k *ctl) { k.set(vpPushCASed, 50, 30*time.Microsecond, 80) }},
	{"push-linkmid-sleep", func(k *ctl) { k.set(vpLinkNextMid, 50, 30*time.Microsecond, 80) }},
	{"push-linked-sleep", func(k *ctl) { k.set(vpPushLinked, 50, 30*time.Microsecond, 80) }},
	{"push-loadedtail-sleep", func(k *ctl) {
		k.set(vpPushLoadedTail, 50, 10*time.Microsecond, 60)
		k.set(vpPushReset, 30, 10*time.Microsecond, 60)
	}},
	{"all-spin", func(k *ctl) {
		k.setAll(popPoints, 100, 0, 0)
		k.setAll(pushPoints, 100, 0, 0)
	}},
}

func genAllocCase(c *checkCtx, idx int, regime string, long bool) allocCase {
	rng := caseRand(c.seed, idx)
	cs := allocCase{Idx: idx, Regime: regime, Backend: "heap", Procs: 1, Exact: idx%2 == 1}
	nclass := 1 + rng.Intn(2)
	sizeChoices := []uint32{8, 16, 24, 64, 100, 256}
	s0 := sizeChoices[rng.Intn(3)]
	cs.Sizes = []uint32{s0}
	if nclass == 2 {
		cs.Sizes = append(cs.Sizes, s0*uint32(2+rng.Intn(4)))
	}
	slotChoices := []uint32{2, 3, 4, 5, 8, 13, 16, 32, 64}
	for range cs.Sizes {
		cs.Slots = append(cs.Slots, slotChoices[rng.Intn(len(slotChoices))])
	}
	cs.Workers = []int{2, 3, 4, 6, 8, 12, 16}[rng.Intn(7)]
	cs.MaxHold = 1 + rng.Intn(4)
	cs.Ops = []int{100, 200, 400, 700, 1000}[rng.Intn(5)]
	if long {
		cs.Ops = 20000 + rng.Intn(30000)
	}
	if rng.Intn(4) == 0 {
		cs.Backend = "mmap"
	}
	cs.Profile = allocProfiles[rng.Intn(len(allocProfiles))].name
	cs.SeedUsed = rng.Int63()
	return cs
}

func profileByName(name string) allocProfile {
	for _, p := range allocProfiles {
		if p.name == name {
			return p
		}
	}
	return allocProfiles[0]
}

type allocResult struct {
	viol      []string
	suspects  uint64
	sig       string
	cross     uint64
	overlaps  uint64
	ops       [8]uint64
	walks     int
	procsDied []string
}

func mapShared(size int) ([]byte, int, error) {
	fd, err := MemfdCreate("verif-alloc", 0)
	if err != nil {
		return nil, -1, err
	}
	if err := syscall.Ftruncate(fd, int64(size)); err != nil {
		syscall.Close(fd)
		return nil, -1, err
	}
	mem, err := syscall.Mmap(fd, 0, size, syscall.PROT_READ|syscall.PROT_WRITE, syscall.MAP_SHARED)
	if err != nil {
		syscall.Close(fd)
		return nil, -1, err
	}
	return mem, fd, nil
}

func runAllocCase(c *checkCtx, cs allocCase) allocResult {
	size := allocLayoutSize(cs.Slots, cs.Sizes, cs.Exact)
	var mem []byte
	var fd = -1
	if cs.Backend == "heap" {
		mem = make([]byte, size)
	} else {
		var err error
		mem, fd, err = mapShared(size)
		if err != nil {
			panic(err)
		}
		defer func() { syscall.Munmap(mem); syscall.Close(fd) }()
	}
	bm, err := buildAllocManager(mem, cs.Slots, cs.Sizes)
	if err != nil {
		panic(fmt.Sprintf("harness: cannot build manager for %+v: %v", cs, err))
	}
	total := 0
	e := &allocExec{cs: cs, bm: bm, mem: mem}
	for _, n := range cs.Slots {
		e.slotBase = append(e.slotBase, total)
		total += int(n)
	}
	var tabMem []byte
	var tabFd = -1
	if cs.Procs > 1 {
		tabMem, tabFd, err = mapShared(allocTablesSize(total, len(cs.Slots)) + 64)
		if err != nil {
			panic(err)
		}
		defer func() { syscall.Munmap(tabMem); syscall.Close(tabFd) }()
	} else {
		tabMem = make([]byte, allocTablesSize(total, len(cs.Slots))+64)
	}
	e.tab = newAllocTables(tabMem, total, len(cs.Slots))
	curAllocExec.Store(e)
	defer curAllocExec.Store((*allocExec)(nil))
	var k *ctl
	prof := profileByName(cs.Profile)
	if prof.build != nil {
		k = newCtl(prof.name, cs.SeedUsed)
		prof.build(k)
		k.install()
		defer uninstallCtl()
	}
	rng := rand.New(rand.NewSource(cs.SeedUsed))
	var res allocResult
	finished := make(chan struct{})
	go func() {
		defer close(finished)
		if cs.Procs > 1 {
			res.procsDied = e.runMultiProc(c, fd, tabFd, rng)
			return
		}
		switch cs.Regime {
		case "R1":
			e.runR1(rng)
		case "R2":
			e.runR2(rng)
		case "R3":
			e.runR3(rng)
		case "R4":
			e.runR4(rng)
		}
	}()
	select {
	case <-finished:
	case <-time.After(180 * time.Second):
		// watchdog: goroutines cannot be killed, so the run ends here. An allocator operation that does not return
		// (a cycle in the free chain makes recycleBuffers / the CAS loops spin) is a C02 violation; anything else is
		// inconclusive.
		dump := goroutineDump()
		stuck := ""
		for _, fn := range []string{"(*bufferList).pop", "(*bufferList).push", "(*bufferManager).recycleBuffers", "(*bufferManager).allocShmBuffers"} {
			if strings.Contains(dump, fn) {
				stuck = fn
				break
			}
		}
		witness := map[string]interface{}{"case": cs, "goroutines": truncate(dump, 20000), "aba_suspects": atomic.LoadUint64(e.tab.suspects)}
		if stuck != "" && !(cs.Regime == "R1" && atomic.LoadUint64(e.tab.suspects) > 0) {
			c.violation(fmt.Sprintf("alloc-%d", cs.Idx), witness, "C02 chain: allocator operation %s did not return within 180 s", stuck)
		} else if stuck != "" {
			c.knownFindingHit("F1", fmt.Sprintf("alloc-%d", cs.Idx), witness, "allocator operation %s did not return (ABA suspects present)", stuck)
		} else {
			c.inconclusiveCase(fmt.Sprintf("alloc-%d", cs.Idx), "watchdog: execution did not finish within 180 s")
		}
		c.eval(1)
		c.abortRun()
	}
	// final stop-the-world check: everybody gave everything back
	if atomic.LoadInt32(&e.nViol) == 0 {
		e.walk(true)
		for li, l := range bm.lists {
			if uint32(atomic.LoadInt32(l.size)) != *l.cap {
				e.violate("C02 final: class %d free count %d != capacity %d after everything was recycled", li, *l.size, *l.cap)
			}
		}
	}
	res.viol = e.viol
	res.suspects = atomic.LoadUint64(e.tab.suspects)
	res.overlaps = e.overlaps
	res.ops = e.ops
	res.walks = e.walks
	if k != nil {
		res.sig = k.signature()
		res.cross, _ = k.crossTransitions(popPoints, pushPoints)
	}
	return res
}

// ---- multi-process variant: the same memory mapped by P child processes, ownership/ABA tables shared too

func (e *allocExec) runMultiProc(c *checkCtx, memFd, tabFd int, rng *rand.Rand) (died []string) {
	cs := e.cs
	var procs []*childProc
	for p := 0; p < cs.Procs; p++ {
		cp, err := c.spawnChildFiles("allocworker", []string{
			fmt.Sprint(len(e.mem)), fmt.Sprint(len(cs.Slots)), fmt.Sprint(cs.Workers), fmt.Sprint(cs.Ops),
			fmt.Sprint(cs.MaxHold), fmt.Sprint(rng.Int63()), fmt.Sprint(p), cs.Profile,
		}, []*os.File{os.NewFile(uintptr(dupFd(memFd)), "mem"), os.NewFile(uintptr(dupFd(tabFd)), "tab")})
		if err != nil {
			panic(err)
		}
		procs = append(procs, cp)
	}
	for _, cp := range procs {
		ex := cp.wait(120 * time.Second)
		if !ex.Exited || ex.Code != 0 {
			died = append(died, fmt.Sprintf("%s: exited=%v code=%d signal=%s timeout=%v stderr=%s", cp.name, ex.Exited, ex.Code,
				ex.Signal, ex.TimedOut, truncate(ex.Stderr, 1500)))
			if ex.TimedOut {
				e.violMu.Lock()
				e.viol = append(e.viol, "harness: allocator worker process timed out (watchdog)")
				e.violMu.Unlock()
			} else {
				e.violate("allocator worker process died: %s", truncate(ex.Stderr, 800))
			}
		} else {
			// the child reports its violations on stdout
			for {
				line, ok := cp.recv(2*time.Second, nil)
				if !ok {
					break
				}
				if len(line) > 5 && line[:5] == "VIOL " {
					e.violate("%s", line[5:])
				}
				if len(line) > 4 && line[:4] == "OPS " {
					var a, b, cc, d, f, g, ov uint64
					fmt.Sscanf(line[4:], "%d %d %d %d %d %d %d", &a, &b, &cc, &d, &f, &g, &ov)
					e.ops[0] += a
					e.ops[1] += b
					e.ops[2] += cc
					e.ops[3] += d
					e.ops[4] += f
					e.ops[5] += g
					e.overlaps += ov
				}
			}
		}
		cp.cleanupFiles()
	}
	return
}

func dupFd(fd int) int {
	n, err := syscall.Dup(fd)
	if err != nil {
		panic(err)
	}
	return n
}

// child: maps the buffer memory (as a peer would: mappingBufferManager) and the tables, runs R1 workers
func allocChildWorker(args []string) {
	var memSize, nLists, workers, ops, maxHold, procIdx int
	var seed int64
	fmt.Sscan(args[0], &memSize)
	fmt.Sscan(args[1], &nLists)
	fmt.Sscan(args[2], &workers)
	fmt.Sscan(args[3], &ops)
	fmt.Sscan(args[4], &maxHold)
	fmt.Sscan(args[5], &seed)
	fmt.Sscan(args[6], &procIdx)
	profile := args[7]
	mem, err := syscall.Mmap(3, 0, memSize, syscall.PROT_READ|syscall.PROT_WRITE, syscall.MAP_SHARED)
	if err != nil {
		fmt.Fprintln(os.Stderr, "mmap mem:", err)
		os.Exit(4)
	}
	bm, err := mappingBufferManager("verif", mem, 0)
	if err != nil {
		fmt.Fprintln(os.Stderr, "mapping:", err)
		os.Exit(4)
	}
	total := 0
	e := &allocExec{bm: bm, mem: mem}
	e.cs.Procs = 2
	for _, l := range bm.lists {
		e.slotBase = append(e.slotBase, total)
		total += int(*l.cap)
	}
	var st syscall.Stat_t
	syscall.Fstat(4, &st)
	tabMem, err := syscall.Mmap(4, 0, int(st.Size), syscall.PROT_READ|syscall.PROT_WRITE, syscall.MAP_SHARED)
	if err != nil {
		fmt.Fprintln(os.Stderr, "mmap tab:", err)
		os.Exit(4)
	}
	e.tab = newAllocTables(tabMem, total, nLists)
	curAllocExec.Store(e)
	installAllocDetector()
	if prof := profileByName(profile); prof.build != nil {
		k := newCtl(prof.name, seed)
		prof.build(k)
		k.install()
	}
	rng := rand.New(rand.NewSource(seed))
	var wg sync.WaitGroup
	for w := 0; w < workers; w++ {
		wg.Add(1)
		wr := rand.New(rand.NewSource(rng.Int63()))
		go func(id int32) {
			defer wg.Done()
			e.mixedWorker(id, wr, ops, maxHold)
		}(int32(procIdx*100 + w + 1))
	}
	wg.Wait()
	for _, v := range e.viol {
		fmt.Printf("VIOL %s\n", v)
	}
	fmt.Printf("OPS %d %d %d %d %d %d %d\n", e.ops[0], e.ops[1], e.ops[2], e.ops[3], e.ops[4], e.ops[5], e.overlaps)
}

// ---- the check

func checkAlloc(c *checkCtx) {
	c.alsoEvidence = []string{"C01", "C02"}
	for i, p := range c.alsoEvidence {
		if p == c.prop {
			c.alsoEvidence = append(c.alsoEvidence[:i], c.alsoEvidence[i+1:]...)
			break
		}
	}
	c.rule = "cases = (regime R1 mixed | R2 one popper, N pushers | R3 phased | R4 concurrent pop+push with re-entry only across barriers; slots 2..64 x 1-2 classes; 2..16 workers; heap, mmap or multi-process " +
		"backend; perturbation profile) drawn from PRNG(VERIF_SEED, case index); an execution is non-trivial when at least one operation " +
		"overlapped a foreign operation (operation-clock ticks inside its call window); distinct = distinct (regime, backend, slots, workers, " +
		"profile, hook-transition signature) tuples among those"
	c.assume("x86-TSO memory ordering of this machine; interleavings are sampled, not enumerated")
	c.assume("ownership table is updated by the operating thread after pop returns and before push is called, so a failed CAS is a real double ownership")
	installAllocDetector()
	defer verifPopHook.Store((*verifPopHooks)(nil))

	nR1 := c.pick(500, 20000)
	nR23 := c.pick(240, 6000)
	nMP := c.pick(6, 150)
	idx := 0
	var suspectsTotal, suspectExecs uint64
	judge := func(cs allocCase, res allocResult) {
		c.eval(1)
		for i, n := range res.ops {
			c.count([]string{"op.pop", "op.allocShmBuffer", "op.allocShmBuffers", "op.recycleBuffer", "op.recycleBuffers(chain)", "op.failed-alloc", "op.other", "op.other"}[i], int64(n))
		}
		c.count("stop-the-world walks", int64(res.walks))
		c.count("ops overlapping a foreign op", int64(res.overlaps))
		c.count("hook transitions pop<->push", int64(res.cross))
		c.count("executions."+cs.Regime+"."+cs.Backend, 1)
		if res.overlaps > 0 {
			c.nontrivial(fmt.Sprintf("%s/%s/%v/%d/%s/%s", cs.Regime, cs.Backend, cs.Slots, cs.Workers, cs.Profile, res.sig))
		}
		if res.suspects > 0 {
			suspectsTotal += res.suspects
			suspectExecs++
		}
		if len(res.viol) == 0 {
			return
		}
		witness := map[string]interface{}{"case": cs, "violations": res.viol, "aba_suspects": res.suspects, "died": res.procsDied}
		if cs.Regime == "R1" && res.suspects > 0 {
			c.knownFindingHit("F1", fmt.Sprintf("alloc-%d", cs.Idx), witness, "%s (ABA suspects in this execution: %d)", res.viol[0], res.suspects)
			return
		}
		c.violation(fmt.Sprintf("alloc-%d", cs.Idx), witness, "%s", res.viol[0])
	}
	for i := 0; i < nR1; i++ {
		cs := genAllocCase(c, idx, "R1", false)
		idx++
		judge(cs, runAllocCase(c, cs))
		if i < 3 {
			c.sample(cs)
		}
	}
	for i := 0; i < nR23; i++ {
		regime := []string{"R4", "R2", "R4", "R3"}[i%4]
		cs := genAllocCase(c, idx, regime, false)
		cs.Ops *= 5
		idx++
		judge(cs, runAllocCase(c, cs))
		if i < 2 {
			c.sample(cs)
		}
	}
	for i := 0; i < nMP; i++ {
		cs := genAllocCase(c, idx, "R1", false)
		cs.Backend = "memfd-multiprocess"
		cs.Procs = 2 + i%2
		if cs.Workers > 6 {
			cs.Workers = 6
		}
		idx++
		judge(cs, runAllocCase(c, cs))
		if i < 1 {
			c.sample(cs)
		}
	}
	// creator restart: the process that created the /dev/shm buffer file died without cleaning up and starts again with the
	// same path while this process (the peer) still maps the old file and holds buffers of it
	for i := 0; i < c.pick(3, 30); i++ {
		viol, inconcl := runAllocRestart(c, i)
		c.eval(1)
		name := fmt.Sprintf("creator-restart-%d", i)
		if inconcl != "" {
			c.inconclusiveCase(name, inconcl)
			continue
		}
		c.count("executions.creator-restart.devshm-multiprocess", 1)
		c.nontrivial(fmt.Sprintf("creator-restart/%d", i%3))
		if viol != "" {
			c.violation(name, map[string]interface{}{"index": i}, "%s", viol)
		}
	}
	// demonstration stage for known finding F1: long mixed executions on tiny lists, natural schedule,
	// stopped at the first reproduction; the cap is a number of executions, not a time budget.
	demoCap := c.pick(40, 200)
	reproduced := false
	for i := 0; i < demoCap && !reproduced; i++ {
		cs := genAllocCase(c, idx, "R1", true)
		idx++
		cs.Slots = cs.Slots[:1]
		cs.Sizes = cs.Sizes[:1]
		cs.Slots[0] = []uint32{4, 5, 8}[i%3]
		cs.Workers = 8 + (i%3)*4
		cs.Backend = "heap"
		cs.Profile = "natural"
		res := runAllocCase(c, cs)
		judge(cs, res)
		if len(res.viol) > 0 {
			reproduced = true
		}
		c.count("F1 demonstration executions", 1)
	}
	c.setExtra("aba_suspects_total", suspectsTotal)
	c.setExtra("executions_with_aba_suspect", suspectExecs)
	c.setExtra("F1_reproduced_in_demonstration_stage", reproduced)
}

// ---- generic ABA-suspect detector for session-level workloads (same rule as above, keyed per *bufferList).
// Session-level checks arm it and turn a data-integrity failure in an execution that recorded a suspect into
// "inconclusive" (known finding F1 can corrupt anything once the allocator hands a buffer out twice).

type abaListState struct {
	popSeq uint64
	last   []uint64
}

var (
	abaStates   sync.Map // *bufferList -> *abaListState
	abaSuspects uint64
)

func abaState(b *bufferList) *abaListState {
	if v, ok := abaStates.Load(b); ok {
		return v.(*abaListState)
	}
	v, _ := abaStates.LoadOrStore(b, &abaListState{last: make([]uint64, int(atomic.LoadUint32(b.cap))+1)})
	return v.(*abaListState)
}

func armGenericABADetector() {
	verifPopHook.Store(&verifPopHooks{
		begin: func(b *bufferList) uint64 { return atomic.LoadUint64(&abaState(b).popSeq) },
		won: func(b *bufferList, slotOffset uint32, begin uint64) {
			st := abaState(b)
			idx := int(slotOffset / (*b.capPerBuffer + bufferHeaderSize))
			if idx >= len(st.last) {
				return
			}
			seq := atomic.AddUint64(&st.popSeq, 1)
			if last := atomic.SwapUint64(&st.last[idx], seq); last > begin {
				atomic.AddUint64(&abaSuspects, 1)
			}
		},
	})
}

func abaSuspectCount() uint64 { return atomic.LoadUint64(&abaSuspects) }

// ---- creator restart (directed, two processes, /dev/shm file back-end)

// allocRestartChild plays the restarted creator: it does what Session.initMemManager does (create; on failure remove the file
// and report the error; the caller's next attempt creates a fresh file), then allocates every buffer and scribbles on it.
func allocRestartChild(args []string) {
	path := os.Getenv("ALLOC_RESTART_PATH")
	pairs := []*SizePercentPair{{Size: 256, Percent: 50}, {Size: 1024, Percent: 50}}
	attempts := 0
	var bm *bufferManager
	var err error
	firstErr := ""
	for attempts < 3 {
		attempts++
		bm, err = getGlobalBufferManager(path, 1<<20, true, pairs)
		if err == nil {
			break
		}
		if firstErr == "" {
			firstErr = err.Error()
		}
		os.Remove(path) // initMemManager's error path
	}
	if bm == nil {
		childReply(map[string]interface{}{"ok": false, "err": firstErr})
		return
	}
	n := 0
	for i := range bm.lists {
		for {
			b, e := bm.lists[i].pop()
			if e != nil {
				break
			}
			for j := range b.data {
				b.data[j] = 0xEE
			}
			b.writeIndex = len(b.data)
			b.update()
			n++
		}
	}
	var st syscall.Stat_t
	_ = syscall.Stat(path, &st)
	childReply(map[string]interface{}{"ok": true, "attempts": attempts, "first_err": firstErr, "allocated": n, "inode": st.Ino})
}

func runAllocRestart(c *checkCtx, idx int) (viol string, inconcl string) {
	rng := caseRand(c.seed, 95000+idx)
	path := fmt.Sprintf("%salloc_restart_%d_buffer", shmPrefix(), atomic.AddUint64(&pairSeq, 1))
	pairs := []*SizePercentPair{{Size: 256, Percent: 50}, {Size: 1024, Percent: 50}}
	defer os.Remove(path)
	// the first incarnation of the creator (played by this process) creates the file; this process then also plays the peer
	// that keeps the file mapped and holds buffers of it
	bm, err := getGlobalBufferManager(path, 1<<20, true, pairs)
	if err != nil {
		return "", "create: " + err.Error()
	}
	defer addGlobalBufferManagerRefCount(path, -1)
	var st0 syscall.Stat_t
	_ = syscall.Stat(path, &st0)
	type held struct {
		b      *bufferSlice
		key    uint64
		off    uint32
		capac  uint32
		length int
	}
	var hs []held
	nHold := 1 + rng.Intn(6)
	for i := 0; i < nHold; i++ {
		b, e := bm.lists[i%2].pop()
		if e != nil {
			break
		}
		// leave some buffers free in front and behind
		for k := rng.Intn(4); k > 0; k-- {
			if x, e := bm.lists[i%2].pop(); e == nil {
				bm.lists[i%2].push(x)
			}
		}
		h := held{b: b, key: uint64(0xA110C000 + idx*16 + i), off: b.offsetInShm, capac: b.cap}
		n := 1 + rng.Intn(len(b.data))
		fillKeyed(b.data[:n], h.key, 0)
		b.writeIndex = n
		b.update()
		h.length = n
		hs = append(hs, h)
	}
	if len(hs) == 0 {
		return "", "could not allocate"
	}
	cp, err := c.spawnChild("allocrestart", nil, "ALLOC_RESTART_PATH="+path)
	if err != nil {
		return "", err.Error()
	}
	defer cp.cleanupFiles()
	var rep struct {
		OK        bool   `json:"ok"`
		Err       string `json:"err"`
		Attempts  int    `json:"attempts"`
		FirstErr  string `json:"first_err"`
		Allocated int    `json:"allocated"`
		Inode     uint64 `json:"inode"`
	}
	_, ok := cp.recv(60*time.Second, &rep)
	cp.wait(10 * time.Second)
	if !ok {
		return "", "restart child gave no report"
	}
	c.count("creator-restart: buffers the restarted creator allocated and overwrote", int64(rep.Allocated))
	for _, h := range hs {
		if i := checkKeyed(h.b.data[:h.length], h.key, 0); i >= 0 {
			return fmt.Sprintf("a buffer (offset %d, capacity %d) held by this process was overwritten by another process: the creator of %s restarted with the same "+
				"path while the file was still mapped here (restart: ok=%v attempts=%d first error %q, same inode=%v) and was handed the very memory this holder "+
				"still owns; first altered payload byte %d", h.off, h.capac, path, rep.OK, rep.Attempts, rep.FirstErr, rep.Inode == st0.Ino, i), ""
		}
		if got := *(*uint32)(unsafe.Pointer(&h.b.bufferHeader[bufferCapOffset])); got != h.capac {
			return fmt.Sprintf("the header of a held buffer (offset %d) was rewritten by the restarted creator: capacity field %d, was %d", h.off, got, h.capac), ""
		}
	}
	for _, h := range hs {
		bm.recycleBuffer(h.b)
	}
	return "", ""
}
