package shmipc

import (
	"fmt"
	"os"
	"os/exec"
	"path/filepath"
	"sort"
	"strings"
	"syscall"
	"time"
)

// Race-detector pass: the same workload is run in the -race build of the package (a separate binary built
// by run.sh, path in VERIF_RACEBIN) with halt_on_error=0 and a log_path; reports are parsed and handed to the
// caller, who decides which (function, function) pairs are sentinels of its property. A race report is never
// a violation by itself (the tree has by-design plain accesses to slot headers).

type raceReport struct {
	Stack1, Stack2 []string // function names, innermost first
	Raw            string
}

func isRacePass() bool { return os.Getenv("VERIF_RACE_PASS") != "" }

// runRacePass runs this check's function again inside the race binary (VERIF_RACE_PASS=1) and returns the reports.
func (c *checkCtx) runRacePass(timeout time.Duration) (reports []raceReport, ran bool, exitInfo string) {
	bin := os.Getenv("VERIF_RACEBIN")
	if bin == "" {
		return nil, false, "no race binary"
	}
	if _, err := os.Stat(bin); err != nil {
		return nil, false, "race binary missing"
	}
	logDir := filepath.Join(c.work, "race", fmt.Sprintf("%s-%d", c.prop, os.Getpid()))
	_ = os.RemoveAll(logDir)
	_ = os.MkdirAll(logDir, 0o755)
	defer os.RemoveAll(logDir)
	cmd := exec.Command(bin, "-test.run", "^$", "-test.timeout", "0")
	cmd.Env = append(os.Environ(), "VERIF_RACE_PASS=1",
		"GORACE=halt_on_error=0 log_path="+filepath.Join(logDir, "race")+" history_size=3",
		"VERIF_EVIDENCE_DIR="+filepath.Join(logDir, "ev"), "VERIF_REPLAY_DIR="+filepath.Join(logDir, "rp"))
	out, _ := os.Create(filepath.Join(logDir, "stdout"))
	cmd.Stdout = out
	cmd.Stderr = out
	if err := cmd.Start(); err != nil {
		return nil, false, err.Error()
	}
	done := make(chan error, 1)
	go func() { done <- cmd.Wait() }()
	select {
	case err := <-done:
		if err != nil {
			exitInfo = err.Error()
		}
	case <-time.After(timeout):
		_ = cmd.Process.Signal(syscall.SIGQUIT)
		select {
		case <-done:
		case <-time.After(5 * time.Second):
			_ = cmd.Process.Kill()
			<-done
		}
		exitInfo = "race pass watchdog"
	}
	out.Close()
	if data, err := os.ReadFile(filepath.Join(logDir, "stdout")); err == nil {
		if strings.Contains(string(data), "fatal error: checkptr") || strings.Contains(string(data), "panic:") {
			exitInfo += " | " + truncate(string(data), 3000)
		}
		c.setExtra("race_pass_stdout_tail", truncate(tailString(string(data), 600), 700))
	}
	files, _ := filepath.Glob(filepath.Join(logDir, "race.*"))
	for _, f := range files {
		data, err := os.ReadFile(f)
		if err != nil {
			continue
		}
		reports = append(reports, parseRaceReports(string(data))...)
	}
	return reports, true, exitInfo
}

func tailString(s string, n int) string {
	if len(s) > n {
		return s[len(s)-n:]
	}
	return s
}

func parseRaceReports(log string) []raceReport {
	var out []raceReport
	for _, block := range strings.Split(log, "==================") {
		if !strings.Contains(block, "WARNING: DATA RACE") {
			continue
		}
		var stacks [][]string
		var cur []string
		in := false
		for _, line := range strings.Split(block, "\n") {
			switch {
			case strings.Contains(line, "by goroutine") || strings.Contains(line, "by main goroutine"):
				if in && cur != nil {
					stacks = append(stacks, cur)
				}
				cur = []string{}
				in = true
			case strings.HasPrefix(line, "Goroutine ") || strings.TrimSpace(line) == "":
				if in && cur != nil {
					stacks = append(stacks, cur)
				}
				cur = nil
				in = false
			case in && strings.HasPrefix(line, "  ") && !strings.HasPrefix(line, "      "):
				fn := strings.TrimSpace(line)
				if i := strings.LastIndex(fn, "("); i > 0 {
					fn = fn[:i]
				}
				fn = strings.TrimPrefix(fn, "github.com/cloudwego/shmipc-go.")
				cur = append(cur, fn)
			}
		}
		if in && cur != nil {
			stacks = append(stacks, cur)
		}
		r := raceReport{Raw: truncate(block, 4000)}
		if len(stacks) > 0 {
			r.Stack1 = stacks[0]
		}
		if len(stacks) > 1 {
			r.Stack2 = stacks[1]
		}
		out = append(out, r)
	}
	return out
}

func stackHas(stack []string, fns ...string) bool {
	for _, f := range stack {
		for _, want := range fns {
			if strings.Contains(f, want) {
				return true
			}
		}
	}
	return false
}

// racePairs de-duplicates reports by the pair of innermost package functions (line numbers are not part of the key).
func racePairs(reports []raceReport) map[string]int {
	m := map[string]int{}
	inner := func(st []string) string {
		for _, f := range st {
			if !strings.HasPrefix(f, "runtime.") && !strings.HasPrefix(f, "sync/atomic.") {
				return f
			}
		}
		if len(st) > 0 {
			return st[0]
		}
		return "?"
	}
	for _, r := range reports {
		a, b := inner(r.Stack1), inner(r.Stack2)
		if a > b {
			a, b = b, a
		}
		m[a+" | "+b]++
	}
	return m
}

func sortedKeys(m map[string]int) []string {
	var ks []string
	for k := range m {
		ks = append(ks, k)
	}
	sort.Strings(ks)
	return ks
}
