package shmipc

// C03: both processes derive the same memory layout from any configuration.
//
// Four streams of configurations, all judged by the same oracle:
//   pure          generated + boundary-table configurations on Go-heap memory (0 B .. 256 KiB) through the real
//                 createBufferManager / mappingBufferManager
//   verifyconfig  generated Config values through VerifyConfig; accepted ones go through the create path (1..4 MiB heap)
//   file / memfd  VerifyConfig-accepted configurations through getGlobalBufferManager / ...WithMemFd; the mapping side
//                 is a child process (own mapping, own bufferManager object)
//   queue         createQueueFromBytes/mappingQueueFromBytes on heap, createQueueManager(+WithMemFd)/mappingQueueManager(+Memfd)
//
// Oracle (nothing beyond the statement): create either returns an error or a manager whose classes are the configured
// sizes, pairwise disjoint, inside the memory, slots behind their headers; the mapping side reconstructs the same
// (cap, capPerBuffer, region offset, region length, head, tail, size) on the same shared words; a slot-unique pattern
// written through the creator's slices is read back intact through the mapper's readBufferSlice; the queue halves
// are disjoint and cross-wired. Any panic is a violation. Configurations outside the quantifier (empty pair list,
// a size larger than the memory) are not generated.

import (
	"bufio"
	"encoding/binary"
	"fmt"
	"math"
	"math/rand"
	"os"
	"runtime/debug"
	"sort"
	"strings"
	"sync"
	"sync/atomic"
	"syscall"
	"time"
	"unsafe"
)

func init() {
	verifChecks["C03"] = checkLayout
	verifChildRoles["layoutmapper"] = layoutMapperChild
}

const layoutGuard = 64

// self-test switch (never set in a normal run; a run with it can not end as "held"): drop the interval-arithmetic
// findings so that the seeded faults have to be caught by the behavioural probes alone.
var layoutSkipGeometry = os.Getenv("VERIF_LAYOUT_SELFTEST_SKIP_GEOMETRY") != ""

type layoutPair struct {
	Size    uint32 `json:"size"`
	Percent uint32 `json:"percent"`
}

type layoutCase struct {
	Idx    int          `json:"idx"`
	Stream string       `json:"stream"`
	Mem    int          `json:"mem_bytes"`
	Offset uint32       `json:"offset"`
	Pairs  []layoutPair `json:"pairs_input_order"`
	Mode   string       `json:"mode"`
	Seed   int64        `json:"seed"`
}

func (cs layoutCase) name() string { return fmt.Sprintf("%s-%d", cs.Stream, cs.Idx) }

// sorted pairs the way getGlobalBufferManager hands them to createBufferManager
func layoutSortedPairs(in []layoutPair) []*SizePercentPair {
	out := make([]*SizePercentPair, 0, len(in))
	for _, p := range in {
		out = append(out, &SizePercentPair{Size: p.Size, Percent: p.Percent})
	}
	sort.Sort(sizePercentPairs(out))
	return out
}

func layoutInputPairs(in []layoutPair) []*SizePercentPair {
	out := make([]*SizePercentPair, 0, len(in))
	for _, p := range in {
		out = append(out, &SizePercentPair{Size: p.Size, Percent: p.Percent})
	}
	return out
}

// ---------------------------------------------------------------------------------------------
// patterns and hashes (8 bytes at a time; byte i of the pattern of key k is a pure function of (k, i))

func layoutMix(x uint64) uint64 {
	x += 0x9E3779B97F4A7C15
	x = (x ^ (x >> 30)) * 0xBF58476D1CE4E5B9
	x = (x ^ (x >> 27)) * 0x94D049BB133111EB
	return x ^ (x >> 31)
}

func layoutFill(buf []byte, key uint64) {
	i := 0
	for ; i+8 <= len(buf); i += 8 {
		binary.LittleEndian.PutUint64(buf[i:], layoutMix(key+uint64(i>>3)))
	}
	if i < len(buf) {
		w := layoutMix(key + uint64(i>>3))
		for j := 0; i < len(buf); i, j = i+1, j+1 {
			buf[i] = byte(w >> (8 * uint(j)))
		}
	}
}

// layoutVerify returns the index of the first byte that differs from the pattern, or -1.
func layoutVerify(buf []byte, key uint64) int {
	i := 0
	for ; i+8 <= len(buf); i += 8 {
		if binary.LittleEndian.Uint64(buf[i:]) != layoutMix(key+uint64(i>>3)) {
			w := layoutMix(key + uint64(i>>3))
			for j := 0; j < 8; j++ {
				if buf[i+j] != byte(w>>(8*uint(j))) {
					return i + j
				}
			}
		}
	}
	if i < len(buf) {
		w := layoutMix(key + uint64(i>>3))
		for j := 0; i < len(buf); i, j = i+1, j+1 {
			if buf[i] != byte(w>>(8*uint(j))) {
				return i
			}
		}
	}
	return -1
}

func layoutHash(buf []byte) uint64 {
	h := uint64(0xcbf29ce484222325) ^ uint64(len(buf))*0x9E3779B97F4A7C15
	i := 0
	for ; i+8 <= len(buf); i += 8 {
		h = (h ^ binary.LittleEndian.Uint64(buf[i:])) * 0x100000001b3
		h ^= h >> 29
	}
	for ; i < len(buf); i++ {
		h = (h ^ uint64(buf[i])) * 0x100000001b3
	}
	return layoutMix(h)
}

func layoutSlotKey(caseKey uint64, class int, off uint32) uint64 {
	return layoutMix(caseKey ^ uint64(class+1)<<40 ^ uint64(off))
}

// ---------------------------------------------------------------------------------------------
// geometry of a buffer manager as one side sees it

type layoutClassGeo struct {
	HdrOff       uint32 `json:"list_header_offset"`
	Cap          uint32 `json:"cap"`
	CapPerBuffer uint32 `json:"cap_per_buffer"`
	RegionOff    uint32 `json:"region_offset"`
	RegionLen    uint32 `json:"region_len"`
	Head         uint32 `json:"head"`
	Tail         uint32 `json:"tail"`
	Size         int32  `json:"size"`
	// byte offsets (relative to the start of the memory) of the shared words this side uses
	PSize      int64 `json:"p_size"`
	PCap       int64 `json:"p_cap"`
	PHead      int64 `json:"p_head"`
	PTail      int64 `json:"p_tail"`
	PCapPerBuf int64 `json:"p_cap_per_buffer"`
	PCounter   int64 `json:"p_counter"`
	PRegion    int64 `json:"p_region"` // offset of &bufferRegion[0], -1 if the region is empty
}

type layoutGeo struct {
	MemLen  int              `json:"mem_len"`
	Min     uint32           `json:"min_slice_size"`
	Max     uint32           `json:"max_slice_size"`
	Classes []layoutClassGeo `json:"classes"`
}

func layoutGeoOf(bm *bufferManager) layoutGeo {
	g := layoutGeo{MemLen: len(bm.mem), Min: bm.minSliceSize, Max: bm.maxSliceSize}
	var base uintptr
	if len(bm.mem) > 0 {
		base = uintptr(unsafe.Pointer(&bm.mem[0]))
	}
	po := func(p unsafe.Pointer) int64 { return int64(uintptr(p)) - int64(base) }
	for _, l := range bm.lists {
		cg := layoutClassGeo{
			HdrOff: l.offsetInShm, Cap: *l.cap, CapPerBuffer: *l.capPerBuffer, RegionOff: l.bufferRegionOffsetInShm,
			RegionLen: uint32(len(l.bufferRegion)), Head: *l.head, Tail: *l.tail, Size: *l.size,
			PSize: po(unsafe.Pointer(l.size)), PCap: po(unsafe.Pointer(l.cap)), PHead: po(unsafe.Pointer(l.head)),
			PTail: po(unsafe.Pointer(l.tail)), PCapPerBuf: po(unsafe.Pointer(l.capPerBuffer)),
			PCounter: po(unsafe.Pointer(l.counter)), PRegion: -1,
		}
		if len(l.bufferRegion) > 0 {
			cg.PRegion = po(unsafe.Pointer(&l.bufferRegion[0]))
		}
		g.Classes = append(g.Classes, cg)
	}
	return g
}

func (g layoutGeo) key(offset uint32) string {
	h := layoutMix(uint64(g.MemLen)<<8 ^ uint64(offset))
	for _, cl := range g.Classes {
		h = layoutMix(h ^ uint64(cl.Cap)<<32 ^ uint64(cl.CapPerBuffer))
		h = layoutMix(h ^ uint64(cl.RegionOff)<<32 ^ uint64(cl.RegionLen))
	}
	return fmt.Sprintf("%016x", h)
}

type layoutIv struct {
	lo, hi int64
	what   string
}

// layoutCheckCreatorGeo: interval arithmetic over what the creating side holds. memLen/offset: the memory handed to
// create; sizes: the configured sizes (sorted ascending).
func layoutCheckCreatorGeo(g layoutGeo, memLen int, offset uint32, sizes []uint32) (problems []string, notAscending bool) {
	bad := func(format string, a ...interface{}) {
		if len(problems) < 6 {
			problems = append(problems, fmt.Sprintf(format, a...))
		}
	}
	if g.MemLen != memLen {
		bad("manager holds %d bytes of memory, %d were given", g.MemLen, memLen)
	}
	if len(g.Classes) != len(sizes) {
		bad("%d classes for %d configured pairs", len(g.Classes), len(sizes))
		return
	}
	// the classes are the configured sizes (as a multiset); ascending order is only counted
	got := make([]uint32, 0, len(sizes))
	for _, cl := range g.Classes {
		got = append(got, cl.CapPerBuffer)
	}
	asc := append([]uint32(nil), got...)
	sort.Slice(asc, func(i, j int) bool { return asc[i] < asc[j] })
	for i := range asc {
		if asc[i] != sizes[i] {
			bad("class sizes %v are not the configured sizes %v", got, sizes)
			break
		}
		if got[i] != asc[i] {
			notAscending = true
		}
	}
	ivs := []layoutIv{{int64(offset), int64(offset) + bufferManagerHeaderSize, "manager header"}}
	for i, cl := range g.Classes {
		stride := uint64(cl.CapPerBuffer) + bufferHeaderSize
		hdrLo, regLo := int64(cl.HdrOff), int64(cl.RegionOff)
		regHi := regLo + int64(cl.RegionLen)
		if hdrLo < int64(offset)+bufferManagerHeaderSize || regLo < hdrLo || regHi > int64(memLen) {
			bad("class %d: header at %d, region [%d,%d) not inside the memory [%d,%d) behind the manager header", i, hdrLo, regLo, regHi, offset, memLen)
		}
		// the five shared words of the list header lie between the header offset and the region ("slots behind their headers")
		for _, w := range []struct {
			p    int64
			name string
		}{{cl.PSize, "size"}, {cl.PCap, "cap"}, {cl.PHead, "head"}, {cl.PTail, "tail"}, {cl.PCapPerBuf, "capPerBuffer"}} {
			if w.p < hdrLo || w.p+4 > regLo {
				bad("class %d: header word %s at %d is not inside the list header [%d,%d)", i, w.name, w.p, hdrLo, regLo)
			}
		}
		if cl.PRegion != -1 && cl.PRegion != regLo {
			bad("class %d: bufferRegion starts at %d but bufferRegionOffsetInShm is %d", i, cl.PRegion, regLo)
		}
		if uint64(cl.Cap)*stride > uint64(cl.RegionLen) {
			bad("class %d: %d slots of %d+%d bytes do not fit the region of %d bytes", i, cl.Cap, bufferHeaderSize, cl.CapPerBuffer, cl.RegionLen)
		}
		if cl.Size != int32(cl.Cap) {
			bad("class %d: fresh list has size %d, cap %d", i, cl.Size, cl.Cap)
		}
		for _, ht := range []struct {
			v    uint32
			name string
		}{{cl.Head, "head"}, {cl.Tail, "tail"}} {
			if uint64(ht.v)%stride != 0 || uint64(ht.v)/stride >= uint64(cl.Cap) {
				bad("class %d: %s=%d is not the offset of one of the %d slots (stride %d)", i, ht.name, ht.v, cl.Cap, stride)
			}
		}
		ivs = append(ivs, layoutIv{hdrLo, regLo, fmt.Sprintf("class %d list header", i)},
			layoutIv{regLo, regHi, fmt.Sprintf("class %d region", i)})
	}
	for i := 0; i < len(ivs); i++ {
		for j := i + 1; j < len(ivs); j++ {
			a, b := ivs[i], ivs[j]
			if a.lo < a.hi && b.lo < b.hi && a.lo < b.hi && b.lo < a.hi {
				bad("%s [%d,%d) overlaps %s [%d,%d)", a.what, a.lo, a.hi, b.what, b.lo, b.hi)
			}
		}
	}
	return
}

// layoutCompareGeo: the mapping side must have reconstructed the same classes on the same shared words.
func layoutCompareGeo(a, b layoutGeo) (problems []string, counterDiffers bool) {
	bad := func(format string, x ...interface{}) {
		if len(problems) < 6 {
			problems = append(problems, fmt.Sprintf(format, x...))
		}
	}
	if len(a.Classes) != len(b.Classes) {
		bad("creator has %d classes, mapper %d", len(a.Classes), len(b.Classes))
		return
	}
	if a.Min != b.Min || a.Max != b.Max {
		bad("creator min/max slice size %d/%d, mapper %d/%d", a.Min, a.Max, b.Min, b.Max)
	}
	for i := range a.Classes {
		x, y := a.Classes[i], b.Classes[i]
		if x.Cap != y.Cap || x.CapPerBuffer != y.CapPerBuffer || x.RegionOff != y.RegionOff || x.RegionLen != y.RegionLen ||
			x.Head != y.Head || x.Tail != y.Tail || x.Size != y.Size || x.HdrOff != y.HdrOff {
			bad("class %d: creator (cap %d capPerBuffer %d region %d+%d head %d tail %d size %d hdr %d) != mapper (cap %d capPerBuffer %d region %d+%d head %d tail %d size %d hdr %d)",
				i, x.Cap, x.CapPerBuffer, x.RegionOff, x.RegionLen, x.Head, x.Tail, x.Size, x.HdrOff,
				y.Cap, y.CapPerBuffer, y.RegionOff, y.RegionLen, y.Head, y.Tail, y.Size, y.HdrOff)
		}
		if x.PSize != y.PSize || x.PCap != y.PCap || x.PHead != y.PHead || x.PTail != y.PTail || x.PCapPerBuf != y.PCapPerBuf || x.PRegion != y.PRegion {
			bad("class %d: the two sides use different shared words: creator size@%d cap@%d head@%d tail@%d capPerBuffer@%d region@%d, mapper size@%d cap@%d head@%d tail@%d capPerBuffer@%d region@%d",
				i, x.PSize, x.PCap, x.PHead, x.PTail, x.PCapPerBuf, x.PRegion, y.PSize, y.PCap, y.PHead, y.PTail, y.PCapPerBuf, y.PRegion)
		}
		if x.PCounter != y.PCounter {
			counterDiffers = true
		}
	}
	return
}

// layoutBitset: reusable "slot index seen" set (the module is single-threaded per process).
type layoutBitset struct{ w []uint64 }

func (b *layoutBitset) reset(n uint64) {
	need := int(n/64) + 1
	if cap(b.w) < need {
		b.w = make([]uint64, need+need/2)
	}
	b.w = b.w[:need]
	for i := range b.w {
		b.w[i] = 0
	}
}

// testAndSet reports whether i was already in the set.
func (b *layoutBitset) testAndSet(i uint64) bool {
	m := uint64(1) << (i & 63)
	old := b.w[i>>6]&m != 0
	b.w[i>>6] |= m
	return old
}

var layoutWalkSeen, layoutPopSeen layoutBitset

// layoutWalk follows the free list of one class: it must visit exactly want distinct slot offsets, every slot header
// must carry the class's capPerBuffer, and the last node must be tail.
func layoutWalk(l *bufferList, want int) string {
	cpb := *l.capPerBuffer
	stride := uint64(cpb) + bufferHeaderSize
	nSlots := uint64(*l.cap)
	layoutWalkSeen.reset(nSlots)
	visited := 0
	cur := *l.head
	for n := 0; ; n++ {
		if n > want {
			return fmt.Sprintf("free list longer than %d nodes", want)
		}
		if uint64(cur)%stride != 0 || uint64(cur)/stride >= nSlots || uint64(cur)+bufferHeaderSize > uint64(len(l.bufferRegion)) {
			return fmt.Sprintf("node %d at region offset %d is not one of the %d slots (stride %d, region %d bytes)", n, cur, nSlots, stride, len(l.bufferRegion))
		}
		if layoutWalkSeen.testAndSet(uint64(cur) / stride) {
			return fmt.Sprintf("cycle: slot at %d visited twice", cur)
		}
		visited++
		h := bufferHeader(l.bufferRegion[cur : cur+bufferHeaderSize])
		if c := *(*uint32)(unsafe.Pointer(&h[bufferCapOffset])); c != cpb {
			return fmt.Sprintf("slot header at %d says cap %d, class has %d", cur, c, cpb)
		}
		if !h.hasNext() {
			break
		}
		cur = h.nextBufferOffset()
	}
	if visited != want {
		return fmt.Sprintf("free list has %d nodes, expected %d", visited, want)
	}
	if cur != *l.tail {
		return fmt.Sprintf("last node at %d but tail=%d", cur, *l.tail)
	}
	return ""
}

// layoutPopAll takes every allocatable slot of every class through the creating manager, checks each slice's
// geometry against the class geometry and writes the slot's pattern. Returns the slices per class.
func layoutPopAll(bm *bufferManager, g layoutGeo, caseKey uint64, bad func(string, ...interface{})) (slices [][]*bufferSlice, bytes int64) {
	var base uintptr
	if len(bm.mem) > 0 {
		base = uintptr(unsafe.Pointer(&bm.mem[0]))
	}
	slices = make([][]*bufferSlice, len(bm.lists))
	for i, l := range bm.lists {
		cl := g.Classes[i]
		stride := uint64(cl.CapPerBuffer) + bufferHeaderSize
		layoutPopSeen.reset(uint64(cl.Cap))
		for {
			s, err := l.pop()
			if err != nil {
				break
			}
			if uint32(len(slices[i])) >= cl.Cap {
				bad("class %d handed out more than its %d slots", i, cl.Cap)
				break
			}
			slices[i] = append(slices[i], s)
			off := s.offsetInShm
			rel := int64(off) - int64(cl.RegionOff)
			if rel < 0 || uint64(rel)%stride != 0 || uint64(rel)/stride >= uint64(cl.Cap) {
				bad("class %d: slice at offset %d is not one of the %d slots of region %d (stride %d)", i, off, cl.Cap, cl.RegionOff, stride)
				continue
			}
			if layoutPopSeen.testAndSet(uint64(rel) / stride) {
				bad("class %d: offset %d handed out twice", i, off)
			}
			if s.cap != cl.CapPerBuffer || uint32(len(s.data)) != cl.CapPerBuffer {
				bad("class %d: slice at %d has cap %d / %d data bytes, class capPerBuffer is %d", i, off, s.cap, len(s.data), cl.CapPerBuffer)
				continue
			}
			if len(s.bufferHeader) != bufferHeaderSize || int64(uintptr(unsafe.Pointer(&s.bufferHeader[0])))-int64(base) != int64(off) {
				bad("class %d: slice header is not at its offset %d", i, off)
				continue
			}
			if len(s.data) > 0 && int64(uintptr(unsafe.Pointer(&s.data[0])))-int64(base) != int64(off)+bufferHeaderSize {
				bad("class %d: payload of the slice at %d does not start behind its %d-byte header", i, off, bufferHeaderSize)
				continue
			}
			layoutFill(s.data, layoutSlotKey(caseKey, i, off))
			if _, err := s.reserve(len(s.data)); err != nil {
				bad("class %d: fresh slice at %d cannot reserve its own capacity: %v", i, off, err)
			}
			s.update()
			bytes += int64(len(s.data))
		}
	}
	return
}

// ---------------------------------------------------------------------------------------------
// pure layer: one configuration on heap memory through createBufferManager + mappingBufferManager

type layoutStats struct {
	accepted, mapped     bool
	slots, bytes, compar int64
	oobOnError           bool
	counterDiffers       bool
	notAscending         bool
	errText              string
	geo                  layoutGeo
}

type layoutArena struct{ backing []byte }

func (a *layoutArena) get(n int) (backing, mem []byte) {
	need := n + 2*layoutGuard
	if cap(a.backing) < need {
		a.backing = make([]byte, need+need/4)
	}
	backing = a.backing[:need]
	for i := 0; i < layoutGuard; i++ {
		backing[i] = 0xA5
		backing[need-1-i] = 0xA5
	}
	mem = backing[layoutGuard : layoutGuard+n : layoutGuard+n]
	for i := range mem {
		mem[i] = 0
	}
	return
}

func layoutGuardsIntact(backing []byte) bool {
	n := len(backing)
	for i := 0; i < layoutGuard; i++ {
		if backing[i] != 0xA5 || backing[n-1-i] != 0xA5 {
			return false
		}
	}
	return true
}

func layoutRunHeap(c *checkCtx, cs layoutCase, arena *layoutArena) (st layoutStats) {
	stage := "setup"
	var viol []string
	bad := func(format string, a ...interface{}) {
		if len(viol) < 8 {
			viol = append(viol, stage+": "+fmt.Sprintf(format, a...))
		}
	}
	report := func() {
		if len(viol) > 0 {
			c.violation(cs.name(), map[string]interface{}{"case": cs, "creator_geometry": st.geo, "problems": viol}, "%s", strings.Join(viol, " | "))
		}
	}
	defer func() {
		if r := recover(); r != nil {
			c.violation(cs.name(), map[string]interface{}{"case": cs, "stage": stage, "panic": fmt.Sprint(r), "stack": string(debug.Stack()), "problems": viol},
				"panic during %s: %v", stage, r)
		}
	}()
	backing, mem := arena.get(cs.Mem)
	sorted := layoutSortedPairs(cs.Pairs)
	sizes := make([]uint32, len(sorted))
	for i, p := range sorted {
		sizes[i] = p.Size
	}
	caseKey := layoutMix(uint64(cs.Seed) ^ uint64(cs.Idx)<<20)

	stage = "createBufferManager"
	bmA, err := createBufferManager(sorted, "verif-layout-a", mem, cs.Offset)
	if err != nil {
		st.errText = err.Error()
		st.oobOnError = !layoutGuardsIntact(backing)
		return
	}
	if bmA == nil {
		bad("neither a manager nor an error")
		report()
		return
	}
	st.accepted = true
	gA := layoutGeoOf(bmA)
	st.geo = gA
	probs, notAsc := layoutCheckCreatorGeo(gA, len(mem), cs.Offset, sizes)
	st.notAscending = notAsc
	for _, p := range probs {
		if !layoutSkipGeometry {
			bad("%s", p)
		}
	}
	if len(viol) > 0 {
		report()
		return
	}
	for i, l := range bmA.lists {
		if msg := layoutWalk(l, int(*l.cap)); msg != "" {
			bad("creator class %d fresh free list: %s", i, msg)
		}
	}

	stage = "mappingBufferManager"
	bmB, err := mappingBufferManager("verif-layout-b", mem, cs.Offset)
	if err != nil || bmB == nil {
		bad("the memory the creator laid out cannot be mapped: %v", err)
		report()
		return
	}
	st.mapped = true
	gB := layoutGeoOf(bmB)
	probs, st.counterDiffers = layoutCompareGeo(gA, gB)
	for _, p := range probs {
		if !layoutSkipGeometry {
			bad("%s", p)
		}
	}
	if len(viol) > 0 {
		c.violation(cs.name(), map[string]interface{}{"case": cs, "creator_geometry": gA, "mapper_geometry": gB, "problems": viol}, "%s", strings.Join(viol, " | "))
		return
	}
	for i, l := range bmB.lists {
		if msg := layoutWalk(l, int(*l.cap)); msg != "" {
			bad("mapper class %d fresh free list: %s", i, msg)
		}
	}

	stage = "allocate every allocatable slot through the creator"
	slices, bytes := layoutPopAll(bmA, gA, caseKey, bad)
	st.bytes = bytes
	if len(viol) > 0 {
		report()
		return
	}

	stage = "read every slot through the mapper"
	for i := range slices {
		for _, s := range slices[i] {
			off := s.offsetInShm
			key := layoutSlotKey(caseKey, i, off)
			st.slots++
			if at := layoutVerify(s.data, key); at >= 0 {
				bad("class %d slot at %d: pattern destroyed at payload byte %d before anybody else wrote (overlapping slots)", i, off, at)
				continue
			}
			sb, err := bmB.readBufferSlice(off)
			if err != nil {
				bad("class %d slot at %d: mapper readBufferSlice failed: %v", i, off, err)
				continue
			}
			if sb.cap != s.cap || len(sb.data) != len(s.data) || sb.size() != len(s.data) {
				bad("class %d slot at %d: mapper sees cap %d, %d data bytes, size %d; creator wrote %d bytes into a slot of cap %d", i, off, sb.cap, len(sb.data), sb.size(), len(s.data), s.cap)
				continue
			}
			if len(s.data) > 0 && &sb.data[0] != &s.data[0] {
				bad("class %d slot at %d: mapper's payload is at a different address", i, off)
				continue
			}
			if at := layoutVerify(sb.data, key); at >= 0 {
				bad("class %d slot at %d: pattern read through the mapper differs at byte %d", i, off, at)
				continue
			}
			st.compar++
			// the peer gives the slot back (straight to its class: recycleBuffer picks the class by capacity, which
			// is ambiguous for duplicate sizes and not the subject of this property)
			bmB.lists[i].push(sb)
			putBackBufferSlice(sb)
		}
	}
	if len(viol) > 0 {
		report()
		return
	}

	stage = "free lists after the mapper returned every slot"
	for i := range bmA.lists {
		for side, bm := range []*bufferManager{bmA, bmB} {
			l := bm.lists[i]
			if *l.size != int32(*l.cap) {
				bad("side %d class %d: size %d after every slot came back, cap %d", side, i, *l.size, *l.cap)
				continue
			}
			if msg := layoutWalk(l, int(*l.cap)); msg != "" {
				bad("side %d class %d: %s", side, i, msg)
			}
		}
	}
	for i := range slices {
		for _, s := range slices[i] {
			putBackBufferSlice(s)
		}
	}
	stage = "guard bytes"
	if !layoutGuardsIntact(backing) {
		bad("bytes outside the %d-byte memory were written", len(mem))
	}
	report()
	return
}

// ---------------------------------------------------------------------------------------------
// generators

var layoutBoundarySizes = []uint32{1, 2, 3, 4, 19, 20, 21, 4076, 4096}

func layoutLogUniform(rng *rand.Rand, lo, hi int) int {
	if lo < 1 {
		lo = 1
	}
	if hi <= lo {
		return lo
	}
	v := int(float64(lo) * math.Pow(float64(hi)/float64(lo), rng.Float64()))
	if v < lo {
		v = lo
	}
	if v > hi {
		v = hi
	}
	return v
}

// layoutSplit splits sum into n parts (zeros possible unless positive and sum >= n).
func layoutSplit(rng *rand.Rand, sum, n int, positive bool) []uint32 {
	out := make([]uint32, n)
	if positive && sum >= n {
		for i := range out {
			out[i] = 1
		}
		sum -= n
	}
	cuts := make([]int, n-1)
	for i := range cuts {
		cuts[i] = rng.Intn(sum + 1)
	}
	sort.Ints(cuts)
	prev := 0
	for i := 0; i < n-1; i++ {
		out[i] += uint32(cuts[i] - prev)
		prev = cuts[i]
	}
	out[n-1] += uint32(sum - prev)
	return out
}

func layoutGenPercents(rng *rand.Rand, n int) ([]uint32, string) {
	switch r := rng.Intn(100); {
	case r < 40:
		return layoutSplit(rng, 100, n, true), "sum=100"
	case r < 50:
		return layoutSplit(rng, 100, n, false), "sum=100,zeros-possible"
	case r < 65:
		return layoutSplit(rng, 1+rng.Intn(99), n, rng.Intn(2) == 0), "sum<100"
	case r < 78:
		return layoutSplit(rng, 101+rng.Intn(150), n, rng.Intn(2) == 0), "sum>100"
	case r < 86:
		p := layoutSplit(rng, 100, n, true)
		p[rng.Intn(n)] = 0
		return p, "one-zero"
	case r < 97:
		p := make([]uint32, n)
		for i := range p {
			p[i] = uint32(rng.Intn(121))
		}
		return p, "random"
	default:
		p := layoutSplit(rng, 100, n, true)
		p[rng.Intn(n)] = []uint32{math.MaxUint32, math.MaxUint32 - 98, 1 << 31, 1<<32 - 100, 42949673, 429496730}[rng.Intn(6)]
		return p, "huge"
	}
}

var layoutBoundaryMems = []int{0, 1, 2, 7, 8, 9, 43, 44, 45, 63, 64, 65, 79, 80, 81, 100, 128, 4095, 4096, 4097, 4140, 65535, 65536, 262143, 262144}

func layoutGenPure(seed int64, idx int) layoutCase {
	rng := caseRand(seed, idx)
	cs := layoutCase{Idx: idx, Stream: "pure", Seed: seed}
	switch r := rng.Intn(100); {
	case r < 8:
		cs.Mem = rng.Intn(65)
	case r < 22:
		cs.Mem = layoutBoundaryMems[rng.Intn(len(layoutBoundaryMems))]
	default:
		cs.Mem = layoutLogUniform(rng, 64, 256<<10)
	}
	if rng.Intn(100) < 12 {
		cs.Offset = []uint32{8, 16, 64, 128, 1000, 4096}[rng.Intn(6)]
	}
	n := 1 + rng.Intn(8)
	if rng.Intn(3) == 0 {
		n = 1 + rng.Intn(3)
	}
	pcts, mode := layoutGenPercents(rng, n)
	avail := cs.Mem - int(cs.Offset)
	if avail < 0 {
		avail = 0
	}
	regionCap := avail - bufferManagerHeaderSize - bufferListHeaderSize*n
	fitted := rng.Intn(100) < 60
	if fitted {
		mode += ",fitted"
	}
	for i := 0; i < n; i++ {
		var size int
		share := 0
		if regionCap > 0 && pcts[i] <= 1000 {
			share = int(int64(regionCap) * int64(pcts[i]) / 100)
		}
		switch {
		case fitted && share > bufferHeaderSize:
			room := share - bufferHeaderSize // largest size that gets one slot
			switch r := rng.Intn(100); {
			case r < 20:
				size = room
			case r < 28:
				size = room + 1 // no room for a single slot
			case r < 34:
				size = room/2 - 10 + rng.Intn(3) // around the one-slot/two-slot boundary
			case r < 55:
				size = int(layoutBoundarySizes[rng.Intn(len(layoutBoundarySizes))])
			default:
				size = layoutLogUniform(rng, 1, room)
			}
		default:
			switch r := rng.Intn(100); {
			case r < 30:
				size = int(layoutBoundarySizes[rng.Intn(len(layoutBoundarySizes))])
			case r < 45:
				size = []int{avail, avail - 1, avail / 2, avail - 20, avail - 44, avail - 63, avail - 64, avail - 65}[rng.Intn(8)]
			case r < 48:
				size = 0
			default:
				size = layoutLogUniform(rng, 1, avail)
			}
		}
		// the quantifier: sizes do not exceed the capacity of the memory
		if size > avail {
			size = avail
		}
		if size < 0 {
			size = 0
		}
		cs.Pairs = append(cs.Pairs, layoutPair{Size: uint32(size), Percent: pcts[i]})
	}
	if rng.Intn(2) == 0 {
		sort.Slice(cs.Pairs, func(i, j int) bool { return cs.Pairs[i].Size < cs.Pairs[j].Size })
		mode += ",sorted"
	} else {
		rng.Shuffle(len(cs.Pairs), func(i, j int) { cs.Pairs[i], cs.Pairs[j] = cs.Pairs[j], cs.Pairs[i] })
		mode += ",shuffled"
	}
	cs.Mode = mode
	return cs
}

// layoutBoundaryTable: the hand-written part of the case list (independent of the seed).
func layoutBoundaryTable() []layoutCase {
	var out []layoutCase
	have := map[string]bool{}
	add := func(mem int, mode string, pairs ...layoutPair) {
		for _, p := range pairs {
			if int64(p.Size) > int64(mem) {
				return // outside the quantifier
			}
		}
		k := fmt.Sprint(mem, pairs)
		if have[k] {
			return
		}
		have[k] = true
		out = append(out, layoutCase{Idx: len(out), Stream: "table", Mem: mem, Pairs: pairs, Mode: mode})
	}
	for _, mem := range layoutBoundaryMems {
		oneSlot := mem - bufferManagerHeaderSize - bufferListHeaderSize - bufferHeaderSize // size whose single slot fills the memory at 100 %
		cands := []int{0, 1, 2, 19, 20, 21, 4076, 4096, oneSlot - 1, oneSlot, oneSlot + 1, oneSlot / 2, mem / 2, mem - 1, mem}
		for _, s := range cands {
			if s < 0 {
				continue
			}
			for _, pct := range []uint32{0, 1, 50, 99, 100, 101} {
				add(mem, "single", layoutPair{uint32(s), pct})
			}
		}
		for _, s := range []int{1, 20, 21, 4076} {
			add(mem, "duplicate-sizes", layoutPair{uint32(s), 50}, layoutPair{uint32(s), 50})
			add(mem, "unsorted", layoutPair{4096, 30}, layoutPair{uint32(s), 70})
			add(mem, "unsorted-sum<100", layoutPair{4096, 30}, layoutPair{uint32(s), 20}, layoutPair{64, 10})
			add(mem, "class-without-room", layoutPair{uint32(s), 99}, layoutPair{uint32(mem / 2), 1})
			add(mem, "eight-classes", layoutPair{uint32(s), 13}, layoutPair{2, 12}, layoutPair{3, 12}, layoutPair{19, 13},
				layoutPair{20, 12}, layoutPair{21, 13}, layoutPair{64, 12}, layoutPair{100, 13})
		}
	}
	return out
}

// layoutGenConfig: a Config value for VerifyConfig; mostly plausible, with every rejection reason represented.
func layoutGenConfig(seed int64, idx int, maxCap int, accepted bool) (*Config, layoutCase) {
	rng := caseRand(seed, idx)
	conf := DefaultConfig()
	cs := layoutCase{Idx: idx, Seed: seed}
	var capacity int
	switch r := rng.Intn(100); {
	case r < 12:
		capacity = []int{1 << 20, 1<<20 + 1, 2 << 20, maxCap, 1<<20 + 4095, 1<<20 + 64}[rng.Intn(6)]
	case r < 18 && !accepted:
		capacity = []int{0, 1, 1<<20 - 1, 4096, 1 << 19}[rng.Intn(5)]
	default:
		capacity = 1<<20 + rng.Intn(maxCap-1<<20+1)
	}
	n := 1 + rng.Intn(8)
	var pcts []uint32
	mode := "sum=100"
	if accepted || rng.Intn(100) < 75 {
		pcts = layoutSplit(rng, 100, n, rng.Intn(10) != 0)
	} else {
		pcts, mode = layoutGenPercents(rng, n)
	}
	regionCap := capacity - bufferManagerHeaderSize - bufferListHeaderSize*n
	// most configurations give every class room for at least one slot; a share of them is built to hit the error paths
	hostile := rng.Intn(100) < 15
	if hostile {
		mode += ",hostile-sizes"
	}
	for i := 0; i < n; i++ {
		share := 0
		if regionCap > 0 && pcts[i] <= 1000 {
			share = int(int64(regionCap) * int64(pcts[i]) / 100)
		}
		room := share - bufferHeaderSize
		var size int
		switch r := rng.Intn(100); {
		case room < 1:
			size = 1 + rng.Intn(64)
		case r < 12:
			size = room
		case r < 17 && hostile:
			size = room + 1
		case r < 40:
			size = []int{1, 2, 19, 20, 21, 64, 255, 256, 4076, 4096, 8172, 32748, 65536, 131052}[rng.Intn(14)]
			if !hostile && size > room {
				size = room
			}
		case r < 43 && !accepted:
			size = capacity + 1 + rng.Intn(1000) // VerifyConfig must reject
		case r < 46 && hostile:
			size = capacity
		case r < 48 && hostile:
			size = 0
		default:
			size = layoutLogUniform(rng, 16, room)
		}
		cs.Pairs = append(cs.Pairs, layoutPair{Size: uint32(size), Percent: pcts[i]})
	}
	if accepted {
		// keep the number of slots of a process-crossing case moderate: enlarge the smallest sizes
		for iter := 0; iter < 40; iter++ {
			est, worst := int64(0), -1
			var worstN int64
			for i, p := range cs.Pairs {
				k := int64(regionCap) * int64(p.Percent) / 100 / (int64(p.Size) + bufferHeaderSize)
				est += k
				if k > worstN {
					worstN, worst = k, i
				}
			}
			if est <= 120000 || worst < 0 {
				break
			}
			cs.Pairs[worst].Size = cs.Pairs[worst].Size*3 + 7
		}
		for i := range cs.Pairs {
			if int64(cs.Pairs[i].Size) > int64(capacity) {
				cs.Pairs[i].Size = uint32(capacity)
			}
		}
	}
	if rng.Intn(2) == 0 {
		sort.Slice(cs.Pairs, func(i, j int) bool { return cs.Pairs[i].Size < cs.Pairs[j].Size })
		mode += ",sorted"
	} else {
		rng.Shuffle(len(cs.Pairs), func(i, j int) { cs.Pairs[i], cs.Pairs[j] = cs.Pairs[j], cs.Pairs[i] })
		mode += ",shuffled"
	}
	if !accepted && rng.Intn(100) < 4 {
		cs.Pairs = nil
		mode += ",no-pairs"
	}
	cs.Mem = capacity
	cs.Mode = mode
	conf.ShareMemoryBufferCap = uint32(capacity)
	conf.BufferSliceSizes = layoutInputPairs(cs.Pairs)
	conf.QueueCap = uint32(rng.Intn(20000))
	if !accepted && rng.Intn(100) < 3 {
		conf.QueuePath = ""
		mode += ",no-queue-path"
		cs.Mode = mode
	}
	if rng.Intn(2) == 0 {
		conf.MemMapType = MemMapTypeMemFd
	}
	return conf, cs
}

// ---------------------------------------------------------------------------------------------
// real back-ends: the creator is this process, the mapper a child process

type layoutMapReq struct {
	Case    int      `json:"case"`
	Kind    string   `json:"kind"` // file | memfd
	Path    string   `json:"path"`
	Fd      int      `json:"fd"`
	Offsets []uint32 `json:"offsets"`
	Class   []int32  `json:"class"` // class index of each offset as the creator sees it (used by the child only to give the slot back)
}

type layoutMapRep struct {
	Case       int       `json:"case"`
	Err        string    `json:"err,omitempty"`
	Panic      string    `json:"panic,omitempty"`
	Stack      string    `json:"stack,omitempty"`
	Geo        layoutGeo `json:"geo"`
	Caps       []uint32  `json:"caps"`
	Lens       []uint32  `json:"lens"`
	Sizes      []int32   `json:"sizes"`
	Hashes     []uint64  `json:"hashes"`
	ReadErrs   []string  `json:"read_errs,omitempty"`
	Walks      []string  `json:"walks,omitempty"`
	SizesAfter []int32   `json:"sizes_after"`
}

func layoutMapperChild(args []string) {
	in := bufio.NewReaderSize(os.Stdin, 1<<20)
	for {
		var req layoutMapReq
		if !childReadLine(in, &req) {
			return
		}
		childLog("case %d kind=%s path=%s fd=%d offsets=%d", req.Case, req.Kind, req.Path, req.Fd, len(req.Offsets))
		childReply(layoutMapOne(req))
	}
}

func layoutMapOne(req layoutMapReq) (rep layoutMapRep) {
	rep.Case = req.Case
	defer func() {
		if r := recover(); r != nil {
			rep.Panic = fmt.Sprint(r)
			rep.Stack = string(debug.Stack())
		}
	}()
	var bm *bufferManager
	var err error
	if req.Kind == "memfd" {
		bm, err = getGlobalBufferManagerWithMemFd(req.Path, req.Fd, 0, false, nil)
	} else {
		bm, err = getGlobalBufferManager(req.Path, 0, false, nil)
	}
	if err != nil || bm == nil {
		rep.Err = fmt.Sprintf("mapping failed: %v", err)
		return
	}
	defer addGlobalBufferManagerRefCount(req.Path, -1)
	rep.Geo = layoutGeoOf(bm)
	got := make([]*bufferSlice, len(req.Offsets))
	for i, off := range req.Offsets {
		s, err := bm.readBufferSlice(off)
		if err != nil {
			if len(rep.ReadErrs) < 5 {
				rep.ReadErrs = append(rep.ReadErrs, fmt.Sprintf("offset %d: %v", off, err))
			}
			rep.Caps, rep.Lens, rep.Sizes, rep.Hashes = append(rep.Caps, 0), append(rep.Lens, 0), append(rep.Sizes, -1), append(rep.Hashes, 0)
			continue
		}
		got[i] = s
		rep.Caps = append(rep.Caps, s.cap)
		rep.Lens = append(rep.Lens, uint32(len(s.data)))
		rep.Sizes = append(rep.Sizes, int32(s.size()))
		rep.Hashes = append(rep.Hashes, layoutHash(s.data))
	}
	// the peer gives every slot back, straight to the class the creator named
	for i, s := range got {
		if s == nil || i >= len(req.Class) || int(req.Class[i]) >= len(bm.lists) {
			continue
		}
		bm.lists[req.Class[i]].push(s)
		putBackBufferSlice(s)
	}
	for i, l := range bm.lists {
		rep.SizesAfter = append(rep.SizesAfter, *l.size)
		if *l.size == int32(*l.cap) {
			if msg := layoutWalk(l, int(*l.cap)); msg != "" {
				rep.Walks = append(rep.Walks, fmt.Sprintf("class %d: %s", i, msg))
			}
		}
	}
	return
}

type layoutPrepared struct {
	cs      layoutCase
	kind    string
	path    string
	bm      *bufferManager
	geo     layoutGeo
	req     layoutMapReq
	expCap  []uint32
	expHash []uint64
	file    *os.File // dup of the memfd for the child
	bytes   int64
}

func layoutCloseLeakedMemfd(name string) {
	ents, err := os.ReadDir("/proc/self/fd")
	if err != nil {
		return
	}
	for _, e := range ents {
		t, err := os.Readlink("/proc/self/fd/" + e.Name())
		if err != nil || !strings.Contains(t, "memfd:"+memfdCreateName+name) {
			continue
		}
		var fd int
		if _, err := fmt.Sscanf(e.Name(), "%d", &fd); err == nil && fd > 2 {
			_ = syscall.Close(fd)
		}
	}
}

// layoutPrepare: the creating side of one real-back-end case. Returns nil when create returned an error (counted).
func layoutPrepare(c *checkCtx, conf *Config, cs layoutCase) (p *layoutPrepared) {
	stage := "create"
	var viol []string
	bad := func(format string, a ...interface{}) {
		if len(viol) < 8 {
			viol = append(viol, stage+": "+fmt.Sprintf(format, a...))
		}
	}
	kind := "file"
	if conf.MemMapType == MemMapTypeMemFd {
		kind = "memfd"
	}
	cs.Stream = kind
	path := fmt.Sprintf("%slayout_%d_%d%s", shmPrefix(), cs.Seed, cs.Idx, bufferPathSuffix)
	var bm *bufferManager
	release := func() {
		if bm != nil {
			addGlobalBufferManagerRefCount(path, -1)
		}
		if kind == "file" {
			_ = os.Remove(path)
		}
	}
	defer func() {
		if r := recover(); r != nil {
			c.violation(cs.name(), map[string]interface{}{"case": cs, "stage": stage, "panic": fmt.Sprint(r), "stack": string(debug.Stack())},
				"panic during %s (%s back-end): %v", stage, kind, r)
			release()
			p = nil
		}
	}()
	pairs := layoutInputPairs(cs.Pairs) // the entry point sorts them itself
	var err error
	if kind == "memfd" {
		bm, err = getGlobalBufferManagerWithMemFd(path, 0, uint32(cs.Mem), true, pairs)
	} else {
		_ = os.Remove(path)
		bm, err = getGlobalBufferManager(path, uint32(cs.Mem), true, pairs)
	}
	if err != nil || bm == nil {
		if err == nil {
			c.violation(cs.name(), cs, "%s back-end returned neither a manager nor an error", kind)
		}
		c.count("mapped_"+kind+"_create_error", 1)
		bm = nil
		release()
		if kind == "memfd" {
			layoutCloseLeakedMemfd(path)
		}
		return nil
	}
	sizes := make([]uint32, 0, len(cs.Pairs))
	for _, sp := range layoutSortedPairs(cs.Pairs) {
		sizes = append(sizes, sp.Size)
	}
	g := layoutGeoOf(bm)
	probs, notAsc := layoutCheckCreatorGeo(g, cs.Mem, 0, sizes)
	if notAsc {
		c.count("classes_not_ascending", 1)
	}
	for _, pr := range probs {
		if !layoutSkipGeometry {
			bad("%s", pr)
		}
	}
	if len(viol) == 0 {
		for i, l := range bm.lists {
			if msg := layoutWalk(l, int(*l.cap)); msg != "" {
				bad("creator class %d fresh free list: %s", i, msg)
			}
		}
	}
	var slices [][]*bufferSlice
	var bytes int64
	caseKey := layoutMix(uint64(cs.Seed) ^ uint64(cs.Idx)<<20)
	if len(viol) == 0 {
		stage = "allocate every allocatable slot"
		slices, bytes = layoutPopAll(bm, g, caseKey, bad)
	}
	if len(viol) > 0 {
		c.violation(cs.name(), map[string]interface{}{"case": cs, "creator_geometry": g, "problems": viol}, "%s", strings.Join(viol, " | "))
		release()
		return nil
	}
	p = &layoutPrepared{cs: cs, kind: kind, path: path, bm: bm, bytes: bytes}
	p.req = layoutMapReq{Case: cs.Idx, Kind: kind, Path: path}
	stage = "verify own patterns"
	for i := range slices {
		for _, s := range slices[i] {
			if at := layoutVerify(s.data, layoutSlotKey(caseKey, i, s.offsetInShm)); at >= 0 {
				bad("class %d slot at %d: pattern destroyed at payload byte %d before the peer touched anything (overlapping slots)", i, s.offsetInShm, at)
			}
			p.req.Offsets = append(p.req.Offsets, s.offsetInShm)
			p.req.Class = append(p.req.Class, int32(i))
			p.expCap = append(p.expCap, s.cap)
			p.expHash = append(p.expHash, layoutHash(s.data))
			putBackBufferSlice(s)
		}
	}
	if len(viol) > 0 {
		c.violation(cs.name(), map[string]interface{}{"case": cs, "creator_geometry": g, "problems": viol}, "%s", strings.Join(viol, " | "))
		release()
		return nil
	}
	p.geo = layoutGeoOf(bm) // after the allocations: what the peer must see now
	if kind == "memfd" {
		nfd, err := syscall.Dup(bm.memFd)
		if err != nil {
			c.inconclusiveCase(cs.name(), "dup of the memfd failed: "+err.Error())
			release()
			return nil
		}
		p.file = os.NewFile(uintptr(nfd), "layout-memfd")
	}
	return p
}

func (p *layoutPrepared) release() {
	addGlobalBufferManagerRefCount(p.path, -1)
	if p.kind == "file" {
		_ = os.Remove(p.path)
	}
	if p.file != nil {
		p.file.Close()
		p.file = nil
	}
}

// layoutJudgeReply compares what the child derived with what the creator holds.
func layoutJudgeReply(c *checkCtx, p *layoutPrepared, rep layoutMapRep) (ok bool) {
	var viol []string
	bad := func(format string, a ...interface{}) {
		if len(viol) < 8 {
			viol = append(viol, fmt.Sprintf(format, a...))
		}
	}
	switch {
	case rep.Panic != "":
		bad("the mapping side panicked: %s", rep.Panic)
	case rep.Err != "":
		bad("the peer process cannot map the memory the creator laid out: %s", rep.Err)
	default:
		if rep.Geo.MemLen != p.geo.MemLen && !layoutSkipGeometry {
			bad("the peer mapped %d bytes, the creator %d", rep.Geo.MemLen, p.geo.MemLen)
		}
		probs, counterDiffers := layoutCompareGeo(p.geo, rep.Geo)
		if counterDiffers {
			c.count("counter_word_differs_between_sides", 1)
		}
		for _, pr := range probs {
			if !layoutSkipGeometry {
				bad("%s", pr)
			}
		}
		for _, e := range rep.ReadErrs {
			bad("peer readBufferSlice: %s", e)
		}
		n := len(p.req.Offsets)
		if len(rep.Caps) != n || len(rep.Lens) != n || len(rep.Sizes) != n || len(rep.Hashes) != n {
			bad("peer answered for %d/%d/%d/%d of %d offsets", len(rep.Caps), len(rep.Lens), len(rep.Sizes), len(rep.Hashes), n)
		} else {
			for i := 0; i < n; i++ {
				if rep.Sizes[i] < 0 {
					continue // read error, already reported
				}
				if rep.Caps[i] != p.expCap[i] || rep.Lens[i] != p.expCap[i] || rep.Sizes[i] != int32(p.expCap[i]) {
					bad("slot at %d (class %d): peer sees cap %d, %d data bytes, size %d; creator filled a slot of cap %d", p.req.Offsets[i], p.req.Class[i], rep.Caps[i], rep.Lens[i], rep.Sizes[i], p.expCap[i])
				} else if rep.Hashes[i] != p.expHash[i] {
					bad("slot at %d (class %d): the %d bytes read by the peer hash to %016x, the creator wrote %016x", p.req.Offsets[i], p.req.Class[i], rep.Lens[i], rep.Hashes[i], p.expHash[i])
				} else {
					c.count("mapped_patterns_compared", 1)
				}
			}
		}
		for _, w := range rep.Walks {
			bad("peer's free list after it returned every slot: %s", w)
		}
		// the creator's view after the peer gave everything back
		if len(viol) == 0 {
			for i, l := range p.bm.lists {
				if i < len(rep.SizesAfter) && rep.SizesAfter[i] != *l.size {
					bad("class %d: peer reports size %d after returning the slots, creator reads %d", i, rep.SizesAfter[i], *l.size)
				}
				if *l.size != int32(*l.cap) {
					bad("class %d: creator reads size %d after the peer returned every slot, cap %d", i, *l.size, *l.cap)
					continue
				}
				if msg := layoutWalk(l, int(*l.cap)); msg != "" {
					bad("class %d: creator's free list after the peer returned every slot: %s", i, msg)
				}
			}
		}
	}
	if len(viol) > 0 {
		c.violation(p.cs.name(), map[string]interface{}{"case": p.cs, "creator_geometry": p.geo, "peer_geometry": rep.Geo,
			"peer_panic": rep.Panic, "peer_stack": rep.Stack, "problems": viol}, "%s", strings.Join(viol, " | "))
		return false
	}
	return true
}

func layoutRunMapped(c *checkCtx) {
	total := c.pick(40, 2000)
	batch := c.pick(10, 25)
	maxCap := 8 << 20
	sampled := 0
	for start := 0; start < total; start += batch {
		var prepared []*layoutPrepared
		for i := start; i < start+batch && i < total; i++ {
			idx := 20000000 + i
			conf, cs := layoutGenConfig(c.seed, idx, maxCap, true)
			c.eval(1)
			c.count("mapped_configs", 1)
			if err := layoutVerifyConfig(c, conf, cs); err != nil {
				c.count("mapped_verifyconfig_rejected", 1)
				continue
			}
			if p := layoutPrepare(c, conf, cs); p != nil {
				prepared = append(prepared, p)
			}
		}
		if len(prepared) == 0 {
			continue
		}
		var files []*os.File
		for _, p := range prepared {
			if p.file != nil {
				p.req.Fd = 3 + len(files)
				files = append(files, p.file)
				p.file = nil // spawnChildFiles closes the parent's copy
			}
		}
		cp, err := c.spawnChildFiles("layoutmapper", nil, files)
		if err != nil {
			c.inconclusiveCase(fmt.Sprintf("mapped-batch-%d", start), "cannot start the mapper process: "+err.Error())
			for _, p := range prepared {
				p.release()
			}
			continue
		}
		c.count("mapper_processes", 1)
		dead := false
		var current *layoutPrepared
		for _, p := range prepared {
			if dead {
				break
			}
			current = p
			if err := cp.send(p.req); err != nil {
				dead = true
				break
			}
			var rep layoutMapRep
			line, ok := cp.recv(180*time.Second, &rep)
			if !ok {
				if line != "" {
					c.inconclusiveCase(p.cs.name(), "unreadable answer from the mapper process: "+truncate(line, 200))
				}
				dead = true
				break
			}
			if rep.Case != p.cs.Idx {
				c.inconclusiveCase(p.cs.name(), fmt.Sprintf("mapper answered for case %d", rep.Case))
				dead = true
				break
			}
			if layoutJudgeReply(c, p, rep) {
				c.count("mapped_"+p.kind+"_ok", 1)
				c.count("mapped_slots_probed", int64(len(p.req.Offsets)))
				c.count("mapped_bytes_patterned", p.bytes)
				c.nontrivial(p.kind + "/" + p.geo.key(0))
				if sampled < 2 {
					sampled++
					c.sample(map[string]interface{}{"case": p.cs, "geometry": layoutBrief(p.geo), "slots_probed": len(p.req.Offsets)})
				}
			}
			current = nil
		}
		cp.stdin.Close()
		var ex childExit
		if dead {
			ex = cp.wait(5 * time.Second)
		} else {
			ex = cp.wait(60 * time.Second)
		}
		crashed := strings.Contains(ex.Stderr, "fatal error") || strings.Contains(ex.Stderr, "panic:") ||
			strings.Contains(ex.Stderr, "unexpected fault address") || strings.Contains(ex.Stderr, "SIGSEGV") || strings.Contains(ex.Stderr, "SIGBUS")
		switch {
		case crashed && !ex.TimedOut:
			name := fmt.Sprintf("mapped-batch-%d", start)
			var w interface{}
			if current != nil {
				name, w = current.cs.name(), current.cs
			}
			c.violation(name, map[string]interface{}{"case": w, "exit": ex}, "the mapping process crashed while mapping/reading the creator's memory: %s", truncate(ex.Stderr, 300))
		case dead || ex.TimedOut || ex.Signal != "" || ex.Code != 0:
			name := fmt.Sprintf("mapped-batch-%d", start)
			if current != nil {
				name = current.cs.name()
			}
			c.inconclusiveCase(name, fmt.Sprintf("mapper process: no answer / abnormal end (timed out %v, signal %q, code %d)", ex.TimedOut, ex.Signal, ex.Code))
		default:
			cp.cleanupFiles()
		}
		for _, p := range prepared {
			p.release()
		}
	}
}

func layoutBrief(g layoutGeo) []string {
	var out []string
	for _, cl := range g.Classes {
		out = append(out, fmt.Sprintf("cap=%d capPerBuffer=%d hdr@%d region@%d+%d", cl.Cap, cl.CapPerBuffer, cl.HdrOff, cl.RegionOff, cl.RegionLen))
	}
	return out
}

func layoutVerifyConfig(c *checkCtx, conf *Config, cs layoutCase) (err error) {
	defer func() {
		if r := recover(); r != nil {
			c.violation(cs.name(), map[string]interface{}{"case": cs, "panic": fmt.Sprint(r), "stack": string(debug.Stack())}, "VerifyConfig panicked: %v", r)
			err = fmt.Errorf("panic")
		}
	}()
	return VerifyConfig(conf)
}

// ---------------------------------------------------------------------------------------------
// queues

type layoutQCase struct {
	Idx     int    `json:"idx"`
	Cap     uint32 `json:"queue_cap"`
	Backend string `json:"backend"` // heap | file | memfd
}

func (q layoutQCase) name() string { return fmt.Sprintf("queue-%s-%d-cap%d", q.Backend, q.Idx, q.Cap) }

type layoutQGeo struct {
	Cap      int64 `json:"cap"`
	PHead    int64 `json:"p_head"`
	PTail    int64 `json:"p_tail"`
	PFlag    int64 `json:"p_working_flag"`
	RingOff  int64 `json:"ring_offset"` // -1: empty ring
	RingLen  int64 `json:"ring_len"`
	SpanLo   int64 `json:"span_lo"`
	SpanHi   int64 `json:"span_hi"`
	problems []string
}

func layoutQGeoOf(q *queue, mem []byte) layoutQGeo {
	base := int64(uintptr(unsafe.Pointer(&mem[0])))
	g := layoutQGeo{Cap: q.cap, PHead: int64(uintptr(unsafe.Pointer(q.head))) - base, PTail: int64(uintptr(unsafe.Pointer(q.tail))) - base,
		PFlag: int64(uintptr(unsafe.Pointer(q.workingFlag))) - base, RingOff: -1, RingLen: int64(len(q.queueBytesOnMemory))}
	ivs := []layoutIv{{g.PHead, g.PHead + 8, "head"}, {g.PTail, g.PTail + 8, "tail"}, {g.PFlag, g.PFlag + 4, "workingFlag"}}
	if len(q.queueBytesOnMemory) > 0 {
		g.RingOff = int64(uintptr(unsafe.Pointer(&q.queueBytesOnMemory[0]))) - base
		ivs = append(ivs, layoutIv{g.RingOff, g.RingOff + g.RingLen, "ring"})
	}
	g.SpanLo, g.SpanHi = math.MaxInt64, math.MinInt64
	for i, a := range ivs {
		if a.lo < 0 || a.hi > int64(len(mem)) {
			g.problems = append(g.problems, fmt.Sprintf("%s [%d,%d) is outside the %d-byte queue memory", a.what, a.lo, a.hi, len(mem)))
		}
		if a.lo < g.SpanLo {
			g.SpanLo = a.lo
		}
		if a.hi > g.SpanHi {
			g.SpanHi = a.hi
		}
		for _, b := range ivs[i+1:] {
			if a.lo < b.hi && b.lo < a.hi {
				g.problems = append(g.problems, fmt.Sprintf("%s [%d,%d) overlaps %s [%d,%d) of the same queue", a.what, a.lo, a.hi, b.what, b.lo, b.hi))
			}
		}
	}
	if g.RingLen < g.Cap*queueElementLen {
		g.problems = append(g.problems, fmt.Sprintf("ring of %d bytes cannot hold cap=%d elements of %d bytes", g.RingLen, g.Cap, queueElementLen))
	}
	return g
}

func layoutQSame(a, b layoutQGeo) bool {
	return a.Cap == b.Cap && a.PHead == b.PHead && a.PTail == b.PTail && a.PFlag == b.PFlag && a.RingOff == b.RingOff && a.RingLen == b.RingLen
}

// layoutQTransfer: elements put on src must come out of dst (same memory seen by the other end), in order, and
// must not show up in any of the other queues. Returns the number of elements that crossed.
func layoutQTransfer(dir string, src, dst *queue, others []*queue, seq *uint32, bad func(string, ...interface{})) (moved int64, capacity int64) {
	next := func() queueElement {
		*seq++
		return queueElement{seqID: *seq, offsetInShmBuf: *seq*2654435761 + 17, status: ^*seq}
	}
	quiet := func(when string) bool {
		for i, o := range others {
			if o.size() != 0 {
				bad("%s: %s: queue #%d that was not written to has size %d", dir, when, i, o.size())
				return false
			}
		}
		return true
	}
	popExpect := func(want queueElement, when string) bool {
		got, err := dst.pop()
		if err != nil {
			bad("%s: %s: element %d put on the sender's queue is not in the receiver's queue: %v", dir, when, want.seqID, err)
			return false
		}
		if got != want {
			bad("%s: %s: receiver popped %+v, sender put %+v", dir, when, got, want)
			return false
		}
		moved++
		return true
	}
	// phase 1: fill until full
	var pending []queueElement
	limit := src.cap + 2
	for int64(len(pending)) < limit {
		e := next()
		if err := src.put(e); err != nil {
			break
		}
		pending = append(pending, e)
	}
	capacity = int64(len(pending))
	if capacity != src.cap {
		bad("%s: a queue of cap %d accepted %d elements before reporting full", dir, src.cap, capacity)
		return
	}
	if dst.size() != capacity {
		bad("%s: %d elements put, receiver's queue reports size %d", dir, capacity, dst.size())
		return
	}
	if !quiet("after filling") {
		return
	}
	for _, e := range pending {
		if !popExpect(e, "drain after fill") {
			return
		}
	}
	if _, err := dst.pop(); err == nil {
		bad("%s: receiver's queue delivered more elements than were put", dir)
		return
	}
	if src.size() != 0 {
		bad("%s: receiver popped everything, sender's view still has size %d", dir, src.size())
		return
	}
	// phase 2: one in, one out across the wrap-around
	if src.cap > 0 {
		rounds := 2*src.cap + 3
		if rounds > 3000 {
			rounds = 3000 + src.cap%7
		}
		for i := int64(0); i < rounds; i++ {
			e := next()
			if err := src.put(e); err != nil {
				bad("%s: put #%d into an empty queue failed: %v", dir, i, err)
				return
			}
			if !popExpect(e, "ping-pong") {
				return
			}
		}
		quiet("after ping-pong")
	}
	// wake-up flag is the same word on both ends
	if !src.markWorking() || !dst.consumerIsWorking() {
		bad("%s: sender marked the consumer working, receiver's view of its own queue says working=%v", dir, dst.consumerIsWorking())
		return
	}
	for i, o := range others {
		if o.consumerIsWorking() {
			bad("%s: marking one queue working set the flag of queue #%d", dir, i)
		}
	}
	if !dst.markNotWorking() || src.consumerIsWorking() {
		bad("%s: receiver cleared its working flag, sender still sees working=%v", dir, src.consumerIsWorking())
	}
	return
}

// layoutCheckQueuePair judges a creator-side manager A and a mapper-side manager B over the same memory.
func layoutCheckQueuePair(c *checkCtx, qc layoutQCase, a, b *queueManager) (ok bool) {
	var viol []string
	bad := func(format string, x ...interface{}) {
		if len(viol) < 8 {
			viol = append(viol, fmt.Sprintf(format, x...))
		}
	}
	as, ar := layoutQGeoOf(a.sendQueue, a.mem), layoutQGeoOf(a.recvQueue, a.mem)
	bs, br := layoutQGeoOf(b.sendQueue, b.mem), layoutQGeoOf(b.recvQueue, b.mem)
	for _, g := range []struct {
		n string
		g layoutQGeo
	}{{"creator send", as}, {"creator recv", ar}, {"mapper send", bs}, {"mapper recv", br}} {
		for _, p := range g.g.problems {
			bad("%s queue: %s", g.n, p)
		}
		if g.g.Cap != int64(qc.Cap) {
			bad("%s queue has cap %d, configured %d", g.n, g.g.Cap, qc.Cap)
		}
	}
	if len(a.mem) != len(b.mem) {
		bad("creator mapped %d bytes, mapper %d", len(a.mem), len(b.mem))
	}
	if as.SpanLo < ar.SpanHi && ar.SpanLo < as.SpanHi {
		bad("creator: send queue [%d,%d) and receive queue [%d,%d) overlap", as.SpanLo, as.SpanHi, ar.SpanLo, ar.SpanHi)
	}
	if bs.SpanLo < br.SpanHi && br.SpanLo < bs.SpanHi {
		bad("mapper: send queue [%d,%d) and receive queue [%d,%d) overlap", bs.SpanLo, bs.SpanHi, br.SpanLo, br.SpanHi)
	}
	if !layoutQSame(as, br) {
		bad("creator's send queue %+v is not the mapper's receive queue %+v", as, br)
	}
	if !layoutQSame(ar, bs) {
		bad("creator's receive queue %+v is not the mapper's send queue %+v", ar, bs)
	}
	if layoutSkipGeometry {
		viol = nil
	}
	if len(viol) == 0 {
		var seq uint32 = uint32(qc.Idx) << 16
		m1, _ := layoutQTransfer("creator.send->mapper.recv", a.sendQueue, b.recvQueue, []*queue{a.recvQueue, b.sendQueue}, &seq, bad)
		m2, _ := layoutQTransfer("mapper.send->creator.recv", b.sendQueue, a.recvQueue, []*queue{a.sendQueue, b.recvQueue}, &seq, bad)
		c.count("queue_elements_crossed", m1+m2)
	}
	if len(viol) > 0 {
		c.violation(qc.name(), map[string]interface{}{"case": qc, "creator_send": as, "creator_recv": ar, "mapper_send": bs, "mapper_recv": br, "problems": viol},
			"%s", strings.Join(viol, " | "))
		return false
	}
	return true
}

func layoutRunQueueCase(c *checkCtx, qc layoutQCase, arena *layoutArena) {
	stage := "create"
	c.eval(1)
	c.count("queue_cases_"+qc.Backend, 1)
	var a, b *queueManager
	path := fmt.Sprintf("%slayout_q_%d_%d", shmPrefix(), c.seed, qc.Idx)
	defer func() {
		if r := recover(); r != nil {
			c.violation(qc.name(), map[string]interface{}{"case": qc, "stage": stage, "panic": fmt.Sprint(r), "stack": string(debug.Stack())},
				"panic during %s: %v", stage, r)
		}
		if qc.Backend != "heap" {
			if b != nil {
				b.unmap()
			}
			if a != nil {
				a.unmap()
			}
			if qc.Backend == "file" {
				_ = os.Remove(path)
			}
		}
	}()
	switch qc.Backend {
	case "heap":
		// the wiring of create*/mapping*QueueManager on memory of exactly the size they compute, with guard bytes
		memSize := countQueueMemSize(qc.Cap) * queueCount
		backing, mem := arena.get(memSize)
		half := memSize / 2
		a = &queueManager{mem: mem, sendQueue: createQueueFromBytes(mem[:half:half], qc.Cap), recvQueue: createQueueFromBytes(mem[half:], qc.Cap)}
		stage = "mapping"
		b = &queueManager{mem: mem, sendQueue: mappingQueueFromBytes(mem[half:]), recvQueue: mappingQueueFromBytes(mem[:half:half])}
		stage = "probe"
		ok := layoutCheckQueuePair(c, qc, a, b)
		if !layoutGuardsIntact(backing) {
			c.violation(qc.name(), qc, "bytes outside the %d bytes countQueueMemSize computes for two queues of cap %d were written", memSize, qc.Cap)
			ok = false
		}
		if ok {
			c.count("queue_pairs_ok", 1)
			c.nontrivial(fmt.Sprintf("queue/heap/%d", qc.Cap))
		}
		return
	case "file":
		_ = os.Remove(path)
		var err error
		a, err = createQueueManager(path, qc.Cap)
		if err != nil {
			c.count("queue_create_error", 1)
			c.inconclusiveCase(qc.name(), "createQueueManager: "+err.Error())
			return
		}
		stage = "mapping"
		b, err = mappingQueueManager(path)
		if err != nil {
			c.violation(qc.name(), qc, "the queue file the creator laid out cannot be mapped: %v", err)
			return
		}
	case "memfd":
		var err error
		a, err = createQueueManagerWithMemFd(path, qc.Cap)
		if err != nil {
			c.count("queue_create_error", 1)
			c.inconclusiveCase(qc.name(), "createQueueManagerWithMemFd: "+err.Error())
			return
		}
		nfd, err := syscall.Dup(a.memFd)
		if err != nil {
			c.inconclusiveCase(qc.name(), "dup: "+err.Error())
			return
		}
		stage = "mapping"
		b, err = mappingQueueManagerMemfd(path, nfd)
		if err != nil {
			_ = syscall.Close(nfd)
			c.violation(qc.name(), qc, "the queue memfd the creator laid out cannot be mapped: %v", err)
			return
		}
	}
	stage = "probe"
	if len(a.mem) > 0 && len(b.mem) > 0 && &a.mem[0] == &b.mem[0] {
		c.inconclusiveCase(qc.name(), "the two managers share one mapping; expected two mappings of the same object")
		return
	}
	if layoutCheckQueuePair(c, qc, a, b) {
		c.count("queue_pairs_ok", 1)
		c.nontrivial(fmt.Sprintf("queue/%s/%d", qc.Backend, qc.Cap))
	}
}

func layoutRunQueues(c *checkCtx, arena *layoutArena) {
	caps := []uint32{0, 1, 2, 3, 7, 8, 1023, 1024, 8192}
	idx := 0
	for _, backend := range []string{"heap", "file", "memfd"} {
		for _, qcap := range caps {
			layoutRunQueueCase(c, layoutQCase{Idx: idx, Cap: qcap, Backend: backend}, arena)
			idx++
		}
	}
	extra := c.pick(60, 1500)
	for i := 0; i < extra; i++ {
		rng := caseRand(c.seed, 30000000+i)
		var qcap uint32
		switch rng.Intn(3) {
		case 0:
			qcap = uint32(rng.Intn(40))
		case 1:
			qcap = uint32(layoutLogUniform(rng, 1, 20000))
		default:
			qcap = uint32(1) << uint(rng.Intn(15))
			qcap += uint32(rng.Intn(3)) - 1
		}
		backend := []string{"heap", "heap", "file", "memfd"}[rng.Intn(4)]
		layoutRunQueueCase(c, layoutQCase{Idx: idx, Cap: qcap, Backend: backend}, arena)
		idx++
	}
}

// ---------------------------------------------------------------------------------------------

func (st layoutStats) account(c *checkCtx, cs layoutCase, stream string, sampled *int) {
	if st.oobOnError {
		c.count(stream+"_error_path_wrote_outside_memory", 1)
	}
	if st.notAscending {
		c.count("classes_not_ascending", 1)
	}
	if st.counterDiffers {
		c.count("counter_word_differs_between_sides", 1)
	}
	if !st.accepted {
		c.count(stream+"_create_error", 1)
		c.count(stream+"_create_error:"+layoutErrClass(st.errText), 1)
		if st.oobOnError && os.Getenv("VERIF_LAYOUT_DEBUG") != "" {
			fmt.Printf("DEBUG oob-on-error %+v err=%s\n", cs, st.errText)
		}
		return
	}
	c.count(stream+"_accepted", 1)
	if st.mapped {
		c.count(stream+"_mapped", 1)
	}
	c.count(stream+"_slots_probed", st.slots)
	c.count(stream+"_patterns_compared", st.compar)
	c.count(stream+"_bytes_patterned", st.bytes)
	if st.mapped && st.compar == st.slots {
		c.nontrivial(fmt.Sprintf("%d/%s", cs.Offset, st.geo.key(cs.Offset)))
		one := false
		for _, cl := range st.geo.Classes {
			if cl.Cap == 1 {
				one = true
			}
		}
		if one {
			c.count(stream+"_accepted_with_a_one_slot_class", 1)
		}
		if len(cs.Pairs) > 1 && *sampled < 1 && st.slots > 0 {
			*sampled++
			c.sample(map[string]interface{}{"case": cs, "geometry": layoutBrief(st.geo), "slots_probed": st.slots})
		}
	}
}

func layoutErrClass(e string) string {
	switch {
	case strings.Contains(e, "percent must be"):
		return "percent-sum>100"
	case strings.Contains(e, "cannot be 0"):
		return "class-with-zero-slots-or-zero-size"
	case strings.HasPrefix(e, "mem's size is at least"):
		return "memory-too-small"
	case strings.Contains(e, "slice bounds out of range"):
		return "region-arithmetic-wrapped"
	}
	return "other"
}

func checkLayout(c *checkCtx) {
	c.rule = "a configuration is non-trivial when create accepted it (every class got at least one slot), the mapping side " +
		"was built from the same memory and every allocatable slot was pattern-probed through both managers (queues: both " +
		"directions crossed incl. wrap-around); distinct = distinct (memory size, offset, per class cap/capPerBuffer/region " +
		"offset/region length) tuple, per back-end for file/memfd/queue cases"
	c.assume("sizes never exceed the memory handed to create (the quantifier); empty pair lists and nil pairs are not generated")
	c.assume("mappings >= 4 GiB (uint32 wrap of Size+20) are not explored; hostile contents of an existing mapping are outside the statement")
	c.assume("the pairs are sorted before createBufferManager exactly as getGlobalBufferManager does; the real back-ends sort themselves")
	c.assume("amd64: unaligned list headers (odd slice sizes) are legal for the atomics used")
	if layoutSkipGeometry {
		c.noObservation("self-test mode VERIF_LAYOUT_SELFTEST_SKIP_GEOMETRY: the geometry oracle is switched off")
	}
	arena := &layoutArena{}

	// 1. boundary table + generated configurations on heap memory
	sampled := 0
	for _, cs := range layoutBoundaryTable() {
		cs.Seed = c.seed
		c.eval(1)
		c.count("table_configs", 1)
		layoutRunHeap(c, cs, arena).account(c, cs, "table", &sampled)
	}
	nPure := c.pick(20000, 2000000)
	sampled = 0
	for i := 0; i < nPure; i++ {
		cs := layoutGenPure(c.seed, i)
		c.eval(1)
		c.count("pure_configs", 1)
		layoutRunHeap(c, cs, arena).account(c, cs, "pure", &sampled)
	}

	// 2. VerifyConfig accepts => the create path returns an error or a sound layout, never panics
	nVC := c.pick(600, 20000)
	sampled = 0
	for i := 0; i < nVC; i++ {
		conf, cs := layoutGenConfig(c.seed, 10000000+i, 3<<20, false)
		cs.Stream = "verifyconfig"
		c.eval(1)
		c.count("verifyconfig_configs", 1)
		if err := layoutVerifyConfig(c, conf, cs); err != nil {
			c.count("verifyconfig_verdict_rejected", 1)
			continue
		}
		c.count("verifyconfig_verdict_accepted", 1)
		layoutRunHeap(c, cs, arena).account(c, cs, "verifyconfig", &sampled)
	}
	arena.backing = nil

	// 3. queues (heap wiring, file and memfd back-ends)
	layoutRunQueues(c, arena)
	arena.backing = nil

	// 4. real buffer back-ends, mapping side in child processes
	layoutRunMapped(c)

	// 5. the mapping side attaches while the creator side is in use (a new server process, e.g. after a hot restart, maps a
	// buffer region that other sessions are allocating from): every attach must reconstruct the creator's geometry
	layoutRunLiveMapping(c)

	// nothing of ours may stay behind in /dev/shm
	if left, _ := layoutShmLeftovers(); len(left) > 0 {
		c.count("shm_files_left_behind_removed", int64(len(left)))
		for _, f := range left {
			_ = os.Remove(f)
		}
	}

	if c.counter("pure_accepted") == 0 || c.counter("pure_patterns_compared") == 0 {
		c.noObservation("no generated configuration was accepted and probed on heap memory")
	}
	if c.counter("verifyconfig_verdict_accepted") == 0 || c.counter("verifyconfig_accepted") == 0 {
		c.noObservation("VerifyConfig accepted none of the generated Config values")
	}
	if c.counter("mapped_file_ok") == 0 || c.counter("mapped_memfd_ok") == 0 {
		c.noObservation("no configuration was mapped by a peer process through the file and the memfd back-end")
	}
	if c.counter("queue_pairs_ok") == 0 || c.counter("queue_elements_crossed") == 0 {
		c.noObservation("no queue pair was probed")
	}
}

func layoutShmLeftovers() ([]string, error) {
	dir, err := os.ReadDir("/dev/shm")
	if err != nil {
		return nil, err
	}
	prefix := strings.TrimPrefix(shmPrefix(), "/dev/shm/") + "layout_"
	var out []string
	for _, e := range dir {
		if strings.HasPrefix(e.Name(), prefix) {
			out = append(out, "/dev/shm/"+e.Name())
		}
	}
	return out, nil
}

// layoutRunLiveMapping: allocator traffic (including allocations that fail on an exhausted class) runs on the creator's manager
// while the same memory is mapped again and again; the geometry a mapper derives must equal the creator's every time.
func layoutRunLiveMapping(c *checkCtx) {
	n := c.pick(6, 120)
	for i := 0; i < n; i++ {
		rng := caseRand(c.seed, 88000000+i)
		nclass := 1 + rng.Intn(3)
		var pairs []*SizePercentPair
		left := uint32(100)
		for k := 0; k < nclass; k++ {
			pct := left
			if k < nclass-1 {
				pct = 10 + uint32(rng.Intn(int(left)-10*(nclass-k)))
			}
			left -= pct
			pairs = append(pairs, &SizePercentPair{Size: uint32(32 << uint(k*2)), Percent: pct})
		}
		mem := make([]byte, (64<<10)+rng.Intn(64<<10))
		creator, err := createBufferManager(pairs, "verif-live", mem, 0)
		c.eval(1)
		if err != nil {
			c.inconclusiveCase(fmt.Sprintf("live-mapping-%d", i), "create: "+err.Error())
			continue
		}
		want := layoutGeoOf(creator)
		// exhaust one class so that allocations on it fail (each failing pop moves the free counter down and up again)
		exhausted := rng.Intn(len(creator.lists))
		var hoarded []*bufferSlice
		for {
			b, e := creator.lists[exhausted].pop()
			if e != nil {
				break
			}
			hoarded = append(hoarded, b)
		}
		var stop uint32
		var wg sync.WaitGroup
		var ops int64
		for w := 0; w < 4; w++ {
			wg.Add(1)
			go func(w int) {
				defer wg.Done()
				r := rand.New(rand.NewSource(int64(i*16 + w)))
				for atomic.LoadUint32(&stop) == 0 {
					li := r.Intn(len(creator.lists))
					if w < 2 {
						li = exhausted
					}
					if b, e := creator.lists[li].pop(); e == nil {
						creator.lists[li].push(b)
					}
					atomic.AddInt64(&ops, 1)
				}
			}(w)
		}
		attaches := c.pick(20000, 200000)
		var firstBad string
		bad := 0
		for a := 0; a < attaches; a++ {
			m, err := mappingBufferManager("verif-live", mem, 0)
			if err != nil {
				bad++
				if firstBad == "" {
					firstBad = "mapping failed: " + err.Error()
				}
				continue
			}
			if prob := layoutCompareStatic(want, layoutGeoOf(m)); prob != "" {
				bad++
				if firstBad == "" {
					firstBad = "geometry differs: " + prob
				}
			}
		}
		atomic.StoreUint32(&stop, 1)
		wg.Wait()
		for _, b := range hoarded {
			creator.lists[exhausted].push(b)
		}
		c.count("live_mapping_attaches", int64(attaches))
		c.count("live_mapping_allocator_ops_meanwhile", atomic.LoadInt64(&ops))
		if atomic.LoadInt64(&ops) > 0 {
			c.nontrivial(fmt.Sprintf("live-mapping/%d/%d", nclass, exhausted))
		}
		if bad > 0 {
			c.violation(fmt.Sprintf("live-mapping-%d", i), map[string]interface{}{"index": i, "classes": nclass, "exhausted_class": exhausted, "failed_attaches": bad, "attaches": attaches},
				"a peer attaching to a buffer region that is in use (class %d exhausted, allocations failing on it) could not reconstruct the creator's layout in %d of %d attempts: %s",
				exhausted, bad, attaches, firstBad)
		}
	}
}

// layoutCompareStatic compares what does not change while the allocator runs: classes, capacities, slot sizes, region and
// header offsets and the identity of the shared words (head/tail/size values move with the traffic and are not compared).
func layoutCompareStatic(a, b layoutGeo) string {
	if len(a.Classes) != len(b.Classes) {
		return fmt.Sprintf("creator has %d classes, mapper %d", len(a.Classes), len(b.Classes))
	}
	if a.Min != b.Min || a.Max != b.Max {
		return fmt.Sprintf("creator min/max slice size %d/%d, mapper %d/%d", a.Min, a.Max, b.Min, b.Max)
	}
	for i := range a.Classes {
		x, y := a.Classes[i], b.Classes[i]
		if x.Cap != y.Cap || x.CapPerBuffer != y.CapPerBuffer || x.RegionOff != y.RegionOff || x.RegionLen != y.RegionLen || x.HdrOff != y.HdrOff {
			return fmt.Sprintf("class %d: creator (cap %d capPerBuffer %d region %d+%d hdr %d) != mapper (cap %d capPerBuffer %d region %d+%d hdr %d)",
				i, x.Cap, x.CapPerBuffer, x.RegionOff, x.RegionLen, x.HdrOff, y.Cap, y.CapPerBuffer, y.RegionOff, y.RegionLen, y.HdrOff)
		}
		if x.PSize != y.PSize || x.PCap != y.PCap || x.PHead != y.PHead || x.PTail != y.PTail || x.PCapPerBuf != y.PCapPerBuf || x.PRegion != y.PRegion {
			return fmt.Sprintf("class %d: the two sides use different shared words", i)
		}
	}
	return ""
}
