package shmipc

// C16: hot restart moves every session to the new server without a stuck state.
// Old listener, new listener on the same unix path, SessionManager with 1..4 sessions, client traffic throughout;
// scenario list x PRNG delays of the per-session restart events. Replies carry the tag of the listener that served them.

import (
	"encoding/binary"
	"fmt"
	"math/rand"
	"os"
	"path/filepath"
	"sync"
	"sync/atomic"
	"time"
)

func init() {
	verifChecks["C16"] = checkHotRestart
}

type hrCase struct {
	Idx          int    `json:"idx"`
	Scenario     string `json:"scenario"` // complete | foreign-epochs | new-not-accepting | client-session-lost | back-to-back
	Rebuilt      bool   `json:"one_session_lost_and_rebuilt_before_the_restart"`
	SlowHandOver bool   `json:"pause_longer_than_the_check_tick_between_the_sessions"`
	Sessions     int    `json:"sessions"`
	Memfd        bool   `json:"memfd"`
	Traffic      int    `json:"traffic_goroutines"`
	Seed         int64  `json:"seed"`
}

type hrTrip struct {
	start, end int64 // logical clock
	ok         bool
	tag        uint32
	err        string
}

type hrResult struct {
	viol        []string
	inconcl     string
	trips       int
	tripsOld    int
	tripsNew    int
	tripsFailed int
	listenerMs  int64
	managerMs   int64
	swapped     bool
}

func hrRoundTrip(sm *SessionManager, id uint64) (tag uint32, err error) {
	s, err := sm.GetStream()
	if err != nil {
		return 0, err
	}
	tag, err = hrRoundTripOn(s, id)
	if err != nil {
		s.Close()
		return 0, err
	}
	sm.PutBack(s)
	return tag, nil
}

func hrRoundTripOn(s *Stream, id uint64) (uint32, error) {
	req := make([]byte, poolHdr+24)
	binary.BigEndian.PutUint64(req[0:8], id)
	binary.BigEndian.PutUint32(req[8:12], 24)
	fillKeyed(req[poolHdr:], id, 0)
	if _, err := s.BufferWriter().WriteBytes(req); err != nil {
		return 0, err
	}
	if err := s.Flush(false); err != nil {
		return 0, err
	}
	s.SetReadDeadline(time.Now().Add(10 * time.Second))
	rep, err := s.BufferReader().ReadBytes(poolHdr + 24)
	if err != nil {
		return 0, err
	}
	if binary.BigEndian.Uint64(rep[0:8]) != id {
		return 0, fmt.Errorf("reply to a different request id")
	}
	tag := binary.BigEndian.Uint32(rep[12:16])
	s.BufferReader().ReleasePreviousRead()
	return tag, nil
}

func runHotRestartCase(c *checkCtx, cs hrCase, can *canary) (res hrResult) {
	rng := rand.New(rand.NewSource(cs.Seed))
	violate := func(format string, a ...interface{}) {
		if len(res.viol) < 6 {
			res.viol = append(res.viol, fmt.Sprintf(format, a...))
		}
	}
	path := filepath.Join(sockDir(), fmt.Sprintf("hr%d.sock", atomic.AddUint64(&pairSeq, 1)))
	old, err := startPoolServerAt(path, 1, true)
	if err != nil {
		res.inconcl = "old listener: " + err.Error()
		return
	}
	defer os.Remove(path)
	defer old.ln.Close()
	smc := DefaultSessionManagerConfig()
	conf, _ := newTestConfig(pairOpt{memfd: cs.Memfd, sizes: smallSizes(256, 30, 4096, 70), bufCap: 2 << 20, initTO: 3 * time.Second})
	if cs.Scenario == "new-not-accepting" {
		conf.InitializeTimeout = 400 * time.Millisecond
	}
	smc.Config = conf
	smc.Network = "unix"
	smc.Address = path
	smc.SessionNum = cs.Sessions
	smc.MaxStreamNum = 64
	smc.Config.rebuildInterval = 50 * time.Millisecond
	sm, err := NewSessionManager(smc)
	if err != nil {
		res.inconcl = "session manager: " + err.Error()
		return
	}
	defer func() { sm.Close(); fenceN(2) }()

	// Known finding F2: a stream operation that overlaps its session's teardown is process-fatal (also for the echo handlers
	// of the in-process server). Sessions are therefore only closed while no round trip is in flight: traffic goroutines hold
	// the read side per round trip, closers the write side until the teardown has finished.
	var world sync.RWMutex
	closeQuiesced := func(closeFn func(), sessions []*Session) {
		world.Lock()
		defer world.Unlock()
		closeFn()
		for _, s := range sessions {
			if s != nil {
				waitUntil(10*time.Second, func() bool { fenceOnce(5 * time.Second); return s.IsClosed() })
				waitTeardown(s, 10*time.Second)
			}
		}
	}
	// In the two failure scenarios the library itself closes sessions from its time-out paths (reserve pools of a failed
	// restart); traffic is paused while those paths run, for the same reason.
	var paused uint32
	var clock int64
	var trips []hrTrip
	var tripMu sync.Mutex
	var nextID uint64
	stop := make(chan struct{})
	var twg sync.WaitGroup
	for g := 0; g < cs.Traffic; g++ {
		twg.Add(1)
		go func() {
			defer twg.Done()
			for {
				select {
				case <-stop:
					return
				default:
				}
				if atomic.LoadUint32(&paused) == 1 {
					time.Sleep(200 * time.Microsecond)
					continue
				}
				world.RLock()
				t0 := atomic.AddInt64(&clock, 1)
				tag, err := hrRoundTrip(sm, atomic.AddUint64(&nextID, 1))
				t1 := atomic.AddInt64(&clock, 1)
				world.RUnlock()
				tr := hrTrip{start: t0, end: t1, ok: err == nil, tag: tag}
				if err != nil {
					tr.err = err.Error()
					time.Sleep(300 * time.Microsecond)
				}
				tripMu.Lock()
				trips = append(trips, tr)
				tripMu.Unlock()
			}
		}()
	}
	stopTraffic := func() { close(stop); twg.Wait() }
	var tRebuilt int64 // logical time at which an injected pre-restart loss had been healed
	if cs.Rebuilt {
		// one session is lost and rebuilt by its watcher before the restart: the rebuilt session must take part in the
		// hand-over like the ones the manager started with
		waitUntil(10*time.Second, func() bool { return len(old.sessionList()) == cs.Sessions })
		ol := old.sessionList()
		if len(ol) == 0 {
			stopTraffic()
			res.inconcl = "no session on the old listener"
			return
		}
		victim := ol[0]
		var peer *Session
		sm.RLock()
		for _, p := range sm.pools {
			if s := p.Session(); s != nil && s.sessionName() == victim.sessionName() {
				peer = s
			}
		}
		sm.RUnlock()
		closeQuiesced(func() { victim.Close() }, []*Session{victim, peer})
		rebuilt := waitUntil(10*time.Second, func() bool {
			sm.RLock()
			defer sm.RUnlock()
			for _, p := range sm.pools {
				if s := p.Session(); s == nil || s.IsClosed() {
					return false
				}
			}
			return len(old.sessionList()) == cs.Sessions
		})
		if !rebuilt {
			stopTraffic()
			res.inconcl = "the lost session was not rebuilt before the restart (C17's subject)"
			return
		}
		tRebuilt = atomic.AddInt64(&clock, 1)
	}
	// a stream taken before the restart: the old session must stay usable until the old server lets go
	held, err := sm.GetStream()
	if err != nil {
		stopTraffic()
		res.inconcl = "GetStream before the restart: " + err.Error()
		return
	}
	if _, err := hrRoundTripOn(held, atomic.AddUint64(&nextID, 1)); err != nil {
		stopTraffic()
		res.inconcl = "round trip before the restart: " + err.Error()
		return
	}
	time.Sleep(time.Duration(2+rng.Intn(10)) * time.Millisecond)
	const epoch = 1024
	runNew := cs.Scenario != "new-not-accepting"
	nw, err := startPoolServerAt(path, 2, runNew)
	if err != nil {
		stopTraffic()
		res.inconcl = "new listener: " + err.Error()
		return
	}
	defer nw.ln.Close()
	waitUntil(10*time.Second, func() bool { return len(old.sessionList()) == cs.Sessions })
	oldSessions := old.sessionList()
	if len(oldSessions) != cs.Sessions {
		stopTraffic()
		res.inconcl = fmt.Sprintf("old listener has %d sessions, expected %d", len(oldSessions), cs.Sessions)
		return
	}
	if cs.Scenario == "new-not-accepting" || cs.Scenario == "client-session-lost" {
		atomic.StoreUint32(&paused, 1)
		world.Lock() // wait for round trips in flight
		world.Unlock()
	}
	dial := &hrDialStat{slow: cs.SlowHandOver}
	hrDial.Store(sm, dial)
	defer hrDial.Delete(sm)
	tRestart := atomic.AddInt64(&clock, 1)
	can.reset()
	t0 := time.Now()
	if cs.Scenario == "foreign-epochs" {
		hrForeign.Store(old.ln, true)
		hrForeign.Store(sm, true)
		defer hrForeign.Delete(old.ln)
		defer hrForeign.Delete(sm)
	}
	if err := old.ln.HotRestart(epoch); err != nil {
		stopTraffic()
		res.inconcl = "HotRestart: " + err.Error()
		return
	}
	switch cs.Scenario {
	case "foreign-epochs":
		// injected by the hook handlers (see checkHotRestart): right behind every real restart event a restart event with a
		// foreign epoch travels on the same connection, and every old client session sends an acknowledgement with a foreign
		// epoch before the real one. Both must change nothing; judged below (epochs, session counts, listener end state).
	case "client-session-lost":
		// one client-side session dies right away: its acknowledgement will never come
		sm.RLock()
		var victim *Session
		if rp := sm.reservePools[0]; rp != nil {
			victim = rp.Session()
		} else if sm.pools[0].Session().epochID == 0 {
			victim = sm.pools[0].Session()
		}
		sm.RUnlock()
		if victim != nil {
			closeQuiesced(func() { victim.Close() }, []*Session{victim})
		}
	case "back-to-back":
		if err := old.ln.HotRestart(epoch + 1); err != ErrHotRestartInProgress {
			violate("a second HotRestart while one is in progress returned %v, want ErrHotRestartInProgress", err)
		}
	}
	// bounded exit from the hot-restart state on both sides
	bound := hotRestartCheckTimeout + time.Duration(cs.Sessions)*conf.InitializeTimeout + 3*time.Second
	listenerDone := waitUntil(bound, func() bool { return old.ln.IsHotRestartDone() })
	res.listenerMs = time.Since(t0).Milliseconds()
	managerDone := waitUntil(bound-time.Since(t0)+500*time.Millisecond, func() bool {
		sm.RLock()
		defer sm.RUnlock()
		return sm.state != hotRestartState
	})
	res.managerMs = time.Since(t0).Milliseconds()
	if !listenerDone || !managerDone {
		if can.healthy(200 * time.Millisecond) {
			if !listenerDone {
				violate("listener still in hot-restart state %v after HotRestart (scenario %s)", bound, cs.Scenario)
			}
			if !managerDone {
				violate("session manager still in hot-restart state %v after the restart request (scenario %s)", bound, cs.Scenario)
			}
		} else {
			res.inconcl = "state exit not observed in time, machine overloaded"
		}
		stopTraffic()
		return
	}
	time.Sleep(5 * time.Millisecond)
	fenceN(2)
	atomic.StoreUint32(&paused, 0)
	tDone := atomic.AddInt64(&clock, 1)
	// what the hand-over must have achieved
	sm.RLock()
	allNew := true
	var epochs []uint64
	for _, p := range sm.pools {
		e := p.Session().epochID
		epochs = append(epochs, e)
		if e != epoch {
			allNew = false
		}
	}
	smEpoch := sm.epoch
	sm.RUnlock()
	res.swapped = allNew
	switch cs.Scenario {
	case "complete", "foreign-epochs", "back-to-back":
		if cs.Scenario == "foreign-epochs" && smEpoch == epoch+555 {
			// The manager ran a restart for the injected epoch. It only ever *starts* a restart from its idle state, so the injected
			// event was the first restart event it saw in that state: either it overtook the real one on the connection (the
			// library writes a restart event directly when the connection is free and queues it for the send loop otherwise, so
			// two events issued back to back can swap under contention - a restart has only one event per session, the second
			// one is the harness's) or it was handled after the announced restart had ended. Both are legitimate new restarts.
			res.inconcl = fmt.Sprintf("the injected foreign-epoch event started a restart of its own (manager epoch %d, epochs %v): it overtook the real event or came after the announced restart had ended; scenario not judged", smEpoch, epochs)
			stopTraffic()
			return
		}
		if cs.Scenario == "foreign-epochs" && !allNew {
			// The foreign restart event travels right behind the real one, but whether it is *handled* while the real restart is
			// still in progress depends on how long the client's handshake with the new server takes (the manager's checker
			// ends the restart at its next 100 ms tick). Handled after the end it is, legitimately, the start of a new restart.
			// That case is recognisable: the listener saw the announced restart complete properly.
			old.ln.mu.Lock()
			completed := old.ln.state == hotRestartDoneState && old.ln.hotRestartAckCount == 0
			old.ln.mu.Unlock()
			if completed {
				res.inconcl = fmt.Sprintf("the injected foreign-epoch event was handled after the announced restart had completed (epochs %v): a legitimate new restart, scenario not judged", epochs)
				stopTraffic()
				return
			}
		}
		{
			// A hand-over that did not finish inside the protocol's own 2 s window (the listener gave up: not in its done state)
			// although no fault was injected is only judged when the client's part was fast: if the handshakes with the new server
			// took a large part of that window (or the harness itself paused the hand-over, or the scheduler canary is unhealthy) the time-out is the machine's, and what the
			// still queued restart / foreign-epoch events do afterwards is a new restart, legitimately.
			old.ln.mu.Lock()
			lnDone := old.ln.state == hotRestartDoneState && old.ln.hotRestartAckCount == 0
			old.ln.mu.Unlock()
			dialMs := atomic.LoadInt64(&dial.totalNs) / 1e6
			if !lnDone && (dialMs >= 700 || dial.slow || !can.healthy(200*time.Millisecond)) {
				res.inconcl = fmt.Sprintf("the hand-over did not complete inside the protocol's 2 s window and the client's handshakes with the new server took %d ms of it "+
					"(epochs %v, listener left the state after %d ms): a time-out of the machine, not judged", dialMs, epochs, res.listenerMs)
				stopTraffic()
				return
			}
		}
		if !allNew {
			violate("after a completed hot restart the pools' sessions have epochs %v, announced epoch %d", epochs, epoch)
		}
		if smEpoch != epoch {
			violate("session manager epoch is %d after the restart to epoch %d (a foreign epoch was adopted)", smEpoch, epoch)
		}
		// the server registers a session after ITS side of the handshake; a v2 client returns before that, so give it time
		waitUntil(5*time.Second, func() bool { return len(nw.sessionList()) >= cs.Sessions })
		time.Sleep(2 * time.Millisecond)
		if n := len(nw.sessionList()); allNew && n != cs.Sessions {
			violate("new listener holds %d sessions after the hand-over of %d pools", n, cs.Sessions)
		}
		old.ln.mu.Lock()
		lnState, lnAcks := old.ln.state, old.ln.hotRestartAckCount
		old.ln.mu.Unlock()
		if lnState == defaultState && lnAcks < 0 && allNew {
			// the listener gave up after its 2 s and reset its counter; the acknowledgements arrived afterwards (every pool did move):
			// the hand-over was slower than the protocol's window, which without an injected fault is the machine's doing
			res.inconcl = fmt.Sprintf("the acknowledgements reached the listener after its 2 s time-out (state %d, counter %d, listener %d ms, manager %d ms): hand-over slower than the protocol's window, not judged",
				lnState, lnAcks, res.listenerMs, res.managerMs)
			stopTraffic()
			return
		}
		if lnState != hotRestartDoneState || lnAcks != 0 {
			violate("listener ended the hot restart in state %d with %d acknowledgements pending (want done state, 0): acknowledgements were miscounted",
				lnState, lnAcks)
		}
		// the old sessions stay usable until the old server lets go
		if held.Session().IsClosed() {
			violate("the old session was closed although the old server has not let go yet")
		} else if tag, err := hrRoundTripOn(held, atomic.AddUint64(&nextID, 1)); err != nil {
			violate("a stream of the old session stopped working before the old server let go: %v", err)
		} else if tag != 1 {
			violate("a stream of the old session was answered by listener %d", tag)
		}
		// fresh streams now come from the new server
		for i := 0; i < 3*cs.Sessions*sessionRoundRobinThreshold/8+4; i++ {
			tag, err := hrRoundTrip(sm, atomic.AddUint64(&nextID, 1))
			if err != nil {
				violate("GetStream/round trip failed after the hand-over completed: %v", err)
				break
			}
			if tag != 2 {
				violate("after the hand-over completed a fresh stream was served by the old listener")
				break
			}
		}
	case "new-not-accepting":
		if cs.Memfd && allNew {
			// with file mapping the v2 client handshake needs no answer, so sessions to a server that does not accept yet still
			// "succeed" on the client; only memfd handshakes must have failed
			violate("pools were swapped although the new server never accepted a connection")
		}
	}
	held.Close()
	tOldClose := atomic.AddInt64(&clock, 1)
	{
		// the old server lets go: its sessions and the client's replaced sessions go down together
		doomed := append([]*Session{}, old.sessionList()...)
		sm.RLock()
		for _, p := range sm.reservePools {
			doomed = append(doomed, p.Session())
		}
		for _, p := range sm.pools {
			if p.Session().epochID != epoch {
				doomed = append(doomed, p.Session())
			}
		}
		sm.RUnlock()
		closeQuiesced(func() { old.ln.Close() }, doomed)
	}
	if cs.Scenario == "back-to-back" && len(res.viol) == 0 {
		// a second restart (to a third listener) after the first one is done
		third, err := startPoolServerAt(path, 3, true)
		if err == nil {
			defer third.ln.Close()
			if err := nw.ln.HotRestart(epoch + 1); err != nil {
				violate("second hot restart after the first completed was refused: %v", err)
			} else {
				ok := waitUntil(bound, func() bool {
					sm.RLock()
					defer sm.RUnlock()
					return nw.ln.IsHotRestartDone() && sm.state != hotRestartState
				})
				sm.RLock()
				for _, p := range sm.pools {
					if p.Session().epochID != epoch+1 {
						ok = false
					}
				}
				sm.RUnlock()
				if !ok && can.healthy(200*time.Millisecond) {
					violate("second hot restart (epoch %d) did not move every pool within %v", epoch+1, bound)
				}
			}
		}
	}
	// eventually (rebuild interval) every pool works again, whatever happened
	healed := waitUntil(8*time.Second, func() bool {
		if cs.Scenario == "new-not-accepting" {
			return true
		}
		for i := 0; i < cs.Sessions*sessionRoundRobinThreshold; i++ {
			if _, err := hrRoundTrip(sm, atomic.AddUint64(&nextID, 1)); err != nil {
				time.Sleep(5 * time.Millisecond)
				return false
			}
		}
		return true
	})
	if !healed && can.healthy(200*time.Millisecond) {
		violate("GetStream does not yield working streams on every pool 8 s after the hot restart (scenario %s)", cs.Scenario)
	}
	stopTraffic()
	// round trips: entirely before the old listener was closed, or started after the swap completed, must have succeeded
	for _, tr := range trips {
		res.trips++
		switch {
		case !tr.ok:
			res.tripsFailed++
		case tr.tag == 1:
			res.tripsOld++
		default:
			res.tripsNew++
		}
		if tr.ok || cs.Scenario == "client-session-lost" || cs.Scenario == "new-not-accepting" {
			continue
		}
		if cs.Rebuilt && tr.start <= tRebuilt {
			continue // calls around the injected loss (before the restart) fail by design
		}
		if tr.end < tOldClose {
			violate("a round trip that ran entirely before the old listener was closed failed (%s) [restart requested at tick %d, done at %d, trip %d..%d]",
				tr.err, tRestart, tDone, tr.start, tr.end)
			break
		}
	}
	if cs.Scenario == "foreign-epochs" && len(res.viol) > 0 {
		// under load the injected foreign event may be handled long after the announced restart has ended (it is queued behind
		// other traffic); it is then a new restart request and legitimately replaces every session once more, whatever this
		// execution was judging meanwhile
		sm.RLock()
		late := sm.epoch == epoch+555
		sm.RUnlock()
		if late {
			res.inconcl = fmt.Sprintf("the injected foreign-epoch event was handled after the judgement had begun and started a restart of its own; not judged (would have reported: %s)", res.viol[0])
			res.viol = nil
		}
	}
	return
}

var hrForeign sync.Map // *Listener / *SessionManager -> true: inject foreign-epoch events for this execution

// hrDial: per manager, the time its hot-restart handler spent inside newClientSession (dial + handshake with the new server)
type hrDialStat struct {
	startNs, totalNs int64
	slow             bool // this case: the hand-over of every session but the first is preceded by a pause longer than the manager's 100 ms check tick
	seen             int32
}

var hrDial sync.Map

func checkHotRestart(c *checkCtx) {
	c.rule = "scenario list (complete hand-over, foreign-epoch events injected, new server not accepting, client session lost mid-way, two restarts " +
		"back to back) x 1..4 sessions x file/memfd x PRNG delays between the per-session restart events (hooks LnHotRestartSent, " +
		"SMHotRestartBeforeNew); client traffic on 4..8 goroutines throughout, every reply tagged by the listener that served it; non-trivial = at " +
		"least one round trip was served by the old and one by the new listener (or, for failure scenarios, the state exit was observed); " +
		"distinct = distinct (scenario, sessions, mapping, swapped, bucketed listener/manager exit times)"
	c.assume("bounded-progress bound: hotRestartCheckTimeout (2 s) + sessions x InitializeTimeout + 3 s, judged only with a healthy canary")
	c.assume("in-process listeners (old and new) and session manager; the process-level variant (servers in children) is not built")
	can := startCanary()
	defer can.close()
	k := newCtl("c16", c.seed)
	k.set(vpLnHotRestartSent, 600, 4*time.Millisecond, 100)
	k.set(vpSMHotRestartBeforeNew, 500, 800*time.Microsecond, 100)
	k.set(vpLnAck, 500, 500*time.Microsecond, 100)
	k.on(vpLnHotRestartSent, func(obj interface{}, n int64) {
		if ss, _ := obj.(*Session); ss != nil && ss.listener != nil {
			if _, ok := hrForeign.Load(ss.listener); ok {
				_ = ss.hotRestart(uint64(n)+555, typeHotRestart) // foreign epoch right behind the real event, same connection
				c.count("foreign-epoch restart events injected", 1)
			}
		}
	})
	k.on(vpSMHotRestartBeforeNew, func(obj interface{}, n int64) {
		if m, _ := obj.(*SessionManager); m != nil {
			if v, ok := hrDial.Load(m); ok {
				st := v.(*hrDialStat)
				if st.slow && atomic.AddInt32(&st.seen, 1) == 2 {
					// a slow hand-over: the manager's periodic check (100 ms tick) runs between the replacement of the first and
					// of the second session. One pause per case: this handler runs on the process-wide event loop.
					time.Sleep(115 * time.Millisecond)
				}
				atomic.StoreInt64(&st.startNs, time.Now().UnixNano())
			}
		}
	})
	k.on(vpSMHotRestartAfterNew, func(obj interface{}, n int64) {
		if m, _ := obj.(*SessionManager); m != nil {
			if v, ok := hrDial.Load(m); ok {
				st := v.(*hrDialStat)
				if s0 := atomic.LoadInt64(&st.startNs); s0 != 0 {
					atomic.AddInt64(&st.totalNs, time.Now().UnixNano()-s0)
				}
			}
		}
		if m, _ := obj.(*SessionManager); m != nil {
			if _, ok := hrForeign.Load(m); ok {
				// sm's lock is held by the caller; pools[n] is still the old pool here
				if p := m.pools[n]; p != nil && p.Session() != nil {
					_ = p.Session().hotRestart(m.epoch+999, typeHotRestartAck)
					c.count("foreign-epoch acknowledgements injected", 1)
				}
			}
		}
	})
	k.install()
	defer uninstallCtl()
	scen := []string{"complete", "foreign-epochs", "new-not-accepting", "client-session-lost", "back-to-back", "complete"}
	n := c.pick(12, 240)
	var mu sync.Mutex
	var wg sync.WaitGroup
	sem := make(chan struct{}, 4)
	for i := 0; i < n; i++ {
		rng := caseRand(c.seed, 600000+i)
		cs := hrCase{Idx: i, Scenario: scen[i%len(scen)], Sessions: 1 + rng.Intn(4), Memfd: rng.Intn(2) == 0, Traffic: 4 + rng.Intn(5), Seed: rng.Int63(), Rebuilt: i%6 == 5, SlowHandOver: i%6 == 0 || i%12 == 4}
		if cs.SlowHandOver && cs.Sessions < 2 {
			cs.Sessions = 2 + rng.Intn(3)
		}
		wg.Add(1)
		sem <- struct{}{}
		go func(cs hrCase) {
			defer wg.Done()
			defer func() { <-sem }()
			res := runHotRestartCase(c, cs, can)
			if res.inconcl != "" {
				res = runHotRestartCase(c, cs, can)
			}
			mu.Lock()
			defer mu.Unlock()
			c.eval(1)
			name := fmt.Sprintf("hotrestart-%d-%s", cs.Idx, cs.Scenario)
			c.count("round trips total", int64(res.trips))
			c.count("round trips served by the old listener", int64(res.tripsOld))
			c.count("round trips served by the new listener", int64(res.tripsNew))
			c.count("round trips failed (allowed only around the old listener's close / in failure scenarios)", int64(res.tripsFailed))
			c.count("scenario."+cs.Scenario, 1)
			if res.swapped {
				c.count("executions in which every pool moved to the announced epoch", 1)
			}
			if res.inconcl != "" {
				c.inconclusiveCase(name, res.inconcl)
				return
			}
			if (res.tripsOld > 0 && res.tripsNew > 0) || (cs.Scenario == "new-not-accepting" || cs.Scenario == "client-session-lost") {
				c.nontrivial(fmt.Sprintf("%s/%d/%v/%v/%d/%d", cs.Scenario, cs.Sessions, cs.Memfd, res.swapped, res.listenerMs/250, res.managerMs/250))
			}
			if cs.Idx < 5 {
				c.sample(map[string]interface{}{"case": cs, "listener_left_state_ms": res.listenerMs, "manager_left_state_ms": res.managerMs,
					"trips_old": res.tripsOld, "trips_new": res.tripsNew, "trips_failed": res.tripsFailed})
			}
			if len(res.viol) > 0 {
				c.violation(name, map[string]interface{}{"case": cs, "violations": res.viol, "listener_ms": res.listenerMs, "manager_ms": res.managerMs}, "%s", res.viol[0])
			}
		}(cs)
	}
	wg.Wait()
	c.count("hook hits: per-session restart events sent", int64(k.hitCount(vpLnHotRestartSent)))
	c.count("hook hits: acknowledgements handled", int64(k.hitCount(vpLnAck)))
}
