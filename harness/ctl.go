package shmipc

import (
	"fmt"
	"hash/fnv"
	"runtime"
	"sync/atomic"
	"syscall"
	"time"
)

// Perturbation controller: installed as the repository's verifHook. At every hook point it
//   - counts the hit and the (previous point -> this point) transition (process-wide): transitions between
//     points of *different* operations are direct evidence that the two operations interleaved there;
//   - runs the point's handler, if the scenario installed one (fault injection: die / sever / stall);
//   - with the profile's probability perturbs the schedule: Gosched, spin, or sleep.
type pointProfile struct {
	prob     uint32        // probability of perturbing, out of 65536
	maxSleep time.Duration // 0: only gosched/spin
	sleepPct uint32        // among perturbations: percentage that sleep (rest: half gosched, half spin)
}

type ctl struct {
	name     string
	pp       [vpPointCount]pointProfile
	handlers [vpPointCount]func(obj interface{}, n int64)
	hits     [vpPointCount]uint64
	trans    [vpPointCount + 1][vpPointCount]uint64
	last     uint32
	rngCtr   uint64
	perturbs uint64
	fn       verifHookFn
}

func newCtl(name string, seed int64) *ctl {
	k := &ctl{name: name, rngCtr: uint64(seed) * 0x9E3779B97F4A7C15}
	k.fn = k.hook
	return k
}

func (k *ctl) rand() uint64 {
	x := atomic.AddUint64(&k.rngCtr, 0x9E3779B97F4A7C15)
	x ^= x >> 30
	x *= 0xBF58476D1CE4E5B9
	x ^= x >> 27
	x *= 0x94D049BB133111EB
	x ^= x >> 31
	return x
}

// set configures one point: prob out of 1000, sleeps up to maxSleep in sleepPct % of perturbations.
func (k *ctl) set(point int, perMille int, maxSleep time.Duration, sleepPct int) *ctl {
	k.pp[point] = pointProfile{prob: uint32(perMille * 65536 / 1000), maxSleep: maxSleep, sleepPct: uint32(sleepPct)}
	return k
}

func (k *ctl) setAll(points []int, perMille int, maxSleep time.Duration, sleepPct int) *ctl {
	for _, p := range points {
		k.set(p, perMille, maxSleep, sleepPct)
	}
	return k
}

func (k *ctl) on(point int, h func(obj interface{}, n int64)) *ctl {
	k.handlers[point] = h
	return k
}

func (k *ctl) install() {
	f := k.fn
	verifHook.Store(&f)
}

func uninstallCtl() {
	verifHook.Store((*verifHookFn)(nil))
}

func (k *ctl) hook(point int, obj interface{}, n int64) {
	atomic.AddUint64(&k.hits[point], 1)
	prev := atomic.SwapUint32(&k.last, uint32(point)+1)
	atomic.AddUint64(&k.trans[prev][point], 1)
	if h := k.handlers[point]; h != nil {
		h(obj, n)
	}
	p := &k.pp[point]
	if p.prob == 0 {
		return
	}
	r := k.rand()
	if uint32(r&0xffff) >= p.prob {
		return
	}
	atomic.AddUint64(&k.perturbs, 1)
	r >>= 16
	pct := uint32(r % 100)
	r >>= 8
	if p.maxSleep > 0 && pct < p.sleepPct {
		time.Sleep(time.Duration(r%uint64(p.maxSleep)) + 1)
		return
	}
	if r&1 == 0 {
		runtime.Gosched()
		return
	}
	spinFor(int(r>>1) % 2000)
}

var spinSink uint64

func spinFor(n int) {
	for i := 0; i < n; i++ {
		atomic.AddUint64(&spinSink, 1)
	}
}

func (k *ctl) hitCount(point int) uint64 { return atomic.LoadUint64(&k.hits[point]) }

// crossTransitions counts transitions prev->cur with prev in setA and cur in setB (either direction).
func (k *ctl) crossTransitions(setA, setB []int) (n uint64, distinct int) {
	inA := map[int]bool{}
	inB := map[int]bool{}
	for _, p := range setA {
		inA[p] = true
	}
	for _, p := range setB {
		inB[p] = true
	}
	for prev := 1; prev <= vpPointCount; prev++ {
		for cur := 0; cur < vpPointCount; cur++ {
			v := atomic.LoadUint64(&k.trans[prev][cur])
			if v == 0 {
				continue
			}
			pp := prev - 1
			if (inA[pp] && inB[cur]) || (inB[pp] && inA[cur]) {
				n += v
				distinct++
			}
		}
	}
	return
}

// signature hashes the bucketed transition matrix: two executions with the same signature exercised the
// same set of point-to-point hand-overs with counts of the same order of magnitude.
func (k *ctl) signature() string {
	h := fnv.New64a()
	for prev := 0; prev <= vpPointCount; prev++ {
		for cur := 0; cur < vpPointCount; cur++ {
			v := atomic.LoadUint64(&k.trans[prev][cur])
			if v == 0 {
				continue
			}
			b := 1
			switch {
			case v >= 1000:
				b = 4
			case v >= 100:
				b = 3
			case v >= 10:
				b = 2
			}
			fmt.Fprintf(h, "%d>%d:%d;", prev, cur, b)
		}
	}
	return fmt.Sprintf("%016x", h.Sum64())
}

// transitionNames lists the distinct cross transitions as strings (for evidence samples).
func (k *ctl) transitionNames(setA, setB []int, max int) []string {
	inA := map[int]bool{}
	inB := map[int]bool{}
	for _, p := range setA {
		inA[p] = true
	}
	for _, p := range setB {
		inB[p] = true
	}
	var out []string
	for prev := 1; prev <= vpPointCount; prev++ {
		for cur := 0; cur < vpPointCount; cur++ {
			v := atomic.LoadUint64(&k.trans[prev][cur])
			if v == 0 {
				continue
			}
			pp := prev - 1
			if (inA[pp] && inB[cur]) || (inB[pp] && inA[cur]) {
				if len(out) < max {
					out = append(out, fmt.Sprintf("%s->%s x%d", vpPointNames[pp], vpPointNames[cur], v))
				}
			}
		}
	}
	return out
}

func (k *ctl) hitMap(points []int) map[string]uint64 {
	m := map[string]uint64{}
	for _, p := range points {
		m[vpPointNames[p]] = k.hitCount(p)
	}
	return m
}

// ---- fault actions usable from handlers

func dieNow() {
	_ = syscall.Kill(syscall.Getpid(), syscall.SIGKILL)
	select {}
}

func severSession(s *Session) {
	if s != nil {
		_ = syscall.Shutdown(s.connFd, syscall.SHUT_RDWR)
	}
}

var (
	popPoints   = []int{vpPopReserved, vpPopLoopTop, vpPopHasNext, vpPopCleared, vpPopInUsed}
	pushPoints  = []int{vpPushReset, vpPushLoadedTail, vpPushCASed, vpPushLinked, vpLinkNextMid}
	qPutPoints  = []int{vpQPutChecked, vpQPutStore1, vpQPutStore2, vpQPutBeforeTail}
	qPopPoints  = []int{vpQPopNonEmpty, vpQPopLoad1, vpQPopLoad2, vpQPopBeforeHead}
	mnwPoints   = []int{vpMNWStored0, vpMNWBeforeStore1, vpPollBeforeMNW}
	wakePoints  = []int{vpWakeMarked, vpWakeSlow, vpFlushPut}
	cbPoints    = []int{vpCbBeforeStore0, vpCbAfterStore0, vpCbBeforeRecheck}
	fillPoints  = []int{vpFillAdded, vpFillBeforeNotify, vpFillBeforeCbCAS}
	closePoints = []int{vpStreamCloseEnter, vpStreamCloseCASed, vpStreamCloseBeforeNotify, vpHalfClosed}
)
