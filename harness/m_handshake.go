package shmipc

// C12: the handshake yields one shared memory and the lower version, or errors on both ends.
//
// Fault enumeration. Three groups of cases, all enumerated completely in both tiers:
//
//  1. success pairings: library client {file mapping = protocol 2, memfd = protocol 3} and a scripted raw
//     protocol-3 client with file paths, against a library server that lives in a CHILD process (separate
//     mappings), over unix and (file mapping only) tcp. Oracle: both ends return sessions, the negotiated
//     communicationVersion is equal on both ends and is min(client, server), both processes map the very same
//     inodes (/proc/<pid>/maps), a nonce round trip travels through shared memory (fallback counters 0).
//  2. raw peer faults: for every step k of every exchange and both roles the scripted raw peer stops answering,
//     closes, sends only part of the message and stops/closes, or sends a well-formed event of the wrong type
//     (plus: well-formed metadata naming memory that cannot be mapped). The library end runs in this process.
//  3. library peer faults: the library end X in a child is killed / stalled for ever at handshake hook point n
//     (vpHandshake, n = step id); the judged end Y is the other library end in this process.
//
// Oracle for a failing handshake (judged end): an error within InitializeTimeout + slack (lateness of the
// machine measured by a per-case canary: a late case on a late machine is inconclusive), "both fail or both
// succeed" (a returned session is only legal where the protocol gives the judged end no way to know: a protocol-2
// client never gets an acknowledgement, and a peer that had sent everything it owed — then the session has to
// end within a bound once the peer is gone), the raw client never saw typeAckShareMemory from a server that
// failed, and the census (descriptors, mappings, /dev/shm files carrying the case's prefix, the connection's
// socket inode) is clean again. A leak is a persistent state, so the census is polled (two GCs per poll, the
// descriptor dup is closed by a finalizer) and only a state that persists for the whole watchdog is reported.
//
// Q3 (a peer that answers *late*, after the time-out) is outside the statement's fault model; it runs as a probe in
// a child and only reports.

import (
	"bufio"
	"encoding/json"
	"fmt"
	"io"
	"net"
	"os"
	"path/filepath"
	"runtime"
	"sort"
	"strings"
	"sync"
	"sync/atomic"
	"time"

	"golang.org/x/sys/unix"
)

func init() {
	verifChecks["C12"] = checkHandshake
	verifChildRoles["hsend"] = hsChildEnd
	verifChildRoles["hsq3"] = hsChildQ3
}

const (
	// InitializeTimeout of the judged end where it has to wait out a silent peer. Not smaller: the exchange up to the
	// fault step must never be slower than this on a loaded machine, otherwise the timer fires while the worker
	// goroutine is still progressing (Q3 territory, and in one process a worker that outlives newSession could go on
	// using a descriptor number that the finalizer has closed and another case reuses).
	hsInitTO     = time.Second
	hsLongTO     = 10 * time.Second        // InitializeTimeout where the failure must come from the fault itself, not from the timer
	hsChildTO    = 1500 * time.Millisecond // InitializeTimeout of the library end in the child that the harness kills or stalls
	hsSlack      = 3 * time.Second         // allowed on top of InitializeTimeout
	hsLateLimit  = 200 * time.Millisecond  // canary lateness above which a missed bound is inconclusive
	hsWatchdog   = 20 * time.Second        // "never returned"
	hsCloseBound = 10 * time.Second        // a session whose peer is gone has to end within this bound
	hsCensusWait = 10 * time.Second        // a leftover has to persist this long to be reported
	hsOkTO       = 10 * time.Second        // InitializeTimeout of the success pairings
)

var hsSeq uint64

// ---------------------------------------------------------------------------------------------
// configuration, hook registry

func hsPrefix() string {
	return fmt.Sprintf("%shs%d", shmPrefix(), atomic.AddUint64(&hsSeq, 1))
}

func hsConf(prefix string, memfd bool, to time.Duration) *Config {
	conf := DefaultConfig()
	conf.ShareMemoryPathPrefix = prefix
	conf.QueuePath = prefix + "_queue"
	conf.LogOutput = io.Discard
	conf.ConnectionWriteTimeout = 20 * time.Second
	conf.InitializeTimeout = to
	conf.ShareMemoryBufferCap = 1 << 20
	conf.QueueCap = 64
	if memfd {
		conf.MemMapType = MemMapTypeMemFd
	}
	return conf
}

// hsHits: handshake hook points reached by one library end (keyed by its *Config in hsReg).
type hsHits struct {
	steps [32]uint32
}

func (h *hsHits) list() []int {
	var out []int
	for i := range h.steps {
		if atomic.LoadUint32(&h.steps[i]) > 0 {
			out = append(out, i)
		}
	}
	return out
}

var (
	hsReg   sync.Map // *Config -> *hsHits
	hsNoise int32    // 1: the hook handler adds timing noise
)

func hsInstallCtl(seed int64) *ctl {
	k := newCtl("handshake", seed)
	k.on(vpHandshake, func(obj interface{}, n int64) {
		s, _ := obj.(*Session)
		if s == nil {
			return
		}
		if v, ok := hsReg.Load(s.config); ok && n >= 0 && n < 32 {
			atomic.AddUint32(&v.(*hsHits).steps[n], 1)
		}
		if atomic.LoadInt32(&hsNoise) == 1 {
			if r := k.rand(); r&1 == 0 {
				time.Sleep(time.Duration((r >> 8) % uint64(2*time.Millisecond)))
			}
		}
	})
	k.install()
	return k
}

// ---------------------------------------------------------------------------------------------
// census restricted to one case: everything that carries the case's prefix, and the connection's socket

type hsCensusSpec struct {
	token      string // "<prefix>_"
	sockIno    uint64 // the judged end's socket; 0: not checked
	wantMaps   int    // mappings with the token that belong to the raw peer
	wantMemfds int    // memfd descriptors with the token that belong to the raw peer
	checkFiles bool   // no /dev/shm file with the token may exist (judged end created them)
}

func hsCensusOnce(sp hsCensusSpec) (left []string) {
	sock := fmt.Sprintf("socket:[%d]", sp.sockIno)
	memfds := 0
	if ents, err := os.ReadDir("/proc/self/fd"); err == nil {
		for _, e := range ents {
			t, err := os.Readlink("/proc/self/fd/" + e.Name())
			if err != nil {
				continue
			}
			switch {
			case sp.sockIno != 0 && t == sock:
				left = append(left, "fd "+e.Name()+" -> "+t+" (the judged end's connection)")
			case strings.Contains(t, sp.token) && strings.HasPrefix(t, "/memfd:"):
				memfds++
			case strings.Contains(t, sp.token):
				left = append(left, "fd "+e.Name()+" -> "+t)
			}
		}
	}
	if memfds > sp.wantMemfds {
		left = append(left, fmt.Sprintf("memfd descriptors with the case prefix: %d, the raw peer owns %d", memfds, sp.wantMemfds))
	}
	maps := 0
	var mapLines []string
	if data, err := os.ReadFile("/proc/self/maps"); err == nil {
		for _, line := range strings.Split(string(data), "\n") {
			if strings.Contains(line, sp.token) {
				maps++
				mapLines = append(mapLines, line)
			}
		}
	}
	if maps > sp.wantMaps {
		left = append(left, fmt.Sprintf("mappings with the case prefix: %d, the raw peer owns %d: %v", maps, sp.wantMaps, mapLines))
	}
	if sp.checkFiles {
		if m, _ := filepath.Glob(sp.token + "*"); len(m) > 0 {
			left = append(left, fmt.Sprintf("files %v", m))
		}
	}
	return left
}

// hsOnlyMemfdDescriptors: nothing but memfd descriptors is left (these are closed synchronously, never by a finalizer,
// so waiting does not change them).
func hsOnlyMemfdDescriptors(left []string) bool {
	for _, l := range left {
		if !strings.HasPrefix(l, "memfd descriptors") {
			return false
		}
	}
	return true
}

// hsCensusPollStalled is the census of an end whose init goroutine the harness parked for ever: it waits (GC, finalizers)
// only for what a finalizer can still release.
func hsCensusPollStalled(sp hsCensusSpec, wait time.Duration) []string {
	deadline := time.Now().Add(wait)
	sleep := 2 * time.Millisecond
	for {
		runtime.GC()
		runtime.GC()
		left := hsCensusOnce(sp)
		if len(left) == 0 {
			return nil
		}
		if hsOnlyMemfdDescriptors(left) || time.Now().After(deadline) {
			return left
		}
		time.Sleep(sleep)
		if sleep < 100*time.Millisecond {
			sleep *= 2
		}
	}
}

// hsCensusPoll: returns nil as soon as the census is clean; what is still there after the watchdog otherwise.
func hsCensusPoll(sp hsCensusSpec, wait time.Duration) []string {
	deadline := time.Now().Add(wait)
	sleep := 2 * time.Millisecond
	for {
		runtime.GC()
		runtime.GC()
		left := hsCensusOnce(sp)
		if len(left) == 0 {
			return nil
		}
		if time.Now().After(deadline) {
			return left
		}
		time.Sleep(sleep)
		if sleep < 100*time.Millisecond {
			sleep *= 2
		}
	}
}

func hsMapInodes(pid int, token string) map[string][]string {
	out := map[string][]string{}
	data, err := os.ReadFile(fmt.Sprintf("/proc/%d/maps", pid))
	if err != nil {
		return out
	}
	for _, line := range strings.Split(string(data), "\n") {
		i := strings.Index(line, token)
		if i < 0 {
			continue
		}
		f := strings.Fields(line)
		if len(f) < 6 {
			continue
		}
		suffix := strings.TrimSuffix(line[i+len(token):], " (deleted)")
		out[suffix] = append(out[suffix], f[3]+":"+f[4]) // device:inode
	}
	return out
}

// ---------------------------------------------------------------------------------------------
// case list

type hsCase struct {
	Idx       int    `json:"idx"`
	Group     string `json:"group"`   // pairing | raw | lib
	Pairing   string `json:"pairing"` // e.g. raw-c3m>lib-server
	Judged    string `json:"judged_end"`
	Transport string `json:"transport"`
	Script    string `json:"script,omitempty"`
	Step      int    `json:"step"`
	StepName  string `json:"step_name,omitempty"`
	Fault     string `json:"fault"`
	Memfd     bool   `json:"memfd"`
	Announce  int    `json:"announced_version,omitempty"` // raw client pairings: version put into the first message
	Round     int    `json:"round"`
}

func (cs hsCase) key() string {
	k := fmt.Sprintf("%s/%s/%s/step%d%s/%s", cs.Pairing, cs.Transport, cs.Judged, cs.Step, cs.StepName, cs.Fault)
	if cs.Announce != 0 {
		k += fmt.Sprintf("/announce%d", cs.Announce)
	}
	return k
}

func (cs hsCase) name() string {
	n := fmt.Sprintf("r%d-%s-%s-%d-%s", cs.Round, cs.Pairing, cs.Transport, cs.Step, cs.Fault)
	if cs.Announce != 0 {
		n += fmt.Sprintf("-v%d", cs.Announce)
	}
	return n
}

// handshake hook points per library end (see protocol_manager.go / protocol_initializer.go)
var (
	hsStepsMemfdClient = []int{1, 2, 3, 15, 16, 23, 24}
	hsStepsMemfdServer = []int{4, 8, 20, 21, 9, 10, 11, 12, 13, 14, 22}
	hsStepsFileClient  = []int{17}
	hsStepsFileServer  = []int{4, 5, 6, 7}
)

func hsCaseList() []hsCase {
	var out []hsCase
	add := func(cs hsCase) {
		cs.Idx = len(out)
		out = append(out, cs)
	}
	// group 1: success pairings
	add(hsCase{Group: "pairing", Pairing: "lib-file-client+lib-server", Transport: "unix", Fault: "none"})
	add(hsCase{Group: "pairing", Pairing: "lib-file-client+lib-server", Transport: "tcp", Fault: "none"})
	add(hsCase{Group: "pairing", Pairing: "lib-memfd-client+lib-server", Transport: "unix", Fault: "none", Memfd: true})
	add(hsCase{Group: "pairing", Pairing: "raw-c3f+lib-server", Transport: "unix", Script: "c3f", Fault: "none"})
	add(hsCase{Group: "pairing", Pairing: "raw-c3f+lib-server", Transport: "tcp", Script: "c3f", Fault: "none"})
	add(hsCase{Group: "pairing", Pairing: "raw-c3m+lib-server", Transport: "unix", Script: "c3m", Fault: "none", Memfd: true})
	add(hsCase{Group: "pairing", Pairing: "lib-memfd-client+lib-server", Transport: "tcp", Fault: "memfd-over-tcp-refused", Memfd: true})
	// a client of a newer generation: it announces a version this server does not know (in the version exchange, or in the
	// version byte of a protocol-2 style first message). Either both ends fail, or both succeed with min(announced, 3) = 3.
	for _, v := range []int{4, 255} {
		add(hsCase{Group: "pairing", Pairing: "raw-c3f+lib-server", Transport: "unix", Script: "c3f", Fault: "newer-client", Announce: v})
		add(hsCase{Group: "pairing", Pairing: "raw-c3m+lib-server", Transport: "unix", Script: "c3m", Fault: "newer-client", Announce: v, Memfd: true})
		add(hsCase{Group: "pairing", Pairing: "raw-c2f+lib-server", Transport: "unix", Script: "c2f", Fault: "newer-client", Announce: v})
	}

	// group 2: raw peer faults
	type sc struct {
		kind      string
		judged    string
		memfd     bool
		transport []string
	}
	for _, s := range []sc{
		{"c3m", "server", true, []string{"unix"}},
		{"c3f", "server", false, []string{"unix", "tcp"}},
		{"c2f", "server", false, []string{"unix", "tcp"}},
		{"s3m", "client", true, []string{"unix"}},
		{"s2f", "client", false, []string{"unix", "tcp"}},
	} {
		steps := rawScript(s.kind)
		for _, tr := range s.transport {
			pairing := "raw-" + s.kind + ">lib-" + s.judged
			if s.judged == "client" {
				pairing = "lib-client>raw-" + s.kind
			}
			base := hsCase{Group: "raw", Pairing: pairing, Judged: s.judged, Transport: tr, Script: s.kind, Memfd: s.memfd}
			for k, st := range steps {
				cs := base
				cs.Step, cs.StepName = k, st.Name
				cs.Fault = "close"
				add(cs)
				if st.Send {
					for _, f := range []string{"stall", "wrongtype"} {
						cs.Fault = f
						add(cs)
					}
					if st.bytes != nil {
						for _, f := range []string{"midstall", "midclose"} {
							cs.Fault = f
							add(cs)
						}
					}
				}
			}
			// the peer goes away / idles after the last step of its script
			cs := base
			cs.Step, cs.StepName = len(steps), "end"
			if s.kind == "s2f" {
				cs.Fault = "close"
				add(cs)
				cs.Fault = "stall"
				cs.Step, cs.StepName = 0, steps[0].Name // never reads, never closes
				add(cs)
			}
			if s.kind == "c3f" || s.kind == "c2f" {
				last := 0
				for k, st := range steps {
					if st.Send {
						last = k
					}
				}
				cs.Step, cs.StepName = last+1, "after-last-send"
				cs.Fault = "badpath" // every message of the exchange sent, well-formed, naming memory that cannot be mapped
				add(cs)
				// the queue is fine and gets mapped, the buffer cannot be mapped: what was mapped first has to go again
				for _, f := range []string{"buf-missing", "buf-zeroed", "buf-truncated", "buf-empty"} {
					cs.Fault = f
					add(cs)
				}
			}
			if s.kind == "c3m" {
				for _, f := range []string{"buf-zeroed", "buf-truncated", "buf-empty"} {
					cs := base
					cs.Step, cs.StepName = 4, steps[4].Name // the descriptor passing step carries the unusable buffer object
					cs.Fault = f
					add(cs)
				}
			}
		}
	}
	add(hsCase{Group: "raw", Pairing: "lib-client>raw-s2dg", Judged: "client", Transport: "unix", Script: "s2dg", Memfd: true,
		Step: 3, StepName: "end", Fault: "downgrade-v2"})

	// group 3: the library peer X (child) is killed / stalls for ever at hook point n; the judged end is Y (here)
	type lp struct {
		xRole     string
		memfd     bool
		steps     []int
		transport []string
	}
	for _, p := range []lp{
		{"client", true, hsStepsMemfdClient, []string{"unix"}},
		{"server", true, hsStepsMemfdServer, []string{"unix"}},
		{"client", false, hsStepsFileClient, []string{"unix", "tcp"}},
		{"server", false, hsStepsFileServer, []string{"unix", "tcp"}},
	} {
		for _, tr := range p.transport {
			for _, n := range p.steps {
				for _, f := range []string{"die", "stall-lib"} {
					kind := "file"
					if p.memfd {
						kind = "memfd"
					}
					judged := "server"
					pairing := fmt.Sprintf("lib-%s-client(child)>lib-server", kind)
					if p.xRole == "server" {
						judged = "client"
						pairing = fmt.Sprintf("lib-%s-client>lib-server(child)", kind)
					}
					add(hsCase{Group: "lib", Pairing: pairing, Judged: judged, Transport: tr, Step: n,
						StepName: fmt.Sprintf("@hook%d", n), Fault: f, Memfd: p.memfd})
				}
			}
		}
	}
	return out
}

// ---------------------------------------------------------------------------------------------
// running the judged library end with a per-case canary

type hsLibResult struct {
	sess     *Session
	err      error
	elapsed  time.Duration
	returned bool
	at       time.Time     // when newSession returned
	maxLate  time.Duration // lateness of this goroutine's own timer wake-ups while it waited
}

// hsAwait waits for the judged end's newSession to return; the wait loop itself is the canary.
func hsAwait(ch <-chan hsLibResult, watchdog time.Duration) hsLibResult {
	const step = 5 * time.Millisecond
	deadline := time.Now().Add(watchdog)
	var maxLate time.Duration
	for {
		t0 := time.Now()
		select {
		case r := <-ch:
			r.returned = true
			r.maxLate = maxLate
			return r
		case <-time.After(step):
			if late := time.Since(t0) - step; late > maxLate {
				maxLate = late
			}
		}
		if time.Now().After(deadline) {
			return hsLibResult{maxLate: maxLate}
		}
	}
}

func hsStartLib(conf *Config, conn net.Conn, isClient bool) <-chan hsLibResult {
	ch := make(chan hsLibResult, 1)
	go func() {
		t0 := time.Now()
		s, err := newSession(conf, conn, isClient)
		now := time.Now()
		ch <- hsLibResult{sess: s, err: err, elapsed: now.Sub(t0), at: now}
	}()
	return ch
}

// hsWaitClosed waits until the session has ended; the wait loop is again the canary.
func hsWaitClosed(s *Session, bound time.Duration) (closed bool, maxLate time.Duration, took time.Duration) {
	const step = 2 * time.Millisecond
	start := time.Now()
	for {
		if s.IsClosed() {
			return true, maxLate, time.Since(start)
		}
		if time.Since(start) > bound {
			return false, maxLate, time.Since(start)
		}
		t0 := time.Now()
		time.Sleep(step)
		if late := time.Since(t0) - step; late > maxLate {
			maxLate = late
		}
	}
}

// ---------------------------------------------------------------------------------------------
// evidence collected across cases

type hsStats struct {
	mu      sync.Mutex
	elapsed map[string][]float64 // class -> ms
	hookSet map[string]bool      // role:step reached on a judged (in-process) library end
}

func (st *hsStats) addElapsed(class string, d time.Duration) {
	st.mu.Lock()
	st.elapsed[class] = append(st.elapsed[class], float64(d.Microseconds())/1000)
	st.mu.Unlock()
}

func (st *hsStats) addHooks(role string, steps []int) {
	st.mu.Lock()
	for _, n := range steps {
		st.hookSet[fmt.Sprintf("%s:%d", role, n)] = true
	}
	st.mu.Unlock()
}

func (st *hsStats) summary() map[string]interface{} {
	st.mu.Lock()
	defer st.mu.Unlock()
	out := map[string]interface{}{}
	for class, v := range st.elapsed {
		s := append([]float64(nil), v...)
		sort.Float64s(s)
		out[class] = map[string]interface{}{"n": len(s), "min_ms": s[0], "median_ms": s[len(s)/2], "max_ms": s[len(s)-1]}
	}
	return out
}

// ---------------------------------------------------------------------------------------------
// judging a judged end's outcome (shared by the raw and the lib fault cases)

type hsJudge struct {
	c          *checkCtx
	cs         hsCase
	st         *hsStats
	witness    map[string]interface{}
	to         time.Duration // the judged end's InitializeTimeout
	maySucceed bool          // a returned session is legal (then it has to end once the peer is gone)
	whySucceed string        // the reason, for the witness
}

// judgeReturn: did newSession return, in time, with the right kind of result? Returns false when the case is over.
func (j *hsJudge) judgeReturn(r hsLibResult) bool {
	c, cs := j.c, j.cs
	j.witness["elapsed_ms"] = float64(r.elapsed.Microseconds()) / 1000
	j.witness["canary_max_late_ms"] = float64(r.maxLate.Microseconds()) / 1000
	if !r.returned {
		if r.maxLate >= hsLateLimit {
			c.inconclusiveCase(cs.name(), fmt.Sprintf("newSession did not return within %v, but the machine was late by %v", hsWatchdog, r.maxLate))
		} else {
			j.witness["goroutines"] = truncate(goroutineDump(), 6000)
			c.violation(cs.name(), j.witness, "the %s end's newSession did not return within %v (InitializeTimeout %v) after the peer: %s at step %d %s",
				cs.Judged, hsWatchdog, j.to, cs.Fault, cs.Step, cs.StepName)
		}
		return false
	}
	if r.err != nil {
		j.witness["error"] = r.err.Error()
	}
	if r.elapsed > j.to+hsSlack {
		if r.maxLate >= hsLateLimit {
			c.inconclusiveCase(cs.name(), fmt.Sprintf("returned after %v on a machine that was late by %v", r.elapsed, r.maxLate))
		} else {
			c.violation(cs.name(), j.witness, "the %s end needed %v to give up (InitializeTimeout %v + slack %v) after the peer: %s at step %d %s",
				cs.Judged, r.elapsed, j.to, hsSlack, cs.Fault, cs.Step, cs.StepName)
		}
	}
	if r.sess != nil && !j.maySucceed {
		c.violation(cs.name(), j.witness, "the %s end returned a session (version %d) although its peer did not complete the exchange: %s at step %d %s",
			cs.Judged, r.sess.communicationVersion, cs.Fault, cs.Step, cs.StepName)
	}
	return true
}

// judgeSessionEnds: a legally returned session has to end within the bound after the peer is gone.
func (j *hsJudge) judgeSessionEnds(s *Session) {
	closed, late, took := hsWaitClosed(s, hsCloseBound)
	j.witness["session_end_ms"] = float64(took.Microseconds()) / 1000
	if closed {
		j.c.count("session_ended_after_peer_gone", 1)
		j.st.addElapsed("session end after peer gone", took)
		return
	}
	if late >= hsLateLimit {
		j.c.inconclusiveCase(j.cs.name(), fmt.Sprintf("session not closed after %v, machine late by %v", took, late))
	} else {
		j.c.violation(j.cs.name(), j.witness, "the %s end returned a session (%s); its peer is gone but the session is not closed after %v",
			j.cs.Judged, j.whySucceed, took)
	}
}

func (j *hsJudge) judgeCensus(sp hsCensusSpec, when string) {
	if left := hsCensusPoll(sp, hsCensusWait); len(left) > 0 {
		j.witness["leftovers"] = left
		j.c.violation(j.cs.name(), j.witness, "census %s: the %s end left behind: %s", when, j.cs.Judged, truncate(strings.Join(left, "; "), 400))
		return
	}
	j.c.count("census_clean", 1)
}

// hsMakeBadBuffer creates, next to the raw client's valid queue, a buffer object the server cannot map: a missing file,
// or an object (file / memfd) that is empty, all zero (no buffer lists), or cut off after a valid header. The queue object
// stays valid in every variant. The object carries the case prefix, so the census sees every reference to it; the raw
// peer owns it (memfd: recorded as one more descriptor of its own).
func hsMakeBadBuffer(raw *rawPeer, prefix string, cs hsCase) error {
	var content []byte
	switch cs.Fault {
	case "buf-zeroed":
		content = make([]byte, 4096)
	case "buf-truncated":
		content = append([]byte{}, raw.bm.mem[:64]...) // valid header that promises far more than 64 bytes
	case "buf-empty":
		content = []byte{}
	}
	name := prefix + "_badbuffer"
	if cs.Memfd {
		fd, err := MemfdCreate(name, 0)
		if err != nil {
			return err
		}
		if len(content) > 0 {
			if _, err := unix.Pwrite(fd, content, 0); err != nil {
				unix.Close(fd)
				return err
			}
		}
		raw.gotFds = append(raw.gotFds, fd) // owned (and closed) by the raw peer
		return nil
	}
	raw.bufferPath = name
	if cs.Fault == "buf-missing" {
		return nil
	}
	raw.ownFiles = append(raw.ownFiles, name)
	return os.WriteFile(name, content, 0o644)
}

// ---------------------------------------------------------------------------------------------
// group 2: raw peer faults, library end in this process

func hsRunRawCase(c *checkCtx, cs hsCase, st *hsStats, noise bool) {
	rng := caseRand(c.seed, cs.Round*100000+cs.Idx)
	c.eval(1)
	libIsClient := cs.Judged == "client"
	prefix := hsPrefix()
	token := prefix + "_"
	defer func() {
		if m, _ := filepath.Glob(token + "*"); len(m) > 0 {
			for _, f := range m {
				_ = os.Remove(f)
			}
		}
	}()
	// Only a peer that goes silent makes the judged end wait out its InitializeTimeout; these cases use the short one.
	// Everywhere else the error has to follow from the fault itself, and a short timer could fire on a loaded machine
	// while the exchange is still progressing (that is the late-answer situation Q3, outside this property).
	to := hsLongTO
	if cs.Fault == "stall" || cs.Fault == "midstall" {
		to = hsInitTO
	}
	conf := hsConf(prefix, cs.Memfd, to)
	hits := &hsHits{}
	hsReg.Store(conf, hits)
	defer hsReg.Delete(conf)

	cliConn, srvConn, path, err := connPair(cs.Transport == "tcp")
	if err != nil {
		c.inconclusiveCase(cs.name(), "connPair: "+err.Error())
		return
	}
	if path != "" {
		defer os.Remove(path)
	}
	libConn, rawConn := srvConn, cliConn
	if libIsClient {
		libConn, rawConn = cliConn, srvConn
	}
	sockIno := rawSocketInode(libConn)
	raw, err := rawFromConn(rawConn)
	if err != nil {
		libConn.Close()
		c.inconclusiveCase(cs.name(), "rawFromConn: "+err.Error())
		return
	}
	defer raw.close()
	defer raw.releaseShm()
	if (cs.Idx+cs.Round)%3 == 1 {
		// the raw peer's messages reach the library end in small pieces (as a stream transport may deliver them)
		raw.frag = 1 + (cs.Idx+cs.Round)%5
		c.count("raw_cases_with_fragmented_delivery", 1)
	}
	if !libIsClient {
		if err := raw.createShm(prefix, cs.Memfd, conf.QueueCap, conf.ShareMemoryBufferCap, conf.BufferSliceSizes); err != nil {
			libConn.Close()
			c.inconclusiveCase(cs.name(), "raw createShm: "+err.Error())
			return
		}
		if cs.Script == "c2f" {
			raw.version = 2
		}
		if cs.Fault == "badpath" {
			raw.queuePath += ".missing"
			raw.bufferPath += ".missing"
		}
		if strings.HasPrefix(cs.Fault, "buf-") {
			if err := hsMakeBadBuffer(raw, prefix, cs); err != nil {
				libConn.Close()
				c.inconclusiveCase(cs.name(), "bad buffer object: "+err.Error())
				return
			}
		}
	}
	witness := map[string]interface{}{"case": cs, "prefix": prefix, "initialize_timeout_ms": to.Milliseconds()}
	j := &hsJudge{c: c, cs: cs, st: st, witness: witness, to: to}

	delay := func() {}
	if noise {
		var mu sync.Mutex
		delay = func() {
			mu.Lock()
			d := time.Duration(rng.Intn(3000)) * time.Microsecond
			mu.Unlock()
			time.Sleep(d)
		}
	}

	resCh := hsStartLib(conf, libConn, libIsClient)

	// the raw peer: all steps before k, then the fault
	steps := rawScript(cs.Script)
	reached := false
	sendsDone := true // the raw peer has sent everything its script owes
	for i := cs.Step; i < len(steps); i++ {
		if steps[i].Send {
			sendsDone = false
		}
	}
	failedAt, serr := raw.runScript(steps, 0, cs.Step, hsWatchdog, delay)
	var downgradeHdr *rawRecv
	var faultAt time.Time
	if serr != nil {
		witness["raw_script_error"] = serr.Error()
		witness["raw_failed_at"] = failedAt
	} else {
		reached = true
		delay()
		faultAt = time.Now()
		switch cs.Fault {
		case "stall", "badpath":
			// nothing more is sent; the connection stays open
		case "buf-missing", "buf-zeroed", "buf-truncated", "buf-empty":
			if cs.Memfd {
				// the descriptor passing step, with the unusable object in the buffer's place and the real queue
				_ = raw.sendFds(raw.gotFds[len(raw.gotFds)-1], raw.qm.memFd)
			}
			// file mapping: the metadata already named the unusable buffer file; nothing more is sent
		case "close":
			if cs.Step < len(steps) && !steps[cs.Step].Send {
				raw.closeAbrupt() // pending unread data: the peer may see a reset instead of EOF
			} else {
				raw.close()
			}
		case "wrongtype":
			_ = raw.send(rawWrongType(steps[cs.Step].Name, raw.version))
		case "midstall", "midclose":
			data := steps[cs.Step].bytes(raw)
			cut := headerSize / 2
			if steps[cs.Step].HasBody {
				cut = headerSize + (len(data)-headerSize)/2
			}
			_ = raw.send(data[:cut])
			if cs.Fault == "midclose" {
				raw.close()
			}
		case "downgrade-v2":
			// the whole s2dg script ran: the client was told "version 2" and must have gone on with protocol 2
			rec := raw.received()
			if len(rec) >= 2 {
				downgradeHdr = &rec[1]
			}
		}
	}
	witness["raw_received"] = raw.received()

	// what the judged end may legally do
	switch {
	case libIsClient && !cs.Memfd:
		j.maySucceed, j.whySucceed = true, "a protocol 2 client gets no acknowledgement"
	case cs.Fault == "downgrade-v2":
		j.maySucceed, j.whySucceed = true, "the client was downgraded to protocol 2, which has no acknowledgement"
	case reached && cs.Fault == "close" && sendsDone:
		j.maySucceed, j.whySucceed = true, "the raw peer had sent everything it owed before it closed"
	case !reached:
		j.maySucceed, j.whySucceed = true, "the raw script did not get to the fault step"
	}

	r := hsAwait(resCh, hsWatchdog)
	if !r.returned {
		raw.close() // unblock the worker; whatever newSession returns now is not judged
		j.judgeReturn(r)
		hsAwait(resCh, 10*time.Second)
		return
	}
	witness["hook_points_hit"] = hits.list()
	st.addHooks(cs.Judged, hits.list())
	if reached && to == hsInitTO && r.sess == nil && r.at.Before(faultAt) {
		// the judged end's timer fired while the exchange was still on its way to the fault step (machine too slow for the
		// short InitializeTimeout): that is not the scenario of this case, and a worker that outlives its time-out is Q3
		c.inconclusiveCase(cs.name(), fmt.Sprintf("InitializeTimeout %v fired %v before the raw peer reached the fault step", to, faultAt.Sub(r.at)))
		return
	}
	j.judgeReturn(r)
	if !reached {
		c.count("raw_fault_step_not_reached", 1)
		if r.sess != nil {
			r.sess.Close()
			waitTeardown(r.sess, 10*time.Second)
		}
		return
	}
	c.nontrivial(cs.key())
	c.count("raw_fault_cases_reached", 1)
	c.count("raw_fault_"+cs.Fault, 1)

	if cs.Fault == "downgrade-v2" {
		// version choice: the server announced 2, the client supports 3 -> everything after that is protocol 2
		if downgradeHdr == nil {
			c.count("downgrade_no_second_event", 1)
		} else {
			c.count("downgrade_observed", 1)
			if downgradeHdr.Version != 2 || eventType(downgradeHdr.Type) != typeShareMemoryByFilePath {
				c.violation(cs.name(), witness, "server announced protocol 2, client supports 3: the client went on with version %d event %s, not with min = 2 (ShareMemoryByFilePath)",
					downgradeHdr.Version, eventType(downgradeHdr.Type).String())
			}
		}
		if r.sess != nil && r.sess.communicationVersion != 2 {
			c.violation(cs.name(), witness, "server announced protocol 2, client supports 3: client session has communicationVersion %d, not min = 2",
				r.sess.communicationVersion)
		}
	}

	if r.sess != nil {
		// legal only as explained in whySucceed: the peer goes away now, the session has to notice
		st.addElapsed("returned a session ("+cs.Fault+")", r.elapsed)
		c.count("judged_end_returned_session_legally", 1)
		raw.close()
		if j.maySucceed {
			j.judgeSessionEnds(r.sess)
		}
		r.sess.Close()
		if !waitTeardown(r.sess, 20*time.Second) {
			c.inconclusiveCase(cs.name(), "teardown of the returned session did not finish within 20 s")
			return
		}
		j.judgeCensus(hsCensusSpec{token: token, sockIno: sockIno, wantMaps: raw.ownMappings(), wantMemfds: raw.ownMemfds(),
			checkFiles: libIsClient}, "after the session ended")
		return
	}

	// the judged end failed
	st.addElapsed("error after "+cs.Fault, r.elapsed)
	c.count("judged_end_returned_error", 1)
	if !libIsClient {
		// did the server tell the client "share memory acknowledged" and fail nevertheless?
		wait := 20 * time.Millisecond
		if cs.Transport == "tcp" {
			wait = 100 * time.Millisecond
		}
		for !raw.isClosed() {
			if _, err := raw.recvHeader(wait); err != nil {
				break
			}
		}
		witness["raw_received"] = raw.received()
		if raw.sawType(typeAckShareMemory) {
			c.violation(cs.name(), witness, "the server acknowledged the shared memory (typeAckShareMemory reached the client) and then failed with: %v", r.err)
		}
	}
	// census while the raw peer is still there (silent or closed, as the fault says)
	sp := hsCensusSpec{token: token, sockIno: sockIno, wantMaps: raw.ownMappings(), wantMemfds: raw.ownMemfds(), checkFiles: libIsClient}
	// (the memfd "buffer not mappable" cases used to leave the received buffer descriptor open: fixed in /repo as X20)
	j.judgeCensus(sp, "after the failed handshake")
	if cs.Round == 0 && ((cs.Script == "c3m" && cs.Step == 4 && cs.Fault == "stall") || (cs.Script == "s3m" && cs.Step == 5 && cs.Fault == "wrongtype")) {
		c.sample(map[string]interface{}{"case": cs.key(), "judged_end_error": r.err.Error(), "elapsed_ms": float64(r.elapsed.Microseconds()) / 1000,
			"initialize_timeout_ms": to.Milliseconds(), "hook_points_hit": hits.list(), "raw_peer_received": raw.received(), "census": "clean"})
	}
}

// ---------------------------------------------------------------------------------------------
// child hosting one library end (groups 1 and 3)

type hsEndArgs struct {
	Role      string `json:"role"` // client | server
	Memfd     bool   `json:"memfd"`
	Net       string `json:"net"`
	Addr      string `json:"addr"`
	Prefix    string `json:"prefix"`
	InitTOms  int    `json:"init_to_ms"`
	DieStep   int    `json:"die_step"`
	StallStep int    `json:"stall_step"`
	Serve     bool   `json:"serve"`
	Noise     bool   `json:"noise"`
	Seed      int64  `json:"seed"`
}

type hsChildMsg struct {
	Ev        string              `json:"ev"`
	Step      int                 `json:"step,omitempty"`
	Err       string              `json:"err,omitempty"`
	Session   bool                `json:"session,omitempty"`
	Version   int                 `json:"version,omitempty"`
	ElapsedMs float64             `json:"elapsed_ms,omitempty"`
	Hits      []int               `json:"hits,omitempty"`
	Left      []string            `json:"left,omitempty"`
	FbRead    uint64              `json:"fb_read,omitempty"`
	FbWrite   uint64              `json:"fb_write,omitempty"`
	RecvPoll  uint64              `json:"recv_poll,omitempty"`
	Echoed    uint64              `json:"echoed,omitempty"`
	Maps      map[string][]string `json:"maps,omitempty"`
	Closed    bool                `json:"closed,omitempty"`
	MaxLateMs float64             `json:"max_late_ms,omitempty"`
	// stalled end: newSession returned before the init goroutine got to the stall point (its timer fired on a slow machine)
	ReturnedBeforeStall bool `json:"returned_before_stall,omitempty"`
	InitTOms            int  `json:"init_to_ms,omitempty"`
}

type hsChildCmd struct {
	Cmd string `json:"cmd"`
}

func hsChildEnd(args []string) {
	var a hsEndArgs
	if len(args) < 1 || json.Unmarshal([]byte(args[0]), &a) != nil {
		childReply(hsChildMsg{Ev: "fatal", Err: "bad args"})
		return
	}
	in := bufio.NewReader(os.Stdin)
	fenceInit()
	conn, err := net.Dial(a.Net, a.Addr)
	if err != nil {
		childReply(hsChildMsg{Ev: "fatal", Err: "dial: " + err.Error()})
		return
	}
	ino := rawSocketInode(conn)
	conf := hsConf(a.Prefix, a.Memfd, time.Duration(a.InitTOms)*time.Millisecond)
	var hits hsHits
	var stalledAt int64
	k := newCtl("hsend", a.Seed)
	k.on(vpHandshake, func(obj interface{}, n int64) {
		if n >= 0 && n < 32 {
			atomic.AddUint32(&hits.steps[n], 1)
		}
		if a.DieStep > 0 && int(n) == a.DieStep {
			childLog("die at hook %d", n)
			childReply(hsChildMsg{Ev: "die", Step: int(n)})
			dieNow()
		}
		if a.StallStep > 0 && int(n) == a.StallStep {
			atomic.StoreInt64(&stalledAt, time.Now().UnixNano())
			childLog("stall at hook %d", n)
			childReply(hsChildMsg{Ev: "stalled", Step: int(n)})
			select {} // never released: this worker never continues, so nothing can happen "late" (Q3) in this process
		}
		if a.Noise {
			if r := k.rand(); r&1 == 0 {
				time.Sleep(time.Duration((r >> 8) % uint64(2*time.Millisecond)))
			}
		}
	})
	k.install()
	childReply(hsChildMsg{Ev: "ready"})
	lr := hsAwait(hsStartLib(conf, conn, a.Role == "client"), 60*time.Second) // the wait loop is the canary
	if !lr.returned {
		childReply(hsChildMsg{Ev: "result", Err: "newSession did not return within 60 s", ElapsedMs: 60000, Hits: hits.list(),
			MaxLateMs: float64(lr.maxLate.Microseconds()) / 1000, InitTOms: a.InitTOms})
		childReply(hsChildMsg{Ev: "census", Left: []string{"newSession never returned"}})
		var cmd hsChildCmd
		childReadLine(in, &cmd)
		return
	}
	sess, err, el := lr.sess, lr.err, lr.elapsed
	res := hsChildMsg{Ev: "result", ElapsedMs: float64(el.Microseconds()) / 1000, Hits: hits.list(), Session: sess != nil,
		MaxLateMs: float64(lr.maxLate.Microseconds()) / 1000, InitTOms: a.InitTOms}
	if a.StallStep > 0 {
		at := atomic.LoadInt64(&stalledAt)
		res.ReturnedBeforeStall = at == 0 || lr.at.UnixNano() < at
	}
	if err != nil {
		res.Err = err.Error()
		conn.Close() // newSession may refuse before it takes the connection over (memfd over tcp)
	}
	if sess != nil {
		res.Version = int(sess.communicationVersion)
	}
	childReply(res)
	token := a.Prefix + "_"
	if sess == nil {
		sp := hsCensusSpec{token: token, sockIno: ino, checkFiles: a.Role == "client"}
		var left []string
		if a.StallStep > 0 {
			left = hsCensusPollStalled(sp, hsCensusWait)
		} else {
			left = hsCensusPoll(sp, hsCensusWait)
		}
		childReply(hsChildMsg{Ev: "census", Left: left})
	}
	var echoed uint64
	if sess != nil && a.Serve && a.Role == "server" {
		go func() {
			for {
				st, err := sess.AcceptStream()
				if err != nil {
					return
				}
				go func(st *Stream) {
					buf := make([]byte, 8192)
					for {
						n, err := st.Read(buf)
						if n > 0 {
							if _, werr := st.Write(buf[:n]); werr != nil {
								return
							}
							atomic.AddUint64(&echoed, uint64(n))
						}
						if err != nil {
							return
						}
					}
				}(st)
			}
		}()
	}
	for {
		var cmd hsChildCmd
		if !childReadLine(in, &cmd) {
			return
		}
		switch cmd.Cmd {
		case "stats":
			m := hsChildMsg{Ev: "stats", Maps: hsMapInodes(os.Getpid(), token), Echoed: atomic.LoadUint64(&echoed)}
			if sess != nil {
				m.Session = true
				m.Version = int(sess.communicationVersion)
				m.FbRead = atomic.LoadUint64(&sess.stats.fallbackReadCount)
				m.FbWrite = atomic.LoadUint64(&sess.stats.fallbackWriteCount)
				m.RecvPoll = atomic.LoadUint64(&sess.stats.recvPollingEventCount)
				m.Closed = sess.IsClosed()
			}
			childReply(m)
		case "close":
			m := hsChildMsg{Ev: "closed"}
			if sess != nil {
				sess.Close()
				waitTeardown(sess, 20*time.Second)
				m.Left = hsCensusPoll(hsCensusSpec{token: token, sockIno: ino}, hsCensusWait)
			}
			childReply(m)
		case "exit":
			return
		}
	}
}

type hsChild struct {
	cp   *childProc
	conn net.Conn
	ln   net.Listener
	path string
}

// hsSpawnEnd listens, spawns the child end and accepts its connection.
func hsSpawnEnd(c *checkCtx, a hsEndArgs, tcp bool) (*hsChild, error) {
	network, addr := "unix", filepath.Join(sockDir(), fmt.Sprintf("hs%d.sock", atomic.AddUint64(&hsSeq, 1)))
	if tcp {
		network, addr = "tcp", "127.0.0.1:0"
	}
	ln, err := net.Listen(network, addr)
	if err != nil {
		return nil, err
	}
	h := &hsChild{ln: ln}
	if !tcp {
		h.path = addr
	}
	a.Net, a.Addr = network, ln.Addr().String()
	data, _ := json.Marshal(a)
	cp, err := c.spawnChild("hsend", []string{string(data)})
	if err != nil {
		ln.Close()
		return nil, err
	}
	h.cp = cp
	type acc struct {
		conn net.Conn
		err  error
	}
	ch := make(chan acc, 1)
	go func() {
		conn, err := ln.Accept()
		ch <- acc{conn, err}
	}()
	select {
	case r := <-ch:
		if r.err != nil {
			h.stop()
			return nil, r.err
		}
		h.conn = r.conn
	case <-time.After(30 * time.Second):
		h.stop()
		return nil, fmt.Errorf("the child did not connect within 30 s")
	}
	return h, nil
}

func (h *hsChild) stop() {
	if h.cp != nil {
		_ = h.cp.send(hsChildCmd{Cmd: "exit"})
		h.cp.stdin.Close()
		ex := h.cp.wait(15 * time.Second)
		_ = ex
		h.cp.cleanupFiles()
	}
	if h.ln != nil {
		h.ln.Close()
	}
	if h.path != "" {
		_ = os.Remove(h.path)
	}
}

// expect reads child messages until one with the given ev arrives (others are collected in seen).
func (h *hsChild) expect(ev string, timeout time.Duration, seen *[]hsChildMsg) (hsChildMsg, bool) {
	deadline := time.Now().Add(timeout)
	for {
		var m hsChildMsg
		left := time.Until(deadline)
		if left <= 0 {
			return m, false
		}
		if _, ok := h.cp.recv(left, &m); !ok {
			return m, false
		}
		if seen != nil {
			*seen = append(*seen, m)
		}
		if m.Ev == ev {
			return m, true
		}
		if m.Ev == "fatal" {
			return m, false
		}
	}
}

// ---------------------------------------------------------------------------------------------
// group 3: library peer X in a child killed / stalled at hook point n, judged end Y here

func hsRunLibCase(c *checkCtx, cs hsCase, st *hsStats, noise bool) {
	c.eval(1)
	yIsClient := cs.Judged == "client"
	prefix := hsPrefix()
	token := prefix + "_"
	defer func() {
		if m, _ := filepath.Glob(token + "*"); len(m) > 0 {
			for _, f := range m {
				_ = os.Remove(f)
			}
		}
	}()
	a := hsEndArgs{Role: "server", Memfd: cs.Memfd, Prefix: prefix, InitTOms: int(hsChildTO.Milliseconds()), Noise: noise,
		Seed: c.seed*1000 + int64(cs.Round*100000+cs.Idx)}
	if yIsClient {
		a.Role = "server"
	} else {
		a.Role = "client"
	}
	if cs.Fault == "die" {
		a.DieStep = cs.Step
	} else {
		a.StallStep = cs.Step
	}
	h, err := hsSpawnEnd(c, a, cs.Transport == "tcp")
	if err != nil {
		c.inconclusiveCase(cs.name(), "spawn: "+err.Error())
		return
	}
	defer h.stop()
	// what may Y legally do when X stops at hook n?
	maySucceed, whySucceed := false, ""
	switch {
	case yIsClient && !cs.Memfd:
		maySucceed, whySucceed = true, "a protocol 2 client gets no acknowledgement"
	case !yIsClient && cs.Memfd && cs.Step >= 23:
		maySucceed, whySucceed = true, "the client had sent everything it owed (hook 23/24 follow the descriptor passing)"
	}
	// Y waits out the short InitializeTimeout only where X's stall leaves it waiting for ever; a killed X is seen as EOF,
	// and where Y owes nothing to a timer the long one keeps a loaded machine from turning the case into Q3.
	to := hsLongTO
	if cs.Fault == "stall-lib" && !maySucceed {
		to = hsInitTO
	}
	conf := hsConf(prefix, cs.Memfd, to)
	hits := &hsHits{}
	hsReg.Store(conf, hits)
	defer hsReg.Delete(conf)
	sockIno := rawSocketInode(h.conn)
	witness := map[string]interface{}{"case": cs, "prefix": prefix, "initialize_timeout_ms": to.Milliseconds()}
	j := &hsJudge{c: c, cs: cs, st: st, witness: witness, to: to, maySucceed: maySucceed, whySucceed: whySucceed}

	var seen []hsChildMsg
	if _, ok := h.expect("ready", 30*time.Second, &seen); !ok {
		h.conn.Close()
		c.inconclusiveCase(cs.name(), fmt.Sprintf("the child did not get ready (messages %v)", seen))
		return
	}
	resCh := hsStartLib(conf, h.conn, yIsClient)
	want := "die"
	if cs.Fault == "stall-lib" {
		want = "stalled"
	}
	m, ok := h.expect(want, hsWatchdog, &seen)
	faultAt := time.Now()
	witness["child_messages"] = seen
	reached := ok && m.Step == cs.Step
	if !reached {
		// the hook point was not reached in the child: nothing was injected. Wait for both ends and leave.
		c.count("lib_fault_hook_not_reached", 1)
		r := hsAwait(resCh, hsWatchdog)
		if r.sess != nil {
			r.sess.Close()
			waitTeardown(r.sess, 10*time.Second)
		}
		c.inconclusiveCase(cs.name(), fmt.Sprintf("hook point %d was not reached in the child (messages %v)", cs.Step, seen))
		return
	}
	if cs.Fault == "die" {
		ex := h.cp.wait(20 * time.Second)
		witness["child_exit"] = map[string]interface{}{"signal": ex.Signal, "code": ex.Code}
		h.cp.cleanupFiles()
		h.cp = nil
	}
	r := hsAwait(resCh, hsWatchdog)
	if !r.returned {
		j.judgeReturn(r)
		h.stop()
		h.cp = nil
		hsAwait(resCh, 10*time.Second)
		return
	}
	witness["hook_points_hit"] = hits.list()
	st.addHooks(cs.Judged, hits.list())
	if to == hsInitTO && r.sess == nil && r.at.Before(faultAt.Add(-50*time.Millisecond)) {
		// see hsRunRawCase: the short timer fired before the peer got to the hook point (the 50 ms allow for the pipe)
		c.inconclusiveCase(cs.name(), fmt.Sprintf("InitializeTimeout %v fired %v before the child reported hook point %d", to, faultAt.Sub(r.at), cs.Step))
		return
	}
	j.judgeReturn(r)
	c.nontrivial(cs.key())
	c.count("lib_fault_cases_reached", 1)
	c.count("lib_fault_"+cs.Fault, 1)

	if r.sess != nil {
		st.addElapsed("returned a session ("+cs.Fault+")", r.elapsed)
		c.count("judged_end_returned_session_legally", 1)
		if cs.Fault == "stall-lib" {
			// the stalled end gives up by its own time-out, drops the connection (descriptor finalizer) and reports
			cm, okRes := h.expect("census", hsWatchdog+hsCensusWait, &seen)
			witness["child_messages"] = seen
			if !okRes {
				c.inconclusiveCase(cs.name(), "the stalled child did not report its result")
			}
			connGone := okRes
			for _, l := range cm.Left {
				if strings.Contains(l, "connection") {
					connGone = false
				}
			}
			hsJudgeStalledEnd(c, cs, st, h, &seen, witness)
			if connGone {
				// the peer has failed and dropped the connection but its process lives on: that must be enough
				c.count("peer_failed_but_process_alive_when_session_end_was_judged", 1)
			} else {
				h.stop() // the process goes away
				h.cp = nil
			}
		}
		if j.maySucceed {
			j.judgeSessionEnds(r.sess)
		}
		r.sess.Close()
		if !waitTeardown(r.sess, 20*time.Second) {
			c.inconclusiveCase(cs.name(), "teardown of the returned session did not finish within 20 s")
			return
		}
		j.judgeCensus(hsCensusSpec{token: token, sockIno: sockIno, checkFiles: yIsClient}, "after the session ended")
		return
	}
	st.addElapsed("error after "+cs.Fault, r.elapsed)
	c.count("judged_end_returned_error", 1)
	j.judgeCensus(hsCensusSpec{token: token, sockIno: sockIno, checkFiles: yIsClient}, "after the failed handshake")
	if cs.Fault == "stall-lib" {
		hsJudgeStalledEnd(c, cs, st, h, &seen, witness)
	}
	if cs.Round == 0 && cs.Step == 10 && cs.Fault == "die" {
		c.sample(map[string]interface{}{"case": cs.key(), "judged_end_error": r.err.Error(), "elapsed_ms": float64(r.elapsed.Microseconds()) / 1000,
			"initialize_timeout_ms": to.Milliseconds(), "hook_points_hit_by_judged_end": hits.list(), "child": seen, "census": "clean"})
	}
}

// hsJudgeStalledEnd judges the end X whose init goroutine the harness parked for ever at a hook point (it runs in the
// child): newSession must give up with an error at X's own InitializeTimeout, and at that moment nothing that X had
// already mapped or created may be left, nor its connection. The parked goroutine is never released, so nothing can
// happen late (Q3). Descriptors X had received but not mapped yet when it was parked live only in the parked
// goroutine's frame: they are in flight, not left behind by the clean-up, and are counted but not judged.
func hsJudgeStalledEnd(c *checkCtx, cs hsCase, st *hsStats, h *hsChild, seen *[]hsChildMsg, witness map[string]interface{}) {
	find := func(ev string) (hsChildMsg, bool) {
		for i := len(*seen) - 1; i >= 0; i-- {
			if (*seen)[i].Ev == ev {
				return (*seen)[i], true
			}
		}
		return hsChildMsg{}, false
	}
	if _, ok := find("census"); !ok && h.cp != nil {
		h.expect("census", 70*time.Second+hsCensusWait, seen)
	}
	res, ok1 := find("result")
	cm, ok2 := find("census")
	w := map[string]interface{}{"case": cs, "judged": "the stalled end X (child)", "child_messages": *seen, "parent_witness": witness}
	name := cs.name() + "-stalled-end"
	if !ok1 || !ok2 {
		c.inconclusiveCase(name, "the stalled child did not report its result and census")
		return
	}
	if res.ReturnedBeforeStall {
		c.inconclusiveCase(name, fmt.Sprintf("the stalled end's InitializeTimeout (%d ms) fired before its init goroutine reached hook point %d", res.InitTOms, cs.Step))
		return
	}
	c.count("stalled_end_judged", 1)
	to := time.Duration(res.InitTOms) * time.Millisecond
	el := time.Duration(res.ElapsedMs * float64(time.Millisecond))
	late := time.Duration(res.MaxLateMs * float64(time.Millisecond))
	switch {
	case res.Session:
		c.violation(name, w, "the end whose init goroutine is parked for ever at hook point %d returned a session", cs.Step)
	case el > to+hsSlack:
		if late >= hsLateLimit {
			c.inconclusiveCase(name, fmt.Sprintf("gave up after %v on a machine that was late by %v", el, late))
		} else {
			c.violation(name, w, "the end whose init goroutine is parked at hook point %d needed %v to give up (InitializeTimeout %v + slack %v)", cs.Step, el, to, hsSlack)
		}
	default:
		st.addElapsed("stalled end's own time-out", el)
	}
	var judged, inflight []string
	for _, l := range cm.Left {
		if strings.HasPrefix(l, "memfd descriptors") {
			inflight = append(inflight, l)
		} else {
			judged = append(judged, l)
		}
	}
	if len(judged) > 0 {
		w["leftovers"] = cm.Left
		c.violation(name, w, "census of the end that timed out with its init goroutine parked at hook point %d: left behind: %s", cs.Step,
			truncate(strings.Join(cm.Left, "; "), 500))
		return
	}
	c.count("stalled_end_census_clean", 1)
	if len(inflight) > 0 {
		c.count("stalled_end_descriptors_in_flight_in_parked_goroutine_not_judged", 1)
	}
}

// ---------------------------------------------------------------------------------------------
// group 1: success pairings, server in a child

func hsRunPairing(c *checkCtx, cs hsCase, st *hsStats, noise bool) {
	c.eval(1)
	prefix := hsPrefix()
	token := prefix + "_"
	defer func() {
		if m, _ := filepath.Glob(token + "*"); len(m) > 0 {
			for _, f := range m {
				_ = os.Remove(f)
			}
		}
	}()
	a := hsEndArgs{Role: "server", Memfd: cs.Memfd, Prefix: prefix, InitTOms: int(hsOkTO.Milliseconds()), Serve: true, Noise: noise,
		Seed: c.seed*1000 + int64(cs.Round*100000+cs.Idx)}
	if cs.Fault == "memfd-over-tcp-refused" {
		a.InitTOms = int(hsInitTO.Milliseconds())
	}
	h, err := hsSpawnEnd(c, a, cs.Transport == "tcp")
	if err != nil {
		c.inconclusiveCase(cs.name(), "spawn: "+err.Error())
		return
	}
	defer h.stop()
	witness := map[string]interface{}{"case": cs, "prefix": prefix}
	var seen []hsChildMsg
	sockIno := rawSocketInode(h.conn)

	if cs.Fault == "memfd-over-tcp-refused" {
		// memfd needs a unix connection: the client must refuse, and once the application drops the connection the server fails too
		conf := hsConf(prefix, true, hsInitTO)
		s, err := newSession(conf, h.conn, true)
		h.conn.Close()
		res, ok := h.expect("result", hsWatchdog, &seen)
		witness["child_messages"] = seen
		if !ok {
			c.inconclusiveCase(cs.name(), "the child server did not report")
			return
		}
		if s != nil || err == nil {
			c.violation(cs.name(), witness, "a memfd client over tcp returned a session")
			s.Close()
			return
		}
		if res.Session {
			c.violation(cs.name(), witness, "the memfd client refused the tcp connection (%v) but the server returned a session", err)
			return
		}
		c.nontrivial(cs.key())
		c.count("memfd_over_tcp_refused_on_both_ends", 1)
		j := &hsJudge{c: c, cs: cs, st: st, witness: witness}
		j.judgeCensus(hsCensusSpec{token: token, sockIno: sockIno, checkFiles: true}, "after the refused handshake")
		return
	}

	rawClient := cs.Script != ""
	clientVersion := 2
	if cs.Memfd || (rawClient && cs.Script != "c2f") {
		clientVersion = 3
	}
	if cs.Announce != 0 {
		clientVersion = cs.Announce
	}
	wantVersion := minInt(clientVersion, int(maxSupportProtoVersion))
	nonce := make([]byte, 200)
	fillKeyed(nonce, uint64(c.seed)*7919+uint64(cs.Idx*131+cs.Round), 0)

	var (
		sess    *Session
		raw     *rawPeer
		cliErr  error
		echo    []byte
		cliVer  int
		viaSock int
	)
	t0 := time.Now()
	if rawClient {
		raw, err = rawFromConn(h.conn)
		if err != nil {
			c.inconclusiveCase(cs.name(), "rawFromConn: "+err.Error())
			return
		}
		defer raw.close()
		defer raw.releaseShm()
		if cs.Round%2 == 1 {
			// a healthy pairing must also agree when the client's messages arrive in small pieces
			raw.frag = 1 + (cs.Idx+cs.Round)%7
			c.count("pairings_with_fragmented_delivery", 1)
		}
		conf := hsConf(prefix, cs.Memfd, hsOkTO)
		if err := raw.createShm(prefix, cs.Memfd, conf.QueueCap, conf.ShareMemoryBufferCap, conf.BufferSliceSizes); err != nil {
			c.inconclusiveCase(cs.name(), "raw createShm: "+err.Error())
			return
		}
		raw.announce = uint8(cs.Announce)
		cliErr = raw.rawClientHandshake(cs.Script, hsWatchdog)
		cliVer = int(raw.version)
		witness["raw_received"] = raw.received()
	} else {
		conf := hsConf(prefix, cs.Memfd, hsOkTO)
		hits := &hsHits{}
		hsReg.Store(conf, hits)
		defer hsReg.Delete(conf)
		cliConn := h.conn
		if cs.Round%2 == 1 && !cs.Memfd && cs.Fault == "none" {
			// the byte stream between the two library ends goes through a relay that forwards it in small pieces: a healthy
			// pairing must agree all the same (descriptor passing cannot cross a relay, so file mappings only)
			if a, b, p, err := connPair(false); err == nil {
				os.Remove(p)
				cliConn = a
				hsRelay(b, h.conn, 1+(cs.Idx+cs.Round)%5)
				c.count("pairings_with_fragmented_delivery", 1)
			}
		}
		sess, cliErr = newSession(conf, cliConn, true)
		if sess != nil {
			cliVer = int(sess.communicationVersion)
			defer func() {
				sess.Close()
				waitTeardown(sess, 20*time.Second)
			}()
		}
		st.addHooks("client", hits.list())
	}
	el := time.Since(t0)
	res, ok := h.expect("result", hsWatchdog, &seen)
	witness["child_messages"] = seen
	if !ok {
		c.inconclusiveCase(cs.name(), fmt.Sprintf("the child server did not report a result (client err=%v)", cliErr))
		return
	}
	st.addHooks("server(child)", res.Hits)
	if cliErr != nil {
		witness["client_error"] = cliErr.Error()
	}
	cliOK := cliErr == nil
	if cs.Script == "c2f" {
		// a protocol-2 style client gets no acknowledgement: it cannot tell, only the server's outcome counts
		cliOK = res.Session
		cliVer = wantVersion
		raw.version = uint8(wantVersion)
	}
	if cs.Announce != 0 && !cliOK && !res.Session {
		// refused on both ends: legal. The refusing server must not keep anything.
		cm, ok := h.expect("census", hsWatchdog+hsCensusWait, &seen)
		witness["child_messages"] = seen
		if ok && len(cm.Left) > 0 {
			c.violation(cs.name(), witness, "the server refused the client announcing version %d (%s) but left behind: %v", cs.Announce, res.Err, cm.Left)
			return
		}
		c.count("newer_client_refused_on_both_ends", 1)
		c.nontrivial(cs.key())
		if cs.Round == 0 && cs.Announce == 255 && cs.Script == "c3f" {
			c.sample(map[string]interface{}{"case": cs.key(), "server_error": res.Err, "raw_client_error": fmt.Sprint(cliErr)})
		}
		return
	}
	if cliOK != res.Session {
		c.violation(cs.name(), witness, "no fault injected: client success=%v (err=%v) but server success=%v (err=%s)", cliOK, cliErr, res.Session, res.Err)
		return
	}
	if !cliOK {
		// both ends failed without an injected fault: that does not contradict the statement, but then nothing was observed
		c.count("pairing_failed_on_both_ends", 1)
		c.inconclusiveCase(cs.name(), fmt.Sprintf("the unfaulted pairing failed on both ends: client %v, server %s", cliErr, res.Err))
		return
	}
	st.addElapsed("successful handshake", el)
	// negotiated version
	if cliVer != res.Version || cliVer != wantVersion {
		c.violation(cs.name(), witness, "negotiated version: client end %d, server end %d, min(client %d, server %d) = %d",
			cliVer, res.Version, clientVersion, maxSupportProtoVersion, wantVersion)
	}
	if raw != nil {
		for _, rr := range raw.received() {
			if int(rr.Version) != wantVersion && eventType(rr.Type) == typeAckShareMemory {
				c.violation(cs.name(), witness, "the server's acknowledgement carries version %d, negotiated is %d", rr.Version, wantVersion)
			}
			if eventType(rr.Type) == typeExchangeProtoVersion && (rr.Version == 0 || int(rr.Version) > int(maxSupportProtoVersion)) {
				c.violation(cs.name(), witness, "the server answered the version exchange with version %d, which it does not support itself (1..%d)", rr.Version, maxSupportProtoVersion)
			}
		}
		if cs.Announce != 0 {
			c.count("newer_client_accepted_with_min_version", 1)
		}
	}
	// the very same memory: inodes of both processes' mappings (the child reports its own /proc/self/maps)
	_ = h.cp.send(hsChildCmd{Cmd: "stats"})
	st0, ok := h.expect("stats", hsWatchdog, &seen)
	if !ok {
		c.inconclusiveCase(cs.name(), "the child did not answer the stats request")
		return
	}
	mine := hsMapInodes(os.Getpid(), token)
	theirs := st0.Maps
	witness["maps_parent"], witness["maps_child"] = mine, theirs
	same := len(mine) == 2 && len(theirs) == 2
	for suffix, v := range mine {
		w := theirs[suffix]
		if len(v) != 1 || len(w) != 1 || v[0] != w[0] {
			same = false
		}
	}
	if !same {
		c.violation(cs.name(), witness, "the two processes do not map the same queue and buffer memory: here %v, child %v", mine, theirs)
	} else {
		c.count("same_inodes_in_both_processes", 1)
	}
	// round trip through shared memory
	var rtErr error
	if raw != nil {
		echo, viaSock, rtErr = raw.rawRoundTrip(1, nonce, hsWatchdog)
	} else {
		var stream *Stream
		stream, rtErr = sess.OpenStream()
		if rtErr == nil {
			_ = stream.SetDeadline(time.Now().Add(hsWatchdog))
			if _, rtErr = stream.Write(nonce); rtErr == nil {
				echo = make([]byte, 0, len(nonce))
				buf := make([]byte, len(nonce))
				for len(echo) < len(nonce) && rtErr == nil {
					var n int
					n, rtErr = stream.Read(buf)
					echo = append(echo, buf[:n]...)
				}
			}
			stream.Close()
		}
	}
	if rtErr != nil {
		if rtErr == ErrTimeout || rtErr == errRawTimeout {
			c.inconclusiveCase(cs.name(), "round trip watchdog: "+rtErr.Error())
		} else {
			c.violation(cs.name(), witness, "round trip over the established session failed: %v", rtErr)
		}
		return
	}
	if string(echo) != string(nonce) {
		c.violation(cs.name(), witness, "round trip returned different bytes (%d of %d, first mismatch at %d)", len(echo), len(nonce), checkKeyed(echo, uint64(c.seed)*7919+uint64(cs.Idx*131+cs.Round), 0))
		return
	}
	_ = h.cp.send(hsChildCmd{Cmd: "stats"})
	stt, ok := h.expect("stats", hsWatchdog, &seen)
	if !ok {
		c.inconclusiveCase(cs.name(), "the child did not answer the stats request")
		return
	}
	witness["child_stats"] = stt
	var fbR, fbW, sendQ, recvQ uint64
	if sess != nil {
		pm, sm, _ := sess.GetMetrics()
		fbR, fbW, sendQ, recvQ = sm.FallbackReadCount, sm.FallbackWriteCount, pm.SendQueueCount, pm.ReceiveQueueCount
	} else {
		fbR, sendQ, recvQ = uint64(viaSock), 1, 1
	}
	if fbR != 0 || fbW != 0 || stt.FbRead != 0 || stt.FbWrite != 0 || sendQ == 0 || recvQ == 0 || stt.RecvPoll == 0 {
		c.violation(cs.name(), witness, "the round trip did not travel through shared memory: client fallback r/w %d/%d queue tails send/recv %d/%d, server fallback r/w %d/%d polling events %d",
			fbR, fbW, sendQ, recvQ, stt.FbRead, stt.FbWrite, stt.RecvPoll)
		return
	}
	c.count("round_trip_through_shm", 1)
	c.nontrivial(cs.key())
	if cs.Round == 0 && cs.Transport == "unix" {
		c.sample(map[string]interface{}{"case": cs.key(), "version_client": cliVer, "version_server": res.Version, "inodes": mine,
			"handshake_ms": float64(el.Microseconds()) / 1000})
	}
}

// ---------------------------------------------------------------------------------------------
// Q3 probe (not judged): the peer answers late, after the library end's time-out

type hsQ3Result struct {
	Variant       string   `json:"variant"`
	ServerErr     string   `json:"server_error"`
	ServerMs      float64  `json:"server_gave_up_after_ms"`
	LateSendErr   string   `json:"late_send_error,omitempty"`
	ClientGotAck  bool     `json:"raw_client_received_ack_after_server_failed"`
	LeftoverAfter []string `json:"leftovers_in_server_process"`
	Note          string   `json:"note,omitempty"`
}

func hsChildQ3(args []string) {
	fenceInit()
	var out []hsQ3Result
	for _, v := range []struct {
		name, script string
		memfd, gc    bool
	}{{"files, late answer before any GC", "c3f", false, false}, {"files, late answer after two GCs", "c3f", false, true},
		{"memfd, late answer before any GC", "c3m", true, false}} {
		res := hsQ3Result{Variant: v.name}
		prefix := hsPrefix()
		conf := hsConf(prefix, v.memfd, hsInitTO)
		cli, srv, path, err := connPair(false)
		if err != nil {
			res.Note = err.Error()
			out = append(out, res)
			continue
		}
		ino := rawSocketInode(srv)
		raw, _ := rawFromConn(cli)
		_ = raw.createShm(prefix, v.memfd, conf.QueueCap, conf.ShareMemoryBufferCap, conf.BufferSliceSizes)
		resCh := hsStartLib(conf, srv, false)
		steps := rawScript(v.script)
		_, err = raw.runScript(steps, 0, 2, 5*time.Second, nil)
		if err != nil {
			res.Note = "script: " + err.Error()
		}
		r := hsAwait(resCh, hsWatchdog)
		if r.err != nil {
			res.ServerErr = r.err.Error()
		}
		res.ServerMs = float64(r.elapsed.Microseconds()) / 1000
		if v.gc {
			runtime.GC()
			runtime.GC()
			time.Sleep(50 * time.Millisecond)
		}
		// the late answer
		if _, err := raw.runScript(steps, 2, len(steps), 500*time.Millisecond, nil); err != nil {
			res.LateSendErr = err.Error()
		}
		res.ClientGotAck = raw.sawType(typeAckShareMemory)
		time.Sleep(100 * time.Millisecond)
		res.LeftoverAfter = hsCensusPoll(hsCensusSpec{token: prefix + "_", sockIno: ino, wantMaps: raw.ownMappings(), wantMemfds: raw.ownMemfds()}, time.Second)
		raw.close()
		raw.releaseShm()
		if path != "" {
			os.Remove(path)
		}
		if m, _ := filepath.Glob(prefix + "_*"); len(m) > 0 {
			for _, f := range m {
				os.Remove(f)
			}
		}
		out = append(out, res)
	}
	childReply(out)
}

func hsRunQ3Probe(c *checkCtx) {
	cp, err := c.spawnChild("hsq3", nil)
	if err != nil {
		return
	}
	var out []hsQ3Result
	_, ok := cp.recv(60*time.Second, &out)
	cp.stdin.Close()
	cp.wait(10 * time.Second)
	cp.cleanupFiles()
	if ok {
		c.setExtra("q3_late_answer_probe_not_judged", out)
		for _, r := range out {
			if len(r.LeftoverAfter) > 0 {
				c.count("q3_probe_variants_with_leftovers_not_judged", 1)
			}
			if r.ClientGotAck {
				c.count("q3_probe_variants_client_acked_after_server_failed_not_judged", 1)
			}
		}
	}
}

// ---------------------------------------------------------------------------------------------

func checkHandshake(c *checkCtx) {
	c.level = "fault_enumeration"
	c.rule = "one case = (pairing, transport, judged end, step of the exchange or hook point, fault kind); it counts as non-trivial only when the fault " +
		"was really applied at that step: the raw peer completed every earlier step of its script with the library end / the child library end " +
		"reported the hook point before it was killed or stalled; success pairings count when both ends returned sessions and the round trip went through shared memory"
	c.assume("the census attributes resources by the case's unique /dev/shm prefix (file names, memfd names) and by the connection's socket inode; " +
		"descriptors are closed by finalizers, so the census polls with two GCs per poll and reports only what persists for 10 s")
	c.assume("a bound that is missed while the case's own timer wake-ups were late by >= 200 ms is inconclusive (loaded machine), not a violation")
	c.assume("the end that is killed or stalled by the harness itself is not judged (its own stall is not 'a peer that stops answering'); " +
		"the late-answer scenario Q3 is a probe only")
	fenceInit()
	c.maxSamples = 6
	// leftovers of an earlier, killed run that happened to have this pid
	if m, _ := filepath.Glob(shmPrefix() + "hs*"); len(m) > 0 {
		for _, f := range m {
			_ = os.Remove(f)
		}
	}
	k := hsInstallCtl(c.seed)
	defer uninstallCtl()
	st := &hsStats{elapsed: map[string][]float64{}, hookSet: map[string]bool{}}
	list := hsCaseList()
	rounds := c.pick(2, 20)
	width := c.jobs
	if width > 16 {
		width = 16
	}
	if width < 1 {
		width = 1
	}
	perGroup := map[string]int{}
	for _, cs := range list {
		perGroup[cs.Group]++
	}
	for round := 0; round < rounds; round++ {
		noise := round > 0
		if noise {
			atomic.StoreInt32(&hsNoise, 1)
		} else {
			atomic.StoreInt32(&hsNoise, 0)
		}
		// the order of execution is shuffled per (seed, round): which cases overlap is part of the timing noise.
		// The success pairings run first and among themselves only.
		order := caseRand(c.seed, 7000000+round).Perm(len(list))
		var first, rest []int
		for _, i := range order {
			if list[i].Group == "pairing" {
				first = append(first, i)
			} else {
				rest = append(rest, i)
			}
		}
		run := func(idx []int) {
			jobs := make(chan hsCase)
			var wg sync.WaitGroup
			for w := 0; w < width; w++ {
				wg.Add(1)
				go func() {
					defer wg.Done()
					for cs := range jobs {
						switch cs.Group {
						case "pairing":
							hsRunPairing(c, cs, st, noise)
						case "raw":
							hsRunRawCase(c, cs, st, noise)
						case "lib":
							hsRunLibCase(c, cs, st, noise)
						}
					}
				}()
			}
			for _, i := range idx {
				cs := list[i]
				cs.Round = round
				jobs <- cs
			}
			close(jobs)
			wg.Wait()
		}
		run(first)
		run(rest)
	}
	hsRunQ3Probe(c)

	c.setExtra("exhaustive", true)
	c.setExtra("fault_list", map[string]interface{}{"cases_per_round": len(list), "rounds": rounds, "per_group": perGroup,
		"noise": "round 0 without, later rounds with random delays before every raw step and at every handshake hook point, shuffled overlap"})
	c.setExtra("elapsed_ms", st.summary())
	var hooks []string
	st.mu.Lock()
	for h := range st.hookSet {
		hooks = append(hooks, h)
	}
	st.mu.Unlock()
	sort.Strings(hooks)
	c.setExtra("handshake_hook_points_reached", hooks)
	c.count("handshake_hook_hits_in_this_process", int64(k.hitCount(vpHandshake)))
	// structural: every case of the list must have been reached at least once
	c.mu.Lock()
	missing := []string{}
	for _, cs := range list {
		if _, ok := c.distinct[cs.key()]; !ok {
			missing = append(missing, cs.key())
		}
	}
	c.mu.Unlock()
	if len(missing) > 0 {
		c.setExtra("cases_never_reached", missing)
		if len(missing) > len(list)/4 {
			c.noObservation(fmt.Sprintf("%d of %d cases of the fault list were never reached", len(missing), len(list)))
		}
	}
}

// hsRelay forwards the byte stream between two connections in pieces of at most `piece` bytes, with a short pause after each.
func hsRelay(a, b net.Conn, piece int) {
	pump := func(dst, src net.Conn) {
		buf := make([]byte, 4096)
		for {
			n, err := src.Read(buf)
			for off := 0; off < n; {
				end := off + piece
				if end > n {
					end = n
				}
				if _, werr := dst.Write(buf[off:end]); werr != nil {
					src.Close()
					dst.Close()
					return
				}
				off = end
				if off < 256 { // the handshake is small; later traffic is forwarded without pauses
					time.Sleep(150 * time.Microsecond)
				}
			}
			if err != nil {
				dst.Close()
				src.Close()
				return
			}
		}
	}
	go pump(a, b)
	go pump(b, a)
}
