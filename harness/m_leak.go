package shmipc

// C09: all shared memory comes back once streams are finished.
//
// Random histories over 1..40 streams of one in-process session pair: opens (plain and through a streamPool), writes of
// any size (WriteBytes / Reserve / WriteString / WriteByte; single slice, multi slice, larger than every class), flushes
// (also on closed and half-closed ends, with short write deadlines, into a full queue), partial reads through every
// reader call, ReleasePreviousRead / ReleaseReadAndReuse, closes from either side at any time, pool put-backs and
// reuse, allocator exhaustion (hoarding) and socket fallback, data sent to a stream the peer has just closed
// (unknown-stream recycle on the client, "zombie" streams on the server), queue-full episodes (the consumer's event
// loop is held at handlePolling by a hook handler while the producer bursts).
//   single mode:     one goroutine executes the history; after settled steps an *attribution* snapshot compares the
//                    allocator's in-use count with the slots reachable from live streams + the hoard (diagnosis only);
//   concurrent mode: several workers with their own streams, a hoarder goroutine, perturbed event loop.
// Oracle, only at checkpoints where the property's precondition holds:
//   close checkpoint: every stream the harness ever obtained (zombies included) closed on both ends, pool emptied,
//                     hoard released, pair quiesced;
//   drain checkpoint: streams stay open, but everything written was flushed, everything delivered was read and
//                     released, pair quiesced;
// then in-use bytes == 0 (shmInUse and GetMetrics), every class has size == cap, and a walk of every free list from
// head reaches cap distinct in-bounds slots and ends at tail. A failed check is repeated after further settling rounds:
// only a state that persists is a leak (no wall-clock verdict).

import (
	"encoding/json"
	"fmt"
	"hash/fnv"
	"math/rand"
	"os"
	"runtime"
	"runtime/debug"
	"sync"
	"sync/atomic"
	"time"
)

func init() {
	verifChecks["C09"] = checkLeak
}

// ---------------------------------------------------------------------------------------------------------
// ABA-suspect detector (F1 contamination guard), private copy

type leakAba struct {
	lists    []*bufferList
	popSeq   []uint64
	lastPop  [][]uint64
	suspects uint64
}

var leakAbaCur atomic.Value // *leakAba

func leakAbaBegin(b *bufferList) uint64 {
	d, _ := leakAbaCur.Load().(*leakAba)
	if d == nil {
		return 0
	}
	for i, l := range d.lists {
		if l == b {
			return atomic.LoadUint64(&d.popSeq[i])
		}
	}
	return 0
}

func leakAbaWon(b *bufferList, slotOffset uint32, begin uint64) {
	d, _ := leakAbaCur.Load().(*leakAba)
	if d == nil {
		return
	}
	for i, l := range d.lists {
		if l == b {
			stride := *l.capPerBuffer + bufferHeaderSize
			idx := int(slotOffset / stride)
			if idx >= len(d.lastPop[i]) {
				return
			}
			seq := atomic.AddUint64(&d.popSeq[i], 1)
			last := atomic.SwapUint64(&d.lastPop[i][idx], seq)
			if last > begin {
				atomic.AddUint64(&d.suspects, 1)
			}
			return
		}
	}
}

func leakAbaInstall(bm *bufferManager) *leakAba {
	d := &leakAba{lists: bm.lists, popSeq: make([]uint64, len(bm.lists))}
	for _, l := range bm.lists {
		d.lastPop = append(d.lastPop, make([]uint64, int(*l.cap)))
	}
	leakAbaCur.Store(d)
	verifPopHook.Store(&verifPopHooks{begin: leakAbaBegin, won: leakAbaWon})
	return d
}

func leakAbaUninstall() {
	verifPopHook.Store((*verifPopHooks)(nil))
	leakAbaCur.Store((*leakAba)(nil))
}

// ---------------------------------------------------------------------------------------------------------
// cases

type leakCase struct {
	Idx        int    `json:"idx"`
	Seed       int64  `json:"seed"`
	Mode       string `json:"mode"` // single | concurrent
	QueueCap   uint32 `json:"queue_cap"`
	Layout     int    `json:"layout"`
	Steps      int    `json:"steps_per_worker"`
	MaxStreams int    `json:"max_streams"`
	Workers    int    `json:"workers"`
	Memfd      bool   `json:"memfd"`
	Profile    string `json:"profile"`
	Hoarder    bool   `json:"hoarder_goroutine"`
	FenceEvery bool   `json:"settle_after_every_step"`
}

type leakLayout struct {
	bufCap uint32
	sizes  []uint32
}

// every class has >= 256 slots
var leakLayouts = []leakLayout{
	{2 << 20, []uint32{64, 20, 256, 40, 2048, 40}},
	{1 << 20, []uint32{128, 100}},
	{4 << 20, []uint32{512, 30, 4096, 70}},
	{1 << 20, []uint32{32, 30, 1024, 70}},
}

var leakProfiles = []muxProfileLite{
	{"natural", func(k *ctl) {}},
	{"poll-popped", func(k *ctl) { k.set(vpPollPopped, 250, 600*time.Microsecond, 80) }},
	{"poll-popped-long", func(k *ctl) { k.set(vpPollPopped, 50, 12*time.Millisecond, 90) }},
	{"fill-close", func(k *ctl) {
		k.set(vpFillAdded, 200, 300*time.Microsecond, 70)
		k.set(vpStreamCloseCASed, 200, 300*time.Microsecond, 70)
		k.set(vpFlushStateChecked, 200, 300*time.Microsecond, 70)
	}},
}

type muxProfileLite struct {
	name  string
	build func(k *ctl)
}

func genLeakCase(c *checkCtx, idx int) leakCase {
	rng := caseRand(c.seed, 9000000+idx)
	cs := leakCase{Idx: idx, Seed: rng.Int63()}
	cs.Mode = "single"
	if idx%3 == 2 {
		cs.Mode = "concurrent"
	}
	cs.QueueCap = []uint32{2, 2, 8, 64}[rng.Intn(4)]
	cs.Layout = rng.Intn(len(leakLayouts))
	cs.Memfd = rng.Intn(2) == 0
	cs.MaxStreams = []int{1, 2, 3, 5, 8, 16, 40}[rng.Intn(7)]
	cs.Profile = "natural"
	if cs.Mode == "single" {
		cs.Workers = 1
		cs.Steps = 300
		cs.FenceEvery = rng.Intn(2) == 0
	} else {
		cs.Workers = 2 + rng.Intn(7)
		cs.Steps = 150
		if cs.MaxStreams < cs.Workers {
			cs.MaxStreams = cs.Workers
		}
		cs.Profile = leakProfiles[rng.Intn(len(leakProfiles))].name
		cs.Hoarder = rng.Intn(3) != 0
	}
	return cs
}

// ---------------------------------------------------------------------------------------------------------
// state

type leakOp struct {
	N    int    `json:"n"`
	W    int    `json:"worker,omitempty"`
	Op   string `json:"op"`
	Slot int    `json:"slot"`
	Side string `json:"side,omitempty"`
	Arg  int    `json:"arg,omitempty"`
	Res  string `json:"result,omitempty"`
	Note string `json:"note,omitempty"`
}

type leakSlot struct {
	idx    int
	id     uint32
	ends   [2]*Stream
	closed [2]bool
	pooled bool
	zombie bool
}

type leakExec struct {
	c       *checkCtx
	cs      leakCase
	p       *sessPair
	bm      *bufferManager
	classes []int

	stallOn     int32
	stallTarget atomic.Value // *Session
	stallMu     sync.Mutex
	stallGate   chan struct{}
	stallHits   uint64

	// rendezvous (single mode): the event loop about to handle a close notification and the goroutine about to Close the
	// same stream's other end are released at the same instant
	rvArmed   int32
	rvTarget  atomic.Value // *Stream
	rvSess    atomic.Value // *Session
	rvArrived int32
	rvLoopIn  int32
	rvDelay   int32
	rvMet     uint64

	// late data (single mode): the event loop is held at vpPollGotStream with the data element of a stream in its hands
	// while the harness closes that stream's receiving end
	lateArmed   int32
	lateTarget  atomic.Value // *Stream
	lateHolding int32
	lateGate    chan struct{}
	lateHeld    uint64

	// parked close (single mode): the closer is parked in Stream.close() between the state load and the CAS until the
	// peer's close notification has half-closed the same stream
	parkArmed  int32
	parkTarget atomic.Value // *Stream
	parkParked int32
	parkHalf   int32
	parkDone   uint64

	mu       sync.Mutex
	problems []string

	// evidence
	hostile    map[string]*uint64
	crossWrite uint64
	crossRead  uint64
}

type leakWorker struct {
	x       *leakExec
	id      int
	rng     *rand.Rand
	slots   []*leakSlot
	pool    *streamPool
	hoard   [][]*bufferSlice
	hist    []leakOp
	scratch []byte
	maxOpen int
	single  bool

	firstUnaccounted int // step index after which unaccounted slots first appeared (single mode), -1 none
	lastClean        int // last step after which the accounting was still complete
	unaccountedInfo  string
	crossW, crossR   bool
	hostileN         int
	aborted          string
}

var leakHostileKinds = []string{"close with unread data", "flush on closed or half-closed end", "flush through the socket fallback",
	"queue-full event", "flush failed (error exit)", "write on closed end", "pool put-back", "pool reuse", "pool put-back refused (closed instead)",
	"data for a stream the peer had closed (zombie)", "simultaneous close of both ends",
	"data handed to a stream closed meanwhile (loop held at PollGotStream)", "hoard", "read on closed end", "close of half-closed end", "allocation failure (heap slice)"}

func (x *leakExec) hit(w *leakWorker, kind string) {
	if p, ok := x.hostile[kind]; ok {
		atomic.AddUint64(p, 1)
	}
	if w != nil && kind != "hoard" && kind != "pool put-back" && kind != "pool reuse" {
		w.hostileN++
	}
}

func (x *leakExec) problem(format string, a ...interface{}) {
	x.mu.Lock()
	if len(x.problems) < 10 {
		x.problems = append(x.problems, fmt.Sprintf(format, a...))
	}
	x.mu.Unlock()
}

// leakSpinUntil waits for a condition another goroutine is about to establish (microseconds): yield, do not sleep.
func leakSpinUntil(timeout time.Duration, cond func() bool) bool {
	t0 := time.Now()
	for i := 0; ; i++ {
		if cond() {
			return true
		}
		if i&63 == 63 && time.Since(t0) > timeout {
			return false
		}
		runtime.Gosched()
	}
}

func leakSide(side int) string {
	if side == 0 {
		return "client"
	}
	return "server"
}

func (w *leakWorker) rec(op string, sl *leakSlot, side int, arg int, res string) *leakOp {
	o := leakOp{N: len(w.hist), W: w.id, Op: op, Slot: -1, Arg: arg, Res: res}
	if sl != nil {
		o.Slot = sl.idx
		o.Side = leakSide(side)
	}
	w.hist = append(w.hist, o)
	return &w.hist[len(w.hist)-1]
}

func leakErrStr(err error) string {
	if err == nil {
		return "ok"
	}
	return err.Error()
}

// ---------------------------------------------------------------------------------------------------------
// stall handler (single mode): holds the consumer's event loop at handlePolling while the gate is closed

func (x *leakExec) rvWait() {
	atomic.AddInt32(&x.rvArrived, 1)
	t0 := time.Now()
	for i := 0; atomic.LoadInt32(&x.rvArrived) < 2; i++ {
		if i&1023 == 1023 && time.Since(t0) > 5*time.Millisecond {
			return // the partner did not come (the notification took another path): go on alone
		}
	}
	atomic.AddUint64(&x.rvMet, 1)
}

func (x *leakExec) rvLoopSide(obj interface{}) {
	if atomic.LoadInt32(&x.rvArmed) == 0 {
		return
	}
	s, _ := obj.(*Session)
	t, _ := x.rvSess.Load().(*Session)
	if s == nil || s != t || !atomic.CompareAndSwapInt32(&x.rvLoopIn, 0, 1) {
		return
	}
	x.rvWait()
}

func (x *leakExec) dispatchHook(obj interface{}, n int64) {
	if n == int64(typeStreamClose) {
		x.rvLoopSide(obj)
	}
}

func (x *leakExec) closeEnterHook(obj interface{}, n int64) {
	if atomic.LoadInt32(&x.rvArmed) == 0 {
		return
	}
	st, _ := obj.(*Stream)
	t, _ := x.rvTarget.Load().(*Stream)
	if st == nil || st != t {
		return
	}
	x.rvWait()
	spinFor(int(atomic.LoadInt32(&x.rvDelay)))
}

func (x *leakExec) gotStreamHook(obj interface{}, n int64) {
	if atomic.LoadInt32(&x.lateArmed) == 0 || n != int64(streamOpened) {
		return
	}
	st, _ := obj.(*Stream)
	t, _ := x.lateTarget.Load().(*Stream)
	if st == nil || st != t {
		return
	}
	x.stallMu.Lock()
	g := x.lateGate
	x.stallMu.Unlock()
	if g == nil {
		return
	}
	atomic.StoreInt32(&x.lateHolding, 1)
	select {
	case <-g:
	case <-time.After(3 * time.Second): // safety net only
	}
}

func (x *leakExec) closeLoadedHook(obj interface{}, n int64) {
	if atomic.LoadInt32(&x.parkArmed) == 0 || n != int64(streamOpened) {
		return
	}
	st, _ := obj.(*Stream)
	t, _ := x.parkTarget.Load().(*Stream)
	if st == nil || st != t {
		return
	}
	atomic.StoreInt32(&x.parkParked, 1)
	t0 := time.Now()
	for i := 0; atomic.LoadInt32(&x.parkHalf) == 0; i++ {
		if i&255 == 255 {
			if time.Since(t0) > 2*time.Second {
				return // safety net only
			}
			runtime.Gosched()
		}
	}
	atomic.AddUint64(&x.parkDone, 1)
}

func (x *leakExec) halfClosedHook(obj interface{}, n int64) {
	if atomic.LoadInt32(&x.parkArmed) == 0 {
		return
	}
	st, _ := obj.(*Stream)
	t, _ := x.parkTarget.Load().(*Stream)
	if st != nil && st == t {
		atomic.StoreInt32(&x.parkHalf, 1)
	}
}

func (x *leakExec) pollHook(obj interface{}, n int64) {
	x.rvLoopSide(obj)
	if atomic.LoadInt32(&x.stallOn) == 0 {
		return
	}
	s, _ := obj.(*Session)
	t, _ := x.stallTarget.Load().(*Session)
	if s == nil || s != t {
		return
	}
	x.stallMu.Lock()
	g := x.stallGate
	x.stallMu.Unlock()
	if g == nil {
		return
	}
	atomic.AddUint64(&x.stallHits, 1)
	select {
	case <-g:
	case <-time.After(3 * time.Second): // safety net only; the harness always opens the gate
	}
}

func (x *leakExec) stallBegin(target *Session) {
	x.stallMu.Lock()
	x.stallGate = make(chan struct{})
	x.stallMu.Unlock()
	x.stallTarget.Store(target)
	atomic.StoreInt32(&x.stallOn, 1)
}

func (x *leakExec) stallEnd() {
	x.stallMu.Lock()
	if atomic.LoadInt32(&x.stallOn) != 0 {
		atomic.StoreInt32(&x.stallOn, 0)
		close(x.stallGate)
	}
	x.stallMu.Unlock()
}

// ---------------------------------------------------------------------------------------------------------
// operations

func (w *leakWorker) openSlots(side int, includePooled bool) []*leakSlot {
	var out []*leakSlot
	for _, sl := range w.slots {
		if sl.ends[side] != nil && !sl.closed[side] && (includePooled || side == 1 || !sl.pooled) {
			out = append(out, sl)
		}
	}
	return out
}

func (w *leakWorker) liveCount() int {
	n := 0
	for _, sl := range w.slots {
		if (sl.ends[0] != nil && !sl.closed[0]) || (sl.ends[1] != nil && !sl.closed[1]) {
			n++
		}
	}
	return n
}

func (w *leakWorker) pickSize() int {
	cl := w.x.classes
	max := cl[len(cl)-1]
	switch w.rng.Intn(20) {
	case 0, 1, 2, 3, 4, 5:
		return 1 + w.rng.Intn(32)
	case 6, 7, 8, 9, 10, 11:
		c := cl[w.rng.Intn(len(cl))]
		n := c - 1 + w.rng.Intn(3)
		if n < 1 {
			n = 1
		}
		return n
	case 12, 13, 14, 15:
		return max + 1 + w.rng.Intn(2*max)
	case 16:
		return 1 + w.rng.Intn(30000)
	default:
		return 1 + w.rng.Intn(max)
	}
}

func (w *leakWorker) opOpen(viaPool bool) {
	x := w.x
	if viaPool {
		st, err := w.pool.getOrOpenStream()
		// streams the pool discarded (closed by the peer meanwhile) were closed by getOrOpenStream
		for _, sl := range w.slots {
			if sl.pooled && sl.ends[0] != nil && sl.ends[0].getStreamState() == uint32(streamClosed) {
				sl.pooled = false
				sl.closed[0] = true
			}
		}
		if err != nil {
			w.rec("pool-get", nil, 0, 0, err.Error())
			return
		}
		for _, sl := range w.slots {
			if sl.ends[0] == st {
				sl.pooled = false
				x.hit(w, "pool reuse")
				w.rec("pool-get", sl, 0, 0, "reused")
				return
			}
		}
		sl := &leakSlot{idx: len(w.slots), id: st.StreamID()}
		sl.ends[0] = st
		w.slots = append(w.slots, sl)
		w.rec("pool-get", sl, 0, 0, "opened")
		return
	}
	st, err := x.p.client.OpenStream()
	if err != nil {
		w.rec("open", nil, 0, 0, err.Error())
		return
	}
	sl := &leakSlot{idx: len(w.slots), id: st.StreamID()}
	sl.ends[0] = st
	w.slots = append(w.slots, sl)
	w.rec("open", sl, 0, 0, "ok")
}

func (w *leakWorker) opWrite(sl *leakSlot, side int, n int) {
	st := sl.ends[side]
	bw := st.BufferWriter()
	if cap(w.scratch) < n {
		w.scratch = make([]byte, n)
	}
	b := w.scratch[:n]
	fillKeyed(b, uint64(sl.id)*2+uint64(side), uint64(len(w.hist)))
	api := "WriteBytes"
	var err error
	switch w.rng.Intn(8) {
	case 0, 1:
		api = "Reserve"
		var r []byte
		r, err = bw.Reserve(n)
		if err == nil {
			copy(r, b)
		}
	case 2:
		api = "WriteString"
		err = bw.WriteString(string(b))
	case 3:
		api = "WriteByte"
		if n > 48 {
			n = 48
		}
		for i := 0; i < n && err == nil; i++ {
			err = bw.WriteByte(b[i])
		}
	default:
		_, err = bw.WriteBytes(b)
	}
	o := w.rec("write", sl, side, n, leakErrStr(err))
	o.Note = api
	if st.sendBuf.sliceList.size() >= 2 {
		w.crossW = true
		atomic.AddUint64(&w.x.crossWrite, 1)
	}
	if !st.sendBuf.isFromShareMemory() {
		w.x.hit(w, "allocation failure (heap slice)")
	}
	if sl.closed[side] {
		w.x.hit(w, "write on closed end")
	}
}

func (w *leakWorker) opFlush(sl *leakSlot, side int, deadlineMs int) {
	x := w.x
	st := sl.ends[side]
	sess := st.session
	unflushed := st.sendBuf.Len()
	state := st.getStreamState()
	viaSocket := unflushed > 0 && (!st.sendBuf.isFromShareMemory() || st.inFallbackState)
	q0 := atomic.LoadUint64(&sess.stats.queueFullErrorCount)
	if deadlineMs > 0 {
		_ = st.SetWriteDeadline(time.Now().Add(time.Duration(deadlineMs) * time.Millisecond))
	}
	err := st.Flush(false)
	if deadlineMs > 0 {
		_ = st.SetWriteDeadline(time.Time{})
	}
	o := w.rec("flush", sl, side, unflushed, leakErrStr(err))
	if deadlineMs > 0 {
		o.Note = fmt.Sprintf("write deadline %d ms", deadlineMs)
	}
	if unflushed > 0 {
		if state != uint32(streamOpened) {
			x.hit(w, "flush on closed or half-closed end")
		} else if viaSocket && err == nil {
			x.hit(w, "flush through the socket fallback")
		}
		if err != nil && state == uint32(streamOpened) {
			x.hit(w, "flush failed (error exit)")
		}
	}
	if d := atomic.LoadUint64(&sess.stats.queueFullErrorCount) - q0; d > 0 {
		// (in concurrent mode the counter is shared by all workers of the side: the attribution to this flush is approximate)
		o.Note += " queue full"
		x.hit(w, "queue-full event")
	}
}

// opRead reads at most what has been delivered (never blocks).
func (w *leakWorker) opRead(sl *leakSlot, side int) {
	st := sl.ends[side]
	rd := st.BufferReader()
	if sl.closed[side] {
		_ = st.SetReadDeadline(time.Now().Add(time.Millisecond))
		_, err := rd.ReadBytes(1)
		w.rec("read", sl, side, 1, leakErrStr(err))
		w.x.hit(w, "read on closed end")
		return
	}
	st.pendingData.moveTo(st.recvBuf)
	avail := st.recvBuf.Len()
	if avail == 0 {
		w.rec("read", sl, side, 0, "nothing delivered")
		return
	}
	n := avail
	if w.rng.Intn(3) != 0 {
		n = 1 + w.rng.Intn(avail)
	}
	if f := st.recvBuf.sliceList.front(); f != nil && f.size() < n {
		w.crossR = true
		atomic.AddUint64(&w.x.crossRead, 1)
	}
	api := "ReadBytes"
	var err error
	switch w.rng.Intn(10) {
	case 0:
		api = "Read"
		if cap(w.scratch) < n {
			w.scratch = make([]byte, n)
		}
		_, err = st.Read(w.scratch[:n])
	case 1:
		api = "Discard"
		_, err = rd.Discard(n)
	case 2:
		api = "Peek"
		_, err = rd.Peek(n)
	case 3:
		api = "ReadString"
		_, err = rd.ReadString(n)
	case 4:
		api = "ReadByte"
		if n > 32 {
			n = 32
		}
		for i := 0; i < n && err == nil; i++ {
			_, err = rd.ReadByte()
		}
	default:
		_, err = rd.ReadBytes(n)
	}
	o := w.rec("read", sl, side, n, leakErrStr(err))
	o.Note = fmt.Sprintf("%s of %d delivered", api, avail)
}

func (w *leakWorker) opRelease(sl *leakSlot, side int) {
	st := sl.ends[side]
	if st.sendBuf.Len() == 0 && !sl.closed[side] && w.rng.Intn(3) == 0 {
		st.ReleaseReadAndReuse()
		w.rec("release-and-reuse", sl, side, 0, "")
		return
	}
	st.BufferReader().ReleasePreviousRead()
	w.rec("release", sl, side, 0, "")
}

func (w *leakWorker) opClose(sl *leakSlot, side int) {
	st := sl.ends[side]
	st.pendingData.Lock()
	pend := len(st.pendingData.unread)
	st.pendingData.Unlock()
	unread := st.recvBuf.Len()
	state := st.getStreamState()
	err := st.Close()
	sl.closed[side] = true
	if side == 0 {
		sl.pooled = false
	}
	o := w.rec("close", sl, side, unread, leakErrStr(err))
	if unread > 0 || pend > 0 {
		w.x.hit(w, "close with unread data")
		o.Note = fmt.Sprintf("%d unread bytes, %d undelivered messages", unread, pend)
	}
	if state == uint32(streamHalfClosed) || state == 3 {
		w.x.hit(w, "close of half-closed end")
	}
}

func (w *leakWorker) opPoolPut(sl *leakSlot) {
	st := sl.ends[0]
	w.pool.putOrCloseStream(st)
	if st.getStreamState() == uint32(streamClosed) {
		sl.closed[0] = true
		w.rec("pool-put", sl, 0, 0, "refused: closed")
		w.x.hit(w, "pool put-back refused (closed instead)")
		return
	}
	sl.pooled = true
	w.rec("pool-put", sl, 0, 0, "pooled")
	w.x.hit(w, "pool put-back")
}

func (w *leakWorker) opHoard() {
	bm := w.x.bm
	if len(w.hoard) > 0 {
		for _, h := range w.hoard {
			unhoard(bm, h)
		}
		w.hoard = nil
		w.rec("unhoard", nil, 0, 0, "")
		return
	}
	total := 0
	for i := range bm.lists {
		n := int(*bm.lists[i].cap)
		switch w.rng.Intn(4) {
		case 0:
			n -= 1 + w.rng.Intn(8) // leave a few slots
		case 1:
			if len(bm.lists) > 1 {
				n = 0
			}
		}
		if n > 0 {
			h := hoard(bm, i, n)
			total += len(h)
			w.hoard = append(w.hoard, h)
		}
	}
	w.rec("hoard", nil, 0, total, "")
	w.x.hit(w, "hoard")
}

// claimAccepted attaches newly accepted server streams to the worker's slots (by stream id). A second stream for an id
// whose server end exists already is a zombie: late data for a stream the server had closed re-created it.
func (w *leakWorker) claimAccepted() {
	p := w.x.p
	p.mu.Lock()
	var got []*Stream
	if len(p.accepted) > 0 {
		for _, sl := range w.slots {
			if sl.zombie {
				continue
			}
			if st, ok := p.accepted[sl.id]; ok {
				delete(p.accepted, sl.id)
				got = append(got, st)
			}
		}
	}
	p.mu.Unlock()
	for _, st := range got {
		var owner *leakSlot
		for _, sl := range w.slots {
			if !sl.zombie && sl.id == st.StreamID() {
				owner = sl
				break
			}
		}
		if owner != nil && owner.ends[1] == nil {
			owner.ends[1] = st
			w.rec("accept", owner, 1, 0, "")
			continue
		}
		z := &leakSlot{idx: len(w.slots), id: st.StreamID(), zombie: true}
		z.ends[1] = st
		z.closed[0] = true
		w.slots = append(w.slots, z)
		w.rec("accept-zombie", z, 1, int(st.StreamID()), "")
		w.x.hit(w, "data for a stream the peer had closed (zombie)")
	}
}

// settle (single mode): wait for logical quiescence, attach accepted streams, take the attribution snapshot.
func (w *leakWorker) settle() bool {
	if !w.x.p.quiesce(20 * time.Second) {
		w.aborted = "pair did not quiesce after step " + fmt.Sprint(len(w.hist)-1)
		return false
	}
	opIdx := len(w.hist) - 1
	w.claimAccepted()
	if w.firstUnaccounted < 0 {
		inUse, acc, detail := w.x.accounting(w)
		if inUse > acc {
			w.firstUnaccounted = opIdx
			w.unaccountedInfo = fmt.Sprintf("in use %d slots, reachable from live streams and the hoard %d (%s)", inUse, acc, detail)
		} else {
			w.lastClean = opIdx
		}
	}
	return true
}

// queueFullEpisode (single mode): hold the consumer's loop at handlePolling and burst from one side.
func (w *leakWorker) queueFullEpisode() {
	x := w.x
	side := w.rng.Intn(2)
	ends := w.openSlots(side, false)
	if len(ends) == 0 {
		return
	}
	target := x.p.server
	if side == 1 {
		target = x.p.client
	}
	if !w.settle() {
		return
	}
	w.rec("stall-begin", nil, 0, 0, "consumer="+leakSide(1-side))
	x.stallBegin(target)
	defer func() {
		x.stallEnd()
		w.rec("stall-end", nil, 0, 0, "")
	}()
	n := int(x.cs.QueueCap) + 2 + w.rng.Intn(4)
	if n > 14 {
		n = 14
	}
	timerSet := false
	for i := 0; i < n; i++ {
		ends = w.openSlots(side, false)
		if len(ends) == 0 {
			return
		}
		sl := ends[w.rng.Intn(len(ends))]
		if w.rng.Intn(6) == 0 {
			w.opClose(sl, side)
			continue
		}
		w.opWrite(sl, side, 1+w.rng.Intn(200))
		dl := 0
		if w.rng.Intn(10) < 7 {
			dl = 1 + w.rng.Intn(12)
		} else if !timerSet {
			// no deadline: the gate opens a little later, so that one of the 10 ms retries succeeds
			timerSet = true
			time.AfterFunc(time.Duration(5+w.rng.Intn(20))*time.Millisecond, x.stallEnd)
		}
		w.opFlush(sl, side, dl)
	}
}

// raceCloseFlush: one end closes and, before the peer's event loop has seen the notification, the peer flushes: the data
// arrives for a stream that no longer exists (client: recycled by the poller; server: re-created as a zombie).
func (w *leakWorker) raceCloseFlush() {
	var c []*leakSlot
	for _, sl := range w.slots {
		if sl.ends[0] != nil && sl.ends[1] != nil && !sl.closed[0] && !sl.closed[1] && !sl.pooled &&
			sl.ends[0].IsOpen() && sl.ends[1].IsOpen() {
			c = append(c, sl)
		}
	}
	if len(c) == 0 {
		return
	}
	sl := c[w.rng.Intn(len(c))]
	closer := w.rng.Intn(2)
	if sl.ends[1-closer].sendBuf.Len() == 0 || w.rng.Intn(2) == 0 {
		w.opWrite(sl, 1-closer, w.pickSize())
	}
	w.opClose(sl, closer)
	w.opFlush(sl, 1-closer, 0)
	w.hist[len(w.hist)-1].Note += " (right after the peer's close)"
}

// lateDataRace (single mode): data is flushed to an open stream; the event loop, already holding that stream for the data
// element (vpPollGotStream), is held while the harness closes the receiving end; then the loop goes on and hands the
// data to a stream that is closed and no longer in the session's table.
func (w *leakWorker) lateDataRace() {
	x := w.x
	if len(w.hoard) > 0 {
		return
	}
	var c []*leakSlot
	for _, sl := range w.slots {
		if sl.ends[0] != nil && sl.ends[1] != nil && !sl.closed[0] && !sl.closed[1] && !sl.pooled &&
			sl.ends[0].IsOpen() && sl.ends[1].IsOpen() {
			c = append(c, sl)
		}
	}
	if len(c) == 0 {
		return
	}
	sl := c[w.rng.Intn(len(c))]
	a := w.rng.Intn(2)
	b := 1 - a
	if sl.ends[a].inFallbackState {
		return
	}
	if !w.settle() {
		return
	}
	if sl.ends[a].sendBuf.Len() == 0 || w.rng.Intn(2) == 0 {
		w.opWrite(sl, a, w.pickSize())
	}
	if !sl.ends[a].sendBuf.isFromShareMemory() || !sl.ends[a].IsOpen() || !sl.ends[b].IsOpen() {
		return
	}
	x.stallMu.Lock()
	x.lateGate = make(chan struct{})
	gate := x.lateGate
	x.stallMu.Unlock()
	x.lateTarget.Store(sl.ends[b])
	atomic.StoreInt32(&x.lateHolding, 0)
	atomic.StoreInt32(&x.lateArmed, 1)
	w.opFlush(sl, a, 0)
	held := false
	if w.hist[len(w.hist)-1].Res == "ok" {
		held = leakSpinUntil(5*time.Second, func() bool { return atomic.LoadInt32(&x.lateHolding) != 0 })
	}
	w.opClose(sl, b)
	atomic.StoreInt32(&x.lateArmed, 0)
	close(gate)
	if held {
		atomic.AddUint64(&x.lateHeld, 1)
		w.hist[len(w.hist)-1].Note += " (while the event loop held this stream's data element at PollGotStream)"
		x.hit(w, "data handed to a stream closed meanwhile (loop held at PollGotStream)")
	}
}

// simultaneousCloseBurst opens a batch of fresh streams, sends a little data each way, and then closes the client ends and
// the server ends at the same time from two goroutines (each Stream object is still used by one goroutine only): the
// peer's close notification races with the local Close of the same stream.
func (w *leakWorker) simultaneousCloseBurst() {
	x := w.x
	m := 4 + w.rng.Intn(29)
	var batch []*leakSlot
	for i := 0; i < m; i++ {
		st, err := x.p.client.OpenStream()
		if err != nil {
			break
		}
		sl := &leakSlot{idx: len(w.slots), id: st.StreamID()}
		sl.ends[0] = st
		w.slots = append(w.slots, sl)
		batch = append(batch, sl)
	}
	w.rec("burst-open", nil, 0, len(batch), "")
	for i, sl := range batch {
		w.opWrite(sl, 0, 1+w.rng.Intn(300))
		w.opFlush(sl, 0, 0)
		if (i+1)%int(x.cs.QueueCap) == 0 {
			fence() // let the consumer drain the tiny queue instead of running into 10 ms flush retries
		}
	}
	// the server ends must exist before they can be closed
	if w.single {
		if !w.settle() {
			return
		}
	} else {
		waitUntil(10*time.Second, func() bool {
			w.claimAccepted()
			for _, sl := range batch {
				if sl.ends[1] == nil {
					return false
				}
			}
			return true
		})
	}
	if w.rng.Intn(2) == 0 {
		for _, sl := range batch {
			if sl.ends[1] != nil && w.rng.Intn(2) == 0 {
				w.opWrite(sl, 1, 1+w.rng.Intn(300))
				w.opFlush(sl, 1, 0)
			}
		}
	}
	first := w.rng.Intn(2)
	skew := w.rng.Intn(4000)
	var ord [2][]*leakSlot
	for side := 0; side < 2; side++ {
		for _, sl := range batch {
			if sl.ends[side] != nil && !sl.closed[side] {
				ord[side] = append(ord[side], sl)
			}
		}
	}
	if w.rng.Intn(4) == 0 {
		o := ord[1-first]
		for i, j := 0, len(o)-1; i < j; i, j = i+1, j-1 {
			o[i], o[j] = o[j], o[i]
		}
	}
	if w.single {
		// targeted: one pair at a time; the loop (about to handle the close notification) and the closer of the other end are
		// held at their hook points and released together
		if !w.settle() {
			return
		}
		for _, sl := range batch {
			if sl.ends[0] == nil || sl.ends[1] == nil || sl.closed[0] || sl.closed[1] {
				continue
			}
			a := first
			if w.rng.Intn(4) == 0 {
				a = 1 - first
			}
			b := 1 - a
			if w.rng.Intn(4) == 0 {
				// deterministic variant: b's closer is parked between its state load (open) and its CAS until a's close
				// notification has half-closed b
				x.parkTarget.Store(sl.ends[b])
				atomic.StoreInt32(&x.parkParked, 0)
				atomic.StoreInt32(&x.parkHalf, 0)
				atomic.StoreInt32(&x.parkArmed, 1)
				hd := make(chan struct{})
				go func(st *Stream) {
					defer close(hd)
					defer func() {
						if r := recover(); r != nil {
							x.problem("panic in Close (parked helper): %v", r)
						}
					}()
					st.Close()
				}(sl.ends[b])
				leakSpinUntil(5*time.Second, func() bool { return atomic.LoadInt32(&x.parkParked) != 0 })
				sl.ends[a].Close()
				<-hd
				atomic.StoreInt32(&x.parkArmed, 0)
				sl.closed[0], sl.closed[1] = true, true
				continue
			}
			x.rvTarget.Store(sl.ends[b])
			x.rvSess.Store(sl.ends[b].session)
			atomic.StoreInt32(&x.rvDelay, int32(w.rng.Intn(64)))
			atomic.StoreInt32(&x.rvArrived, 0)
			atomic.StoreInt32(&x.rvLoopIn, 0)
			atomic.StoreInt32(&x.rvArmed, 1)
			hd := make(chan struct{})
			go func(st *Stream) {
				defer close(hd)
				defer func() {
					if r := recover(); r != nil {
						x.problem("panic in Close (rendezvous helper): %v", r)
					}
				}()
				st.Close()
			}(sl.ends[b])
			sl.ends[a].Close()
			<-hd
			atomic.StoreInt32(&x.rvArmed, 0)
			sl.closed[0], sl.closed[1] = true, true
		}
		w.rec("simultaneous-close", nil, 0, len(batch), "one pair at a time: closer parked at StreamCloseLoaded until HalfClosed, or rendezvous at PollPopped/EventDispatch and StreamCloseEnter")
		x.hit(w, "simultaneous close of both ends")
		atomic.AddUint64(x.hostile["simultaneous close of both ends"], uint64(len(batch)-1))
		return
	}
	// lock-step: the second goroutine closes stream i's other end while (or right after) the first one closes stream i
	var progress int32 = -1
	lead := int32(w.rng.Intn(3)) - 1
	skews := make([]int, len(ord[1-first]))
	for i := range skews {
		skews[i] = w.rng.Intn(1 + skew/16)
	}
	done := make(chan struct{})
	defer func() {
		atomic.StoreInt32(&progress, 1<<30) // whatever happens to this goroutine, the helper must not spin for ever
		<-done
	}()
	go func() {
		defer close(done)
		defer func() {
			if r := recover(); r != nil {
				x.problem("panic in Close (lock-step helper): %v", r)
			}
		}()
		for i, sl := range ord[1-first] {
			for atomic.LoadInt32(&progress) < int32(i)+lead && atomic.LoadInt32(&progress) < int32(len(ord[first])) {
			}
			spinFor(skews[i])
			sl.ends[1-first].Close()
		}
	}()
	for i, sl := range ord[first] {
		atomic.StoreInt32(&progress, int32(i))
		sl.ends[first].Close()
	}
	atomic.StoreInt32(&progress, 1<<30)
	<-done
	for side := 0; side < 2; side++ {
		for _, sl := range ord[side] {
			sl.closed[side] = true
		}
	}
	w.rec("simultaneous-close", nil, 0, len(batch), fmt.Sprintf("first=%s skew=%d spins", leakSide(first), skew))
	x.hit(w, "simultaneous close of both ends")
	atomic.AddUint64(x.hostile["simultaneous close of both ends"], uint64(len(batch)-1))
}

func (w *leakWorker) step() {
	x := w.x
	r := w.rng.Intn(100)
	live := w.liveCount()
	switch {
	case r < 8 || live == 0:
		if live < w.maxOpen {
			w.opOpen(w.rng.Intn(2) == 0)
		} else if w.hasPooled() {
			w.opOpen(true)
		}
	case r < 36:
		side := w.rng.Intn(2)
		var c []*leakSlot
		if w.rng.Intn(25) == 0 {
			for _, sl := range w.slots { // any end, closed ones included
				if sl.ends[side] != nil && !(side == 0 && sl.pooled) {
					c = append(c, sl)
				}
			}
		} else {
			c = w.openSlots(side, false)
		}
		if len(c) > 0 {
			w.opWrite(c[w.rng.Intn(len(c))], side, w.pickSize())
		}
	case r < 58:
		side := w.rng.Intn(2)
		var c []*leakSlot
		for _, sl := range w.slots {
			if sl.ends[side] != nil && !(side == 0 && sl.pooled) && sl.ends[side].sendBuf.Len() > 0 {
				c = append(c, sl)
			}
		}
		if len(c) > 0 {
			dl := 0
			if !w.single && w.rng.Intn(5) == 0 {
				dl = 1 + w.rng.Intn(8)
			}
			w.opFlush(c[w.rng.Intn(len(c))], side, dl)
		}
	case r < 76:
		side := w.rng.Intn(2)
		var c []*leakSlot
		if w.rng.Intn(30) == 0 {
			for _, sl := range w.slots {
				if sl.ends[side] != nil && sl.closed[side] {
					c = append(c, sl)
				}
			}
		} else {
			c = w.openSlots(side, false)
		}
		if len(c) > 0 {
			w.opRead(c[w.rng.Intn(len(c))], side)
		}
	case r < 83:
		side := w.rng.Intn(2)
		if c := w.openSlots(side, false); len(c) > 0 {
			w.opRelease(c[w.rng.Intn(len(c))], side)
		}
	case r < 91:
		side := w.rng.Intn(2)
		if c := w.openSlots(side, false); len(c) > 0 {
			w.opClose(c[w.rng.Intn(len(c))], side)
		}
	case r < 94:
		if c := w.openSlots(0, false); len(c) > 0 {
			w.opPoolPut(c[w.rng.Intn(len(c))])
		}
	case r < 95:
		if w.single {
			w.opHoard()
		}
	case r < 97:
		if w.single && x.cs.QueueCap <= 8 {
			w.queueFullEpisode()
		}
	case r < 98:
		if w.single && w.rng.Intn(2) == 0 {
			w.lateDataRace()
		} else {
			w.raceCloseFlush()
		}
	case r < 99:
		w.simultaneousCloseBurst()
	default:
		if w.single {
			w.lateDataRace()
		} else {
			w.claimAccepted()
		}
	}
}

// closeEverything closes every end the worker holds (random order), flushes what was written on closed ends, empties
// the pool and releases the hoard.
func (w *leakWorker) closeEverything() {
	for _, h := range w.hoard {
		unhoard(w.x.bm, h)
	}
	if len(w.hoard) > 0 {
		w.hoard = nil
		w.rec("unhoard", nil, 0, 0, "")
	}
	for {
		closedAny := false
		order := w.rng.Perm(len(w.slots) * 2)
		for _, v := range order {
			sl, side := w.slots[v/2], v%2
			if sl.ends[side] != nil && !sl.closed[side] {
				w.opClose(sl, side)
				closedAny = true
				if w.single && w.x.cs.FenceEvery && w.aborted == "" {
					w.settle() // exact attribution: which close left slots behind (may also attach zombies: hence the outer loop)
				}
			}
		}
		if !closedAny {
			break
		}
	}
	for {
		st := w.pool.pop()
		if st == nil {
			break
		}
		st.Close()
	}
	for _, sl := range w.slots {
		for side := 0; side < 2; side++ {
			if st := sl.ends[side]; st != nil && st.sendBuf.Len() > 0 {
				w.opFlush(sl, side, 0) // written on (or before) a closed end and never flushed: the flush gives it back
			}
		}
	}
}

// drainEverything: streams stay open; everything written is flushed, everything delivered is read and released.
func (w *leakWorker) drainEverything() bool {
	for _, h := range w.hoard {
		unhoard(w.x.bm, h)
	}
	if len(w.hoard) > 0 {
		w.hoard = nil
		w.rec("unhoard", nil, 0, 0, "")
	}
	for round := 0; round < 6; round++ {
		for _, sl := range w.slots {
			for side := 0; side < 2; side++ {
				st := sl.ends[side]
				if st == nil || (side == 0 && sl.pooled) {
					continue
				}
				if st.sendBuf.Len() == 0 && st.sendBuf.sliceList.size() > 0 && !sl.closed[side] && st.IsOpen() {
					// a slice kept for reuse (ReleaseReadAndReuse): it is given to the peer with one byte of data
					w.opWrite(sl, side, 1)
				}
				if st.sendBuf.Len() > 0 {
					w.opFlush(sl, side, 0)
				}
			}
		}
		if !w.x.p.quiesce(20 * time.Second) {
			w.aborted = "pair did not quiesce during a drain checkpoint"
			return false
		}
		// every stream the server session created must have reached this worker (hand-off through the accept goroutine)
		if !waitUntil(20*time.Second, func() bool {
			w.claimAccepted()
			return len(w.x.untracked([]*leakWorker{w})) == 0
		}) {
			w.aborted = "accepted streams did not reach the accept table during a drain checkpoint"
			return false
		}
		moved := false
		for _, sl := range w.slots {
			for side := 0; side < 2; side++ {
				st := sl.ends[side]
				if st == nil || sl.closed[side] || (side == 0 && sl.pooled) {
					continue
				}
				st.pendingData.moveTo(st.recvBuf)
				if n := st.recvBuf.Len(); n > 0 {
					moved = true
					var err error
					if w.rng.Intn(2) == 0 {
						_, err = st.BufferReader().ReadBytes(n)
					} else {
						_, err = st.BufferReader().Discard(n)
					}
					w.rec("read", sl, side, n, leakErrStr(err)).Note = "drain: everything delivered"
				}
				st.BufferReader().ReleasePreviousRead()
			}
		}
		if !moved && round > 0 {
			break
		}
	}
	w.rec("release-all", nil, 0, 0, "")
	return true
}

func (w *leakWorker) hasPooled() bool {
	for _, sl := range w.slots {
		if sl.pooled {
			return true
		}
	}
	return false
}

// hasReuseSliceOnDeadEnd: a slice kept by ReleaseReadAndReuse on an end whose stream can no longer send (peer closed):
// legitimately held until that end is closed, so a drain checkpoint does not apply.
func (w *leakWorker) hasReuseSliceOnDeadEnd() bool {
	for _, sl := range w.slots {
		for side := 0; side < 2; side++ {
			st := sl.ends[side]
			if st != nil && !sl.closed[side] && !st.IsOpen() && st.sendBuf.sliceList.size() > 0 {
				return true
			}
		}
	}
	return false
}

// ---------------------------------------------------------------------------------------------------------
// oracle

// accounting (diagnosis only): slots in use vs. slots reachable from live streams, sessions' stream tables and the hoard.
func (x *leakExec) accounting(w *leakWorker) (inUse, accounted int, detail string) {
	_, per := shmInUse(x.p.client)
	for _, u := range per {
		inUse += u
	}
	hoarded := 0
	for _, h := range w.hoard {
		hoarded += len(h)
	}
	seen := map[*Stream]bool{}
	var all []*Stream
	add := func(st *Stream) {
		if st != nil && !seen[st] {
			seen[st] = true
			all = append(all, st)
		}
	}
	for _, sl := range w.slots {
		add(sl.ends[0])
		add(sl.ends[1])
	}
	for _, s := range []*Session{x.p.client, x.p.server} {
		s.streamLock.RLock()
		for _, st := range s.streams {
			add(st)
		}
		s.streamLock.RUnlock()
	}
	countList := func(l *sliceList) int {
		n := 0
		for s := l.front(); s != nil; s = s.nextSlice {
			if s.isFromShm {
				n++
			}
		}
		return n
	}
	send, recv, pinned, pending := 0, 0, 0, 0
	for _, st := range all {
		send += countList(st.sendBuf.sliceList)
		if st.getStreamState() == uint32(streamClosed) {
			continue // a closed end may only hold what was written on it afterwards; nothing else it refers to is legitimate
		}
		recv += countList(st.recvBuf.sliceList)
		pinned += countList(st.sendBuf.pinnedList) + countList(st.recvBuf.pinnedList)
		st.pendingData.Lock()
		for _, u := range st.pendingData.unread {
			if u.fallbackSlice != nil {
				continue
			}
			off := u.offset
			for k := 0; k < 100000; k++ {
				sl, err := x.bm.readBufferSlice(off)
				if err != nil {
					break
				}
				pending++
				has, next := sl.hasNext(), sl.nextBufferOffset()
				putBackBufferSlice(sl)
				if !has {
					break
				}
				off = next
			}
		}
		st.pendingData.Unlock()
	}
	accounted = hoarded + send + recv + pinned + pending
	detail = fmt.Sprintf("hoard %d, send buffers %d, receive buffers %d, pinned %d, undelivered %d", hoarded, send, recv, pinned, pending)
	return
}

// untracked returns the server-side streams no worker has obtained yet: accepted by the session (they are in its stream
// table) but still on their way through acceptCh / the accept goroutine. They are zombies or streams whose client end
// was closed before a worker looked at the accept table. (Streams a worker holds are never returned, closed or not: a
// stream that stays in the table after the harness closed it is exactly what the oracle has to see.)
func (x *leakExec) untracked(workers []*leakWorker) []*Stream {
	tracked := map[*Stream]bool{}
	for _, w := range workers {
		for _, sl := range w.slots {
			if sl.ends[1] != nil {
				tracked[sl.ends[1]] = true
			}
		}
	}
	var out []*Stream
	x.p.server.streamLock.RLock()
	for _, st := range x.p.server.streams {
		if !tracked[st] {
			out = append(out, st)
		}
	}
	x.p.server.streamLock.RUnlock()
	return out
}

// verifyEmpty checks the end-state oracle; returns the list of discrepancies.
func (x *leakExec) verifyEmpty() []string {
	var out []string
	total, per := shmInUse(x.p.client)
	if total != 0 {
		out = append(out, fmt.Sprintf("in-use share memory is %d bytes, slots in use per class %v", total, per))
	}
	for i, u := range per {
		if u != 0 {
			out = append(out, fmt.Sprintf("class %d (slice size %d): free count %d != capacity %d", i, *x.bm.lists[i].capPerBuffer,
				atomic.LoadInt32(x.bm.lists[i].size), *x.bm.lists[i].cap))
		}
	}
	for _, s := range []*Session{x.p.client, x.p.server} {
		_, _, smm := s.GetMetrics()
		if smm.AllInUsedShareMemoryInBytes != 0 {
			side := "server"
			if s.isClient {
				side = "client"
			}
			out = append(out, fmt.Sprintf("GetMetrics(%s).AllInUsedShareMemoryInBytes = %d", side, smm.AllInUsedShareMemoryInBytes))
		}
	}
	for li, l := range x.bm.lists {
		capN := int(*l.cap)
		stride := *l.capPerBuffer + bufferHeaderSize
		seen := make([]bool, capN)
		cur := atomic.LoadUint32(l.head)
		n := 0
		var last uint32
		bad := ""
		for {
			if cur%stride != 0 || int(cur/stride) >= capN {
				bad = fmt.Sprintf("free chain reaches offset %d which is no slot", cur)
				break
			}
			idx := int(cur / stride)
			if seen[idx] {
				bad = fmt.Sprintf("free chain visits slot %d twice after %d nodes", idx, n)
				break
			}
			seen[idx] = true
			n++
			last = cur
			bh := bufferHeader(l.bufferRegion[cur : cur+bufferHeaderSize])
			if !bh.hasNext() {
				break
			}
			cur = bh.nextBufferOffset()
		}
		if bad != "" {
			out = append(out, fmt.Sprintf("class %d: %s", li, bad))
			continue
		}
		if n != capN {
			out = append(out, fmt.Sprintf("class %d: walk from head reaches %d distinct slots, capacity %d (%d unreachable)", li, n, capN, capN-n))
		}
		if last != atomic.LoadUint32(l.tail) {
			out = append(out, fmt.Sprintf("class %d: walk ends at offset %d but tail is %d", li, last, atomic.LoadUint32(l.tail)))
		}
	}
	return out
}

// settleAndVerify: quiesce, close late zombies (close checkpoints) or drain them (drain checkpoints, through the worker),
// verify; a discrepancy must persist over further settling rounds to count.
func (x *leakExec) settleAndVerify(workers []*leakWorker, closing bool) (problems []string, incon string, zombies int) {
	for attempt := 0; attempt < 6; attempt++ {
		for round := 0; round < 30; round++ {
			if !x.p.quiesce(20 * time.Second) {
				return nil, "pair did not quiesce at the checkpoint", zombies
			}
			if !closing {
				break
			}
			// the application closes every stream it is handed: the ones still travelling to the accept table are taken from
			// the session's table directly (same objects), so that the hand-off goroutine's scheduling cannot matter
			z := x.untracked(workers)
			x.p.drainAccepted()
			if len(z) == 0 {
				break
			}
			for _, st := range z {
				zombies++
				st.Close()
			}
		}
		problems = x.verifyEmpty()
		if len(problems) == 0 {
			return nil, "", zombies
		}
		if !closing {
			// late deliveries may have re-filled receive buffers: drain again
			for _, w := range workers {
				if !w.drainEverything() {
					return nil, w.aborted, zombies
				}
			}
		}
		time.Sleep(time.Duration(5*(attempt+1)) * time.Millisecond)
	}
	return problems, "", zombies
}

// ---------------------------------------------------------------------------------------------------------
// one history

type leakResult struct {
	x          *leakExec
	workers    []*leakWorker
	problems   []string
	discarded  string
	checkpoint string
	checkN     int
	suspects   uint64
	zombies    int
	fallbacks  uint64
	qfull      uint64
	histHash   string
	hostileN   int
	crossed    bool
	steps      int
	closeCP    int
	drainCP    int
}

func runLeakCase(c *checkCtx, cs leakCase) (res leakResult) {
	lay := leakLayouts[cs.Layout]
	p, err := newSessionPair(pairOpt{memfd: cs.Memfd, queueCap: cs.QueueCap, bufCap: lay.bufCap, sizes: smallSizes(lay.sizes...), initTO: 60 * time.Second})
	if err != nil {
		res.discarded = "session pair: " + err.Error()
		return
	}
	x := &leakExec{c: c, cs: cs, p: p, bm: p.client.bufferManager, hostile: map[string]*uint64{}}
	res.x = x
	for _, kind := range leakHostileKinds {
		x.hostile[kind] = new(uint64)
	}
	for _, l := range x.bm.lists {
		x.classes = append(x.classes, int(*l.capPerBuffer))
	}
	aba := leakAbaInstall(x.bm)
	k := newCtl("leak-"+cs.Profile, cs.Seed)
	for _, pr := range leakProfiles {
		if pr.name == cs.Profile {
			pr.build(k)
		}
	}
	k.on(vpPollPopped, x.pollHook)
	k.on(vpEventDispatch, x.dispatchHook)
	k.on(vpStreamCloseEnter, x.closeEnterHook)
	k.on(vpPollGotStream, x.gotStreamHook)
	k.on(vpStreamCloseLoaded, x.closeLoadedHook)
	k.on(vpHalfClosed, x.halfClosedHook)
	k.install()
	defer func() {
		x.stallEnd()
		uninstallCtl()
		res.suspects = atomic.LoadUint64(&aba.suspects)
		leakAbaUninstall()
		res.fallbacks = atomic.LoadUint64(&p.client.stats.fallbackWriteCount) + atomic.LoadUint64(&p.server.stats.fallbackWriteCount)
		res.qfull = atomic.LoadUint64(&p.client.stats.queueFullErrorCount) + atomic.LoadUint64(&p.server.stats.queueFullErrorCount)
		if p.client.IsClosed() || p.server.IsClosed() {
			res.discarded = "session died during the history"
		}
		x.mu.Lock()
		if len(x.problems) > 0 && res.discarded == "" {
			res.discarded = x.problems[0]
		}
		x.mu.Unlock()
		p.close()
		h := fnv.New64a()
		for _, w := range res.workers {
			res.steps += len(w.hist)
			res.hostileN += w.hostileN
			if w.crossW && w.crossR {
				res.crossed = true
			}
			for _, o := range w.hist {
				fmt.Fprintf(h, "%d|%s|%d|%s|%d|%s;", o.W, o.Op, o.Slot, o.Side, o.Arg, o.Res)
			}
		}
		res.histHash = fmt.Sprintf("%016x", h.Sum64())
	}()
	perWorker := cs.MaxStreams / cs.Workers
	if perWorker < 1 {
		perWorker = 1
	}
	for i := 0; i < cs.Workers; i++ {
		w := &leakWorker{x: x, id: i, rng: rand.New(rand.NewSource(cs.Seed + int64(i)*7919)), maxOpen: perWorker,
			single: cs.Mode == "single", firstUnaccounted: -1}
		w.pool = newStreamPool(4)
		w.pool.session.Store(p.client)
		res.workers = append(res.workers, w)
	}
	checkpoint := func(kind string, at int) bool {
		res.checkN++
		closing := kind == "close"
		problems, incon, z := x.settleAndVerify(res.workers, closing)
		res.zombies += z
		if incon != "" {
			res.discarded = incon
			return false
		}
		if len(problems) > 0 {
			if closing {
				// diagnosis: every end was closed by the harness, so no stream should be left in a session's table
				for _, sess := range []*Session{p.client, p.server} {
					sess.streamLock.RLock()
					for id, st := range sess.streams {
						if len(problems) < 16 {
							problems = append(problems, fmt.Sprintf("diagnosis: stream id %d is still in the %s session's table, state %d (0 open, 1 closed, 2 half-closed), %d unread bytes",
								id, map[bool]string{true: "client", false: "server"}[sess.isClient], st.getStreamState(), st.recvBuf.Len()))
						}
					}
					sess.streamLock.RUnlock()
				}
			}
			res.problems = problems
			res.checkpoint = fmt.Sprintf("%s checkpoint #%d after step %d", kind, res.checkN, at)
			return false
		}
		if closing {
			res.closeCP++
		} else {
			res.drainCP++
		}
		return true
	}
	if cs.Mode == "single" {
		w := res.workers[0]
		nextCP := 15 + w.rng.Intn(60)
		for it := 0; it < cs.Steps && w.aborted == ""; it++ {
			func() {
				defer func() {
					if r := recover(); r != nil {
						w.aborted = fmt.Sprintf("panic in step %d: %v\n%s", len(w.hist), r, debug.Stack())
					}
				}()
				w.step()
				if cs.FenceEvery || w.rng.Intn(10) < 6 {
					w.settle()
				}
			}()
			if w.aborted != "" {
				break
			}
			if len(w.hist) >= nextCP {
				nextCP = len(w.hist) + 15 + w.rng.Intn(60)
				kind := "close"
				if w.rng.Intn(10) < 4 && !w.hasPooled() && !w.hasReuseSliceOnDeadEnd() {
					kind = "drain"
				}
				at := len(w.hist) - 1
				if kind == "close" {
					w.rec("checkpoint-close-everything", nil, 0, 0, "")
					w.closeEverything()
				} else {
					w.rec("checkpoint-drain-everything", nil, 0, 0, "")
					if !w.drainEverything() {
						break
					}
					if w.hasReuseSliceOnDeadEnd() {
						continue // a peer closed meanwhile: the precondition of the drain checkpoint does not hold
					}
				}
				if !checkpoint(kind, at) {
					return
				}
				if w.firstUnaccounted >= 0 {
					// diagnosis said "unaccounted" but the oracle is satisfied: the accounting missed a legitimate holder
					c.count("attribution false positives (diagnosis only)", 1)
					w.firstUnaccounted = -1
				}
			}
		}
		if w.aborted != "" {
			res.discarded = w.aborted
			return
		}
		w.rec("final-close-everything", nil, 0, 0, "")
		w.closeEverything()
		checkpoint("close", len(w.hist)-1)
		return
	}
	// concurrent mode
	var hoardStop uint32
	hoardDone := make(chan struct{})
	var cycles uint64
	if cs.Hoarder {
		go leakHoarder(x.bm, cs.Seed^0x77, &hoardStop, hoardDone, &cycles)
	} else {
		close(hoardDone)
	}
	var wg sync.WaitGroup
	for _, w := range res.workers {
		wg.Add(1)
		go func(w *leakWorker) {
			defer wg.Done()
			defer func() {
				if r := recover(); r != nil {
					w.aborted = fmt.Sprintf("panic in step %d of worker %d: %v\n%s", len(w.hist), w.id, r, debug.Stack())
				}
			}()
			for it := 0; it < cs.Steps; it++ {
				w.step()
				if w.rng.Intn(4) == 0 {
					w.claimAccepted()
				}
			}
			w.rec("final-close-everything", nil, 0, 0, "")
			w.closeEverything()
		}(w)
	}
	done := make(chan struct{})
	go func() { wg.Wait(); close(done) }()
	select {
	case <-done:
	case <-time.After(time.Duration(envInt("VERIF_LEAK_WD", 240)) * time.Second):
		atomic.StoreUint32(&hoardStop, 1)
		if f := os.Getenv("VERIF_DUMP"); f != "" {
			_ = os.WriteFile(f, []byte(goroutineDump()), 0o644)
		}
		c.inconclusiveCase(fmt.Sprintf("leak-%d", cs.Idx), "watchdog: concurrent history did not finish; aborting the run\n"+truncate(goroutineDump(), 4000))
		uninstallCtl()
		c.abortRun()
	}
	atomic.StoreUint32(&hoardStop, 1)
	<-hoardDone
	if cycles > 0 {
		atomic.AddUint64(x.hostile["hoard"], cycles)
	}
	for _, w := range res.workers {
		if w.aborted != "" {
			res.discarded = w.aborted
			return
		}
	}
	checkpoint("close", cs.Steps)
	return
}

func leakHoarder(bm *bufferManager, seed int64, stop *uint32, done chan struct{}, cycles *uint64) {
	defer close(done)
	rng := rand.New(rand.NewSource(seed))
	for atomic.LoadUint32(stop) == 0 {
		var held [][]*bufferSlice
		for i := range bm.lists {
			n := int(*bm.lists[i].cap)
			if rng.Intn(3) == 0 {
				n -= 1 + rng.Intn(6)
			}
			if rng.Intn(4) != 0 {
				held = append(held, hoard(bm, i, n))
			}
		}
		time.Sleep(time.Duration(100+rng.Intn(2000)) * time.Microsecond)
		for _, h := range held {
			unhoard(bm, h)
		}
		atomic.AddUint64(cycles, 1)
		time.Sleep(time.Duration(100+rng.Intn(3000)) * time.Microsecond)
	}
}

// ---------------------------------------------------------------------------------------------------------

func checkLeak(c *checkCtx) {
	c.rule = "histories = PRNG(VERIF_SEED, index) sequences of open / pool-get / write (WriteBytes, Reserve, WriteString, WriteByte; sizes around every class size, " +
		"multi-slice, > all classes) / flush (also on closed and half-closed ends, with write deadlines, into a full queue) / partial read (ReadBytes, Read, " +
		"Discard, Peek, ReadString, ReadByte) / ReleasePreviousRead / ReleaseReadAndReuse / close from either side / pool put-back / hoard / queue-full " +
		"episode over 1..40 streams, queue capacity 2/8/64, four allocator layouts; two thirds single-threaded (300 steps, checkpoints every 15..75 steps), one " +
		"third concurrent (2..8 workers x 150 steps, hoarder goroutine, perturbed event loop); non-trivial = the history crossed a slice boundary on the " +
		"write side and on the read side AND contained >=1 hostile step (close with unread data, flush on closed/half-closed end, socket fallback, " +
		"queue-full, failed flush, write/read on closed end, zombie, heap-slice allocation); distinct = distinct operation+result sequences (hash)"
	c.assume("memory is only required to be back at checkpoints where the statement's precondition holds: every stream obtained (zombies included) closed on " +
		"both ends, or everything flushed, delivered, read and released; the hoard released; pair logically quiescent")
	c.assume("ReleaseReadAndReuse is only called with an empty send buffer (what putOrCloseStream guarantees); a slice it keeps on an end whose peer has closed " +
		"is legitimately held until that end is closed")
	c.assume("client and server live in one process and share one bufferManager object and one event loop; the child-process peer variant is not part of this module")
	c.assume("a history in which a session died or an allocator ABA suspect (known finding F1) coincided with a discrepancy is discarded as inconclusive")
	n := c.pick(220, 4400)
	var replay *leakCase
	if c.tier == "replay" {
		// ./run.sh C09 replay <file>: the recorded case is run 20 times (single-mode histories reproduce up to event-loop timing)
		var doc struct {
			Witness struct {
				Case leakCase `json:"case"`
			} `json:"witness"`
		}
		data, err := os.ReadFile(os.Getenv("VERIF_REPLAY"))
		if err != nil || json.Unmarshal(data, &doc) != nil || doc.Witness.Case.Workers == 0 {
			c.noObservation("replay file unreadable: " + os.Getenv("VERIF_REPLAY"))
			return
		}
		replay = &doc.Witness.Case
		n = 20
	}
	for i := 0; i < n; i++ {
		cs := genLeakCase(c, i)
		if replay != nil {
			cs = *replay
		}
		res := runLeakCase(c, cs)
		name := fmt.Sprintf("leak-%d", cs.Idx)
		if res.x == nil {
			c.inconclusiveCase(name, res.discarded)
			continue
		}
		x := res.x
		c.eval(1)
		c.count("histories "+cs.Mode, 1)
		c.count("steps executed", int64(res.steps))
		c.count("close checkpoints passed", int64(res.closeCP))
		c.count("drain checkpoints passed", int64(res.drainCP))
		c.count("fallback writes (session stats)", int64(res.fallbacks))
		c.count("queue-full events (session stats)", int64(res.qfull))
		c.count("writes spanning >=2 slices", int64(x.crossWrite))
		c.count("reads spanning >=2 slices", int64(x.crossRead))
		c.count("late zombies closed at checkpoints", int64(res.zombies))
		c.count("event loop held at handlePolling (hook hits)", int64(x.stallHits))
		c.count("close/close rendezvous met (loop and closer released together)", int64(x.rvMet/2))
		c.count("closer parked at StreamCloseLoaded until HalfClosed", int64(x.parkDone))
		c.count("event loop held at PollGotStream while the receiving end was closed", int64(x.lateHeld))
		c.count("ABA suspects", int64(res.suspects))
		for kind, v := range x.hostile {
			c.count("hostile: "+kind, int64(atomic.LoadUint64(v)))
		}
		if res.discarded != "" {
			c.inconclusiveCase(name, truncate(res.discarded, 1500)+fmt.Sprintf(" (case %+v)", cs))
			continue
		}
		if res.crossed && res.hostileN > 0 {
			c.nontrivial(res.histHash)
		}
		if i < 4 {
			w := res.workers[0]
			pre := w.hist
			if len(pre) > 40 {
				pre = pre[:40]
			}
			c.sample(map[string]interface{}{"case": cs, "history_prefix": pre, "steps": res.steps, "hostile_steps": res.hostileN,
				"checkpoints_passed": res.closeCP + res.drainCP})
		}
		if len(res.problems) == 0 {
			continue
		}
		if res.suspects > 0 {
			if c.isKnown("F1") {
				c.knownFindingHit("F1", name, map[string]interface{}{"case": cs, "problems": res.problems}, "%d ABA suspects coincide with: %s", res.suspects, res.problems[0])
			} else {
				c.inconclusiveCase(name, fmt.Sprintf("discrepancy coincides with %d allocator ABA suspects (known finding F1): %s", res.suspects, res.problems[0]))
			}
			continue
		}
		wit := map[string]interface{}{"case": cs, "problems": res.problems, "checkpoint": res.checkpoint,
			"stats": map[string]interface{}{"fallback_writes": res.fallbacks, "queue_full": res.qfull}}
		msg := fmt.Sprintf("%s: %s", res.checkpoint, res.problems[0])
		var hists []interface{}
		for _, w := range res.workers {
			h := w.hist
			if len(h) > 700 {
				h = h[len(h)-700:]
			}
			hists = append(hists, map[string]interface{}{"worker": w.id, "history": h})
			if w.single && w.firstUnaccounted >= 0 && w.firstUnaccounted < len(w.hist) {
				o := w.hist[w.firstUnaccounted]
				wit["first_unaccounted_after_step"] = o
				wit["first_unaccounted_detail"] = w.unaccountedInfo
				wit["accounting_complete_until_step"] = w.lastClean
				msg += fmt.Sprintf("; slots that no live stream refers to appeared between step %d (accounting still complete) and step %d (%s slot %d %s arg %d -> %s %s): %s",
					w.lastClean, o.N, o.Op, o.Slot, o.Side, o.Arg, o.Res, o.Note, w.unaccountedInfo)
			}
		}
		wit["histories"] = hists
		c.violation(name, wit, "%s", msg)
	}
	if c.counter("hostile: flush through the socket fallback") == 0 {
		c.noObservation("no flush ever used the socket fallback")
	}
	if c.counter("hostile: queue-full event") == 0 && c.counter("queue-full events (session stats)") == 0 {
		c.noObservation("the queue-full exits were never reached")
	}
	if c.counter("close checkpoints passed") == 0 {
		c.noObservation("no checkpoint was evaluated")
	}
}
