#!/bin/bash
# MANIFEST.setup_cmd: warm the Go build cache (plain and race builds of the package + harness). Offline.
cd "$(dirname "$0")"
./run.sh build && ./run.sh build race
