#!/usr/bin/env python3
"""One-shot generator of the add-only hook call lines in /repo (kept for documentation).
Each entry: file, anchor (stripped line, exact), occurrence (1-based), where (before/after), new line (indent copied
from anchor unless 'indent' given as extra tabs)."""
import sys,re
R='/repo/'
E=[]
def add(f,anchor,occ,where,line,extra=0): E.append((f,anchor,occ,where,line,extra))

# ---- buffer_manager.go: bufferList.pop / push
f='buffer_manager.go'
add(f,'oldHead := atomic.LoadUint32(b.head)',1,'before','vg := vpPopBegin(b)')
add(f,'//when data races occurred, max retry 200 times.',1,'before','vp(vpPopReserved)')
add(f,'bh := bufferHeader(b.bufferRegion[oldHead : oldHead+bufferHeaderSize])',1,'before','vp(vpPopLoopTop)')
add(f,'if bh.hasNext() {',1,'after','vp(vpPopHasNext)',1)
add(f,'h := bufferHeader(b.bufferRegion[oldHead : oldHead+bufferHeaderSize])',1,'before','vpPopWon(b, oldHead, vg)')
add(f,'h.clearFlag()',1,'after','vp(vpPopCleared)')
add(f,'h.setInUsed()',1,'after','vp(vpPopInUsed)')
add(f,'oldHead = atomic.LoadUint32(b.head)',1,'before','vg = vpPopReload(b)')
add(f,'buffer.reset()',1,'after','vp(vpPushReset)')
add(f,'oldTail := atomic.LoadUint32(b.tail)',1,'after','vp(vpPushLoadedTail)')
add(f,'bufferHeader(b.bufferRegion[oldTail : oldTail+bufferHeaderSize]).linkNext(newTail)',1,'before','vp(vpPushCASed)')
add(f,'bufferHeader(b.bufferRegion[oldTail : oldTail+bufferHeaderSize]).linkNext(newTail)',1,'after','vp(vpPushLinked)')
# ---- buffer_slice.go: linkNext
f='buffer_slice.go'
add(f,'*(*uint32)(unsafe.Pointer(&s[nextBufferOffset])) = next',1,'after','vp(vpLinkNextMid)')
# ---- queue.go
f='queue.go'
add(f,'e.seqID = *(*uint32)(unsafe.Pointer(&q.queueBytesOnMemory[queueOffset]))',1,'before','vp(vpQPopNonEmpty)')
add(f,'e.seqID = *(*uint32)(unsafe.Pointer(&q.queueBytesOnMemory[queueOffset]))',1,'after','vp(vpQPopLoad1)')
add(f,'e.offsetInShmBuf = *(*uint32)(unsafe.Pointer(&q.queueBytesOnMemory[queueOffset+4]))',1,'after','vp(vpQPopLoad2)')
add(f,'atomic.AddInt64(q.head, 1)',1,'before','vp(vpQPopBeforeHead)')
add(f,'*(*uint32)(unsafe.Pointer(&q.queueBytesOnMemory[queueOffset])) = e.seqID',1,'before','vp(vpQPutChecked)')
add(f,'*(*uint32)(unsafe.Pointer(&q.queueBytesOnMemory[queueOffset])) = e.seqID',1,'after','vp(vpQPutStore1)')
add(f,'*(*uint32)(unsafe.Pointer(&q.queueBytesOnMemory[queueOffset+4])) = e.offsetInShmBuf',1,'after','vp(vpQPutStore2)')
add(f,'atomic.AddInt64(q.tail, 1)',1,'before','vp(vpQPutBeforeTail)')
add(f,'atomic.StoreUint32(q.workingFlag, 0)',1,'after','vp(vpMNWStored0)')
add(f,'atomic.StoreUint32(q.workingFlag, 1)',1,'before','vp(vpMNWBeforeStore1)')
# ---- session.go
f='session.go'
add(f,'atomic.AddUint64(&s.stats.sendPollingEventCount, 1)',1,'before','vpo(vpWakeMarked, s, 0)')
add(f,'s.sendCh <- sendReady{nil, pollingEventWithVersion[s.communicationVersion], nil}',1,'before','vpo(vpWakeSlow, s, 0)')
add(f,'for !atomic.CompareAndSwapUint32(&s.writing, 0, 1) {',1,'before','vpo(vpSendLoopBeforeCAS, s, 0)')
add(f,'if err := s.eventConn.write(data); err != nil {',1,'before','vpo(vpWriteEventEnter, s, int64(len(data)))')
add(f,'s.logger.infof("close session %s hadShutDown:%d connFd:%d", s.name, atomic.LoadUint32(&s.shutdown), s.connFd)',1,'before','vpo(vpSessCloseCASed, s, 0)')
add(f,'close(s.shutdownCh)',1,'before','vpo(vpSessCloseBeforeCh, s, 0)')
add(f,'//firstly close eventConn',1,'before','vpo(vpSessTeardownBegin, s, 0)')
add(f,'if s.bufferManager != nil {',2,'before','vpo(vpSessTeardownBeforeUnmap, s, 0)')
add(f,'s.queueManager = nil',1,'after','vpo(vpSessTeardownEnd, s, 0)',-1)
add(f,'n, stop, err := protocolHandlers[msgType](s, eventHeader, buf[consumed+headerSize:])',1,'before','vpo(vpEventDispatch, s, int64(msgType))')
# ---- protocol_manager.go
f='protocol_manager.go'
add(f,'consumedCount++',1,'after','vpo(vpPollPopped, s, int64(consumedCount))')
add(f,'runtime.Gosched()',1,'before','vpo(vpPollBeforeMNW, s, int64(consumedCount))')
add(f,'if err := blockWriteFull(p.session.connFd, h); err != nil {',1,'before','vpo(vpHandshake, p.session, 1)')
add(f,'// recv peer\'s version',1,'before','vpo(vpHandshake, p.session, 2)')
add(f,'serverVersion := recvHeader.Version()',1,'before','vpo(vpHandshake, p.session, 3)')
add(f,'initializer, err := createProtoVersionInitializer(p.session, h.Version(), h)',1,'before','vpo(vpHandshake, p.session, 4)')
add(f,'bufferPath, queuePath := s.extractShmMetadata(body)',1,'before','vpo(vpHandshake, s, 5)')
add(f,'bm, err := getGlobalBufferManager(bufferPath, 0, false, nil)',1,'before','vpo(vpHandshake, s, 6)')
add(f,'s.handshakeDone = true',1,'before','vpo(vpHandshake, s, 7)')
add(f,'return blockWriteFull(s.connFd, respHeader)',1,'before','vpo(vpHandshake, s, 8)')
add(f,'bufferPath, queuePath := s.extractShmMetadata(body)',2,'before','vpo(vpHandshake, s, 9)')
add(f,'s.logger.infof("typeAckReadyRecvFD send finished")',1,'before','vpo(vpHandshake, s, 10)')
add(f,'s.logger.infof("recvmsg finished, oob expect len:%d, len:%d", len(oob), oobn)',1,'before','vpo(vpHandshake, s, 11)')
add(f,'//4.mapping share memory',1,'before','vpo(vpHandshake, s, 12)')
add(f,'bm, err := getGlobalBufferManagerWithMemFd(bufferPath, bufferFd, 0, false, nil)',1,'before','vpo(vpHandshake, s, 13)')
add(f,'s.handshakeDone = true',2,'before','vpo(vpHandshake, s, 14)')
add(f,'if _, err := waitEventHeader(s.connFd, typeAckReadyRecvFD); err != nil {',1,'before','vpo(vpHandshake, s, 15)')
add(f,'return sendFd(s.connFd, syscall.UnixRights(s.bufferManager.memFd, s.queueManager.memFd))',1,'before','vpo(vpHandshake, s, 16)')
add(f,'if err := blockWriteFull(s.connFd, data); err != nil {',1,'before','vpo(vpHandshake, s, 17)')
# ---- protocol_initializer.go
f='protocol_initializer.go'
add(f,'//2.recv and mapping share memory',1,'before','vpo(vpHandshake, p.session, 20)')
add(f,'switch h.MsgType() {',1,'before','vpo(vpHandshake, p.session, 21)')
add(f,'//3.ack share memory',1,'before','vpo(vpHandshake, p.session, 22)')
add(f,'_, err = waitEventHeader(p.session.connFd, typeAckShareMemory)',1,'before','vpo(vpHandshake, p.session, 23)')
add(f,'_, err = waitEventHeader(p.session.connFd, typeAckShareMemory)',1,'after','vpo(vpHandshake, p.session, 24)')
# ---- stream.go
f='stream.go'
add(f,'var timeoutCh <-chan time.Time',1,'before','vpo(vpReadMoreBeforeWait, s, 0)')
add(f,'s.sendBuf.done(endStream)',1,'before','vpo(vpFlushStateChecked, s, 0)')
add(f,'return s.session.wakeUpPeer()',1,'before','vpo(vpFlushPut, s, 0)')
add(f,'return s.session.waitForSend(nil, data)',1,'before','vpo(vpFallbackBeforeSend, s, 0)')
add(f,'if s.getCallbacks() != nil {',2,'before','vpo(vpStreamCloseCASed, s, 0)')
add(f,'// notify peer',1,'before','vpo(vpStreamCloseBeforeNotify, s, 0)')
add(f,'s.safeCloseNotify()',2,'before','vpo(vpHalfClosed, s, 0)')
add(f,'s.pendingData.add(buf)',1,'after','vpo(vpFillAdded, s, 0)')
add(f,'// Unblock any readers',1,'before','vpo(vpFillBeforeNotify, s, 0)')
add(f,'// callback OnData maybe block, make sure OnData called once and chan recvNotifyCh be notified',1,'before','vpo(vpFillBeforeCbCAS, s, 0)')
add(f,'atomic.StoreUint32(&s.callbackInProcess, 0)',2,'before','vpo(vpCbBeforeStore0, s, 0)')
add(f,'atomic.StoreUint32(&s.callbackInProcess, 0)',2,'after','vpo(vpCbAfterStore0, s, 0)')
add(f,'if !(len(s.pendingData.unread) > 0 && atomic.CompareAndSwapUint32(&s.callbackInProcess, 0, 1)) {',1,'before','vpo(vpCbBeforeRecheck, s, 0)')
# ---- session_manager.go
f='session_manager.go'
add(f,'sm.RLock()',2,'before','vpo(vpSMWatcherLost, sm, int64(id))')
add(f,'session, err := newClientSession(id, sm.epoch, sm.randID, sm.config)',1,'before','vpo(vpSMRebuildBefore, sm, int64(id))')
add(f,'session, err := newClientSession(id, sm.epoch, sm.randID, sm.config)',1,'after','vpo(vpSMRebuildAfter, sm, int64(id))')
add(f,'newSession, err := newClientSession(hParams.session.sessionID, sm.epoch, sm.randID, sm.config)',1,'before','vpo(vpSMHotRestartBeforeNew, sm, int64(hParams.session.sessionID))')
add(f,'newSession, err := newClientSession(hParams.session.sessionID, sm.epoch, sm.randID, sm.config)',1,'after','vpo(vpSMHotRestartAfterNew, sm, int64(hParams.session.sessionID))')
add(f,'if !stream.Session().IsClosed() {',1,'before','vpo(vpPoolPopped, stream, 0)')
add(f,'s.ReleaseReadAndReuse()',1,'before','vpo(vpPoolBeforePush, s, 0)')
# ---- listener.go
f='listener.go'
add(f,'session.state = hotRestartState',1,'before','vpo(vpLnHotRestartSent, session, int64(epoch))')
# ---- protocol_manager.go ack
add('protocol_manager.go','s.listener.mu.Lock()',1,'before','vpo(vpLnAck, s, int64(epochID))')
# ---- event dispatchers
for f in ('event_dispatcher_linux.go','event_dispatcher_race_linux.go'):
    add(f,'written, size := 0, len(data)',1,'after','vpo(vpConnWriteEnter, c, int64(size))')
    add(f,'return syscall.EPIPE',1,'before','vpo(vpConnWriteExit, c, 1)')
    add(f,'<-c.onWriteReadyCh',2,'before','vpo(vpConnWriteEAGAIN, c, int64(written))')
    add(f,'return err',2,'before','vpo(vpConnWriteExit, c, 2)')
    add(f,'written += int(n)',1,'after','vpo(vpConnWritePartial, c, int64(n))')
    add(f,'c.readEndOff += int(n)',1,'before','vpo(vpConnRead, c, int64(n))')

files={}
for (f,anchor,occ,where,line,extra) in E:
    files.setdefault(f,[]).append((anchor,occ,where,line,extra))
dry = len(sys.argv)>1 and sys.argv[1]=='-n'
for f,es in files.items():
    src=open(R+f).read().split('\n')
    ins=[]  # (index, text)
    for (anchor,occ,where,line,extra) in es:
        idx=[i for i,l in enumerate(src) if l.strip()==anchor]
        if len(idx)<occ:
            print('ANCHOR NOT FOUND',f,repr(anchor),occ,len(idx)); sys.exit(1)
        i=idx[occ-1]
        indent=re.match(r'\s*',src[i]).group(0)
        if extra>0: indent+='\t'*extra
        if extra<0: indent=indent[:extra]
        ins.append((i if where=='before' else i+1, indent+line, anchor))
    # stable: apply from bottom; for equal index keep given order
    order=sorted(range(len(ins)),key=lambda k:(ins[k][0],k),reverse=True)
    for k in order:
        src.insert(ins[k][0],ins[k][1])
    if not dry:
        open(R+f,'w').write('\n'.join(src))
    print(f,len(es),'lines')
