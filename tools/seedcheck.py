#!/usr/bin/env python3
"""tools/seedcheck.py <id> <seed-dir> <checks,comma> [--skip-suite]
Verifies an independently written seeded change (patch.diff + demo_test.go in <seed-dir>) in a scratch worktree of /repo:
 1. patch applies to HEAD and builds (with and without -tags verif)
 2. the demonstration fails with the change and passes without it
 3. the repository's own suite still passes with the change
 4. runs the given checks against the changed tree (tools/mut.py run) and reports FIRED/MISSED
and stores it as /verif/seeded/<id>/ (patch.diff, demo_test.go, README.md, meta.json)."""
import sys,os,subprocess,shutil,json,re,time
V='/verif'
ENV=dict(os.environ,GOFLAGS='-mod=mod',GOPROXY='off',GOSUMDB='off',GOTOOLCHAIN='local')
def sh(cmd,cwd=None,timeout=1800):
    r=subprocess.run(cmd,shell=True,cwd=cwd,env=ENV,capture_output=True,text=True,timeout=timeout)
    return r.returncode,(r.stdout+r.stderr)
def main():
    sid,sdir,checks=sys.argv[1],sys.argv[2],sys.argv[3].split(',')
    skip_suite='--skip-suite' in sys.argv
    patch=os.path.join(sdir,'patch.diff'); demo=os.path.join(sdir,'demo_test.go')
    wt='/tmp/seedchk_%s_%d'%(sid,os.getpid())
    sh('git -C /repo worktree add -q --detach %s HEAD'%wt)
    meta=dict(id=sid,checks_run=checks)
    try:
        rc,out=sh('git apply --whitespace=nowarn %s'%patch,cwd=wt)
        if rc!=0: print('PATCH DOES NOT APPLY',out); meta['applies']=False; return meta
        meta['applies']=True
        rc,out=sh('go build ./... && go build -tags verif ./...',cwd=wt); meta['builds']=(rc==0)
        if rc!=0: print('BUILD FAILS',out[-800:]); return meta
        demo_name=None
        if os.path.exists(demo):
            src=open(demo).read(); m=re.findall(r'func (Test\w+)\(',src)
            demo_name='|'.join(m) if m else 'TestDemo'
            shutil.copy(demo,os.path.join(wt,'zz_demo_test.go'))
            rc_with,out_with=sh("go test -vet=off -count=1 -run '^(%s)$' -timeout 10m . "%demo_name,cwd=wt)
            meta['demo_fails_with_change']=(rc_with!=0)
            sh('git apply -R --whitespace=nowarn %s'%patch,cwd=wt)
            rc_wo,out_wo=sh("go test -vet=off -count=1 -run '^(%s)$' -timeout 10m . "%demo_name,cwd=wt)
            meta['demo_passes_without_change']=(rc_wo==0)
            sh('git apply --whitespace=nowarn %s'%patch,cwd=wt)
            os.remove(os.path.join(wt,'zz_demo_test.go'))
            print('demo (%s): with change rc=%d, without rc=%d'%(demo_name,rc_with,rc_wo))
            if rc_wo!=0: print(out_wo[-1500:])
        if not skip_suite:
            rc,out=sh('flock /tmp/shmipc_suite.lock go test -vet=off -count=1 -timeout 25m .',cwd=wt,timeout=2400)
            meta['suite_passes_with_change']=(rc==0)
            print('suite with change: rc=%d %s'%(rc,out.strip().split('\n')[-1][:120]))
            if rc!=0: print(out[-1500:])
        res={}
        for c in checks:
            rc,out=sh('%s/tools/mut.py run %s %s quick'%(V,os.path.abspath(patch),c),timeout=3000)
            fired='FIRED' in out
            res[c]='FIRED' if fired else 'MISSED'
            print(out.strip()[:900])
        meta['quick_check_results']=res
        return meta
    finally:
        sh('git -C /repo worktree remove --force %s'%wt)
        d=os.path.join(V,'seeded',sid); os.makedirs(d,exist_ok=True)
        for f in ('patch.diff','demo_test.go','README.md'):
            p=os.path.join(sdir,f)
            if os.path.exists(p): shutil.copy(p,os.path.join(d,f))
        old={}
        mp=os.path.join(d,'meta.json')
        if os.path.exists(mp):
            try: old=json.load(open(mp))
            except Exception: old={}
        old.update(meta); json.dump(old,open(mp,'w'),indent=1)
        print(json.dumps(meta))
main()
