#!/usr/bin/env python3
"""tools/r2meta.py — texts of the round-2 (and round-3) seeded changes: written into seeded/<id>/meta.json and printed as the DESIGN.md table."""
import json,os,sys
V='/verif'
T={
'C01-r2s1':('C01','O_EXCL dropped when the creator opens the /dev/shm buffer file ("reuse a stale file")','creator died without teardown and restarts with the same path while the peer still maps the old file and holds buffers','MISSED at first (outside one live free list); C01 got a creator-restart stage (child process re-creates the path while this process holds keyed buffers) -> FIRED'),
'C01-r2s2':('C01','recycleBuffers reads a chain slice\'s next link after pushing the slice','a concurrent push onto the same list between the walker\'s push and its read of next','fired at once (C01 and C09)'),
'C02-r2s1':('C02','readBufferSlice bound check > became >=','mapping that ends exactly at the end of the last slot, that slot inside a chain given back through recycleBuffers','MISSED at first (every harness mapping had 64 bytes of slack); half of the allocator cases now use exact-fit mappings -> FIRED'),
'C02-r2s2':('C02','reset() clears only the in-use flag, a stale has-next flag survives on the recycled tail','chain slice recycled alone as the only free slot + a recycler stopped between tail CAS and link + an allocation in the window','fired at once (C02)'),
'C03-r2s1':('C03','mappingFreeBufferList rejects a list header with size < 1 ("hardening")','a peer attaches while an allocation is failing on an exhausted class (size is transiently 0)','MISSED at first (C03 attached only to quiescent regions); C03 got a live-mapping stage (attach 20000x while 4 goroutines allocate, one class exhausted) -> FIRED'),
'C03-r2s2':('C03','creator aligns each list header to 4 bytes, mapper still walks the classes packed','a non-last class whose slice size is not a multiple of 4','fired at once (C03)'),
'C04-r2s1':('C04','pop advances head before reading the slot','full queue: a producer retrying after ErrQueueFull writes the slot being read','fired at once (C04)'),
'C04-r2s2':('C04','put increments tail after dropping the lock','two producers','fired at once (C04)'),
'C05-r2s1':('C05','Flush skips wakeUpPeer when the element only got in through the queue-full retry loop','queue full at a Flush, consumer drains and goes idle during the back-off, nothing sent afterwards','fired at once (C05 tiny queues)'),
'C05-r2s2':('C05','wakeUpPeer slow path gives up with ErrConnectionWriteTimeout when sendCh stays full','wake-up on the slow path while the send channel is full for longer than the write timeout, then recovery','MISSED at first; C05 got a congested-control-connection case (harness owns the writing flag and fills sendCh for 3x the write timeout) -> FIRED'),
'C06-r2s1':('C06','inFallbackState cleared as soon as a later flush fits into share memory again','share memory exhausted at flush N, free at N+1, N+1 issued before the peer handled N','fired at once (C06 and C07)'),
'C06-r2s2':('C06','ReleaseReadAndReuse swaps a read buffer that still holds unread bytes','ReleaseReadAndReuse with exactly one slice holding unread data','fired at once (C06)'),
'C07-r2s1':('C07','socket-path close notification sent as wakeUpPeer() + bare close event','another stream\'s wake-up marked but not yet written when the close goes out','fired at once (C07)'),
'C07-r2s2':('C07','handlePolling consumes at most 1024 elements per event and posts a continuation','backlog deeper than the batch, then a socket-carried message / close of the same stream','MISSED at first; C07 got a deep-backlog case (consumer held, 300..5300 elements queued, share memory exhausted, tail + close on the socket) -> FIRED'),
'C08-r2s1':('C08','handleFallbackData aliases the connection read buffer instead of copying','unreleased zero-copy read of a socket-carried message while a second one arrives','fired at once (C08)'),
'C08-r2s2':('C08','Discard recycles the crossed slice directly, ignoring the pin','Peek/ReadBytes result in the first slice, then a Discard crossing its end, then reuse','fired at once (C08)'),
'C09-r2s1':('C09','linkedBuffer.recycle skips the slices when isFromShm is false (mixed shm+heap buffer)','share memory exhausted in the middle of a write','fired at once (C09)'),
'C09-r2s2':('C09','callback goroutine finishes a deferred close only from streamHalfClosedLocal','OnData running, peer closes, then Close() from inside OnData','caught by C10 (deferred close after end-of-stream never completes); C09 itself has no callback-mode streams in its histories and does not see it'),
'C10-r2s1':('C10','Stream.reset clears the callbacks before looking at the buffers','pooled callback-mode stream put back from inside OnData with unread data','MISSED at first; C10 got put-back-in-OnData cases (streamPool.putOrCloseStream from inside OnData) -> FIRED'),
'C10-r2s2':('C10','close(): session-closed branch hoisted out of the state guard','peer closed first (already reported), then the session ends','MISSED at first; C10 got session-end-after-peer-close cases (callback counts at the end) -> FIRED'),
'C11-r2s1':('C11','Session.Close no longer notifies the streams before closing shutdownCh','OnData blocked in a deadline-less read when the session dies (teardown then waits for it for ever)','MISSED at first; C11 got "ReadBytes inside a data callback" as a call type x (data, deadline, peer close, local/peer session close) -> FIRED; the harness\'s own teardown wait had to become bounded (the event loop is dead afterwards)'),
'C11-r2s2':('C11','connEventHandler.handleEvent if-chain turned into a switch','EPOLLIN and EPOLLOUT in one event while a writer waits in EAGAIN','MISSED by C11; caught by C18 after it got coalesced-event cases (see C18-r2s2)'),
'C12-r2s1':('C12','protocol-3 server returns before acknowledging a file-path client','file mapping paired with protocol 3 (only a hand-written client does that)','fired at once (C12 raw c3f pairing)'),
'C12-r2s2':('C12','blockReadFull writes every continuation read to the start of the buffer','a handshake message delivered in two or more pieces','MISSED at first; the raw peer now writes in pieces in a third of its cases and library<->library pairings go through a fragmenting relay in odd rounds -> FIRED (client succeeds, server fails)'),
'C13-r2s1':('C13','read buffer halved while a partial event still sits in its upper half','one event > 4 MiB followed by a read cut inside the next event','caught by C18 (event connection module); C13 does not send events that large'),
'C13-r2s2':('C13','receive-side protocol trace slices the body with the wire length','SHMIPC_PROTOCOL_TRACE set and an event whose length field is below the header size','MISSED at first (tracing never enabled); a third of the C13 child batches now run with tracing on -> FIRED'),
'C14-r2s1':('C14','newSession clean-up after a failed initProtocol only for clients','peer dies after the server mapped the memory and before it writes the handshake ack','caught by C12 (census after a failed handshake); not by C14\'s own fault table'),
'C14-r2s2':('C14','getStream sends to acceptCh without the shutdown case','accept backlog full (1024 unaccepted streams), then Session.Close','MISSED at first; C14\'s close storms got accept-backlog variants (event loop parked on the backlog, then Close) -> FIRED'),
'C15-r2s1':('C15','ring slot computed in uint32','non power-of-two MaxStreamNum and pool counters past 2^32','MISSED at first; ring histories and a third of the pools now start just below 2^32, capacities include 3/5/6/7 -> FIRED (porcupine: not linearizable)'),
'C15-r2s2':('C15','reset moves pendingData into recvBuf after taking the unread size','a reply that arrived but was never looked at before PutBack','fired at once (C15 two-flush replies)'),
'C16-r2s1':('C16','(same edit as C17-r2s1, found independently)','a session dies in the middle of a hot restart','caught by C17 (loss-then-hot-restart); C16 itself does not lose sessions during a restart'),
'C16-r2s2':('C16','rebuilt session not attached to the manager','loss and rebuild first, hot restart later','fired in the first run only because a session happened to be lost and rebuilt under machine load; MISSED on a quiet machine; a sixth of the C16 cases now lose and rebuild one session before the restart -> FIRED'),
'C17-r2s1':('C17','"replaced by hot restart" test compares sm.epoch with the pool session\'s epoch','loss, then a hot restart before the rebuild timer fires','MISSED at first; C17 got loss-then-hot-restart scenarios -> FIRED'),
'C17-r2s2':('C17','SessionManager.Close closes the pools before waiting for the watchers','Close while a rebuild handshake is in flight','MISSED at first; C17 got close-during-rebuild scenarios (watcher parked at the RebuildBefore hook until Close is waiting) -> FIRED'),
'C18-r2s1':('C18','send loop takes the connection after one notification without re-checking the writing flag','stale notification token + a fast-path writer parked in EAGAIN + a multi-syscall event','fired at once (C18)'),
'C18-r2s2':('C18','(same edit as C11-r2s2, found independently)','readable and writable reported in one event while a writer waits in EAGAIN','MISSED at first (one-directional traffic only); C18 got C cases: writer in EAGAIN, loop held, peer drains and sends, loop released -> FIRED'),
'C19-r2s1':('C19','streamWrapper.Close: CAS replaced by load ... store','two goroutines closing one conn at once','MISSED at first; C19 got concurrent-conn-close rounds -> FIRED (WaitGroup panic)'),
'C19-r2s2':('C19','listener-closed check moved before the handshake','Listener.Close while a client\'s handshake is in flight','MISSED at first; C19 got close-during-handshake rounds -> FIRED'),
'C20-r2s1':('C20','event loop notifies recvNotifyCh only when no callbacks are installed','OnData blocked in a read for more than has arrived when the rest arrives','MISSED by C20 at first (its blocking-read case had the rest already pending when the read started; C11 saw it); C20 got late-data directed cases -> FIRED'),
'C20-r2s2':('C20','offerToCallback accepts every state but closed','Close() during OnData with unconsumed data','fired at once (C20)'),
}

T3={
'C05-r3s1':('C05','handlePolling returns early when the receive queue is empty (skips markNotWorking)','two producers: A put, its element drained by another wake-up, A\'s late wakeUpPeer raises the flag for an empty queue','fired at once (C05)'),
'C07-r3s1':('C07','(same edit as C06-s1 / C08-r2s1, found independently) fallback payload aliases the connection read buffer','socket-carried message unread while more socket traffic arrives','fired at once (C07)'),
'C10-r3s1':('C10','close(): transport of the close notification chosen by sendBuf.isFromShareMemory() (always true after clean()) instead of !inFallbackState','last Flush went out on the socket, then Close while the peer\'s consumer is busy','fired at once (C10 and C07; behaves like reverting fix X8)'),
'C11-r3s1':('C11','(same edit as C20-r2s1, found independently) recvNotifyCh only notified without callbacks','OnData blocked in a read when the rest of the data arrives','fired at once (C11, call type added after round 2)'),
'C11-r3s2':('C11','SessionManager.checkHotRestart: give-up timer re-created in every loop iteration','hot restart announced, new server never comes up: manager stays in hot-restart state, SessionManager.Close hangs','caught by C16 (new-not-accepting); C11 has no SessionManager calls in its table (the blocked call is not a stream or session call)'),
'C14-r3s1':('C14','session teardown no longer waits for a running OnData before releasing the memory','callback stream whose OnData is still working on its zero-copy data when the peer goes away','as written it no longer applies (fix X22 touches the same lines); rebased (patch.diff; the author\'s diff is patch_as_written.diff). The first run against it exposed a defect of the unchanged tree (fix X22); C14 got a lingering OnData style and its F2 classifier now refuses faults on the callback goroutine -> FIRED'),
'C15-r3s1':('C15','(same edit as C10-r2s1, found independently) Stream.reset clears the callbacks first','pooled callback-mode stream put back from inside OnData with unread data','caught by C10 (put-back-in-OnData cases added after round 2); C15\'s pool workload uses no callbacks'),
'C17-r3s1':('C17','checkHotRestart only started once a pool was replaced','hot restart announced while the new server is unreachable for every pool','caught by C16 (new-not-accepting: manager stuck in hot-restart state); C17\'s scenarios always have a reachable new server'),
'C19-r3s1':('C19','Stream.close drops the second safeCloseNotify (the only one reached by a local close of a non-callback stream)','a Read without deadline blocked on a conn that another goroutine closes','caught by C11 at once; C19 then got blocked-Read-released-by-local-Close rounds -> FIRED as well'),
'C19-r3s2':('C19','readMore\'s close arm no longer moves pending data into the read buffer','reader between its first moveTo and its select while the peer\'s last data and its close are processed','caught by C07 (end of stream reported before flushed bytes); C19 and C11 do not reach the window'),
}
def main():
    ALL=dict(T); ALL.update(T3)
    for sid,(prop,chg,needs,res) in sorted(ALL.items()):
        p='%s/seeded/%s/meta.json'%(V,sid)
        if os.path.exists(p):
            m=json.load(open(p))
            m.update(property=prop,change=chg,needs_to_manifest=needs,result=res,round=(3 if '-r3s' in sid else 2),
              what_i_ran='tools/seedcheck.py (patch applied to a scratch worktree of /repo HEAD, built with and without -tags verif, the author\'s demonstration run with and without the change) + tools/r2final.py (repository suite with the change in a private namespace; owning and sibling checks at quick tier against the changed tree)')
            json.dump(m,open(p,'w'),indent=1)
    if len(sys.argv)>1 and sys.argv[1] in ('table','table3'):
        print('| id | property | change | needs to manifest | result |\n|---|---|---|---|---|')
        for sid,(prop,chg,needs,res) in sorted((T if sys.argv[1]=='table' else T3).items()):
            print('| %s | %s | %s | %s | %s |'%(sid,prop,chg,needs,res))
main()
