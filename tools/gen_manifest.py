#!/usr/bin/env python3
"""Regenerates /verif/MANIFEST.json from the table below (kept in one place so it stays valid at all times)."""
import json,subprocess
V='/verif'
props=[json.loads(l)['id'] for l in open(V+'/properties.jsonl')]
HOOK_COMMITS=['95dc337']
C={}
def chk(pid,cat,text,note,tech,ref):
    C[pid]=dict(property_id=pid,quick_cmd='./run.sh %s quick'%pid,thorough_cmd='./run.sh %s thorough'%pid,
        evidence_file='evidence/%s.json'%pid,engine='go-harness',
        level_claimed=dict(category=cat,text=text,design_ref=ref),level_note=note,technique=tech)
chk('C01','exploration',
 'Real pop/push/alloc/recycle operations run under four concurrency regimes, three memory back-ends (heap, mmap, memfd shared by 2-3 processes) and ten perturbation profiles; an ownership table, geometry and payload/header signature checks decide "never two owners / nobody else writes". Held on the executions observed (counts in the evidence); the ABA defect F1 is a known finding attributed by a sound detector.',
 'Interleavings are sampled (x86-TSO only). Violations in mixed executions that contain an ABA suspect are attributed to known finding F1; regimes R2/R3/R4, in which ABA is impossible, carry the full oracle.',
 'runtime monitor: ownership table + signature checks + ABA-suspect detector hooks over stress workloads','4/C01')
chk('C02','exploration',
 'Same executions as C01; a stop-the-world free-list walker (size == cap - held, chain from head visits exactly the free slots once and ends at tail) runs every few hundred microseconds and at the end of each execution; failed allocations are covered by the same count invariant.',
 'As C01. The walker only runs at points where no operation is in progress (harness RW lock / phase barriers), so transient states are never judged.',
 'runtime monitor: quiescent-point structural invariant walker','4/C02')
chk('C03','exploration',
 'Generated and boundary configurations are laid out by the real create functions on guarded heap memory, on /dev/shm files and on memfds; the mapping side (a child process for the real back-ends) must reconstruct identical geometry, every slot is pattern-probed through the other side, queues are checked for disjoint halves and cross-wiring.',
 'Mappings >= 4 GiB and hostile contents of an existing mapping are outside what is explored.',
 'differential runtime check creator vs mapper (child process) + interval/overlap oracle','4/C03')
chk('C04','exploration',
 'Real queue.put/pop with 1-16 producers and one consumer, capacities 1..1024, cursors preset for wrap-around, heap and mmap rings, seven perturbation profiles; every history is checked by linear bad-pattern scans (complete for unique elements and one consumer), short shallow histories additionally by porcupine against a bounded FIFO; a race-detector pass treats unordered accesses inside put/pop as a violation.',
 'Producers of one process only (the supported topology); int64 cursor overflow not explored; porcupine time-outs are inconclusive.',
 'recorded histories: linearizability bad-pattern scans + porcupine; race detector sentinel','4/C04')
chk('C05','exploration',
 'Echo bursts over real session pairs make both consumers go idle while producers arrive (sleeps injected in markNotWorking / wakeUpPeer windows); after every burst the property\'s own quiescence predicate is evaluated (all polling events sent have been received and handled, then the receive queue must be empty).',
 'The precondition is established with the library\'s polling counters and a double fence on the event loop; bursts where it cannot be established are skipped. In-process peer (both ends share one event loop).',
 'runtime monitor: quiescence predicate at thousands of quiescent points under injected delays','4/C05')
chk('C15','exploration',
 'SessionManager + Listener in one process; 2-32 concurrent callers loop GetStream/request/reply/PutBack with hostile put-backs (part-read, unflushed, never-looked-at pending message), server-side closes, exhaustion-induced fallback and session kills; owner tags decide exclusivity, unique request ids decide "no bytes from an earlier use", quiesced phases decide clean/live and the accounting active == pooled + held; porcupine on the bare pool ring; race sentinel on push/pop.',
 'Session kills are serialised against stream use (known finding F2 makes overlapping use process-fatal; that is C14\'s subject). In-flight replies to a stream put back without reading are outside the oracle.',
 'runtime monitor: ownership tags, id-echo oracle, quiescent accounting; porcupine; race detector sentinel','4/C15')
pending={p:'check under construction in this round (DESIGN.md section 4); not claimed yet' for p in props if p not in C}
import os
for p in list(pending):
    pass
m={"version":1,
 "setup_cmd":"./setup.sh",
 "hooks":{"guard":"verif","enable":"run.sh: go test -c -tags verif -overlay <harness files as zz_verif_*_test.go> -modfile <go.mod + porcupine> in /repo","baseline_off_cmd":"cd /repo && GOFLAGS=-mod=mod GOPROXY=off go test -json -vet=off -count=1 -timeout 25m ./...","source_commits":HOOK_COMMITS,"add_only":True},
 "engines":[{"name":"go-harness","path":"harness/","serves_properties":sorted(C),"kind_free_text":"Go test binary built from /repo's working tree with the verif build tag; monitors, perturbation controller, child-process runner; porcupine for recorded histories; go race detector for sentinel passes"}],
 "checks":[C[p] for p in sorted(C)],
 "not_applicable":[{"property_id":p,"reason":r} for p,r in sorted(pending.items())],
 "notes":"All checks: exit 0 held on what was observed, 1 VIOLATION (replay file written), 2 nothing observed, 3 harness build failure. KNOWN-FINDING lines: see known_findings.json."}
json.dump(m,open(V+'/MANIFEST.json','w'),indent=1)
print('checks:',sorted(C),'pending:',sorted(pending))
